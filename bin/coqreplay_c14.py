#!/usr/bin/env python3
"""bin/coqreplay_c14.py <cases.rec> <oracle-dump> [max_cases]

Cross-check of extraction for C14: recomputes, INSIDE Coq with vm_compute, what the extracted
OCaml oracle computed from Store/Paging.v for a sample of the records of the same file and
compares the numbers with the oracle's dump (ORACLE_DUMP).  Per case:
  kind 1 (traversal)  : per page  #items, sum of item ids, token length, sum of token bytes; then
                        the ending code (0 end marker, 11..14 rejected, 20 panic, 30 out of fuel)
  kind 2 (one token)  : outcome code, #items, sum of ids, next-token length, sum of its bytes
  kind 3 (tuple_key)  : read_tk_ok as 0/1
  kind 4 (fault)      : the outcome under the fault, then the fault-free outcome (5 numbers each)
The sample takes max_cases/4 records of each kind with at most 40 rows (so that one run costs a few
seconds), scanning the file from its start.  Prints `COQREPLAY ok ...` or the mismatches; exit 1
on a mismatch."""
import os, re, subprocess, sys
rec, dump = sys.argv[1], sys.argv[2]
maxc = int(sys.argv[3]) if len(sys.argv) > 3 else 40
V = os.path.dirname(os.path.dirname(os.path.abspath(__file__)))
COQ = os.path.join(V, "coq")
MAXROWS = 40
SHARD = 400


def parse(tokens):
    out, stack = [], []
    cur = out
    for t in tokens:
        if t == "(":
            new = []
            cur.append(new); stack.append(cur); cur = new
        elif t == ")":
            cur = stack.pop()
        elif t.startswith("x"):
            cur.append(bytes.fromhex(t[1:]))
        else:
            cur.append(int(t))
    return out


def B(b): return "[" + "; ".join(str(x) for x in b) + "]"
def Z(i): return "(%d)%%Z" % i
def rows_v(rows): return "[" + "; ".join("(%s, %d)" % (B(k), i) for k, i in rows) + "]"


def step(api, backend, ps, ty):
    name = {(0, 0): "read_mem (map snd rows)", (0, 1): "read_sql rows", (1, 0): "changes_mem rows", (1, 1): "changes_sql rows",
            (2, 0): "stores_mem rows", (2, 1): "stores_sql rows", (3, 0): "models_mem rows", (3, 1): "models_sql rows"}[(api, backend)]
    if api == 1:
        return "(fun t => %s %s %s t)" % (name, Z(ps), B(ty))
    return "(fun t => %s %s t)" % (name, Z(ps))


def stepf(api, ps, ty, bad):
    if api == 1:
        return "(fun t => changes_sql_f rows (Some %s) %s %s t)" % (B(bad), Z(ps), B(ty))
    name = {0: "read_sql_f", 2: "stores_sql_f", 3: "models_sql_f"}[api]
    return "(fun t => %s rows (Some %s) %s t)" % (name, B(bad), Z(ps))


per_kind = max(1, maxc // 4)
taken = {1: 0, 2: 0, 3: 0, 4: 0}
cases = []
with open(rec) as f:
    for n, line in enumerate(f):
        if line.startswith("!"):
            continue
        cols = line.rstrip("\n").split("\t")
        if len(cols) < 2:
            continue
        head = cols[1].split(" ", 1)[0]
        if not head.isdigit() or int(head) not in taken or taken[int(head)] >= per_kind:
            if all(v >= per_kind for v in taken.values()):
                break
            continue
        # spread the sample: not only the first records of a kind
        if int(head) != 3 and (n % 7) not in (0, 3):
            continue
        vals = parse(cols[1].split())
        k = vals[0]
        rows = vals[5] if k in (1, 2) else (vals[4] if k == 4 else [])
        if len(rows) > MAXROWS:
            continue
        if k in (1, 2) and vals[3] > 100000:
            continue
        taken[k] += 1
        cases.append((cols[0], vals))

want = {}
for line in open(dump):
    p = line.split()
    if p:
        want[p[0]] = [int(x) for x in p[1:]]

prelude = ["From OFGA Require Import Store.Paging.", "Open Scope N_scope.",
           "Definition sumN (l : list N) : N := fold_left N.add l 0.",
           "Definition ec (e : err) : N := match e with EInvalidToken => 11 | EMismatchType => 12 | EValidation => 13 | EInternal => 14 end.",
           "Definition enc_o (o : outcome N) : list N := match o with",
           "  | Page items t => [0; N.of_nat (length items); sumN items; N.of_nat (length t); sumN t]",
           "  | Rejected e => [ec e; 0; 0; 0; 0] | Panic => [20; 0; 0; 0; 0] end.",
           "Definition enc_t (r : list (list N * bytes) * ending) : list N :=",
           "  flat_map (fun p : list N * bytes => [N.of_nat (length (fst p)); sumN (fst p); N.of_nat (length (snd p)); sumN (snd p)]) (fst r)",
           "  ++ [match snd r with EndMarker => 0 | Failed e => ec e | Panicked => 20 | OutOfFuel => 30 end]."]


def case_v(cid, vals):
    k = vals[0]
    if k == 1:
        _, api, backend, ps, ty, rows, _pages, _end = vals
        fol = "follow_changes" if api == 1 else "follow"
        body = "let rows : list (bytes * N) := %s in enc_t (%s (length rows + 3)%%nat %s [])" % (rows_v(rows), fol, step(api, backend, ps, ty))
    elif k == 2:
        _, api, backend, ps, ty, rows, b64ok, tok, _o = vals
        dec = "(Some %s)" % B(tok) if b64ok else "None"
        body = "let rows : list (bytes * N) := %s in enc_o (with_b64 %s %s)" % (rows_v(rows), dec, step(api, backend, ps, ty))
    elif k == 3:
        _, has, obj, user, _r = vals
        body = "[if read_tk_ok %s %s %s then 1 else 0]" % ("true" if has else "false", B(obj), B(user))
    else:
        _, api, ps, ty, rows, tok, bad, _of, _oc = vals
        body = "let rows : list (bytes * N) := %s in enc_o (%s %s) ++ enc_o (%s %s)" % (
            rows_v(rows), stepf(api, ps, ty, bad), B(tok), step(api, 1, ps, ty), B(tok))
    return ["Definition case_%s : list N := %s." % (cid, body),
            "Eval vm_compute in (%d%%N, case_%s)." % (int(cid) + 1000000, cid)]


os.makedirs(os.path.join(V, "build", "coqreplay"), exist_ok=True)
got = {}
for shard in range(0, len(cases), SHARD):
    v = list(prelude)
    for cid, vals in cases[shard:shard + SHARD]:
        v += case_v(cid, vals)
    vf = os.path.join(V, "build", "coqreplay", "c14_cases%s.v" % ("" if shard == 0 else "_%d" % (shard // SHARD)))
    open(vf, "w").write("\n".join(v) + "\n")
    p = subprocess.run(["coqc", "-Q", COQ, "OFGA", "-w", "-notation-overridden,-deprecated", vf],
                       stdout=subprocess.PIPE, stderr=subprocess.STDOUT, text=True, timeout=3000)
    if p.returncode != 0:
        print("COQREPLAY coqc failed:\n" + p.stdout[-2000:]); sys.exit(1)
    for chunk in p.stdout.split("= (")[1:]:
        nums = [int(x) for x in re.findall(r"\d+", chunk.split(": N *")[0])]
        got[str(nums[0] - 1000000)] = nums[1:]
bad = 0
kinds = {1: 0, 2: 0, 3: 0, 4: 0}
for cid, vals in cases:
    kinds[vals[0]] += 1
    w, g = want.get(cid), got.get(cid)
    if w is None or g != w:
        bad += 1
        print("COQREPLAY mismatch case %s (kind %d): coq=%s ocaml=%s" % (cid, vals[0], (g or [])[:24], (w or ["missing"])[:24]))
print("COQREPLAY %s %d cases recomputed by vm_compute (traversals %d, single tokens %d, tuple_key %d, faults %d)" %
      ("ok" if not bad else "MISMATCH", len(cases), kinds[1], kinds[2], kinds[3], kinds[4]))
sys.exit(1 if bad else 0)
