(* C13 oracle.  One record = one read call on one store, answered by both backends:
     opcode  oc  store  filter  memory-result  sqlite-result
   Checks, in this order:
     DIFF  memory result  <> Store/MemoryRead.v   (the loops as coded)
     DIFF  sqlite result  <> Store/SqlRead.v      (the WHERE clauses as coded)
   and, when the call is inside the documented contract (oc = 0, filter well-formed), each result
   against Store/ReadSpec.v (hence also memory vs sqlite).  A deviation there is KNOWN <flag>
   when the backend equals its model and the trigger of a listed open finding (Store/ReadFlags.v)
   is true for this store and filter on the side that deviates; PROP otherwise (evaluated on the
   implementation's own result, also when it differs from the model).
   Results are compared as sorted multisets of fully rendered tuples (condition name and
   context id included). *)

let hex l = hex_of_string (coq_to_bytes l)

let show_tuple (t : tuple) : string =
  Printf.sprintf "%s:%s#%s@%s:%s#%s[%s/%s]" (hex t.t_otype) (hex t.t_oid) (hex t.t_rel)
    (hex t.t_user.u_type) (hex t.t_user.u_id) (hex t.t_user.u_rel) (hex t.t_cond) (dec_of_n t.t_ctx)

let pretty_tuple (t : tuple) : string =
  let s = coq_to_bytes in
  Printf.sprintf "%s:%s#%s@%s:%s%s%s" (s t.t_otype) (s t.t_oid) (s t.t_rel)
    (s t.t_user.u_type) (s t.t_user.u_id)
    (if t.t_user.u_rel = [] then "" else "#" ^ s t.t_user.u_rel)
    (if t.t_cond = [] && t.t_ctx = N0 then "" else Printf.sprintf "[%s/%s]" (s t.t_cond) (dec_of_n t.t_ctx))

let canon (l : tuple list) : string list = List.sort compare (List.map show_tuple l)
let pretty (l : tuple list) : string =
  "{" ^ String.concat ", " (List.sort compare (List.map pretty_tuple l)) ^ "}"

let parse_user ut uid ur : user = { u_type = as_cbytes ut; u_id = as_cbytes uid; u_rel = as_cbytes ur }

let parse_tuple v : tuple =
  match as_list v with
  | [ot; oid; rel; ut; uid; ur; c; ctx] ->
    { t_otype = as_cbytes ot; t_oid = as_cbytes oid; t_rel = as_cbytes rel;
      t_user = parse_user ut uid ur; t_cond = as_cbytes c; t_ctx = as_n ctx }
  | _ -> failwith "tuple"

let parse_ofilter v =
  match as_list v with
  | [I "0"] -> OAny
  | [I "1"; ty] -> OType (as_cbytes ty)
  | [I "2"; ty; id] -> OFull (as_cbytes ty, as_cbytes id)
  | _ -> failwith "ofilter"

let parse_ufilter v =
  match as_list v with
  | [I "0"] -> UAny
  | [I "1"; ty] -> UType (as_cbytes ty)
  | [I "2"; t; id; r] -> UExact (parse_user t id r)
  | _ -> failwith "ufilter"

(* ( nilflag ( names... ) ): nil and empty are both "no names" for every backend *)
let parse_conds v =
  match as_list v with
  | [_; l] -> List.map as_cbytes (as_list l)
  | _ -> failwith "conds"

let parse_restr v =
  match as_list v with
  | [I "0"; ty; rel] -> RRel (as_cbytes ty, as_cbytes rel)
  | [I "1"; ty] -> RWild (as_cbytes ty)
  | [I "2"; ty] -> RBare (as_cbytes ty)
  | _ -> failwith "restriction"

(* implementation result: (status, tuples) *)
let parse_result v : int * tuple list =
  match as_list v with
  | [st; l] -> (as_int st, List.map parse_tuple (as_list l))
  | _ -> failwith "result"

type side = { name : string; impl : int * tuple list; model : tuple list; flags : string list }

let decide ~(oc : bool) ~(contract : bool) ~(spec : tuple list) ~(option_result : bool) (m : side) (s : side) : string =
  let status_ok (st, l) = st = 0 || (option_result && st = 1 && l = []) in
  let bad_status = List.filter (fun x -> not (status_ok x.impl)) [m; s] in
  if bad_status <> [] then
    "DIFF " ^ String.concat "; " (List.map (fun x -> Printf.sprintf "%s returned status %d" x.name (fst x.impl)) bad_status)
  else begin
    let in_contract = not oc && contract in
    let cs = canon spec in
    let differs x = canon (snd x.impl) <> canon x.model
                    || (option_result && (fst x.impl = 1) <> (x.model = [])) in
    let off x = in_contract && canon (snd x.impl) <> cs in
    (* a deviation from the documented meaning is excused only by a listed finding whose trigger
       is true AND when the backend behaves exactly as its model says; otherwise the property's
       own predicate fails on the implementation's result: PROP with the concrete read *)
    let unexplained x = off x && (differs x || x.flags = []) in
    let text () = Printf.sprintf "memory=%s sqlite=%s documented=%s" (pretty (snd m.impl)) (pretty (snd s.impl)) (pretty spec) in
    if unexplained m || unexplained s then
      "PROP " ^ String.concat "+" (List.map (fun x -> x.name) (List.filter unexplained [m; s]))
      ^ " deviates from the documented meaning: " ^ text ()
    else begin
      let diffs = List.filter differs [m; s] in
      if diffs <> [] then
        "DIFF " ^ String.concat "; " (List.map (fun x ->
          Printf.sprintf "%s backend=%s model=%s" x.name (pretty (snd x.impl)) (pretty x.model)) diffs)
      else begin
        let fl = (if off m then m.flags else []) @ (if off s then s.flags else []) in
        match fl with
        | [] -> "OK"
        | f :: rest -> Printf.sprintf "KNOWN %s %s%s" f (text ())
                         (if rest = [] then "" else " (also: " ^ String.concat "," rest ^ ")")
      end
    end
  end

(* Cross-check of extraction: with ORACLE_DUMP=<file> the sizes and checksums of the three model
   results (documented meaning, memory model, sql model) and the trigger / contract flags the
   EXTRACTED model computed for every case are appended to that file, before any comparison with
   the implementation; bin/coqreplay_c13.py recomputes the same numbers inside Coq (vm_compute). *)
let dump_chan = match Sys.getenv_opt "ORACLE_DUMP" with
  | Some p when p <> "" -> Some (open_out_gen [Open_append; Open_creat] 0o644 p)
  | _ -> None
let hb (b : bytes) : int = List.fold_left (fun acc x -> (acc * 31 + int_of_n x + 1) mod 1000003) 7 b
let ht (t : tuple) : int =
  List.fold_left (fun acc x -> (acc * 131 + x) mod 1000000007) 0
    [hb t.t_otype; hb t.t_oid; hb t.t_rel; hb t.t_user.u_type; hb t.t_user.u_id; hb t.t_user.u_rel;
     hb t.t_cond; int_of_n t.t_ctx]
let hl (l : tuple list) : int = List.fold_left (fun acc t -> (acc * 131 + ht t + 1) mod 1000000007) 0 l
let b2i b = if b then 1 else 0
let dump id op (s : store) spec mm sm f1 f2 =
  match dump_chan with
  | Some ch ->
    Printf.fprintf ch "%s %d %d %d %d %d %d %d %d %d %d\n" id op
      (List.length spec) (hl spec) (List.length mm) (hl mm) (List.length sm) (hl sm)
      (b2i f1) (b2i f2) (b2i (wf_store s) + 2 * b2i (keys_unique s))
  | None -> ()

let flag b name = if b then [name] else []

let f id vs =
  match vs with
  | [op; oc; st; flt; rm; rs] ->
    let op = as_int op and oc = as_bool oc in
    let s = List.map parse_tuple (as_list st) in
    let rm = parse_result rm and rs = parse_result rs in
    if not (wf_store s && keys_unique s) then "DIFF driver: ill-formed store"
    else begin
      match op, as_list flt with
      | (1 | 2), (o :: r :: u :: c :: _) ->
        let fl = { rf_obj = parse_ofilter o; rf_rel = as_cbytes r; rf_usr = parse_ufilter u; rf_conds = parse_conds c } in
        let spec = read_spec s fl and mm = memory_read s fl and sm = sql_read s fl in
        let f1 = flag_read_all_ignores_conditions s fl and wf = wf_read_filter fl in
        dump id op s spec mm sm f1 wf;
        decide ~oc ~contract:wf ~spec ~option_result:false
          { name = "memory"; impl = rm; model = mm; flags = flag f1 "read_all_ignores_conditions_memory" }
          { name = "sqlite"; impl = rs; model = sm; flags = [] }
      | 3, [ot; oid; r; ut; uid; ur; c] ->
        let k = { k_otype = as_cbytes ot; k_oid = as_cbytes oid; k_rel = as_cbytes r; k_user = parse_user ut uid ur } in
        let cs = parse_conds c in
        let ol = function Some x -> [x] | None -> [] in
        let spec = read_user_tuple_spec s k cs and mm = ol (memory_read_user_tuple s k cs)
        and sm = ol (sql_read_user_tuple s k cs) and kf = key_full k in
        dump id op s spec mm sm kf false;
        decide ~oc ~contract:kf ~spec ~option_result:true
          { name = "memory"; impl = rm; model = mm; flags = [] }
          { name = "sqlite"; impl = rs; model = sm; flags = [] }
      | 4, [o; r; rl; c] ->
        let restr = match as_list rl with [_; l] -> List.map parse_restr (as_list l) | _ -> failwith "restrictions" in
        let fl = { uf_obj = parse_ofilter o; uf_rel = as_cbytes r; uf_restr = restr; uf_conds = parse_conds c } in
        let spec = read_userset_tuples_spec s fl and mm = memory_read_userset_tuples s fl
        and sm = sql_read_userset_tuples s fl and wf = wf_usersets_filter fl in
        dump id op s spec mm sm wf false;
        decide ~oc ~contract:wf ~spec ~option_result:false
          { name = "memory"; impl = rm; model = mm; flags = [] }
          { name = "sqlite"; impl = rs; model = sm; flags = [] }
      | 5, [ot; r; us; oids; c] ->
        let users = List.map (fun u -> match as_list u with [a; b; c] -> parse_user a b c | _ -> failwith "user") (as_list us) in
        let oids = match as_list oids with
          | [I "0"] -> None
          (* for a large set the driver sends the members that are stored object ids (or one member
             that is not stored) followed by the real size: Props/C13.v rswu_object_ids_reduction *)
          | I "1" :: l :: _ -> Some (List.map as_cbytes (as_list l))
          | _ -> failwith "oids" in
        let fl = { sf_otype = as_cbytes ot; sf_rel = as_cbytes r; sf_users = users; sf_oids = oids; sf_conds = parse_conds c } in
        let spec = rswu_spec s fl and mm = memory_rswu s fl and sm = sql_rswu s fl in
        let fd = flag_rswu_duplicate_user_filter fl and fe = flag_rswu_empty_object_ids fl in
        dump id op s spec mm sm fd fe;
        decide ~oc ~contract:true ~spec ~option_result:false
          { name = "memory"; impl = rm; model = mm; flags = flag fd "rswu_duplicate_user_filter_memory" }
          { name = "sqlite"; impl = rs; model = sm; flags = flag fe "rswu_empty_object_ids_sqlite" }
      | _ -> "DIFF malformed-record"
    end
  | _ -> "DIFF malformed-record"

let () = run_oracle f
