(* C23 oracle: iterator adapters and the shared iterator.
   DIFF : the recorded results of the real adapter differ from Cache/IterAdapters.v / SharedIter.v
   PROP : the adapter's specification predicate (computed here, independently of the model, from
          the inputs only) fails on the implementation's output
   KNOWN merge_yields_after_stop : MergedIterator returns items after Stop (model and code agree) *)

let ev_of_int e = if e land 1 = 1 then Err (n_of_int (e / 2)) else Item (n_of_int (e / 2))
let script v = List.map (fun x -> ev_of_int (as_int x)) (as_list v)
let scripts v = List.map script (as_list v)
let ints v = List.map as_int (as_list v)
let intss v = List.map ints (as_list v)

let wire_opt o = match o with None -> 0 | Some x -> int_of_n x + 1
let wire (R (v, e)) = (wire_opt v, wire_opt e)
let impl_res v = List.map (fun p -> match as_list p with [a; b] -> (as_int a, as_int b) | _ -> (-1, -1)) (as_list v)
let impl_obs v = List.map (fun p -> match as_list p with [a; b] -> (as_int a, as_int b) | _ -> (-1, -1)) (as_list v)
let model_obs l = List.map (fun (a, b) -> (int_of_n a, int_of_n b)) l
let sorted_obs l = List.map snd (List.sort compare (List.map (fun (i, (a, b)) -> (int_of_n i, (int_of_n a, int_of_n b))) l))

let op_of_int = function 0 -> ONext | 1 -> OHead | _ -> OStop

let show_pairs l = String.concat "," (List.map (fun (a, b) -> Printf.sprintf "%d/%d" a b) l)

let first_diff (m : (int * int) list) (i : (int * int) list) : string option =
  let rec go k m i =
    match m, i with
    | [], [] -> None
    | a :: m', b :: i' -> if a = b then go (k + 1) m' i' else
        Some (Printf.sprintf "call %d: model=%d/%d impl=%d/%d" k (fst a) (snd a) (fst b) (snd b))
    | _ -> Some (Printf.sprintf "lengths differ at %d" k)
  in go 0 m i

let diff_all mres ires mobs iobs =
  match first_diff mres ires with
  | Some t -> Some ("results " ^ t)
  | None -> if mobs = iobs then None else
      Some (Printf.sprintf "inner iterators (events left/stops) model=%s impl=%s" (show_pairs mobs) (show_pairs iobs))

(* ---- specification side, from the inputs only ---- *)

let is_item_ev e = e land 1 = 0
let clean s = List.for_all is_item_ev s
let items_of s = List.map (fun e -> e / 2) (List.filter is_item_ev s)
let rec prefix_items s = match s with e :: r when is_item_ev e -> (e / 2) :: prefix_items r | _ -> []
let first_err s = match List.filter (fun e -> not (is_item_ev e)) s with e :: _ -> Some (e / 2) | [] -> None
let all_next ops = ops <> [] && List.for_all (fun o -> o = 0) ops
let ok x = (x + 1, 0)
let er e = (0, e + 1)
let rec take n l = if n <= 0 then [] else match l with [] -> [] | a :: r -> a :: take (n - 1) r
let rec starts_with p l = match p, l with [] , _ -> true | a :: p', b :: l' -> a = b && starts_with p' l' | _ -> false
let rec is_sorted = function a :: (b :: _ as r) -> a <= b && is_sorted r | _ -> true
let rec strictly = function a :: (b :: _ as r) -> a < b && strictly r | _ -> true
let count x l = List.length (List.filter (fun y -> y = x) l)

let tab_verdict tab x = match tab with [] -> 0 | _ -> List.nth tab (x mod List.length tab)
let rec tabs_verdict tabs x = match tabs with [] -> 0 | t :: r -> (match tab_verdict t x with 0 -> tabs_verdict r x | v -> v)
let coq_verdict tabs x = match tabs_verdict tabs (int_of_n x) with 0 -> VPass | 1 -> VReject | v -> VErr (n_of_int v)

(* expected complete drain: [expected] followed by ErrIteratorDone for ever *)
let check_drain name (expected : (int * int) list) (ires : (int * int) list) : string option =
  let n = List.length ires in
  let want = take n (expected @ List.init n (fun _ -> er 0)) in
  match first_diff want ires with
  | None -> None
  | Some t -> Some (Printf.sprintf "%s: specification vs implementation: %s" name (String.map (fun c -> c) t))

let check_prefix name (expected : (int * int) list) (ires : (int * int) list) : string option =
  if List.length ires < List.length expected then None
  else if starts_with expected ires then None
  else Some (Printf.sprintf "%s: results before and at the first scripted error are not %s" name (show_pairs expected))

(* Head then Next return the same; Head is idempotent.  [skip_after_stop]: only before the first Stop *)
let coherence ?(until_stop = false) ops (ires : (int * int) list) : string option =
  let rec go k ops ires stopped =
    match ops, ires with
    | o1 :: (o2 :: _ as ops'), r1 :: (r2 :: _ as ires') ->
      let stopped = stopped || o1 = 2 in
      if (not (until_stop && stopped)) && o1 = 1 && (o2 = 0 || o2 = 1) && r1 <> r2
      then Some (Printf.sprintf "call %d Head=%d/%d, call %d %s=%d/%d" k (fst r1) (snd r1) (k + 1)
                   (if o2 = 0 then "Next" else "Head") (fst r2) (snd r2))
      else go (k + 1) ops' ires' stopped
    | _ -> None
  in go 0 ops ires false

(* after Stop: no call returns an item ([heads_too] = false: only Next is constrained) *)
let after_stop ?(heads_too = true) ops (ires : (int * int) list) : string option =
  let rec go k ops ires stopped =
    match ops, ires with
    | o :: ops', r :: ires' ->
      if stopped && (o = 0 || (o = 1 && heads_too)) && fst r <> 0
      then Some (Printf.sprintf "call %d after Stop returned item %d" k (fst r - 1))
      else go (k + 1) ops' ires' (stopped || o = 2)
    | _ -> None
  in go 0 ops ires false

(* extraction cross-check: with ORACLE_DUMP=<file> the numbers the extracted model computed for
   every case are appended to that file; bin/coqreplay_c23.py recomputes them inside Coq *)
let dump_chan = match Sys.getenv_opt "ORACLE_DUMP" with
  | Some p when p <> "" -> Some (open_out_gen [Open_append; Open_creat] 0o644 p)
  | _ -> None
let dump (id : string) (nums : int list) : unit =
  match dump_chan with
  | None -> ()
  | Some ch -> output_string ch (id ^ " " ^ String.concat " " (List.map string_of_int nums) ^ "\n")
let flat2 (l : (int * int) list) : int list = List.concat_map (fun (a, b) -> [a; b]) l
let flat3 l = List.concat_map (fun (i, (a, b)) -> [int_of_n i; int_of_n a; int_of_n b]) l

let diff_all_d id mres ires mobs iobs = dump id (flat2 mres @ flat2 mobs); diff_all mres ires mobs iobs

let first_some l = List.fold_left (fun acc f -> match acc with Some _ -> acc | None -> f ()) None l

let verdict ?(known = None) prop diff =
  match prop with
  | Some t -> "PROP " ^ t
  | None ->
    match diff with
    | Some t -> "DIFF " ^ t
    | None -> (match known with Some (flag, t) -> "KNOWN " ^ flag ^ " " ^ t | None -> "OK")

let run_std nx hd stp ops st = run nx hd stp (List.map op_of_int ops) st

let merge_spec a b =
  (* the sorted list in which every value occurs max(count in a, count in b) times *)
  let vals = List.sort_uniq compare (a @ b) in
  List.concat_map (fun x -> List.init (max (count x a) (count x b)) (fun _ -> x)) vals

let mapped_g p x =
  let xi = int_of_n x in
  match p with
  | 1 -> (match xi mod 3 with 0 -> rOk x | 1 -> rOk (n_of_int 100000) | _ -> rErr (n_of_int 6))
  | _ -> rOk x

let f _id vs =
  match vs with
  (* 1 static *)
  | [I "1"; ins; ops; res] ->
    let s = List.hd (intss ins) and ops = ints ops and ires = impl_res res in
    let items = items_of s in
    let m = List.map wire (static_run (List.map n_of_int ops) (List.map n_of_int items)) in
    let prop = first_some [
      (fun () -> if all_next ops then check_drain "static" (List.map ok items) ires else None);
      (fun () -> if List.for_all (fun o -> o <= 2) ops then coherence ops ires else None);
      (fun () -> after_stop ops ires) ] in
    dump _id (flat2 m);
    verdict prop (first_diff m ires)
  (* 2 concat *)
  | [I "2"; ins; ops; res; obs] ->
    let ins = intss ins and ops = ints ops and ires = impl_res res in
    let a = List.nth ins 0 and b = List.nth ins 1 in
    let (m, st) = run_std concat_next concat_head concat_stop ops
        (concat_init (List.map ev_of_int a) (List.map ev_of_int b)) in
    let prop = first_some [
      (fun () -> if all_next ops && clean a && clean b
        then check_drain "concat" (List.map ok (items_of a @ items_of b)) ires else None);
      (fun () -> if all_next ops && not (clean a)
        then check_prefix "concat" (List.map ok (prefix_items a) @ [er (Option.get (first_err a))]) ires else None);
      (fun () -> if all_next ops && clean a && not (clean b)
        then check_prefix "concat" (List.map ok (items_of a @ prefix_items b) @ [er (Option.get (first_err b))]) ires else None);
      (fun () -> after_stop ops ires) ] in
    verdict prop (diff_all_d _id (List.map wire m) ires (model_obs (concat_obs st)) (impl_obs obs))
  (* 3 merge *)
  | [I "3"; ins; ops; res; obs] ->
    let ins = intss ins and ops = ints ops and ires = impl_res res in
    let a = List.nth ins 0 and b = List.nth ins 1 in
    let (m, st) = run_std merge_next merge_head merge_stop ops
        (merge_init (List.map ev_of_int a) (List.map ev_of_int b)) in
    let mw = List.map wire m in
    let prop = first_some [
      (fun () -> if all_next ops && clean a && clean b && is_sorted (items_of a) && is_sorted (items_of b)
        then check_drain "merge of sorted inputs" (List.map ok (merge_spec (items_of a) (items_of b))) ires else None) ] in
    let diff = diff_all_d _id mw ires (model_obs (merge_obs st)) (impl_obs obs) in
    let known = match after_stop ops ires with
      | Some t when diff = None -> Some ("merge_yields_after_stop", t)
      | _ -> None in
    (match after_stop ops ires, diff with
     | Some t, Some _ -> "PROP merge: " ^ t ^ " (and the model disagrees)"
     | _ -> verdict ~known prop diff)
  (* 4 gfilter / 5 cond *)
  | [I k; ins; tabs; ops; res; obs] when k = "4" || k = "5" ->
    let s = List.hd (intss ins) and tabs = intss tabs and ops = ints ops and ires = impl_res res in
    let fv = coq_verdict tabs in
    let (m, mobs) =
      if k = "4" && tabs = [] then
        (* NewFilteredIterator without filters returns the inner iterator itself *)
        let (m, st) = run_std src_next (fun x -> (src_head x, x)) src_stop ops (src_of (List.map ev_of_int s)) in
        (m, model_obs [src_obs st])
      else if k = "4" then
        let (m, st) = run_std (cf_next fv) gf_head cf_stop ops (cf_init (List.map ev_of_int s)) in (m, model_obs (cf_obs st))
      else
        let (m, st) = run_std (cf_next fv) (cf_head fv) cf_stop ops (cf_init (List.map ev_of_int s)) in (m, model_obs (cf_obs st)) in
    let passing l = List.filter (fun x -> tabs_verdict tabs x = 0) l in
    let errs l = List.filter (fun v -> v >= 2) (List.map (tabs_verdict tabs) l) in
    let spec_clean l =
      let p = passing l in
      List.map ok p @ (if p = [] then (match List.rev (errs l) with e :: _ -> [er e] | [] -> []) else []) in
    let name = if k = "4" then "filter" else "conditions filter" in
    let prop = first_some [
      (fun () -> if all_next ops && clean s then check_drain name (spec_clean (items_of s)) ires else None);
      (fun () -> if all_next ops && not (clean s)
        then check_prefix name (List.map ok (passing (prefix_items s)) @ [er (Option.get (first_err s))]) ires else None);
      (fun () -> if k = "5" then coherence ops ires else None);
      (fun () -> after_stop ops ires) ] in
    verdict prop (diff_all_d _id (List.map wire m) ires mobs (impl_obs obs))
  (* 6 filtered *)
  | [I "6"; ins; tabs; ops; res; obs] ->
    let s = List.hd (intss ins) and tabs = intss tabs and ops = ints ops and ires = impl_res res in
    let p x = tabs_verdict tabs (int_of_n x) = 0 in
    let (m, st) = run_std (flt_next p) (flt_head p) one_stop_once ops (one_init (List.map ev_of_int s)) in
    let passing l = List.filter (fun x -> tabs_verdict tabs x = 0) l in
    let prop = first_some [
      (fun () -> if all_next ops && clean s then check_drain "filtered" (List.map ok (passing (items_of s))) ires else None);
      (fun () -> if all_next ops && not (clean s)
        then check_prefix "filtered" (List.map ok (passing (prefix_items s)) @ [er (Option.get (first_err s))]) ires else None);
      (fun () -> coherence ops ires);
      (fun () -> after_stop ops ires) ] in
    verdict prop (diff_all_d _id (List.map wire m) ires (model_obs (one_obs st)) (impl_obs obs))
  (* 7 validate *)
  | [I "7"; ins; tabs; nilv; ops; res; obs] ->
    let s = List.hd (intss ins) and tabs = intss tabs and ops = ints ops and ires = impl_res res in
    let nilv = as_int nilv = 1 in
    let vf = if nilv then None else Some (coq_verdict tabs) in
    let (m, st) = run_std (val_next vf) (val_head vf) one_stop_always ops (one_init (List.map ev_of_int s)) in
    let spec l = List.concat_map (fun x ->
        match (if nilv then 0 else tabs_verdict tabs x) with 0 -> [ok x] | 1 -> [] | e -> [er e]) l in
    let prop = first_some [
      (fun () -> if all_next ops && clean s then check_drain "validate" (spec (items_of s)) ires else None);
      (fun () -> if all_next ops && not (clean s)
        then check_prefix "validate" (spec (prefix_items s) @ [er (Option.get (first_err s))]) ires else None);
      (fun () -> coherence ops ires);
      (fun () -> after_stop ops ires) ] in
    verdict prop (diff_all_d _id (List.map wire m) ires (model_obs (one_obs st)) (impl_obs obs))
  (* 8 mapped *)
  | [I "8"; ins; p; ops; res; obs] ->
    let s = List.hd (intss ins) and p = as_int p and ops = ints ops and ires = impl_res res in
    let g = mapped_g p in
    let (m, st) = run_std (map_next g) (map_head g) one_stop_once ops (one_init (List.map ev_of_int s)) in
    let spec l = List.map (fun x -> if p = 1 then (match x mod 3 with 0 -> ok x | 1 -> ok 100000 | _ -> er 6) else ok x) l in
    let prop = first_some [
      (fun () -> if all_next ops && clean s then check_drain "mapper" (spec (items_of s)) ires else None);
      (fun () -> if all_next ops && not (clean s)
        then check_prefix "mapper" (spec (prefix_items s) @ [er (Option.get (first_err s))]) ires else None);
      (fun () -> coherence ops ires);
      (fun () -> after_stop ops ires) ] in
    verdict prop (diff_all_d _id (List.map wire m) ires (model_obs (one_obs st)) (impl_obs obs))
  (* 9 skipto *)
  | [I "9"; ins; target; ops; skres; res; obs] ->
    let s = List.hd (intss ins) and target = as_int target and ops = ints ops and ires = impl_res res in
    let isk = (match as_list skres with [a; b] -> (as_int a, as_int b) | _ -> (-1, -1)) in
    let (r0, s1) = skip_to (n_of_int target) (src_of (List.map ev_of_int s)) in
    let (m, st) = run_std src_next (fun x -> (src_head x, x)) src_stop ops s1 in
    (* specification: nothing at or above the target is dropped, everything dropped is below it *)
    let prop =
      if clean s then
        let items = items_of s in
        let rec drop l = match l with x :: r when x < target -> drop r | _ -> l in
        if all_next ops then check_drain "skip_to" (List.map ok (drop items)) ires
        else if isk <> (0, 0) then Some "skip_to returned an error on an error-free iterator" else None
      else None in
    verdict prop (diff_all_d _id (wire r0 :: List.map wire m) (isk :: ires) [ (fun (a, b) -> (int_of_n a, int_of_n b)) (src_obs st) ] (impl_obs obs))
  (* 10 combined *)
  | [I "10"; ins; ops; res; obs] ->
    let ins = intss ins and ops = ints ops and ires = impl_res res in
    let (m, st) = run_std comb_next comb_head comb_stop ops (comb_init (List.map (List.map ev_of_int) ins)) in
    let prop = first_some [
      (fun () -> if all_next ops && List.for_all clean ins
        then check_drain "combined" (List.map ok (List.concat_map items_of ins)) ires else None);
      (fun () -> coherence ops ires);
      (fun () -> after_stop ops ires) ] in
    verdict prop (diff_all_d _id (List.map wire m) ires (model_obs (comb_obs st)) (impl_obs obs))
  (* 11 ordered combined *)
  | [I "11"; ins; ops; res; obs] ->
    let ins = intss ins and ops = ints ops and ires = impl_res res in
    let key x = n_of_int (int_of_n x / 8) in
    let (m, st) = run_std (oc_next key) (oc_head key) oc_stop ops (oc_init (List.map (List.map ev_of_int) ins)) in
    let keys l = List.map (fun x -> x / 8) l in
    let prop = first_some [
      (fun () ->
         if all_next ops && List.for_all clean ins && List.for_all (fun s -> is_sorted (keys (items_of s))) ins then begin
           let all = List.concat_map items_of ins in
           let rec split acc l = match l with (v, 0) :: r when v > 0 -> split ((v - 1) :: acc) r | _ -> (List.rev acc, l) in
           let (out, rest) = split [] ires in
           if not (List.for_all (fun r -> r = er 0) rest) then Some "ordered combined: an error on sorted error-free inputs"
           else if List.length ires <= List.length all then None
           else if not (strictly (keys out)) then Some "ordered combined: output keys are not strictly ascending"
           else if not (List.for_all (fun x -> List.mem x all) out) then Some "ordered combined: output item that is no input item"
           else if List.sort_uniq compare (keys out) <> List.sort_uniq compare (keys all) then Some "ordered combined: a key of the inputs is missing"
           else None
         end else None);
      (* on unsorted inputs Head may show an item whose Next is the "not ascending" error *)
      (fun () -> if List.for_all (fun s -> is_sorted (keys (items_of s))) ins then coherence ~until_stop:true ops ires else None);
      (fun () -> after_stop ~heads_too:false ops ires) ] in
    dump _id (flat2 (List.map wire m) @ flat3 (oc_obs st));
    verdict prop (diff_all (List.map wire m) ires (sorted_obs (oc_obs st)) (impl_obs obs))
  (* 12 error iterator *)
  | [I "12"; e; ops; res] ->
    let e = as_int e and ops = ints ops and ires = impl_res res in
    let prop = if List.for_all2 (fun o r -> o = 2 || r = er e) ops ires then None else Some "error iterator" in
    let (m, _) = run_std error_next error_next (fun x -> x) ops (n_of_int e) in
    dump _id (flat2 (List.map wire m));
    verdict prop (first_diff (List.map wire m) ires)
  (* 13 from channel *)
  | [I "13"; msgs; ops; res; obs] ->
    let msgs = intss msgs and ops = ints ops and ires = impl_res res in
    let cnt = ref (-1) in
    let cm = List.map (fun m -> match m with
        | 0 :: s -> incr cnt; MIter (n_of_int !cnt, src_of (List.map ev_of_int s))
        | 1 :: e :: _ -> MErr (n_of_int e)
        | _ -> MEmpty) msgs in
    let (m, st) = run_std fc_next fc_head fc_stop ops (fc_init cm) in
    let all_clean = List.for_all (fun m -> match m with 0 :: s -> clean s | 1 :: _ -> false | _ -> true) msgs in
    let no_err_msg = List.for_all (fun m -> match m with 1 :: _ -> false | _ -> true) msgs in
    let prop = first_some [
      (fun () -> if all_next ops && all_clean
        then check_drain "from channel" (List.map ok (List.concat_map (fun m -> match m with 0 :: s -> items_of s | _ -> []) msgs)) ires else None);
      (* an error message of the channel is consumed by whichever call receives it *)
      (fun () -> if no_err_msg then coherence ops ires else None);
      (fun () -> after_stop ops ires) ] in
    dump _id (flat2 (List.map wire m) @ flat3 (fc_obs st));
    verdict prop (diff_all (List.map wire m) ires (sorted_obs (fc_obs st)) (impl_obs obs))
  (* 14 to channel *)
  | [I "14"; ins; res; obs] ->
    let s = List.hd (intss ins) and ires = impl_res res in
    let m = List.map wire (to_channel (List.map ev_of_int s)) in
    let prop = if clean s && ires <> List.map ok (items_of s) then Some "to channel: not the items of the iterator" else None in
    ignore obs;
    dump _id (flat2 m);
    verdict prop (first_diff m ires)
  (* 15 streams *)
  | [I "15"; msgss; sops; res; obs] ->
    let cnt = ref (-1) in
    let streams = List.mapi (fun i msgs ->
        let cm = List.map (fun m -> match m with
            | 0 :: s -> incr cnt; MIter (n_of_int !cnt, src_of (List.map ev_of_int s))
            | 1 :: e :: _ -> MErr (n_of_int e)
            | _ -> MEmpty) (intss msgs) in
        { st_idx = n_of_int i; st_buf = None; st_closed = false; st_msgs = cm; st_fin = [] }) (as_list msgss) in
    let ops = List.map (fun o -> match o with
        | [0] -> SClean | [1; p] -> SHead (nat_of_int p) | [2; p] -> SNext (nat_of_int p)
        | [3; p; v; t] -> SSkip (nat_of_int p, v = 1, n_of_int t) | [4; p] -> SDrain (nat_of_int p)
        | 5 :: ps -> SSlice (List.map nat_of_int ps) | [6; p] -> SStop (nat_of_int p) | _ -> SStopAll) (intss sops) in
    let (m, st) = streams_run ops { ss_active = streams; ss_gone = [] } in
    let mw = List.map (fun o -> let (v, e) = wire o.so_res in (v, e, List.map int_of_n o.so_list)) m in
    dump _id (List.concat_map (fun (v, e, l) -> v :: e :: List.length l :: l) mw @ flat3 (streams_obs st));
    let iw = List.map (fun p -> match as_list p with [a; b; l] -> (as_int a, as_int b, ints l) | _ -> (-1, -1, [])) (as_list res) in
    let rec fd k a b = match a, b with
      | [], [] -> None
      | x :: a', y :: b' -> if x = y then fd (k + 1) a' b' else
          let (v1, e1, l1) = x and (v2, e2, l2) = y in
          Some (Printf.sprintf "op %d: model=%d/%d[%s] impl=%d/%d[%s]" k v1 e1 (String.concat "," (List.map string_of_int l1))
                  v2 e2 (String.concat "," (List.map string_of_int l2)))
      | _ -> Some "lengths differ" in
    let diff = match fd 0 mw iw with
      | Some t -> Some t
      | None -> let mo = sorted_obs (streams_obs st) and io = impl_obs obs in
        if mo = io then None else Some (Printf.sprintf "inner iterators model=%s impl=%s" (show_pairs mo) (show_pairs io)) in
    verdict None diff
  (* 16 fan in *)
  | [I "16"; sizes; cancelled; tags] ->
    let sizes = ints sizes in
    let chans = List.mapi (fun ci n -> List.init n (fun j -> (n_of_int ci, n_of_int j))) sizes in
    let out = List.map (fun p -> match as_list p with [a; b] -> (n_of_int (as_int a), n_of_int (as_int b)) | _ -> (N0, N0)) (as_list tags) in
    if as_int cancelled = 1 then begin
      (* delivered messages keep the order of their channel *)
      let ok = List.for_all (fun ci ->
          let mine = List.filter (fun (c, _) -> int_of_n c = ci) out in
          strictly (List.map (fun (_, j) -> int_of_n j) mine)) (List.init (List.length sizes) (fun i -> i)) in
      if ok then "OK" else "DIFF fan-in (cancelled): per-channel order not preserved"
    end else begin
      let total = List.fold_left (+) 0 sizes in
      dump _id [if is_interleaving chans out then 1 else 0];
      let perm = List.length out = total && List.sort compare out = List.sort compare (List.concat chans) in
      if not perm then "PROP fan-in: the output is not a permutation of the messages of the input channels"
      else if is_interleaving chans out then "OK"
      else "DIFF fan-in: the output is not an interleaving of the channels (per-channel order)"
    end
  (* 20 shared *)
  | [I "20"; ins; limit; sops; res; obs; trig] ->
    let raw_scripts = intss ins in
    let scr = List.map (fun s -> if s = [-1] then None else Some (List.map ev_of_int s)) raw_scripts in
    let nscripts = List.length scr in
    let limit = as_int limit in
    let z_of_int i = if i = 0 then Z0 else Zpos (pos_of_int i) in
    let bufsz = nat_of_int 100 in
    let iops = intss sops in
    let ires = impl_res res in
    let trig = (match ints trig with [a; b] -> Some (a, b) | _ -> None) in
    (* step by step, remembering which script every created underlying iterator got.
       Context mode 2 (the context that the underlying iterator of script [trig] cancels from
       inside its Next) is composed from model steps: once the trigger has fired the call is a
       cancelled call; otherwise the call's fetch is the one of a Head step, and if that fetch
       passed the trigger position the call answers context.Canceled without advancing. *)
    let d = ref (ds_init (z_of_int limit) scr) in
    let created = ref [] (* in creation order: (`Inst i | `Byp b, script, script index) *) in
    let fired = ref false in
    let update_fired () =
      match trig with
      | None -> ()
      | Some (ti, tp) ->
        List.iter (fun (w, s, si) ->
            if si = ti then begin
              let src = (match w with
                  | `Inst i -> (List.nth (!d).ds_inst i).sy_sh.sh_inner
                  | `Byp b -> List.nth (!d).ds_bypass b) in
              let consumed = List.length s - List.length src.evs in
              let is_item = (match List.nth_opt s tp with Some (Item _) -> true | _ -> false) in
              if is_item && consumed >= tp + 1 then fired := true
            end) !created in
    let step o =
      let before = !d in
      let (r, d1) = ds_step bufsz o before in
      d := d1;
      (match o, r with
       | DOpen _, R (Some k, None) ->
         let taken = (match before.ds_scripts with Some s :: _ -> s | _ -> []) in
         let si = nscripts - List.length before.ds_scripts in
         (match int_of_n k with
          | 0 -> created := !created @ [(`Inst (List.length before.ds_inst), taken, si)]
          | 2 -> created := !created @ [(`Byp (List.length before.ds_bypass), taken, si)]
          | _ -> ())
       | _ -> ());
      update_fired ();
      r in
    let is_shared h = (match List.nth_opt (!d).ds_handles h with Some (HShared _) -> true | _ -> false) in
    let mres = List.map (fun o ->
        let r = (match o with
            | [0; k; h] -> step (DOpen (n_of_int k, h = 1))
            | [1; h; 2] when !fired -> step (DNext (nat_of_int h, true))
            | [2; h; 2] when !fired -> step (DHead (nat_of_int h, true))
            | [1; h; 2] when is_shared h ->
              let saved = !d in
              let r0 = step (DHead (nat_of_int h, false)) in
              if !fired then (match r0 with R (None, None) -> r0 | _ -> rErr eCancel)
              else begin d := saved; step (DNext (nat_of_int h, false)) end
            | [2; h; 2] when is_shared h ->
              let r0 = step (DHead (nat_of_int h, false)) in
              if !fired then (match r0 with R (None, None) -> r0 | _ -> rErr eCancel) else r0
            | [1; h; c] -> step (DNext (nat_of_int h, c = 1))
            | [2; h; c] -> step (DHead (nat_of_int h, c = 1))
            | [3; h] -> step (DStop (nat_of_int h))
            | _ -> step DExpireAll) in
        wire r) iops in
    let created = !created in
    let (io, bo) = ds_obs !d in
    let io = model_obs io and bo = model_obs bo in
    let mobs = List.map (fun (w, _, _) -> match w with `Inst i -> List.nth io i | `Byp b -> List.nth bo b) created in
    dump _id (flat2 mres @ flat2 io @ flat2 bo);
    (* the property, on the implementation's results: every handle of a shared iterator that
       reads with a live context sees the ideal sequence of the script of its underlying
       iterator, whatever the other handles (and their contexts) do *)
    let handles = Array.of_list (!d).ds_handles in
    let script_of h = match handles.(h) with
      | HShared (i, _) ->
        let (_, s, _) = List.find (fun (w, _, _) -> w = `Inst (int_of_nat i)) created in Some s
      | HBypass _ -> None in
    let pos = Hashtbl.create 8 and stopped = Hashtbl.create 8 in
    let prop = ref None in
    let nh = ref 0 (* handles that exist so far *) in
    List.iteri (fun k (o, r) ->
        match o with
        | 0 :: _ -> if fst r <> 0 then incr nh
        | [3; h] -> if h < !nh then Hashtbl.replace stopped h true
        | [1; h; 0] when h < !nh && !prop = None && script_of h <> None ->
          let scr = Option.get (script_of h) in
          if Hashtbl.mem stopped h then begin
            if r <> er 0 then prop := Some (Printf.sprintf "op %d: Next on a stopped clone returned %d/%d" k (fst r) (snd r))
          end else begin
            let j = (try Hashtbl.find pos h with Not_found -> 0) in
            let want = wire (ideal scr (nat_of_int j)) in
            if r <> want then
              prop := Some (Printf.sprintf "op %d: handle %d read #%d returned %d/%d, the underlying sequence has %d/%d" k h j (fst r) (snd r) (fst want) (snd want))
            else if fst r <> 0 then Hashtbl.replace pos h (j + 1)
          end
        | [1; h; 2] when h < !nh && script_of h <> None ->
          (* a read that succeeded under the trigger context advanced the clone as well *)
          if fst r <> 0 then Hashtbl.replace pos h ((try Hashtbl.find pos h with Not_found -> 0) + 1)
        | _ -> ()) (List.combine iops (if List.length ires = List.length iops then ires else List.map (fun _ -> (-1, -1)) iops));
    verdict !prop (diff_all mres ires mobs (impl_obs obs))
  (* 21 free-running clones: decided by the driver *)
  | I "21" :: _ -> "OK"
  | _ -> "DIFF malformed-record"

let () = run_oracle f
