(* C21 oracle.
   kind 1/2: replays the call sequence on the method-level model (Conc/StatusPool.v m_xxx,
             Conc/CycleGroup.v g_xxx) and compares every observed projection      -> DIFF
   kind 3:   replays the method-granularity schedule on the ATOMIC-step model (each method call
             is the run of its atomic steps by that thread), compares every projection -> DIFF,
             and evaluates the property's predicates on the values read from the real objects
             (inflight invariant, soundness of the latch, ordered teardown, no lost work,
             completion)                                                        -> PROP
   kind 4:   ListObjects result sets against the Check reference                -> PROP *)

let rec int_of_pos' (p : positive) : int =
  match p with XH -> 1 | XO q -> 2 * int_of_pos' q | XI q -> 2 * int_of_pos' q + 1
let int_of_z (x : z) : int = match x with Z0 -> 0 | Zpos p -> int_of_pos' p | Zneg p -> - (int_of_pos' p)

let b2s b = if b then "1" else "0"
let bl l = String.concat "" (List.map b2s l)
let il l = String.concat "," (List.map string_of_int l)

let pool_str (p : pool) =
  Printf.sprintf "inflight=%d total=%d zero=%s ready=%s quiet=%s bits=%s"
    (int_of_z p.sp_inflight) (int_of_z p.sp_total) (b2s p.sp_zero) (b2s p.sp_ready) (b2s p.sp_quiet) (bl p.sp_pool)

(* observed pool: ( inflight total zero ready quiet ( bits ) ) *)
type pobs = { o_inflight : int; o_total : int; o_zero : bool; o_ready : bool; o_quiet : bool; o_bits : bool list }
let pobs_of v =
  match as_list v with
  | [a; b; c; d; e; f] ->
    { o_inflight = as_int a; o_total = as_int b; o_zero = as_bool c; o_ready = as_bool d; o_quiet = as_bool e;
      o_bits = List.map as_bool (as_list f) }
  | _ -> failwith "pool obs"
let pobs_str o =
  Printf.sprintf "inflight=%d total=%d zero=%s ready=%s quiet=%s bits=%s"
    o.o_inflight o.o_total (b2s o.o_zero) (b2s o.o_ready) (b2s o.o_quiet) (bl o.o_bits)

let clear_panic (p : pool) : pool = { p with sp_panic = false }

exception Diff of string
exception Prop of string

(* ---------------------------------------------------------------- kind 1 *)
let kind1 ops =
  let p = ref new_pool in
  let was_quiet = ref false in
  List.iteri (fun idx opv ->
    match as_list opv with
    | [op; arg; res; obs] ->
      let op = as_int op and arg = as_int arg and res = as_int res in
      let o = pobs_of obs in
      let expect_res =
        match op with
        | 0 -> p := fst (m_register !p); 0
        | 1 -> p := m_inc !p; 0
        | 2 -> p := m_dec !p; 0
        | 3 -> let p' = m_set (nat_of_int arg) !p in
               let pan = p'.sp_panic in p := clear_panic p'; if pan then 3 else 0
        | 4 -> (match m_wait !p with WReturned -> 1 | _ -> 0)
        | _ -> raise (Diff "unknown op")
      in
      if !p.sp_panic then raise (Diff (Printf.sprintf "op %d: model double close of quiescence" idx));
      let ms = pool_str !p and os = pobs_str o in
      if ms <> os then raise (Diff (Printf.sprintf "op %d (%d %d): model %s impl %s" idx op arg ms os));
      if expect_res <> res then
        raise (Diff (Printf.sprintf "op %d (%d %d): result model %d impl %d" idx op arg expect_res res));
      if !was_quiet && not o.o_quiet then raise (Prop "quiescence latch re-opened");
      if o.o_quiet then was_quiet := true
    | _ -> raise (Diff "malformed op")) ops;
  "OK"

(* ---------------------------------------------------------------- kind 2 *)
let kind2 ops =
  let g = ref new_group in
  List.iteri (fun idx opv ->
    match as_list opv with
    | [op; arg; res; obs] ->
      let op = as_int op and arg = as_int arg and res = as_int res in
      let a = nat_of_int arg in
      let expect_res =
        match op with
        | 0 -> g := fst (g_join !g); 0
        | 1 ->
          (* a Go panic in Report (close of the closed ready channel, possible only when a member
             joins after all earlier members reported) unwinds SignalReady before its Dec *)
          let p1 = m_set (g_node !g a).mn_rep !g.g_pool in
          if p1.sp_panic then (g := { !g with g_pool = clear_panic p1 }; 3)
          else (g := g_signal_ready a !g; 0)
        | 2 -> g := g_inc !g; 0
        | 3 -> g := g_dec !g; 0
        | 4 -> g := g_wake a !g; 0
        | 5 -> if g_sleep_returns a !g then 1 else 0
        | 6 -> (match g_wait !g with WReturned -> 1 | _ -> 0)
        | _ -> raise (Diff "unknown op")
      in
      (match as_list obs with
       | [pool; size; leaders; next; wake; awake; paths] ->
         let o = pobs_of pool in
         let n = List.length !g.g_nodes in
         let idxs = List.init n (fun i -> i) in
         let node i = g_node !g (nat_of_int i) in
         let m_leaders = bl (List.map (fun i -> (node i).mn_leader) idxs) in
         let m_next = il (List.map (fun i -> match g_next (nat_of_int i) !g with Some j -> int_of_nat j | None -> -1) idxs) in
         let m_wake = bl (List.map (fun i -> (node i).mn_wake) idxs) in
         let m_awake = bl (List.map (fun i -> (node i).mn_awake) idxs) in
         let m_paths = String.concat ";" (List.map (fun i -> il (List.map int_of_nat (g_string (nat_of_int i) !g))) idxs) in
         let o_paths = String.concat ";" (List.map (fun p -> il (List.map as_int (as_list p))) (as_list paths)) in
         let chk name m i = if m <> i then raise (Diff (Printf.sprintf "op %d (%d %d): %s model %s impl %s" idx op arg name m i)) in
         chk "pool" (pool_str !g.g_pool) (pobs_str o);
         chk "size" (string_of_int (int_of_nat !g.g_size)) (string_of_int (as_int size));
         chk "leaders" m_leaders (bl (List.map as_bool (as_list leaders)));
         chk "next" m_next (il (List.map as_int (as_list next)));
         chk "wake" m_wake (bl (List.map as_bool (as_list wake)));
         chk "awake" m_awake (bl (List.map as_bool (as_list awake)));
         chk "String" m_paths o_paths;
         chk "result" (string_of_int expect_res) (string_of_int res)
       | _ -> raise (Diff "malformed group obs"))
    | _ -> raise (Diff "malformed op")) ops;
  "OK"

(* ---------------------------------------------------------------- kind 3 *)
let rec msg_of v =
  match as_list v with
  | [d; ks] -> Msg (nat_of_int (as_int d), List.map msg_of (as_list ks))
  | _ -> failwith "msg"

let main_pc st i = List.nth st.st_main i
let proc_pc st k = (List.nth st.st_proc k).p_pc

(* run thread t while [inside] holds for its program counter; returns the state and whether the
   thread is blocked inside *)
let rec run_while st t (inside : state -> bool) fuel =
  if fuel = 0 then raise (Diff "model: method does not end")
  else if not (inside st) then (st, false)
  else match step st t with
    | Some st' -> run_while st' t inside (fuel - 1)
    | None -> (st, true)

let step1 st t what =
  match step st t with Some st' -> st' | None -> raise (Diff ("model thread is blocked at " ^ what))

let ev_str = function
  | EClose (i, k) -> Printf.sprintf "C%d.%d" (int_of_nat i) (int_of_nat k)
  | EWake j -> Printf.sprintf "W%d" (int_of_nat j)

let kind3 n np std acts tlog fin total =
  let nn = nat_of_int n in
  let stdl = List.map (fun v -> match as_list v with
      | [o; ks] -> (nat_of_int (as_int o), List.map msg_of (as_list ks))
      | _ -> failwith "std") std in
  let st = ref (init nn (nat_of_int np) stdl) in
  let cancelled = ref false in
  let prop = ref None in
  let set_prop s = if !prop = None then prop := Some s in
  List.iteri (fun idx av ->
    match as_list av with
    | [kind; tidk; ix; res; pool; wake; awake; book] ->
      let kind = as_int kind and ix = as_int ix and res = as_int res in
      ignore tidk;
      let bad what = raise (Diff (Printf.sprintf "action %d (kind %d thread %d): %s" idx kind ix what)) in
      let tm = TM (nat_of_int ix) and tp = TP (nat_of_int ix) in
      (match kind with
       | 1 ->
         if main_pc !st ix <> MWaitStd then bad "model member is not before SignalReady";
         let inside s = (match main_pc s ix with
             | MWaitStd | MSetLock | MSetBody | MSetClose | MSetUnlock | MDec1 | MDec2 | MDec3 -> true | _ -> false) in
         let (s', blocked) = run_while !st tm inside 20 in
         if blocked then bad "model blocks inside SignalReady (standard senders not finished)";
         st := s'
       | 2 ->
         let inside s = (match main_pc s ix with MWaitReady | MLoadTotal | MWaitQ -> true | _ -> false) in
         if not (inside !st) then bad "model member is not at WaitForAllReady";
         let (s', blocked) = run_while !st tm inside 10 in
         st := s';
         let m = if blocked then 0 else 1 in
         if m <> res then bad (Printf.sprintf "WaitForAllReady: model %s impl %s"
                                 (if m = 1 then "returns" else "blocks") (if res = 1 then "returned" else if res = 0 then "blocked" else "returned false"))
       | 3 ->
         if main_pc !st ix <> MSleep then bad "model member is not at Sleep";
         (match step !st tm with
          | Some s' -> if res <> 1 then bad "Sleep: model returns, impl blocked"; st := s'
          | None -> if res <> 0 then bad "Sleep: model blocks, impl returned")
       | 4 ->
         (match main_pc !st ix with MCleanup _ -> () | _ -> bad "model member is not in Cleanup");
         st := step1 !st tm "Cleanup"
       | 5 ->
         if main_pc !st ix <> MWake1 then bad "model member is not at Wake";
         let inside s = (match main_pc s ix with MWake1 | MWake2 -> true | _ -> false) in
         let (s', blocked) = run_while !st tm inside 5 in
         if blocked then bad "model blocks in Wake";
         st := s';
         let nx = int_of_nat (nxt nn (nat_of_int ix)) in
         if nx <> res then bad (Printf.sprintf "Next(): model %d impl %d" nx res)
       | 6 ->
         if main_pc !st ix <> MWaitRec then bad "model member is not at wgRecursive.Wait";
         st := step1 !st tm "wgRecursive.Wait (cyclical senders not finished)"
       | 7 ->
         if proc_pc !st ix <> PRecv then bad "model goroutine is not at Recv";
         let before = List.length !st.st_flight in
         let s' = step1 !st tp "Recv (queue empty and open)" in
         let took = List.length s'.st_flight < before in
         let m = if took then (if !st.st_cancel then 2 else 1) else 0 in
         st := s';
         if m <> res then bad (Printf.sprintf "Recv: model %d impl %d" m res)
       | 8 ->
         (match proc_pc !st ix with PInc1 _ -> () | _ -> bad "model goroutine has no child to send");
         (* exactly one child: total.Add(1), inflight.Add(1), Send *)
         let s1 = step1 !st tp "Inc (total)" in
         let s2 = step1 s1 tp "Inc (inflight)" in
         (match proc_pc s2 ix with PSend _ -> () | _ -> bad "model goroutine is not at Send");
         let s' = step1 s2 tp "Send" in
         let dropped = (match proc_pc s' ix with PDrop1 _ -> true | _ -> false) in
         let inside2 s = (match proc_pc s ix with PDrop1 _ | PDrop2 _ | PDrop3 _ -> true | _ -> false) in
         let (s'', _) = run_while s' tp inside2 5 in
         st := s'';
         let m = if dropped then 0 else 1 in
         if m <> res then bad (Printf.sprintf "Send: model %s impl %s" (if dropped then "fails" else "enqueues") (if res = 1 then "enqueued" else "failed"))
       | 9 ->
         if proc_pc !st ix <> PFin1 then bad "model goroutine is not at Done of the received message";
         let inside s = (match proc_pc s ix with PFin1 | PFin2 | PFin3 -> true | _ -> false) in
         let (s', _) = run_while !st tp inside 5 in
         st := s'
       | 10 -> st := step1 !st TC "cancel"; cancelled := true
       | _ -> bad "unknown action");
      (* projections *)
      let o = pobs_of pool in
      let ms = pool_str (clear_panic !st.st_pool) and os = pobs_str o in
      if !st.st_pool.sp_panic then bad "model: a channel is closed twice";
      if ms <> os then bad (Printf.sprintf "pool: model %s impl %s" ms os);
      let mw = bl !st.st_wake and ow = bl (List.map as_bool (as_list wake)) in
      if mw <> ow then bad (Printf.sprintf "wake channels: model %s impl %s" mw ow);
      let ma = bl !st.st_awake and oa = bl (List.map as_bool (as_list awake)) in
      if ma <> oa then bad (Printf.sprintf "awake flags: model %s impl %s" ma oa);
      (match as_list book with
       | [pend; held; queued; dropped] ->
         let pend = as_int pend and held = as_int held and queued = as_int queued and dropped = as_int dropped in
         let m_pend = List.length (List.filter (fun pc -> pc = MWaitStd) !st.st_main) in
         let m_held = List.length (List.filter (fun p -> match p.p_src, p.p_pc with
             | Some _, (PInc1 _ | PFin1) -> true | _ -> false) !st.st_proc) in
         let m_queued = List.length !st.st_flight in
         let m_lost = int_of_nat !st.st_lost in
         if (pend, held, queued, dropped) <> (m_pend, m_held, m_queued, m_lost) then
           bad (Printf.sprintf "bookkeeping: model pend=%d held=%d queued=%d lost=%d driver %d %d %d %d"
                  m_pend m_held m_queued m_lost pend held queued dropped);
         (* the property's predicates on the REAL values *)
         if o.o_inflight <> pend + held + queued then
           set_prop (Printf.sprintf "action %d: inflight=%d but members not ready=%d + held=%d + queued=%d" idx o.o_inflight pend held queued);
         if o.o_quiet && (pend <> 0 || held <> 0 || queued <> 0) then
           set_prop (Printf.sprintf "action %d: quiescence closed with not-ready=%d held=%d queued=%d" idx pend held queued);
         if pend = 0 && held = 0 && queued = 0 && not o.o_quiet then
           set_prop (Printf.sprintf "action %d: all ready and nothing in flight but the latch is open" idx);
         if (not !cancelled) && dropped <> 0 then
           set_prop (Printf.sprintf "action %d: %d message(s) lost without cancellation" idx dropped)
       | _ -> bad "malformed bookkeeping")
    | _ -> raise (Diff "malformed action")) acts;
  (* end of the run *)
  let m_fin = final !st in
  if m_fin <> (fin = 1) then
    raise (Diff (Printf.sprintf "end: model %s, driver %s" (if m_fin then "torn down" else "not torn down") (if fin = 1 then "torn down" else "stuck")));
  if fin <> 1 then set_prop "teardown did not complete: no thread can take a step";
  let o_log = String.concat " " (List.map (fun v -> match as_list v with
      | [k; a; b] -> if as_int k = 0 then Printf.sprintf "C%d.%d" (as_int a) (as_int b) else Printf.sprintf "W%d" (as_int a)
      | _ -> "?") tlog) in
  let m_log = String.concat " " (List.map ev_str !st.st_log) in
  if o_log <> m_log then raise (Diff (Printf.sprintf "teardown trace: model [%s] impl [%s]" m_log o_log));
  let c_log = String.concat " " (List.map ev_str (canon_log nn)) in
  if fin = 1 && o_log <> c_log then set_prop (Printf.sprintf "teardown order: [%s] is not the chain [%s]" o_log c_log);
  if fin = 1 && (not !cancelled) && int_of_nat !st.st_processed <> total then
    set_prop (Printf.sprintf "processed %d of %d messages" (int_of_nat !st.st_processed) total);
  match !prop with Some s -> "PROP " ^ s | None -> "OK"

(* ---------------------------------------------------------------- kind 4 *)
let kind4 expected runs =
  let exp = List.map as_bytes expected in
  let problems = ref [] in
  List.iter (fun rv ->
    match as_list rv with
    | [chunk; buf; procs; maxr; code; objs] ->
      let maxr = as_int maxr in
      let cfg = Printf.sprintf "chunk=%d buffer=%d procs=%d max=%d" (as_int chunk) (as_int buf) (as_int procs) maxr in
      (match as_int code with
       | 2 -> problems := (cfg ^ ": request did not return (teardown did not complete)") :: !problems
       | 1 -> problems := (cfg ^ ": ListObjects failed while every Check succeeded") :: !problems
       | _ ->
         let got = List.map as_bytes (as_list objs) in
         let rec dups l = match l with a :: (b :: _ as r) -> if a = b then a :: dups r else dups r | _ -> [] in
         let d = dups got in
         let missing = List.filter (fun x -> not (List.mem x got)) exp in
         let extra = List.filter (fun x -> not (List.mem x exp)) got in
         if d <> [] then problems := (cfg ^ ": duplicated " ^ String.concat "," d) :: !problems;
         (* with a result limit the request stops early (and cancels the pipeline): it must still
            return min(limit, all) distinct expected objects *)
         let missing = if maxr > 0 && List.length got = min maxr (List.length exp) then [] else missing in
         if missing <> [] then problems := (cfg ^ ": missing " ^ String.concat "," missing) :: !problems;
         if extra <> [] then problems := (cfg ^ ": extra " ^ String.concat "," extra) :: !problems)
    | _ -> problems := "malformed run" :: !problems) runs;
  match !problems with
  | [] -> "OK"
  | l -> let l = List.rev l in
    let shown = List.filteri (fun i _ -> i < 4) l in
    Printf.sprintf "PROP %d of %d request(s): %s" (List.length l) (List.length runs) (String.concat " | " shown)

(* ---------------------------------------------------------------- extraction cross-check
   With ORACLE_DUMP=<file>, for every case of kind 1, 2, 3 the values the EXTRACTED model computes
   (independently of what the implementation returned) are appended as one line of integers;
   bin/coqreplay_c21.py recomputes the same numbers inside Coq with vm_compute.  The folds below
   are total: a blocked thread simply does not move. *)
let dump_chan = match Sys.getenv_opt "ORACLE_DUMP" with
  | Some p when p <> "" -> Some (open_out_gen [Open_append; Open_creat] 0o644 p)
  | _ -> None
let zz i = if i < 0 then -2 * i - 1 else 2 * i
let bi b = if b then 1 else 0
let bits_val l = List.fold_right (fun b acc -> bi b + 2 * acc) l 0
let pool_nums (p : pool) =
  [zz (int_of_z p.sp_inflight); zz (int_of_z p.sp_total); bi p.sp_zero; bi p.sp_ready; bi p.sp_quiet;
   List.length p.sp_pool; bits_val p.sp_pool; bi p.sp_panic]

let dump1 ops =
  let p = ref new_pool in
  List.concat_map (fun opv ->
    match as_list opv with
    | op :: arg :: _ ->
      let res = (match as_int op with
        | 0 -> p := fst (m_register !p); 0
        | 1 -> p := m_inc !p; 0
        | 2 -> p := m_dec !p; 0
        | 3 -> let p' = m_set (nat_of_int (as_int arg)) !p in
               let pan = p'.sp_panic in p := clear_panic p'; if pan then 3 else 0
        | 4 -> (match m_wait !p with WReturned -> 1 | _ -> 0)
        | _ -> 0) in
      pool_nums !p @ [res]
    | _ -> []) ops

let group_nums (g : group) =
  let n = List.length g.g_nodes in
  let idxs = List.init n (fun i -> nat_of_int i) in
  pool_nums g.g_pool
  @ [int_of_nat g.g_size; bits_val (List.map (fun m -> m.mn_leader) g.g_nodes);
     bits_val (List.map (fun m -> m.mn_wake) g.g_nodes); bits_val (List.map (fun m -> m.mn_awake) g.g_nodes)]
  @ List.map (fun i -> match g_next i g with Some j -> int_of_nat j + 1 | None -> 0) idxs
  @ List.concat_map (fun i -> let p = g_string i g in List.length p :: List.map int_of_nat p) idxs

let dump2 ops =
  let g = ref new_group in
  List.concat_map (fun opv ->
    match as_list opv with
    | op :: arg :: _ ->
      let a = nat_of_int (as_int arg) in
      let res = (match as_int op with
        | 0 -> g := fst (g_join !g); 0
        | 1 -> let p1 = m_set (g_node !g a).mn_rep !g.g_pool in
               if p1.sp_panic then (g := { !g with g_pool = clear_panic p1 }; 3)
               else (g := g_signal_ready a !g; 0)
        | 2 -> g := g_inc !g; 0
        | 3 -> g := g_dec !g; 0
        | 4 -> g := g_wake a !g; 0
        | 5 -> bi (g_sleep_returns a !g)
        | 6 -> (match g_wait !g with WReturned -> 1 | _ -> 0)
        | _ -> 0) in
      group_nums !g @ [res]
    | _ -> []) ops

let mcode = function
  | MWaitStd -> 0 | MSetLock -> 1 | MSetBody -> 2 | MSetClose -> 3 | MSetUnlock -> 4 | MDec1 -> 5 | MDec2 -> 6
  | MDec3 -> 7 | MWaitReady -> 8 | MLoadTotal -> 9 | MWaitQ -> 10 | MSleep -> 11 | MWake1 -> 13 | MWake2 -> 14
  | MWaitRec -> 15 | MDone -> 16 | MCleanup k -> 20 + int_of_nat k
let pcode = function
  | PRecv -> 0 | PInc1 (m, r) -> 1 + 16 * int_of_nat (msize m) + 16 * List.fold_left (fun a x -> a + int_of_nat (msize x)) 0 r
  | PInc2 (m, r) -> 2 + 16 * int_of_nat (msize m) + 16 * List.fold_left (fun a x -> a + int_of_nat (msize x)) 0 r
  | PSend (m, r) -> 3 + 16 * int_of_nat (msize m) + 16 * List.fold_left (fun a x -> a + int_of_nat (msize x)) 0 r
  | PDrop1 r -> 4 + 16 * List.fold_left (fun a x -> a + int_of_nat (msize x)) 0 r
  | PDrop2 r -> 5 + 16 * List.fold_left (fun a x -> a + int_of_nat (msize x)) 0 r
  | PDrop3 r -> 6 + 16 * List.fold_left (fun a x -> a + int_of_nat (msize x)) 0 r
  | PFin1 -> 7 | PFin2 -> 8 | PFin3 -> 9 | PEnd -> 10

let mpc_t st i = match List.nth_opt st.st_main i with Some pc -> pc | None -> MDone
let ppc_t st k = match List.nth_opt st.st_proc k with Some p -> p.p_pc | None -> PEnd
let rec run_while_t fuel inside st t =
  if fuel = 0 then st else if inside st then (match step st t with Some s' -> run_while_t (fuel - 1) inside s' t | None -> st) else st
let step_t st t = match step st t with Some s' -> s' | None -> st

let act_t st kind ix =
  let tm = TM (nat_of_int ix) and tp = TP (nat_of_int ix) in
  match kind with
  | 1 -> run_while_t 20 (fun s -> match mpc_t s ix with
      | MWaitStd | MSetLock | MSetBody | MSetClose | MSetUnlock | MDec1 | MDec2 | MDec3 -> true | _ -> false) st tm
  | 2 -> run_while_t 10 (fun s -> match mpc_t s ix with MWaitReady | MLoadTotal | MWaitQ -> true | _ -> false) st tm
  | 3 | 4 | 6 -> step_t st tm
  | 5 -> run_while_t 5 (fun s -> match mpc_t s ix with MWake1 | MWake2 -> true | _ -> false) st tm
  | 7 -> step_t st tp
  | 8 -> let s3 = step_t (step_t (step_t st tp) tp) tp in
    run_while_t 5 (fun s -> match ppc_t s ix with PDrop1 _ | PDrop2 _ | PDrop3 _ -> true | _ -> false) s3 tp
  | 9 -> run_while_t 5 (fun s -> match ppc_t s ix with PFin1 | PFin2 | PFin3 -> true | _ -> false) st tp
  | 10 -> step_t st TC
  | _ -> st

let state_nums st =
  let wsum f l = snd (List.fold_left (fun (i, a) x -> (i + 1, a + i * f x)) (1, 0) l) in
  pool_nums st.st_pool
  @ [bits_val st.st_wake; bits_val st.st_awake; List.length st.st_flight; int_of_nat st.st_lost;
     int_of_nat st.st_processed; bi st.st_cancel; wsum mcode st.st_main; wsum (fun p -> pcode p.p_pc) st.st_proc;
     wsum int_of_nat st.st_closed; List.length st.st_log]

let dump3 n np std acts =
  let stdl = List.map (fun v -> match as_list v with
      | [o; ks] -> (nat_of_int (as_int o), List.map msg_of (as_list ks))
      | _ -> failwith "std") std in
  let st = ref (init (nat_of_int n) (nat_of_int np) stdl) in
  let per_action = List.concat_map (fun av ->
    match as_list av with
    | kind :: _ :: ix :: _ -> st := act_t !st (as_int kind) (as_int ix); state_nums !st
    | _ -> []) acts in
  per_action @ [bi (final !st)]

let dump_case id nums =
  match dump_chan with
  | Some ch -> output_string ch (id ^ " " ^ String.concat " " (List.map string_of_int nums) ^ "\n"); flush ch
  | None -> ()

let f id vs =
  (if dump_chan <> None then
     try (match vs with
       | [I "1"; ops] -> dump_case id (dump1 (as_list ops))
       | [I "2"; ops] -> dump_case id (dump2 (as_list ops))
       | I "3" :: n :: np :: std :: acts :: _ -> dump_case id (dump3 (as_int n) (as_int np) (as_list std) (as_list acts))
       | _ -> ())
     with _ -> ());
  try
    match vs with
    | [I "1"; ops] -> kind1 (as_list ops)
    | [I "2"; ops] -> kind2 (as_list ops)
    | [I "3"; n; np; std; acts; tlog; fin; total] ->
      kind3 (as_int n) (as_int np) (as_list std) (as_list acts) (as_list tlog) (as_int fin) (as_int total)
    | [I "4"; _pipeline; expected; runs] -> kind4 (as_list expected) (as_list runs)
    | I "5" :: sub :: fired :: hang :: cls :: stalled :: _variant :: _k :: _chunk :: _buf :: procs :: [] ->
      (* the real pipeline on a synthetic store: a storage panic (sub 1) or a cancellation (sub 2)
         in the middle of a cyclical message *)
      let sub = as_int sub and fired = as_bool fired and hang = as_int hang and cls = as_int cls in
      if hang <> 0 then
        (if sub = 1 then "PROP teardown did not complete after a storage fault on a cyclical message (Close hangs)"
         else "PROP teardown did not complete after cancellation in the middle of a cyclical message (Close hangs)")
      else if sub = 1 && fired && (cls = 0 || cls = 1) then "PROP the storage fault on a cyclical message was not reported by Err()"
      else if sub = 1 && as_int stalled = 1 && fired && as_int procs = 1 then
        (* listed finding: the panic ended the only processing goroutine of that sender; the
           dispatcher of ProcessSender then blocks handing the next message over, the group cannot
           quiesce, and a consumer parked in Recv is never woken: the pipeline closes only when the
           request context is cancelled *)
        "KNOWN fault_wedges_until_cancel the pipeline did not close itself after the fault; it completed after the request context was cancelled"
      else if sub = 1 && as_int stalled = 1 then
        "PROP the pipeline did not close itself after a storage fault although processing goroutines were left"
      else if sub = 1 && (not fired) && cls <> 0 then "PROP error without a fault"
      else if sub = 2 && cls >= 2 then
        "PROP Err() is not a context error after cancellation: a member tore down while a cyclical message was in flight"
      else "OK"
    | [I "8"; layout; cap; procs; total; cancel_after; released; pd; cd] ->
      (* the draining contract of Core.ProcessSender: a consumer whose context is cancelled keeps
         consuming until the sender is closed (model: step_proc at PRecv with st_cancel; theorem
         drain_reaches_zero; necessity: drain_needed_refuted) *)
      let d = Printf.sprintf "capacity %d, %d goroutine(s), %d messages, consumer cancelled %s" (as_int cap) (as_int procs) (as_int total)
          (if as_int cancel_after = 0 then "before the start" else Printf.sprintf "after %d releases" (as_int cancel_after)) in
      if not (as_bool layout) then "DIFF cannot drive worker.Core (layout changed)"
      else if as_int pd = 0 then
        Printf.sprintf "PROP the producer is blocked on a full medium after %d of %d messages were released: the cancelled consumer stopped draining (%s)" (as_int released) (as_int total) d
      else if as_int cd = 0 then Printf.sprintf "PROP the consumer never returned after its sender was closed (%s)" d
      else if as_int released <> as_int total then
        Printf.sprintf "PROP %d of %d messages were Done (%s)" (as_int released) (as_int total) d
      else "OK"
    | [I "9"; hang; close_hang; cls; chunk; buf; procs; size; expected; got] ->
      (* a cycle member feeding the output and an abandoned intersection / exclusion *)
      let exp = List.map as_bytes (as_list expected) and got = List.map as_bytes (as_list got) in
      let d = Printf.sprintf "chunk=%d buffer=%d procs=%d size=%d" (as_int chunk) (as_int buf) (as_int procs) (as_int size) in
      if as_int hang <> 0 then
        Printf.sprintf "PROP teardown did not complete: the pipeline stalled at %d of %d objects although nothing was cancelled and no fault injected (%s)" (List.length got) (List.length exp) d
      else if as_int close_hang <> 0 then Printf.sprintf "PROP Close did not return (%s)" d
      else if as_int cls <> 0 then Printf.sprintf "PROP Err() is set after a run without fault or cancellation (%s)" d
      else if got <> exp then
        let missing = List.filter (fun x -> not (List.mem x got)) exp and extra = List.filter (fun x -> not (List.mem x exp)) got in
        Printf.sprintf "PROP %d missing, %d extra, %d delivered of %d (%s)" (List.length missing) (List.length extra) (List.length got) (List.length exp) d
      else "OK"
    | [I "6"; layout; ext] ->
      (* the hypothesis cyclic_send_never_blocks of the model, checked on the real constructor *)
      if not (as_bool layout) then "DIFF cannot read the queue of a QueueMedium (layout changed)"
      else if as_int ext >= 0 then
        Printf.sprintf "DIFF cyclical queue is bounded (extensions=%d): the model takes a Send on a cyclical edge as never blocking" (as_int ext)
      else "OK"
    | _ -> "DIFF malformed-record"
  with
  | Diff s -> "DIFF " ^ s
  | Prop s -> "PROP " ^ s

let () = run_oracle f
