(* C27 oracle: compares the observed outcome of the real authenticators with Sec/Authn.v.
   DIFF  = implementation differs from the algorithm model (psk_authenticate / oidc_authenticate)
   PROP  = the property's own predicate is violated by the implementation's output
   (no KNOWN verdicts: the two former findings are repaired in /repo by 8b29193).
   Trusted here: SHA-256 below (cross-checked on every pre-shared-key case against the digests
   Go computed for the configured keys) and the decoding of records. *)

(* ---- SHA-256 (FIPS 180-4), on OCaml's 63-bit ints ---------------------------------- *)
let sha_k = [|
  0x428a2f98; 0x71374491; 0xb5c0fbcf; 0xe9b5dba5; 0x3956c25b; 0x59f111f1; 0x923f82a4; 0xab1c5ed5;
  0xd807aa98; 0x12835b01; 0x243185be; 0x550c7dc3; 0x72be5d74; 0x80deb1fe; 0x9bdc06a7; 0xc19bf174;
  0xe49b69c1; 0xefbe4786; 0x0fc19dc6; 0x240ca1cc; 0x2de92c6f; 0x4a7484aa; 0x5cb0a9dc; 0x76f988da;
  0x983e5152; 0xa831c66d; 0xb00327c8; 0xbf597fc7; 0xc6e00bf3; 0xd5a79147; 0x06ca6351; 0x14292967;
  0x27b70a85; 0x2e1b2138; 0x4d2c6dfc; 0x53380d13; 0x650a7354; 0x766a0abb; 0x81c2c92e; 0x92722c85;
  0xa2bfe8a1; 0xa81a664b; 0xc24b8b70; 0xc76c51a3; 0xd192e819; 0xd6990624; 0xf40e3585; 0x106aa070;
  0x19a4c116; 0x1e376c08; 0x2748774c; 0x34b0bcb5; 0x391c0cb3; 0x4ed8aa4a; 0x5b9cca4f; 0x682e6ff3;
  0x748f82ee; 0x78a5636f; 0x84c87814; 0x8cc70208; 0x90befffa; 0xa4506ceb; 0xbef9a3f7; 0xc67178f2 |]

let sha256 (msg : string) : string =
  let m32 = 0xFFFFFFFF in
  let rotr x n = ((x lsr n) lor (x lsl (32 - n))) land m32 in
  let len = String.length msg in
  let padlen = let r = (len + 9) mod 64 in if r = 0 then 0 else 64 - r in
  let total = len + 9 + padlen in
  let buf = Bytes.make total '\000' in
  Bytes.blit_string msg 0 buf 0 len;
  Bytes.set buf len '\x80';
  let bits = len * 8 in
  for i = 0 to 7 do
    Bytes.set buf (total - 1 - i) (Char.chr ((bits lsr (8 * i)) land 255))
  done;
  let h = [| 0x6a09e667; 0xbb67ae85; 0x3c6ef372; 0xa54ff53a; 0x510e527f; 0x9b05688c; 0x1f83d9ab; 0x5be0cd19 |] in
  let w = Array.make 64 0 in
  for blk = 0 to total / 64 - 1 do
    for t = 0 to 15 do
      let o = blk * 64 + t * 4 in
      w.(t) <- (Char.code (Bytes.get buf o) lsl 24) lor (Char.code (Bytes.get buf (o + 1)) lsl 16)
               lor (Char.code (Bytes.get buf (o + 2)) lsl 8) lor Char.code (Bytes.get buf (o + 3))
    done;
    for t = 16 to 63 do
      let s0 = rotr w.(t - 15) 7 lxor rotr w.(t - 15) 18 lxor (w.(t - 15) lsr 3) in
      let s1 = rotr w.(t - 2) 17 lxor rotr w.(t - 2) 19 lxor (w.(t - 2) lsr 10) in
      w.(t) <- (w.(t - 16) + s0 + w.(t - 7) + s1) land m32
    done;
    let a = ref h.(0) and b = ref h.(1) and c = ref h.(2) and d = ref h.(3)
    and e = ref h.(4) and f = ref h.(5) and g = ref h.(6) and hh = ref h.(7) in
    for t = 0 to 63 do
      let s1 = rotr !e 6 lxor rotr !e 11 lxor rotr !e 25 in
      let ch = (!e land !f) lxor ((lnot !e) land m32 land !g) in
      let t1 = (!hh + s1 + ch + sha_k.(t) + w.(t)) land m32 in
      let s0 = rotr !a 2 lxor rotr !a 13 lxor rotr !a 22 in
      let maj = (!a land !b) lxor (!a land !c) lxor (!b land !c) in
      let t2 = (s0 + maj) land m32 in
      hh := !g; g := !f; f := !e; e := (!d + t1) land m32;
      d := !c; c := !b; b := !a; a := (t1 + t2) land m32
    done;
    h.(0) <- (h.(0) + !a) land m32; h.(1) <- (h.(1) + !b) land m32;
    h.(2) <- (h.(2) + !c) land m32; h.(3) <- (h.(3) + !d) land m32;
    h.(4) <- (h.(4) + !e) land m32; h.(5) <- (h.(5) + !f) land m32;
    h.(6) <- (h.(6) + !g) land m32; h.(7) <- (h.(7) + !hh) land m32
  done;
  String.init 32 (fun i -> Char.chr ((h.(i / 4) lsr (8 * (3 - i mod 4))) land 255))

let model_h (b : n list) : n list = bytes_to_coq (sha256 (coq_to_bytes b))

(* ---- helpers ----------------------------------------------------------------------- *)
let z_of_dec (s : string) : z =
  if String.length s > 0 && s.[0] = '-' then
    (match n_of_dec (String.sub s 1 (String.length s - 1)) with N0 -> Z0 | Npos p -> Zneg p)
  else (match n_of_dec s with N0 -> Z0 | Npos p -> Zpos p)

let cs l = hex_of_string (coq_to_bytes l)
let b2s b = if b then "1" else "0"
let strs v = List.map as_cbytes (as_list v)

let sort_uniq_strings (l : string list) : string list = List.sort_uniq compare l

(* ---- pre-shared keys ----------------------------------------------------------------- *)
(* verdict for one observed class.  When implementation and model differ, the property's own
   predicate is evaluated on the implementation's answer: PROP if it contradicts the property
   text, DIFF otherwise. *)
let psk_eval (keys : n list list) (vals : n list list) (digests : string list) (obs : int) : string =
  let sha_ok = List.for_all2 (fun k d -> sha256 (coq_to_bytes k) = d) keys digests in
  if not sha_ok then "DIFF oracle sha256 differs from crypto/sha256 on a configured key" else
  match psk_new model_h keys with
  | None -> if obs = 7 then "OK" else Printf.sprintf "DIFF constructor model=refuse impl=%d" obs
  | Some hs ->
    if obs = 7 then "DIFF constructor model=accept impl=refuse" else
    let m = int_of_n (psk_class (psk_authenticate model_h hs vals)) in
    let tok = match auth_from_md vals with MdToken t -> Some t | _ -> None in
    let inj = match tok with
      | None -> true
      | Some t ->
        let all = t :: keys in
        List.for_all (fun a -> List.for_all (fun b ->
          (coq_to_bytes a = coq_to_bytes b) || (sha256 (coq_to_bytes a) <> sha256 (coq_to_bytes b))) all) all in
    if not inj then "DIFF sha256 collision among token and keys (hypothesis of psk_accept_iff fails)" else
    let should = match tok with Some t -> bmem t keys | None -> false in
    let tokhex = match tok with Some t -> cs t | None -> "-" in
    if (obs = 0) && not should then
      Printf.sprintf "PROP accepted although the bearer token (x%s) is not one of the configured keys" tokhex
    else if (obs <> 0) && should then
      Printf.sprintf "PROP rejected (class %d) although the bearer token (x%s) is one of the configured keys" obs tokhex
    else if tok = None && obs <> 1 then
      Printf.sprintf "PROP no bearer token but class=%d" obs
    else if m <> obs then Printf.sprintf "DIFF class model=%d impl=%d" m obs
    else "OK"

let psk keys vals digests cls =
  psk_eval (strs keys) (strs vals) (List.map as_bytes (as_list digests)) (as_int cls)

(* ---- OIDC ---------------------------------------------------------------------------- *)
let jv_of (v : value) : jv =
  match as_list v with
  | [t] when as_int t = 4 -> JBadList
  | [t] when as_int t = 5 -> JOther
  | [t; s] when as_int t = 1 -> JStr (as_cbytes s)
  | [t; z] when as_int t = 2 -> JNum (z_of_dec (as_dec z))
  | [t; l] when as_int t = 3 -> JStrs (strs l)
  | _ -> failwith "bad jv"

let token_of (v : value) : token =
  match as_list v with
  | [t] when as_int t = 0 -> TokMalformed
  | [t; a; k; c] when as_int t = 1 ->
    let alg = (match as_int a with 0 -> AlgRS256 | 1 -> AlgOther | _ -> AlgUnavailable) in
    let kid = (match as_list k with
      | [x] when as_int x = 0 -> KidAbsent
      | [x] when as_int x = 1 -> KidNotString
      | [x] when as_int x = 2 -> KidUnknown
      | [x; am; ver] when as_int x = 3 -> KidFound (as_bool am, as_bool ver)
      | _ -> failwith "bad kid") in
    let claims = List.map (fun kv -> match as_list kv with
      | [k; v] -> (as_cbytes k, jv_of v) | _ -> failwith "bad claim") (as_list c) in
    TokParsed (alg, kid, claims)
  | _ -> failwith "bad token"

let table_of (v : value) : (string * token) list =
  List.map (fun e -> match as_list e with
    | [s; t] -> (as_bytes s, token_of t) | _ -> failwith "bad table") (as_list v)

let parse_of (table : (string * token) list) (t : n list) : token =
  match List.assoc_opt (coq_to_bytes t) table with Some tk -> tk | None -> TokMalformed

(* header values are written around the first table token: (1 before after) | (0 value) *)
let vals_of (table : (string * token) list) (v : value) : n list list =
  let tok0 = match table with (s, _) :: _ -> s | [] -> "" in
  List.map (fun v -> match as_list v with
    | [k; s] when as_int k = 0 -> as_cbytes s
    | [k; a; b] when as_int k = 1 -> bytes_to_coq (as_bytes a ^ tok0 ^ as_bytes b)
    | _ -> failwith "bad header value") (as_list v)

let missing_fields (v : validity) : string =
  String.concat "," (List.filter_map (fun (name, ok) -> if ok then None else Some name)
    [ ("bearer-header", v.vy_bearer); ("well-formed", v.vy_wellformed); ("alg=RS256", v.vy_alg);
      ("key-in-JWKS", v.vy_key); ("signature", v.vy_sig); ("exp-present-and-not-passed", v.vy_exp);
      ("iat-not-in-future", v.vy_iat); ("audience", v.vy_aud); ("issuer-or-alias", v.vy_iss);
      ("allowed-subject", v.vy_sub) ])

(* the property's own predicate applied to an observed class *)
let oidc_prop (_cfg : oidc_cfg) (v : validity) (obs : int) : string =
  let acc = (obs = 0) in
  let lit = property_literal v in
  if acc && not lit then
    (* includes an acceptance through an empty alias / subject entry (repaired by 8b29193) *)
    "PROP accepted although the property requires: " ^ missing_fields v
  else if (not acc) && lit && extra_ok v then
    Printf.sprintf "PROP rejected (class %d) although everything the property requires (and nbf / sub-type) holds" obs
  else "OK"

let is_prefix p s = String.length s >= String.length p && String.sub s 0 (String.length p) = p

(* verdict for one observed answer given the model's outcome for that call *)
let oidc_eval (cfg : oidc_cfg) (out : oidc_outcome) (v : validity) (obs : int)
    (principal : (string * string * string list) option) : string =
  let m = int_of_n (oidc_class out) in
  if not (cfg_wf cfg) then "DIFF configuration accepted by the constructor is not cfg_wf" else
  if decide v <> accepted out then "DIFF decision table disagrees with oidc_authenticate" else
  let p = oidc_prop cfg v obs in
  if m <> obs then
    (if is_prefix "PROP" p then p else Printf.sprintf "DIFF class model=%d impl=%d" m obs)
  else
    let principal_diff = match out, principal with
      | OAccept pr, Some (is, ic, isc) ->
        let ms = cs pr.p_subject and mc = cs pr.p_client_id in
        let msc = sort_uniq_strings (List.map cs pr.p_scopes) in
        let isc = sort_uniq_strings isc in
        if ms <> is then Some (Printf.sprintf "subject model=%s impl=%s" ms is)
        else if mc <> ic then Some (Printf.sprintf "client_id model=%s impl=%s" mc ic)
        else if msc <> isc then Some (Printf.sprintf "scopes model=[%s] impl=[%s]" (String.concat "," msc) (String.concat "," isc))
        else None
      | _ -> None in
    match principal_diff with Some d -> "DIFF " ^ d | None -> p

let principal_of osub ocid oscopes =
  (hex_of_string (as_bytes osub), hex_of_string (as_bytes ocid),
   List.map (fun v -> hex_of_string (as_bytes v)) (as_list oscopes))

let oidc main aliases aud subjects cic now vals table cls osub ocid oscopes =
  let obs = as_int cls in
  let table = table_of table in
  let parse = parse_of table in
  let vals = vals_of table vals in
  let now = z_of_dec (as_dec now) in
  match oidc_new (as_cbytes main) (strs aliases) (as_cbytes aud) (strs subjects) (strs cic) with
  | None -> if obs = 7 then "OK" else Printf.sprintf "DIFF constructor model=refuse impl=%d" obs
  | Some cfg ->
    if obs = 7 then "DIFF constructor model=accept impl=refuse" else
    oidc_eval cfg (oidc_authenticate parse cfg now vals) (validity_of parse cfg now vals) obs
      (Some (principal_of osub ocid oscopes))

(* ---- histories ------------------------------------------------------------------------ *)
(* worst verdict of a list: PROP > DIFF > KNOWN > OK *)
let worst (vs : string list) : string =
  let find p = List.find_opt (is_prefix p) vs in
  match find "PROP" with Some v -> v | None ->
  match find "DIFF" with Some v -> v | None ->
  match find "KNOWN" with Some v -> v | None -> "OK"

let tag_step i who v =
  if v = "OK" then v else
  let kind, rest = (match String.index_opt v ' ' with
    | Some j -> (String.sub v 0 j, String.sub v j (String.length v - j)) | None -> (v, "")) in
  if kind = "KNOWN" then v else Printf.sprintf "%s step %d (%s):%s" kind i who rest

(* one authenticator + one AuthFunc instance, a sequence of presentations.  The model's answers
   are those of oidc_run (= the single-call answers, theorem c27_oidc_stateless); every observed
   answer (persistent middleware, persistent Authenticate, fresh instance) is judged against
   them, and a persistent answer that differs from the fresh instance's is a PROP failure. *)
let oidc_hist main aliases aud subjects cic steps =
  match oidc_new (as_cbytes main) (strs aliases) (as_cbytes aud) (strs subjects) (strs cic) with
  | None -> "DIFF history on a refused configuration"
  | Some cfg ->
    let steps = List.map (fun st -> match as_list st with
      | [now; vals; table; amb; mw; cd; cfm; cfd] ->
        let table = table_of table in
        (z_of_dec (as_dec now), vals_of table vals, table, as_bool amb, as_list mw, as_int cd, as_int cfm, as_int cfd)
      | _ -> failwith "bad step") (as_list steps) in
    let table = List.concat_map (fun (_, _, t, _, _, _, _, _) -> t) steps in
    let parse = parse_of table in
    let outs = oidc_run parse cfg (List.map (fun (now, vals, _, _, _, _, _, _) -> (now, vals)) steps) in
    let verdicts = List.concat (List.mapi (fun i ((now, vals, _, amb, mw, cd, cfm, cfd), out) ->
      if amb then [] else
      let v = validity_of parse cfg now vals in
      let (cm, pr) = (match mw with
        | [c; s; ci; sc] -> (as_int c, Some (principal_of s ci sc)) | _ -> failwith "bad mw") in
      let stateless =
        if cm <> cfm then
          [Printf.sprintf "PROP step %d: the long-lived middleware answered class %d, a fresh authenticator at the same time class %d (authn_stateless)" i cm cfm]
        else if cd <> cfd then
          [Printf.sprintf "PROP step %d: the long-lived authenticator answered class %d, a fresh one at the same time class %d (authn_stateless)" i cd cfd]
        else [] in
      [ tag_step i "middleware, long-lived" (oidc_eval cfg out v cm pr);
        tag_step i "Authenticate, long-lived" (oidc_eval cfg out v cd None);
        tag_step i "middleware, fresh" (oidc_eval cfg out v cfm None);
        tag_step i "Authenticate, fresh" (oidc_eval cfg out v cfd None) ] @ stateless)
      (List.combine steps outs)) in
    worst verdicts

let psk_hist steps =
  let steps = List.map (fun st -> match as_list st with
    | [keys; digests; vals; cm; cd; cf] ->
      (strs keys, List.map as_bytes (as_list digests), strs vals, as_int cm, as_int cd, as_int cf)
    | _ -> failwith "bad step") (as_list steps) in
  let outs = psk_run model_h (List.map (fun (k, _, v, _, _, _) -> (k, v)) steps) in
  let verdicts = List.concat (List.mapi (fun i ((keys, digests, vals, cm, cd, cf), out) ->
    let m = (match out with None -> 7 | Some o -> int_of_n (psk_class o)) in
    let single = (match psk_new model_h keys with
      | None -> 7 | Some hs -> int_of_n (psk_class (psk_authenticate model_h hs vals))) in
    (if m <> single then ["DIFF psk_run differs from the single-call answer"] else []) @
    (if cm <> cf || cd <> cf then
       [Printf.sprintf "PROP step %d: long-lived instance answered middleware=%d Authenticate=%d, a fresh instance %d (authn_stateless)" i cm cd cf]
     else []) @
    [ tag_step i "middleware, long-lived" (psk_eval keys vals digests cm);
      tag_step i "Authenticate, long-lived" (psk_eval keys vals digests cd);
      tag_step i "fresh" (psk_eval keys vals digests cf) ])
    (List.combine steps outs)) in
  worst verdicts

(* ---- cross-check of extraction ------------------------------------------------------------ *)
(* With ORACLE_DUMP=<file> every value the extracted model computes for a case is appended to
   that file BEFORE any comparison with the implementation; bin/coqreplay_c27.py recomputes the
   same numbers inside Coq with vm_compute (SHA-256 there is the table of digests of the record
   plus the digests of the token candidates) and compares. *)
let dump_chan = match Sys.getenv_opt "ORACLE_DUMP" with
  | Some p when p <> "" -> Some (open_out_gen [Open_append; Open_creat] 0o644 p)
  | _ -> None
let d_hsh (l : n list) : int =
  List.fold_left (fun acc b -> (acc * 257 + int_of_n b + 1) mod 1000000007) 0 l
let d_nh (l : n list) : int list = [List.length l; d_hsh l]
let d_bool b = if b then 1 else 0
let d_md = function
  | MdNoHeader -> [0] | MdBadString -> [1] | MdWrongScheme -> [2] | MdToken t -> 3 :: d_nh t
let d_reason = function
  | RMalformed -> 0 | RAlgUnavailable -> 1 | RAlgNotAllowed -> 2 | RKey -> 3 | RSignature -> 4
  | RClaims -> 5 | RIssuer -> 6 | RSubject -> 7 | RSubType -> 8
let d_out = function
  | OAccept p -> 0 :: d_nh p.p_subject @ d_nh p.p_client_id @ (List.length p.p_scopes :: List.concat_map d_nh p.p_scopes)
  | OMissingBearer -> [1]
  | OInvalid r -> [2; d_reason r]
let d_val (v : validity) : int list =
  List.map d_bool [ v.vy_bearer; v.vy_wellformed; v.vy_alg; v.vy_key; v.vy_sig; v.vy_exp; v.vy_nbf;
                    v.vy_iat; v.vy_aud; v.vy_iss; v.vy_sub; v.vy_sub_wf;
                    decide v; property_literal v; extra_ok v ]
let d_psk_class = function None -> 7 | Some o -> int_of_n (psk_class o)

let dump_values (vs : value list) : int list =
  match vs with
  | I "1" :: keys :: vals :: _ :: _ :: [] ->
    let keys = strs keys and vals = strs vals in
    let md = auth_from_md vals in
    d_md md
    @ (match psk_new model_h keys with
       | None -> [0; 7]
       | Some hs -> [1; int_of_n (psk_class (psk_authenticate model_h hs vals))])
    @ [d_bool (match md with MdToken t -> bmem t keys | _ -> false)]
  | I "2" :: main :: aliases :: aud :: subjects :: cic :: now :: vals :: table :: _ ->
    let table = table_of table in
    let parse = parse_of table in
    let vals = vals_of table vals in
    let now = z_of_dec (as_dec now) in
    (match oidc_new (as_cbytes main) (strs aliases) (as_cbytes aud) (strs subjects) (strs cic) with
     | None -> [0]
     | Some cfg ->
       1 :: d_md (auth_from_md vals) @ d_out (oidc_authenticate parse cfg now vals)
       @ d_val (validity_of parse cfg now vals))
  | I "3" :: main :: aliases :: aud :: subjects :: cic :: steps :: [] ->
    let steps = List.map (fun st -> match as_list st with
      | now :: vals :: table :: _ ->
        let table = table_of table in (z_of_dec (as_dec now), vals_of table vals, table)
      | _ -> failwith "bad step") (as_list steps) in
    let parse = parse_of (List.concat_map (fun (_, _, t) -> t) steps) in
    (match oidc_new (as_cbytes main) (strs aliases) (as_cbytes aud) (strs subjects) (strs cic) with
     | None -> [0]
     | Some cfg -> 1 :: List.concat_map d_out (oidc_run parse cfg (List.map (fun (n, v, _) -> (n, v)) steps)))
  | I "4" :: steps :: [] ->
    let h = List.map (fun st -> match as_list st with
      | keys :: _ :: vals :: _ -> (strs keys, strs vals) | _ -> failwith "bad step") (as_list steps) in
    List.map d_psk_class (psk_run model_h h)
  | _ -> []

let f0 _id vs =
  match vs with
  | I "1" :: keys :: vals :: digests :: cls :: [] -> psk keys vals digests cls
  | I "2" :: main :: aliases :: aud :: subjects :: cic :: now :: vals :: table :: cls :: osub :: ocid :: oscopes :: [] ->
    oidc main aliases aud subjects cic now vals table cls osub ocid oscopes
  | I "3" :: main :: aliases :: aud :: subjects :: cic :: steps :: [] ->
    oidc_hist main aliases aud subjects cic steps
  | I "4" :: steps :: [] -> psk_hist steps
  | _ -> "DIFF malformed-record"

let f id vs =
  (match dump_chan with
   | Some ch ->
     output_string ch (id ^ " " ^ String.concat " " (List.map string_of_int (dump_values vs)) ^ "\n")
   | None -> ());
  f0 id vs

let () = run_oracle f
