(* C24 oracle: recomputes every recorded cache key with the extracted model (Codec/KeyEnc.v)
   and evaluates the property predicate on pairs:  keys equal  <=>  inputs semantically equal.

   DIFF   the implementation's bytes / digest differ from the model's
   PROP   the pair predicate fails on the implementation's keys
   KNOWN  the pair predicate fails in a way the model reproduces (flag computed from the model)

   Trusted here: record parsing, the semantic-equality decision on the abstract inputs
   (structural comparison after sorting struct fields / multisets), and xxhash64 (the digest
   is outside the Coq model: the model takes the hash as a parameter). *)

(* ---------------------------------------------------------------- xxhash64 with seed *)
let p1 = 0x9E3779B185EBCA87L
let p2 = 0xC2B2AE3D27D4EB4FL
let p3 = 0x165667B19E3779F9L
let p4 = 0x85EBCA77C2B2AE63L
let p5 = 0x27D4EB2F165667C5L
let ( +% ) = Int64.add
let ( *% ) = Int64.mul
let ( ^% ) = Int64.logxor
let rotl x r = Int64.logor (Int64.shift_left x r) (Int64.shift_right_logical x (64 - r))
let shr x r = Int64.shift_right_logical x r
let read64 (s : String.t) i =
  let b k = Int64.shift_left (Int64.of_int (Char.code s.[i + k])) (8 * k) in
  List.fold_left Int64.logor 0L [b 0; b 1; b 2; b 3; b 4; b 5; b 6; b 7]
let read32 (s : String.t) i =
  let b k = Int64.shift_left (Int64.of_int (Char.code s.[i + k])) (8 * k) in
  List.fold_left Int64.logor 0L [b 0; b 1; b 2; b 3]
let round acc input = (rotl (acc +% (input *% p2)) 31) *% p1
let merge_round acc v = ((acc ^% (round 0L v)) *% p1) +% p4
let xxh64 (seed : int64) (s : String.t) : int64 =
  let n = String.length s in
  let pos = ref 0 in
  let h =
    if n >= 32 then begin
      let v1 = ref (seed +% p1 +% p2) and v2 = ref (seed +% p2) and v3 = ref seed
      and v4 = ref (Int64.sub seed p1) in
      while n - !pos >= 32 do
        v1 := round !v1 (read64 s !pos);
        v2 := round !v2 (read64 s (!pos + 8));
        v3 := round !v3 (read64 s (!pos + 16));
        v4 := round !v4 (read64 s (!pos + 24));
        pos := !pos + 32
      done;
      let h = (rotl !v1 1) +% (rotl !v2 7) +% (rotl !v3 12) +% (rotl !v4 18) in
      let h = merge_round h !v1 in
      let h = merge_round h !v2 in
      let h = merge_round h !v3 in
      merge_round h !v4
    end else seed +% p5 in
  let h = ref (h +% Int64.of_int n) in
  while n - !pos >= 8 do
    h := !h ^% (round 0L (read64 s !pos));
    h := ((rotl !h 27) *% p1) +% p4;
    pos := !pos + 8
  done;
  if n - !pos >= 4 then begin
    h := !h ^% ((read32 s !pos) *% p1);
    h := ((rotl !h 23) *% p2) +% p3;
    pos := !pos + 4
  end;
  while !pos < n do
    h := !h ^% ((Int64.of_int (Char.code s.[!pos])) *% p5);
    h := (rotl !h 11) *% p1;
    incr pos
  done;
  let h = !h in
  let h = (h ^% (shr h 33)) *% p2 in
  let h = (h ^% (shr h 29)) *% p3 in
  h ^% (shr h 32)

let u64_of_dec (d : String.t) : int64 = Scanf.sscanf d "%Lu" (fun x -> x)
let dec_of_u64 (x : int64) : String.t = Printf.sprintf "%Lu" x
let hash_of_seed (seed : int64) : n list -> n =
  fun b -> n_of_dec (dec_of_u64 (xxh64 seed (coq_to_bytes b)))

(* ---------------------------------------------------------------- extraction cross-check dump *)
(* With ORACLE_DUMP=<file> every byte string the EXTRACTED model computes for a case is appended to
   that file as numbers (length and all bytes when <= 64 bytes, else length, byte sum and a
   positional checksum), together with the model-side pair relations; bin/coqreplay_c24.py
   recomputes the same numbers inside Coq with vm_compute.  Digests are not computable in Coq:
   keys that embed a digest are dumped with the constant hash 0 and with the recorded digest. *)
let dump_chan = match Sys.getenv_opt "ORACLE_DUMP" with
  | Some p when p <> "" -> Some (open_out_gen [Open_append; Open_creat] 0o644 p)
  | _ -> None
let summ (l : n list) : int list =
  let len = List.length l in
  if len <= 64 then len :: List.map int_of_n l
  else [len; List.fold_left (fun a x -> a + int_of_n x) 0 l;
        List.fold_left (fun c x -> (c * 31 + int_of_n x) mod 1000000007) 7 l]
let bi b = if b then 1 else 0
let dump (id : String.t) (nums : int list) : unit =
  match dump_chan with
  | Some ch -> output_string ch (id ^ " " ^ String.concat " " (List.map string_of_int nums) ^ "\n")
  | None -> ()
let hash0 : n list -> n = fun _ -> N0

(* ---------------------------------------------------------------- parsing the abstract inputs *)
type npb = NNull | NNum of String.t | NStr of String.t | NBool of bool | NUnset
         | NList of npb list | NStruct of (String.t * npb) list

let rec parse_pb (v : value) : pbval * npb =
  match as_list v with
  | [I "0"] -> (PNull, NNull)
  | [I "1"; I d] -> (PNum (n_of_dec d), NNum d)
  | [I "2"; B s] -> (PStr (bytes_to_coq s), NStr s)
  | [I "3"; b] -> (PBool (as_bool b), NBool (as_bool b))
  | [I "4"] -> (PUnset, NUnset)
  | I "5" :: l -> let ps = List.map parse_pb l in (PList (List.map fst ps), NList (List.map snd ps))
  | I "6" :: l -> let (a, b) = parse_fields l in (PStruct a, b)
  | _ -> failwith "bad pb value"
and parse_fields (l : value list) : (n list * pbval) list * npb =
  let rec go l = match l with
    | [] -> []
    | B k :: v :: rest -> let (c, n) = parse_pb v in (k, c, n) :: go rest
    | _ -> failwith "bad fields" in
  let fs = go l in
  (List.map (fun (k, c, _) -> (bytes_to_coq k, c)) fs,
   NStruct (List.sort compare (List.map (fun (k, _, n) -> (k, n)) fs)))

type ntuple = String.t * String.t * String.t * (String.t * npb) option

let parse_tuple (v : value) : tkey * ntuple =
  match as_list v with
  | [B o; B r; B u; I "0"] ->
    ({ tk_obj = bytes_to_coq o; tk_rel = bytes_to_coq r; tk_user = bytes_to_coq u; tk_cond = None }, (o, r, u, None))
  | [B o; B r; B u; I "1"; B name; L fs] ->
    let (cf, nf) = parse_fields fs in
    ({ tk_obj = bytes_to_coq o; tk_rel = bytes_to_coq r; tk_user = bytes_to_coq u;
       tk_cond = Some (bytes_to_coq name, cf) }, (o, r, u, Some (name, nf)))
  | _ -> failwith "bad tuple"

let hx s = hex_of_string s
let cs l = hex_of_string (coq_to_bytes l)

(* first non-OK verdict: PROP, then DIFF, then KNOWN *)
let combine (vs : String.t list) : String.t =
  let pick p = List.find_opt (fun v -> String.length v >= String.length p && String.sub v 0 (String.length p) = p) vs in
  (* the pair predicate only looks at the implementation's keys and the abstract inputs, so a
     PROP verdict stands on its own and is the more informative one *)
  match pick "PROP" with Some v -> v | None ->
  match pick "DIFF" with Some v -> v | None ->
  match pick "KNOWN" with Some v -> v | None -> "OK"

let cmp name model impl = if model = impl then "OK" else Printf.sprintf "DIFF %s model=%s impl=%s" name model impl

let rec take k l = if k <= 0 then [] else match l with [] -> [] | x :: r -> x :: take (k - 1) r
let shorten s = if String.length s > 160 then String.sub s 0 160 ^ "..." else s
let cmpb name model impl =
  if model = impl then "OK" else Printf.sprintf "DIFF %s model=%s impl=%s" name (shorten (hx model)) (shorten (hx impl))

(* ---------------------------------------------------------------- kind 3: check inputs *)
type check_side = {
  c_sem : String.t list * npb * ntuple list;       (* canonical semantic value *)
  c_inv_sem : String.t list * npb * ntuple list;
  c_key : String.t; c_inv : String.t; c_tiefree : bool; c_verdict : String.t;
  c_dump : int list; c_invb : n list;
}

let check_side (seed : int64) (v : value) : check_side =
  match as_list v with
  | [B store; B model; B obj; B rel; B user; L ctx; L tuples; I inv; B key; _via; L perm; B replica] ->
    let (cctx, nctx) = parse_fields ctx in
    let ts = List.map parse_tuple tuples in
    let cts = List.map fst ts and nts = List.sort compare (List.map snd ts) in
    let hash = hash_of_seed seed in
    let tf = tie_free cts in
    let n = List.length cts in
    let b = bytes_to_coq in
    let invb = inv_bytes (b store) (b model) cctx cts in
    let c_dump = summ invb @ summ (pkey_bytes (KCheck (b store, b obj, b rel, b user, n_of_dec inv))) @ [bi tf] in
    let v_inv =
      if n > 12 && not tf then "OK"   (* pdqsort's order among tied, differently encoded tuples is not modelled *)
      else begin
        let mb = coq_to_bytes (inv_bytes (b store) (b model) cctx cts) in
        let v = cmp "InvariantCacheKey" (dec_of_n (invariant_key hash (b store) (b model) cctx cts)) inv in
        if v = "OK" then v
        else if mb <> replica then cmpb "InvariantCacheKey digest and pre-hash bytes (driver replica)" mb replica
        else v ^ " (pre-hash bytes agree with the driver's replica)"
      end in
    let v_key = cmpb "CheckCacheKey" (coq_to_bytes (pkey_bytes (KCheck (b store, b obj, b rel, b user, n_of_dec inv)))) key in
    let v_batch =
      if n > 12 && not tf then "OK"
      else cmpb "CheckCacheKey(InvariantCacheKey)" (coq_to_bytes (batch_key hash (b store) (b model) (b obj) (b rel) (b user) cctx cts)) key in
    let perm = List.map as_int perm in
    let v_sort =
      if n > 12 then "OK" else begin
        let model = List.map fst (go_isort (fun a b -> tk_less (snd a) (snd b)) (List.mapi (fun i t -> (i, t)) cts)) in
        if model = perm then "OK"
        else Printf.sprintf "DIFF order of sorted contextual tuples model=%s impl=%s"
            (String.concat "," (List.map string_of_int model)) (String.concat "," (List.map string_of_int perm))
      end in
    let wf = List.for_all tk_wf cts && pb_wf (PStruct cctx) in
    let v_wf = if wf then "OK" else "DIFF input outside the modelled domain (number bits >= 2^64)" in
    { c_sem = ([store; model; obj; rel; user], nctx, nts);
      c_inv_sem = ([store; model], nctx, nts);
      c_key = key; c_inv = inv; c_tiefree = tf; c_verdict = combine [v_sort; v_inv; v_key; v_batch; v_wf];
      c_dump; c_invb = invb }
  | _ -> failwith "bad check side"

let pair_pred what keys_eq sem_eq ~(known : String.t option) : String.t =
  if keys_eq && not sem_eq then Printf.sprintf "PROP %s: semantically different inputs have the same key" what
  else if sem_eq && not keys_eq then
    (match known with
     | Some flag -> Printf.sprintf "KNOWN %s %s: semantically equal inputs have different keys" flag what
     | None -> Printf.sprintf "PROP %s: semantically equal inputs have different keys" what)
  else "OK"

(* ---------------------------------------------------------------- kinds 4-6: iterator filters *)
type iter_side = {
  i_outer : String.t list;
  i_wf : bool;
  i_ent : String.t list; i_ent_str : String.t list;  (* structured entries / the strings the code builds *)
  i_conds : String.t list;
  i_oids : String.t list option;
  i_key : String.t; i_verdict : String.t; i_dump : int list; i_stage1 : n list;
}

let strs l = List.map as_bytes (as_list l)
let cstrs l = List.map bytes_to_coq l

let iter_side (kind : int) (seed : int64) (v : value) : iter_side =
  let hash = hash_of_seed seed in
  let b = bytes_to_coq in
  match kind, as_list v with
  | 4, [B store; B ot; B rel; L uf; L oids; conds; B key] ->
    let ufp = List.map (fun e -> match as_list e with [B o; B r] -> (o, r) | _ -> failwith "uf") uf in
    let cuf = List.map (fun (o, r) -> (b o, b r)) ufp in
    let oid = match oids with [I "0"] -> None | [I "1"; l] -> Some (strs l) | _ -> failwith "oids" in
    let conds = strs conds in
    let model = rswu_key hash (b store) (b ot) (b rel) cuf (Option.map cstrs oid) (cstrs conds) in
    { i_outer = [store; ot; rel]; i_wf = List.for_all uf_wf cuf;
      i_ent = List.map (fun (o, r) -> hx o ^ "/" ^ hx r) ufp;
      i_ent_str = List.map (fun e -> cs (uf_str e)) cuf;
      i_conds = conds; i_oids = oid; i_key = key;
      i_verdict = cmpb "ReadStartingWithUserKey" (coq_to_bytes model) key;
      i_stage1 = rswu_stage1 cuf (Option.map cstrs oid) (cstrs conds);
      i_dump = summ (rswu_stage1 cuf (Option.map cstrs oid) (cstrs conds))
               @ summ (rswu_key hash0 (b store) (b ot) (b rel) cuf (Option.map cstrs oid) (cstrs conds)) }
  | 5, [B store; B obj; B rel; L refs; conds; B key] ->
    let rp = List.map (fun e -> match as_list e with
        | [B t; I k; B r] -> (t, int_of_string k, r) | _ -> failwith "ref") refs in
    let crefs = List.map (fun (t, k, r) -> (b t, (match k with 0 -> RRel (b r) | 1 -> RWild | _ -> RNone))) rp in
    let conds = strs conds in
    let model = rut_key hash (b store) (b obj) (b rel) crefs (cstrs conds) in
    { i_outer = [store; obj; rel]; i_wf = List.for_all ref_wf crefs;
      i_ent = List.map (fun (t, k, r) -> Printf.sprintf "%s/%d/%s" (hx t) k (hx r)) rp;
      i_ent_str = List.map (fun e -> cs (ref_str e)) crefs;
      i_conds = conds; i_oids = None; i_key = key;
      i_verdict = cmpb "ReadUsersetTuplesKey" (coq_to_bytes model) key;
      i_stage1 = rut_stage1 crefs (cstrs conds);
      i_dump = summ (rut_stage1 crefs (cstrs conds)) @ summ (rut_key hash0 (b store) (b obj) (b rel) crefs (cstrs conds)) }
  | 6, [B store; B obj; B rel; B user; conds; B key] ->
    let conds = strs conds in
    let model = read_key hash (b store) (b obj) (b rel) (b user) (cstrs conds) in
    { i_outer = [store; obj; rel; user]; i_wf = true; i_ent = []; i_ent_str = [];
      i_conds = conds; i_oids = None; i_key = key;
      i_verdict = cmpb "ReadKey" (coq_to_bytes model) key;
      i_stage1 = read_stage1 (cstrs conds);
      i_dump = summ (read_stage1 (cstrs conds)) @ summ (read_key hash0 (b store) (b obj) (b rel) (b user) (cstrs conds)) }
  | _ -> failwith "bad iterator side"

(* ---------------------------------------------------------------- kind 7: plain keys *)
let plain_side (v : value) : (String.t * String.t list) * String.t * String.t * n list =
  match as_list v with
  | [I ctor; L args; B key] ->
    let b v = bytes_to_coq (as_bytes v) in
    let k = match ctor, args with
      | "1", [s] -> KChangelog (b s)
      | "2", [s] -> KInvalidIter (b s)
      | "3", [s; o; r] -> KInvalidIterOR (b s, b o, b r)
      | "4", [s; u; t] -> KInvalidIterUOT (b s, b u, b t)
      | "5", [s; m] -> KModel (b s, b m)
      | "6", [s; m] -> KWeightedGraph (b s, b m)
      | "7", [s; m; o; u; rd; et; tl; ts; inv] -> KEdge (b s, b m, b o, b u, b rd, as_n et, b tl, b ts, as_n inv)
      | "8", [s; o; r; u; inv] -> KCheck (b s, b o, b r, b u, as_n inv)
      | _ -> failwith "bad plain ctor" in
    let sem = (ctor, List.map (fun a -> match a with B s -> "x" ^ hx s | I d -> d | _ -> "?") args) in
    let v = if not (pkey_wf k) then "DIFF input outside the modelled domain"
      else cmpb ("key ctor " ^ ctor) (coq_to_bytes (pkey_bytes k)) key in
    (sem, key, v, pkey_bytes k)
  | _ -> failwith "bad plain side"

(* ---------------------------------------------------------------- main dispatch *)
let f _id vs =
  match vs with
  | [I "1"; sv; B obs] ->
    let rec parse_ser v = match as_list v with
      | [I "0"; B s] -> SBytes (bytes_to_coq s)
      | [I "1"; n] -> SByte (as_n n)
      | [I "2"; n] -> SBool (as_bool n)
      | [I "3"] -> SNull
      | [I "4"] -> SUnset
      | [I "5"; n] -> SU64 (as_n n)
      | [I "6"; B s] -> SString (bytes_to_coq s)
      | I "7" :: l -> SArray (List.map parse_ser l)
      | I "8" :: l ->
        let rec pairs l = match l with [] -> [] | k :: v :: r -> (parse_ser k, parse_ser v) :: pairs r | _ -> failwith "map" in
        SMap (pairs l)
      | [I "9"; k; v] -> SPair (parse_ser k, parse_ser v)
      | _ -> failwith "bad ser" in
    let s = parse_ser sv in
    dump _id (summ (enc_ser s));
    if not (ser_wf s) then "DIFF input outside the modelled domain"
    else cmpb "Serializable.WriteTo" (coq_to_bytes (enc_ser s)) obs
  | [I "2"; top; pv; B obs] ->
    let (c, _) = parse_pb pv in
    let o = if as_int top = 0 then None else Some c in
    dump _id (summ (pb_write_opt o) @ summ (enc_pb c));
    let model = coq_to_bytes (pb_write_opt o) in
    let fuel = match pb_write_outcome c with OutOfFuel -> "DIFF model ran out of fuel" | Bytes _ -> "OK" in
    let spec = if as_int top = 0 then "OK" else cmpb "recursive specification vs stack walk" (coq_to_bytes (enc_pb c)) model in
    combine [fuel; cmpb "PbValue.WriteTo" model obs; spec]
  | [I "3"; I seed; a; b] ->
    let seed = u64_of_dec seed in
    let sa = check_side seed a and sb = check_side seed b in
    dump _id (sa.c_dump @ sb.c_dump @ [bi (sa.c_invb = sb.c_invb)]);
    let known = if sa.c_tiefree && sb.c_tiefree then None else Some "ctx_tuple_tie_order" in
    combine [sa.c_verdict; sb.c_verdict;
             pair_pred "InvariantCacheKey" (sa.c_inv = sb.c_inv) (sa.c_inv_sem = sb.c_inv_sem) ~known;
             pair_pred "CheckCacheKey" (sa.c_key = sb.c_key) (sa.c_sem = sb.c_sem) ~known]
  | [I k; I seed; a; b] when k = "4" || k = "5" || k = "6" ->
    let seed = u64_of_dec seed in
    let kind = int_of_string k in
    let sa = iter_side kind seed a and sb = iter_side kind seed b in
    dump _id (sa.i_dump @ sb.i_dump @ [bi (sa.i_stage1 = sb.i_stage1)]);
    let keys_eq = sa.i_key = sb.i_key in
    (* user-filter / reference entries: structured when the names of BOTH sides are well-formed
       (the theorems' names_wellformed hypothesis), else as the strings the code builds (which is
       also how the stores interpret a user filter) *)
    let ent x = if sa.i_wf && sb.i_wf then x.i_ent else x.i_ent_str in
    let multi x = (List.sort compare (ent x), List.sort compare x.i_conds) in
    let set x = (List.sort_uniq compare (ent x), List.sort_uniq compare x.i_conds) in
    let same_but_oids = sa.i_outer = sb.i_outer && multi sa = multi sb in
    let sem_eq = same_but_oids && sa.i_oids = sb.i_oids in
    let set_eq = sa.i_outer = sb.i_outer && set sa = set sb && sa.i_oids = sb.i_oids in
    let ov o = match o with None -> [] | Some l -> l in
    let pred =
      if keys_eq && not sem_eq then
        (if same_but_oids && ov sa.i_oids = ov sb.i_oids
         then "KNOWN rswu_nil_empty_objectids_conflated nil and empty ObjectIDs give the same ReadStartingWithUser key"
         else "PROP iterator key: semantically different filters have the same key")
      else if sem_eq && not keys_eq then "PROP iterator key: equal filters (up to order) have different keys"
      else if (not keys_eq) && set_eq then
        "KNOWN filter_duplicates_distinct_keys filters equal as sets (duplicated entries) have different keys"
      else "OK" in
    combine [sa.i_verdict; sb.i_verdict; pred]
  | [I "7"; a; b] ->
    let (sema, ka, va, ba) = plain_side a and (semb, kb, vb, bb) = plain_side b in
    dump _id (summ ba @ summ bb @ [bi (ba = bb)]);
    combine [va; vb; pair_pred "plain key" (ka = kb) (sema = semb) ~known:None]
  | [I "8"; L input; L perm; L less] ->
    let ts = List.map (fun v -> fst (parse_tuple v)) input in
    let n = List.length ts in
    let arr = Array.of_list ts in
    let perm = List.map as_int perm in
    dump _id (List.map fst (go_isort (fun a b -> tk_less (snd a) (snd b)) (List.mapi (fun i t -> (i, t)) ts))
              @ [bi (tie_free ts)]
              @ (if n <= 7 then List.concat (List.map (fun a -> List.map (fun b -> bi (tk_less a b)) ts) ts) else []));
    let v_less =
      if less = [] then "OK" else begin
        let model = List.concat (List.map (fun a -> List.map (fun b -> tk_less a b) ts) ts) in
        if model = List.map as_bool less then "OK" else "DIFF TupleKeys.Less differs from tk_less"
      end in
    let is_perm = List.sort compare perm = List.init n (fun i -> i) in
    let v_sort =
      if not is_perm then "DIFF sort.Sort output is not a permutation of its input"
      else begin
        let indexed = List.mapi (fun i t -> (i, t)) ts in
        let model = List.map fst (go_isort (fun a b -> tk_less (snd a) (snd b)) indexed) in
        if n <= 12 then
          (if model = perm then "OK"
           else Printf.sprintf "DIFF sort order model=%s impl=%s"
               (String.concat "," (List.map string_of_int model)) (String.concat "," (List.map string_of_int perm)))
        else begin
          (* beyond the insertion-sort range: sortedness, and byte equality when the order is unique *)
          let out = List.map (fun i -> arr.(i)) perm in
          let rec sorted l = match l with
            | a :: (b :: _ as r) -> (not (tk_less b a) || tk_less a b) && sorted r
            | _ -> true in
          if not (sorted out) then "DIFF sort.Sort output is not sorted by Less"
          else if tie_free ts && List.concat (List.map enc_tuple out) <> List.concat (List.map enc_tuple (sort_tuples ts))
          then "DIFF sorted tuple bytes differ from the model although the order is unique"
          else "OK"
        end
      end in
    combine [v_less; v_sort]
  | [I "9"; keq; c_nil; c_empty] ->
    let h = hash_of_seed 0L in
    let s = bytes_to_coq "s" in
    let uf = [(bytes_to_coq "user:anne", [])] in
    let model_eq = rswu_key h s s s uf None [] = rswu_key h s s s uf (Some []) [] in
    if model_eq <> as_bool keq then "DIFF nil vs empty ObjectIDs: model and implementation disagree on key equality"
    else if as_bool keq && as_int c_nil <> as_int c_empty then
      Printf.sprintf "KNOWN rswu_nil_empty_objectids_conflated same key, but the memory backend returns %d tuples for nil and %d for empty ObjectIDs"
        (as_int c_nil) (as_int c_empty)
    else "OK"
  | _ -> "DIFF malformed-record"

let () = run_oracle f
