(* C19 oracle.  Record kinds (first value):
     1  generic request case:            class, number of requests
     2  Read with a continuation token:  compared with Sec/NoPanic.v read_request_mem
     3  storage-level memory ReadPage:   compared with read_page_mem (Panic prediction included)
     4  PbValue.WriteTo:                 compared with pb_write_i (bytes, visit count, stack bound)
     5  pkg/tuple string functions:      compared with the *_go models (which can say Panic)
     6  NewAndValidate on a nested rewrite: wire size against the nesting bound
     7  WriteAuthorizationModel (+ follow-up queries): class, class of the write itself,
        abstraction of the model; the hasCycle cost model decides whether an overrun is the listed
        finding, and a model in which it finds a cycle / undefined relation must be rejected
     8  fault injection below the handlers: server (engines), rpc, datastore method, k, panic value
        kind, fired, class, still serving afterwards, recovery site; Sec/NoPanic.v fate_of decides
        which process deaths are the listed findings
   Outcome classes: 0 ok 1 validation 2 client error 3 deadline answer 4 internal error
     5 PANIC escaped the handler 6 panic captured in the handler 7 DEADLINE OVERRUN
     8 MEMORY BLOW-UP 9 PROCESS CRASH 10 transport error.
   PROP = the property's own predicate fails (escaped panic, overrun, blow-up, crash) and the
   model does not attribute it to a listed finding; DIFF = implementation differs from the model;
   KNOWN <flag> = the model computes the trigger of a listed finding.  Finding F5 (negative offset
   token) is repaired in /repo (3cab6a7): a panic on that path is a PROP again. *)

let class_name c = match c with
  | 0 -> "ok" | 1 -> "validation" | 2 -> "client_error" | 3 -> "deadline_answer" | 4 -> "internal_error"
  | 5 -> "PANIC_escaped_handler" | 6 -> "panic_captured_in_handler" | 7 -> "DEADLINE_OVERRUN"
  | 8 -> "MEMORY_BLOWUP" | 9 -> "PROCESS_CRASH" | 10 -> "transport_error" | _ -> "?"

let bad_class c = c = 5 || c = 6 || c = 7 || c = 8 || c = 9

let z_of_dec (s : string) : z =
  let neg = String.length s > 0 && s.[0] = '-' in
  let body = if neg then String.sub s 1 (String.length s - 1) else s in
  match n_of_dec body with
  | N0 -> Z0
  | Npos p -> if neg then Zneg p else Zpos p

let rec seq_n (i : int) (n : int) : n list = if i >= n then [] else n_of_int i :: seq_n (i + 1) n

let cs l = coq_to_bytes l

(* extraction cross-check (bin/coqreplay_c19.py): with ORACLE_DUMP=<file> the values computed by the
   EXTRACTED model are appended to that file as decimal numbers, before any comparison *)
let dump_chan = match Sys.getenv_opt "ORACLE_DUMP" with
  | Some p when p <> "" -> Some (open_out_gen [Open_append; Open_creat] 0o644 p)
  | _ -> None
let dump id (nums : string list) = match dump_chan with
  | Some ch -> Printf.fprintf ch "%s %s\n" id (String.concat " " nums)
  | None -> ()
let si = string_of_int
let sig_ (l : n list) : string list = (* length and byte sum *)
  let s = coq_to_bytes l in [si (String.length s); si (String.fold_left (fun a c -> a + Char.code c) 0 s)]
let zsig (z : z) : string list = match z with Z0 -> ["0"; "0"] | Zpos p -> ["0"; dec_of_pos p] | Zneg p -> ["1"; dec_of_pos p]
let page_sig (m : (n list * z option) option go) : string list =
  match m with
  | Panic -> ["2"; "0"; "0"; "0"; "0"; "0"]
  | OutOfFuel -> ["3"; "0"; "0"; "0"; "0"; "0"]
  | Ok None -> ["0"; "0"; "0"; "0"; "0"; "0"]
  | Ok (Some (items, nx)) ->
    ["1"; si (List.length items); si (List.fold_left (fun a x -> a + int_of_n x) 0 items)]
    @ (match nx with None -> ["0"; "0"; "0"] | Some z -> "1" :: zsig z)

(* ---------------------------------------------------------------- structpb values *)
let rec parse_pb (v : value) : pbval =
  match as_list v with
  | [I "0"] -> PNull
  | [I "1"; I d] -> PNum (n_of_dec d)
  | [I "2"; B s] -> PStr (bytes_to_coq s)
  | [I "3"; b] -> PBool (as_bool b)
  | [I "4"] -> PUnset
  | I "5" :: l -> PList (List.map parse_pb l)
  | I "6" :: l ->
    let rec go l = match l with
      | [] -> []
      | B k :: v :: rest -> (bytes_to_coq k, parse_pb v) :: go rest
      | _ -> failwith "bad fields" in
    PStruct (go l)
  | _ -> failwith "bad pb value"

(* ---------------------------------------------------------------- rewrites *)
let rec parse_rw (v : value) : rw =
  match as_list v with
  | [I "0"] -> RThis
  | [I "1"] -> RTTU
  | [I "2"; i] -> RComputed (n_of_int (as_int i))
  | I "3" :: l -> RNode (List.map parse_rw l)
  | _ -> failwith "bad rewrite"

let rec rw_count (r : rw) : int = match r with RNode cs -> List.fold_left (fun a c -> a + rw_count c) 1 cs | _ -> 1

(* ---------------------------------------------------------------- kind 2 / 3 helpers *)
let next_string (o : z option) (suffix : string) : string =
  match o with None -> "" | Some z -> cs (itoa z) ^ suffix

let is_error_class c = c = 1 || c = 2 || c = 4
let inconclusive c = c = 3 || c = 10

let f cid vs =
  match vs with
  | [I "1"; cl; _; _] ->
    let c = as_int cl in
    if bad_class c then "PROP request outcome " ^ class_name c else "OK"

  | [I "2"; n; hasps; ps; pat; decok; decoded; cl; count; nextok; next] ->
    let n = as_int n and c = as_int cl in
    let hasps = as_bool hasps and pat = as_bool pat and decok = as_bool decok in
    let psz = z_of_dec (as_dec ps) in
    let ps_int = (try int_of_string (as_dec ps) with _ -> max_int) in
    let tok = as_cbytes decoded in
    if c = 7 || c = 8 || c = 9 || c = 6 then "PROP Read with a continuation token: " ^ class_name c
    else if inconclusive c then "OK"
    else if (hasps && (ps_int < 1 || ps_int > 100)) || not pat then
      (if c = 1 then "OK"
       else if c = 5 then "PROP panic on a request the validator should have rejected"
       else "DIFF expected a validation error (page size / token pattern), observed " ^ class_name c)
    else if not decok then
      (if is_error_class c then "OK"
       else if c = 5 then "PROP panic on an undecodable token"
       else "DIFF undecodable token: expected an error, observed " ^ class_name c)
    else begin
      let listing = seq_n 0 (if n < 0 then 0 else n) in
      let m = read_request_mem listing (if hasps then psz else Z0) tok in
      dump cid ("2" :: page_sig m @ [si (if negative_offset_token tok then 1 else 0)]);
      match m with
      | Panic -> "DIFF model inconsistency: the request-level read cannot panic (no_panic_read_request)"
      | OutOfFuel -> "DIFF model out of fuel"
      | Ok None ->
        if c = 5 then "PROP panic where the model predicts an error answer, token \"" ^ String.escaped (cs tok) ^ "\""
        else if is_error_class c then "OK"
        else "DIFF model predicts an error answer, observed " ^ class_name c
      | Ok (Some (items, nx)) ->
        if c = 5 then "PROP panic where the model predicts a page, token \"" ^ String.escaped (cs tok) ^ "\""
        else if c <> 0 then "DIFF model predicts a page, observed " ^ class_name c
        else if n < 0 then "OK"
        else begin
          let want_next = next_string nx "|" in
          let got_next = as_bytes next in
          if List.length items <> as_int count then
            Printf.sprintf "DIFF page length: model %d, implementation %d" (List.length items) (as_int count)
          else if not (as_bool nextok) then "DIFF the returned continuation token does not decode"
          else if want_next <> got_next then
            Printf.sprintf "DIFF next token: model \"%s\", implementation \"%s\"" (String.escaped want_next) (String.escaped got_next)
          else "OK"
        end
    end

  | [I "3"; n; size; from; cl; idx; next] ->
    let n = as_int n and c = as_int cl in
    let from = as_cbytes from in
    let m = read_page_mem (seq_n 0 n) (z_of_dec (as_dec size)) from in
    dump cid ("3" :: page_sig m);
    (match m with
     | Panic ->
       (* only a negative page size (with a non-negative offset) is left: outside the API's reach *)
       if c <> 5 then "DIFF storage ReadPage: model predicts a panic (negative page size), observed " ^ class_name c
       else "OK"
     | OutOfFuel -> "DIFF model out of fuel"
     | Ok None -> if c = 1 then "OK" else if c = 5 then "PROP storage ReadPage panics where the model predicts an error"
       else "DIFF storage ReadPage: model predicts an error, observed " ^ class_name c
     | Ok (Some (items, nx)) ->
       if c = 5 then "PROP storage ReadPage panics where the model predicts a page (From=\"" ^ String.escaped (cs from) ^ "\")"
       else if c <> 0 then "DIFF storage ReadPage: model predicts a page, observed " ^ class_name c
       else begin
         let got = List.map as_int (as_list idx) in
         let want = List.map int_of_n items in
         if got <> want then "DIFF storage ReadPage: page contents differ"
         else if next_string nx "" <> as_bytes next then
           Printf.sprintf "DIFF storage ReadPage next: model \"%s\", implementation \"%s\"" (next_string nx "") (String.escaped (as_bytes next))
         else "OK"
       end)

  | [I "4"; v; nodes; cl; out] ->
    let c = as_int cl in
    if c <> 0 then "PROP PbValue.WriteTo: " ^ class_name c
    else begin
      let pv = parse_pb v in
      let nodes = as_int nodes in
      (if nodes > 1500 then dump cid (["4"; "2"] @ sig_ (enc_pb pv) @ [si (int_of_nat (pb_size pv)); "0"])
       else match pb_write_i pv with
         | Ok r -> dump cid (["4"; "1"] @ sig_ r.wr_bytes @ [si (List.length r.wr_visits); si (int_of_nat r.wr_maxh)])
         | _ -> dump cid ["4"; "0"; "0"; "0"; "0"; "0"]);
      if nodes > 1500 then
        (* deep or wide value: the instrumented walk keeps every path (quadratic memory); compare
           the bytes with the recursive specification, which walk_eq_recursive proves equal *)
        (if cs (enc_pb pv) <> as_bytes out then "DIFF PbValue.WriteTo bytes differ from the model (enc_pb)"
         else if int_of_nat (pb_size pv) <> nodes then "DIFF node count differs from pb_size"
         else "OK")
      else
      match pb_write_i pv with
      | Ok r ->
        if cs r.wr_bytes <> as_bytes out then "DIFF PbValue.WriteTo bytes differ from the model"
        else if List.length r.wr_visits <> nodes then
          Printf.sprintf "DIFF node count: model visits %d, driver counts %d" (List.length r.wr_visits) nodes
        else if r.wr_visits <> rpaths (shape pv) then "DIFF visit order differs from the pre-order of the shape"
        else if int_of_nat r.wr_maxh > nodes then "PROP model stack height above the node count"
        else "OK"
      | _ -> "PROP model walk out of fuel"
    end

  | [I "5"; s; a; b; c; cl; t; id; rel; so1; so2; sr1; sr2; joined] ->
    let cl = as_int cl in
    if cl <> 0 then "PROP pkg/tuple string function: " ^ class_name cl
    else begin
      let s = as_cbytes s in
      let chk name (m : string option) (i : string) =
        match m with
        | None -> Some ("PROP model predicts a panic in " ^ name)
        | Some m -> if m = i then None else Some (Printf.sprintf "DIFF %s model=%s impl=%s" name (hex_of_string m) (hex_of_string i)) in
      let up = (match to_user_parts_go s with Ok ((x, y), z) -> Some (cs x, cs y, cs z) | _ -> None) in
      let so = (match split_object_go s with Ok (x, y) -> Some (cs x, cs y) | _ -> None) in
      let sr = (match split_object_relation_go s with Ok (x, y) -> Some (cs x, cs y) | _ -> None) in
      let fj = (match from_user_parts_go (as_cbytes a) (as_cbytes b) (as_cbytes c) with Ok x -> Some (cs x) | _ -> None) in
      let os2 o = (match o with None -> ["0"; "0"; "0"; "0"; "0"] | Some (x, y) ->
          ["1"; si (String.length x); si (String.fold_left (fun a c -> a + Char.code c) 0 x); si (String.length y); si (String.fold_left (fun a c -> a + Char.code c) 0 y)]) in
      dump cid (["5"] @ (match up with None -> ["0"] | Some (x, y, z) -> ["1"; si (String.length x); si (String.length y); si (String.length z)])
               @ os2 so @ os2 sr @ (match fj with None -> ["0"; "0"; "0"] | Some x -> ["1"; si (String.length x); si (String.fold_left (fun a c -> a + Char.code c) 0 x)]));
      let fst3 o = Option.map (fun (x, _, _) -> x) o and snd3 o = Option.map (fun (_, y, _) -> y) o
      and thd3 o = Option.map (fun (_, _, z) -> z) o in
      let checks = [
        chk "ToUserParts.type" (fst3 up) (as_bytes t); chk "ToUserParts.id" (snd3 up) (as_bytes id);
        chk "ToUserParts.relation" (thd3 up) (as_bytes rel);
        chk "SplitObject.type" (Option.map fst so) (as_bytes so1); chk "SplitObject.id" (Option.map snd so) (as_bytes so2);
        chk "SplitObjectRelation.object" (Option.map fst sr) (as_bytes sr1);
        chk "SplitObjectRelation.relation" (Option.map snd sr) (as_bytes sr2);
        chk "FromUserParts" fj (as_bytes joined) ] in
      match List.filter_map (fun x -> x) checks with
      | [] -> "OK"
      | e :: _ -> e
    end

  | [I "6"; _depth; md; size; cl] ->
    let c = as_int cl and md = as_int md and size = as_int size in
    if c = 5 then "PROP typesystem.NewAndValidate panics on a nested rewrite"
    else begin
      (* a chain of md nested messages needs wire_min = 2 (md - 1) bytes (nesting_le_half_wire_size);
         the extracted functions are run on the chain itself up to 2100 levels (unary arithmetic) *)
      if 2 * (md - 1) > size then
        Printf.sprintf "DIFF nesting %d needs at least %d wire bytes in the model, the message has %d" md (2 * (md - 1)) size
      else if md > 2100 then "OK"
      else begin
        let rec chain d = if d <= 1 then Rose [] else Rose [chain (d - 1)] in
        let t = chain md in
        dump cid ["6"; si (int_of_nat (wire_min t)); si (int_of_nat (rdepth t));
                 (match struct_walk (nat_of_int (size / 2 + 1)) t with Ok d -> si (int_of_nat d) | _ -> "0")];
        if int_of_nat (wire_min t) <> 2 * (md - 1) then "DIFF wire_min of a chain is not 2 (depth - 1)"
        else match struct_walk (nat_of_int (size / 2 + 1)) t with
          | Ok d when int_of_nat d = md -> "OK"
          | _ -> "DIFF struct_walk does not return within size/2+1"
      end
    end

  | [I "7"; cl; _; first; abs] ->
    let c = as_int cl and first = as_int first in
    let types = List.map (fun t -> List.map parse_rw (as_list t)) (as_list abs) in
    let nodes = List.fold_left (fun a t -> List.fold_left (fun a r -> a + rw_count r) (a + 1) t) 0 types in
    let budget = 100000 in
    let (res, rem) = model_cost (nat_of_int (nodes + 8)) types (n_of_int budget) in
    dump cid ["7"; (match res with HNo -> "0" | HCycle -> "1" | HErr -> "2" | HBudget -> "3"); dec_of_n rem];
    let expensive = (res = HBudget) in
    if c = 7 then
      (if expensive then
         Printf.sprintf "KNOWN model_validation_hascycle_cost hasCycle needs more than %d calls for this model (%d rewrite nodes)" budget nodes
       else "PROP deadline overrun on a model whose hasCycle cost is small")
    else if bad_class c then "PROP model case: " ^ class_name c
    else if first = 0 && res = HCycle then "DIFF the model of hasCycle finds a cycle of computed usersets, the server accepted the model"
    else if first = 0 && res = HErr then "DIFF the model of hasCycle meets an undefined relation, the server accepted the model"
    else "OK"

  | [I "8"; server; rpc; meth; _k; kind; fired; cl; alive; site] ->
    let server = as_int server and rpc = as_int rpc and meth = as_int meth and c = as_int cl in
    let fired = as_bool fired and alive = as_bool alive and site = as_int site in
    let rpcs = [| "Check"; "BatchCheck"; "ListObjects"; "StreamedListObjects"; "ListUsers"; "Expand"; "Write"; "Read" |] in
    let meths = [| "Read"; "ReadUserTuple"; "ReadUsersetTuples"; "ReadStartingWithUser"; "Next"; "Head"; "Stop" |] in
    let kinds = [| "error"; "string"; "struct"; "runtime error" |] in
    let what = Printf.sprintf "server %d %s, %s panics with a %s value, recovery site %d" server rpcs.(rpc) meths.(meth) kinds.(as_int kind) site in
    if not fired then (if bad_class c || not alive then "PROP " ^ class_name c ^ " without the injected fault firing (" ^ what ^ ")" else "OK")
    else begin
      let v = (match as_int kind with 0 -> PVError | 1 -> PVString | 2 -> PVStruct | _ -> PVRuntime) in
      let s = (match site with 0 -> SHandler | 1 -> STry | 2 -> SPipeline | 3 -> SEvaluate | _ -> SOther) in
      let fate = fate_of s v in
      dump cid ["8"; (match fate with FError -> "0" | FInterceptor -> "1" | FDies -> "2");
               (match recover_to_error v with Ok _ -> "1" | _ -> "0")];
      let crashed = (c = 9) || (not alive && c <> 7) in
      if crashed then
        (match fate with
         | FDies when site = 3 && (rpc = 2 || rpc = 3) ->
           "KNOWN listobjects_reverse_expand_panic_kills_process " ^ what
         | FDies when site = 4 -> "KNOWN unrecovered_goroutine_panic_kills_process " ^ what
         | FError when server = 2 && (rpc = 0 || rpc = 1) && site = 1 ->
           "KNOWN weighted_check_panic_cleanup_kills_process " ^ what
         | _ -> "PROP process crash: a panic below the handlers escaped the request (" ^ what ^ ")")
      else if c = 7 then "KNOWN datastore_panic_leaves_request_hanging " ^ what
      else if c = 8 then "PROP memory blow-up after an injected panic (" ^ what ^ ")"
      else "OK"
    end

  | _ -> "DIFF malformed-record"

let () = run_oracle f
