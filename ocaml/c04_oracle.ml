(* C04 oracle.  Three kinds of records (see harness/cmd/c04/main.go):

   1 stored ctx unique ((op got under union) ...)
       the real CombinedTupleReader: [got] must be what the Coq model computes from the contextual
       tuples and the observed result [under] of the wrapped datastore (DIFF otherwise); [got] must
       be the result [union] of a datastore holding stored ∪ contextual (PROP otherwise; KNOWN
       <shape> for a filter shape that the reader-level "refuted" theorems cover).
   2 model conds tuples atoms maxdepth (mismatch ...)
       answers of the APIs under a split stored/contextual that differ from the all-stored answer;
       each is attributed to a listed finding through a trigger predicate computed on the scenario
       (Check/CtxTriggers.v, Check/V1.v) or stays a PROP.  A ListObjects answer that differs only
       with warm caches is NOT excused: the leak of contextual tuples through the check cache of the
       optimised ListObjects (repaired by 927fd35) is a PROP again; its witness runs first on every
       run (corpus/C04-findings.jsonl, shape corpus-lo-cache-leak) and must pass.
   3 ctx by_user by_object
       the weighted-graph engine's per-request indexes against index_by_user / index_by_object. *)

let dec_user v =
  match as_list v with
  | [s; t; w; r] -> { u_str = n_of_int (as_int s); u_type = n_of_int (as_int t); u_wild = as_bool w; u_rel = n_of_int (as_int r) }
  | _ -> failwith "user"

let dec_rt v =
  match as_list v with
  | [o; ot; r; u; c; cx] ->
    { rt_obj = n_of_int (as_int o); rt_otype = n_of_int (as_int ot); rt_rel = n_of_int (as_int r); rt_user = dec_user u;
      rt_cond = n_of_int (as_int c); rt_ctx = n_of_int (as_int cx) }
  | _ -> failwith "rtuple"

let dec_rts v = List.map dec_rt (as_list v)
let dec_ns v = List.map (fun x -> n_of_int (as_int x)) (as_list v)

let dec_ofilter v =
  match as_list v with
  | [I "0"] -> OAny
  | [I "1"; t] -> OType (n_of_int (as_int t))
  | [I "2"; o] -> OFull (n_of_int (as_int o))
  | _ -> failwith "ofilter"

let dec_ufilter v =
  match as_list v with
  | [I "0"] -> UAny
  | [I "1"; t] -> UType (n_of_int (as_int t))
  | [I "2"; u] -> UExact (dec_user u)
  | _ -> failwith "ufilter"

let dec_restr v =
  match as_list v with
  | [I "0"; t; r] -> URel (n_of_int (as_int t), n_of_int (as_int r))
  | [I "1"; t] -> UWild (n_of_int (as_int t))
  | [I "2"; t] -> UBare (n_of_int (as_int t))
  | _ -> failwith "urestr"

type obsr = OList of rtuple list | ONone | OSome of rtuple | OErr

let dec_obs v =
  match as_list v with
  | [I "0"; l] -> OList (dec_rts l)
  | [I "1"] -> ONone
  | [I "2"; t] -> OSome (dec_rt t)
  | _ -> OErr

let msort l = List.sort compare l
let same_multiset a b = msort a = msort b
let rec has_dups = function [] -> false | x :: l -> List.mem x l || has_dups l
let n0 = n_of_int 0
let show_rt (t : rtuple) =
  Printf.sprintf "o%d#r%d@u%d%s" (int_of_n t.rt_obj) (int_of_n t.rt_rel) (int_of_n t.rt_user.u_str)
    (if t.rt_cond = n0 then "" else Printf.sprintf "[c%d/%d]" (int_of_n t.rt_cond) (int_of_n t.rt_ctx))
let show_l l = "[" ^ String.concat " " (List.map show_rt l) ^ "]"
let show_obs = function OList l -> show_l l | ONone -> "none" | OSome t -> "some " ^ show_rt t | OErr -> "error"

(* Cross-check of extraction: with ORACLE_DUMP=<file> the numbers the EXTRACTED model computed for
   every case are appended to that file (sizes and checksums of the model results of the five
   combined reads, the shape predicates, the merge contract; checksums of all index entries; the
   trigger predicates of the api cases that have a mismatch); bin/coqreplay_c04.py recomputes the
   same numbers inside Coq with vm_compute. *)
let dump_chan = match Sys.getenv_opt "ORACLE_DUMP" with
  | Some p when p <> "" -> Some (open_out_gen [Open_append; Open_creat] 0o644 p)
  | _ -> None
let b2i b = if b then 1 else 0
let ht (t : rtuple) : int =
  List.fold_left (fun acc x -> (acc * 131 + x) mod 1000000007) 0
    [int_of_n t.rt_obj; int_of_n t.rt_otype; int_of_n t.rt_rel; int_of_n t.rt_user.u_str; int_of_n t.rt_user.u_type;
     b2i t.rt_user.u_wild; int_of_n t.rt_user.u_rel; int_of_n t.rt_cond; int_of_n t.rt_ctx]
let hl (l : rtuple list) : int = List.fold_left (fun acc t -> (acc * 131 + ht t + 1) mod 1000000007) 0 l
let dump_line id (nums : int list) =
  match dump_chan with
  | Some ch -> output_string ch (id ^ " " ^ String.concat " " (List.map string_of_int nums) ^ "\n"); flush ch
  | None -> ()

(* one reader operation: (diff option, prop option, known option, numbers of the model result) *)
let reader_op (ctx : rtuple list) (unique : bool) (ov : value) =
  match as_list ov with
  | [op; got; under; union] ->
    let got = dec_obs got and under = dec_obs under and union = dec_obs union in
    let diff = ref None and prop = ref None and known = ref None in
    let nums = ref [0; 999999; 0; 0; 0] in   (* opcode; size; checksum; shape predicate; merge contract *)
    let set_diff what model =
      diff := Some (Printf.sprintf "%s: implementation %s, model %s (wrapped reader gave %s)" what (show_obs got) model (show_obs under)) in
    let judge_union what (flag : string option) =
      (* got differs from the datastore that holds everything *)
      match flag with
      | Some f -> known := Some (f, Printf.sprintf "%s: combined %s, stored∪contextual %s" what (show_obs got) (show_obs union))
      | None -> prop := Some (Printf.sprintf "%s: combined reader %s but a datastore holding the same tuples %s" what (show_obs got) (show_obs union)) in
    (match as_list op with
     | [I "1"; o; r; u; cs] ->
       let f = { rf_obj = dec_ofilter o; rf_rel = n_of_int (as_int r); rf_usr = dec_ufilter u; rf_conds = dec_ns cs } in
       (match got, under with
        | OList g, OList un ->
          let m = combined_read_over un ctx f in
          nums := [1; List.length m; hl m; b2i (read_shape_ok f); 0];
          if not (same_multiset g m) then set_diff "Read" (show_l m);
          (match union with
           | OList all when unique && not (same_multiset g all) ->
             judge_union "Read"
               (if f.rf_usr <> UAny then Some "read_user_filter"
                else if f.rf_conds <> [] then Some "read_conditions"
                else (match f.rf_obj with OType _ -> Some "read_type_prefix" | _ -> None))
           | _ -> ())
        | _ -> set_diff "Read" "a list")
     | [I "2"; o; r; u; cs] ->
       let f = { rf_obj = dec_ofilter o; rf_rel = n_of_int (as_int r); rf_usr = dec_ufilter u; rf_conds = dec_ns cs } in
       (match got, under with
        | OList g, OList un ->
          let m = combined_read_page un ctx f in
          nums := [2; List.length m; hl m; b2i (read_shape_ok f); 0];
          if not (same_multiset g un) then set_diff "ReadPage" (show_l un);
          (match union with
           | OList all when unique && not (same_multiset g all) -> judge_union "ReadPage" (Some "read_page_ignores_ctx")
           | _ -> ())
        | _ -> set_diff "ReadPage" "a list")
     | [I "3"; o; r; u; cs] ->
       let k = { k_obj = n_of_int (as_int o); k_rel = n_of_int (as_int r); k_user = dec_user u } in
       let cs = dec_ns cs in
       let opt = function ONone -> Some None | OSome t -> Some (Some t) | _ -> None in
       (match opt got, opt under with
        | Some g, Some un ->
          let m = combined_read_user_tuple_over un ctx k in
          (let ml = match m with Some t -> [t] | None -> [] in
           nums := [3; List.length ml; hl ml; b2i (rut_shape_ok k cs); 0]);
          if g <> m then set_diff "ReadUserTuple" (match m with None -> "none" | Some t -> "some " ^ show_rt t);
          (match opt union with
           | Some all when unique && g <> all ->
             judge_union "ReadUserTuple"
               (if cs <> [] then Some "rut_conditions" else if k.k_rel = n0 then Some "rut_no_relation" else None)
           | _ -> ())
        | _ -> set_diff "ReadUserTuple" "an optional tuple")
     | [I "4"; o; r; rs; cs] ->
       let f = { uf_obj = dec_ofilter o; uf_rel = n_of_int (as_int r); uf_restr = List.map dec_restr (as_list rs); uf_conds = dec_ns cs } in
       (match got, under with
        | OList g, OList un ->
          let m = combined_read_userset_tuples_over un ctx f in
          nums := [4; List.length m; hl m; b2i (usersets_shape_ok f); 0];
          if not (same_multiset g m) then set_diff "ReadUsersetTuples" (show_l m);
          (match union with
           | OList all when unique && not (same_multiset g all) ->
             let quirk = has_dups f.uf_restr || List.exists (function URel (_, r) -> r = n0 | UBare _ -> true | UWild _ -> false) f.uf_restr in
             judge_union "ReadUsersetTuples"
               (if f.uf_restr = [] then Some "usersets_no_restrictions"
                else if f.uf_conds <> [] then Some "usersets_conditions"
                else (match f.uf_obj with
                    | OType _ -> Some "usersets_type_prefix"
                    | _ -> if quirk then Some "usersets_relation_ref_quirk" else None))
           | _ -> ())
        | _ -> set_diff "ReadUsersetTuples" "a list")
     | [I "5"; ot; r; us; oids; cs; sorted] ->
       let oids = match as_list oids with I "0" :: _ -> None | _ :: l -> Some (List.map (fun x -> n_of_int (as_int x)) l) | [] -> None in
       let f = { sf_otype = n_of_int (as_int ot); sf_rel = n_of_int (as_int r); sf_users = List.map dec_user (as_list us);
                 sf_oids = oids; sf_conds = dec_ns cs } in
       let sorted = as_bool sorted in
       (match got, under with
        | OList g, OList un ->
          let m = combined_rswu_over un ctx f sorted in
          nums := [5; List.length m; hl m; b2i (rswu_shape_ok f); b2i (sorted_result_ok_over un ctx f g)];
          if sorted then begin
            if not (sorted_result_ok_over un ctx f g) then set_diff "ReadStartingWithUser(sorted): result violates the merge contract" (show_l m)
            else if List.length ctx <= 12 && g <> m then set_diff "ReadStartingWithUser(sorted)" (show_l m)
          end else if not (same_multiset g m) then set_diff "ReadStartingWithUser" (show_l m);
          (match union with
           | OList all when unique && not (same_multiset g all) ->
             judge_union "ReadStartingWithUser"
               (if f.sf_oids <> None then Some "rswu_object_ids"
                else if f.sf_conds <> [] then Some "rswu_conditions"
                else if f.sf_users = [] then Some "rswu_no_users"
                else if f.sf_rel = n0 then Some "rswu_no_relation"
                else if has_dups (List.map (fun u -> u.u_str) f.sf_users) then Some "rswu_duplicate_users"
                else if sorted then Some "rswu_sorted_dedup"
                else None)
           | _ -> ())
        | _ -> set_diff "ReadStartingWithUser" "a list")
     | _ -> failwith "op");
    (!diff, !prop, !known, !nums)
  | _ -> failwith "reader op entry"

let impl_s = function 0 -> "allowed" | 1 | 2 -> "denied" | 3 -> "condition-error" | 4 -> "depth-error" | 5 -> "error"
                     | 6 -> "timeout" | 9 -> "list/tree" | _ -> "?"
(* finding weighted_degenerate_rewrite (C05), wrong-answer variant: a rewrite with an intersection or
   exclusion in which `this` (or one tuple-to-userset) occurs twice, e.g. (this but not this) or this *)
let rec has_setop = function Inter _ | Diff (_, _) -> true | Union l -> List.exists has_setop l | _ -> false
let rec leaves = function
  | Union l | Inter l -> List.concat_map leaves l
  | Diff (b, s) -> leaves b @ leaves s
  | x -> [x]
let degenerate_rw rw =
  let ls = List.filter (function This | TTU (_, _) -> true | _ -> false) (leaves rw) in
  let rec dup = function [] -> false | x :: l -> List.mem x l || dup l in
  has_setop rw && dup ls
let degenerate_reachable (m : model) (t : tid) (r : rid) =
  List.exists (fun (t', r') -> match get_relation m t' r' with Some rd -> degenerate_rw rd.rd_rw | None -> false)
    ((t, r) :: closure m (nrels m) [(t, r)])
let api_name = function 0 -> "Check" | 1 -> "BatchCheck" | 2 -> "ListObjects" | 3 -> "ListUsers" | _ -> "Expand"
let eng_name = function 0 -> "default" | 1 -> "optimised" | _ -> "weighted-graph/pipeline"
let kind_name = function 0 -> "also without caches" | 1 -> "only with warm caches" | _ -> "unstable"

let f id vs =
  match vs with
  | [I "1"; stored; ctx; unique; ops] ->
    let stored = dec_rts stored in
    let allnums = ref [] in
    let ctx = dec_rts ctx in
    let unique = as_bool unique in
    let diffs = ref [] and props = ref [] and knowns = ref [] in
    List.iter (fun ov ->
        let (d, p, k, ns) = reader_op ctx unique ov in
        allnums := List.rev_append ns !allnums;
        (match d with Some x -> diffs := x :: !diffs | None -> ());
        (match p with Some x -> props := x :: !props | None -> ());
        (match k with Some (fl, x) -> knowns := (fl ^ " " ^ x) :: !knowns | None -> ())) (as_list ops);
    dump_line id (1 :: b2i (keys_unique (stored @ ctx)) :: b2i (disjoint_keys stored ctx) :: List.rev !allnums);
    (match List.rev !diffs, List.rev !props, List.rev !knowns with
     | d :: _, _, _ -> "DIFF " ^ d
     | [], p :: _, _ -> "PROP " ^ p
     | [], [], k :: _ -> "KNOWN " ^ k
     | [], [], [] -> "OK")
  | [I "2"; model; conds; tuples; atoms; maxdepth; mms] ->
    let mms = as_list mms in
    if mms = [] then (dump_line id [2; 0]; "OK") else begin
      let m = dec_model model in
      let cs = List.map (fun c -> n_of_int (as_int c)) (as_list conds) in
      let store = List.map dec_tuple (as_list tuples) in
      let ats = List.map dec_atom (as_list atoms) in
      let md = nat_of_int (as_int maxdepth) in
      let fuel = nat_of_int (List.length ats + 3) in
      let recursive = lazy (model_recursive m) in
      let has_e = lazy (List.exists (fun t -> t.t_ceval = E) store) in (* valid or not: engines differ in what they evaluate first *)
      let props = ref [] and knowns = ref [] in
      (* numbers for the cross-check: per mismatch, how many implicated subjects have the wildcard /
         direct conflict, and the V1 trigger bits of the first implicated atom *)
      (let per = List.concat_map (fun mv ->
           match as_list mv with
           | [_; api; eng; _; _; _; _; atomsv; _] ->
             let atoms = List.map (fun av ->
                 match as_list av with
                 | [s; px; ot; oi; r] -> (dec_subject s, List.map dec_pair (as_list px), mk_obj (as_int ot) (as_int oi), n_of_int (as_int r))
                 | _ -> failwith "atom entry") (as_list atomsv) in
             let nconf = List.length (List.filter (fun (s, _, _, _) -> wild_direct_conflict m cs store s) atoms) in
             let bits = match atoms with
               | (s, px, o, r) :: _ when as_int eng <> 2 && as_int api <> 4 ->
                 let (_, tr) = check_top m cs store s px md fuel o r in
                 b2i tr.tr_excl_sub_cycle + 2 * b2i tr.tr_swallow
               | _ -> 0 in
             [nconf; bits]
           | _ -> failwith "mismatch entry") mms in
       dump_line id (2 :: 1 :: b2i (model_recursive m) :: List.length (List.filter (fun t -> lenient_cond m cs t) store)
                     :: b2i (stratified m) :: per));
      List.iter (fun mv ->
          match as_list mv with
          | [_mi; api; eng; kind; got; want; ctxidx; atomsv; luv] ->
            let api = as_int api and eng = as_int eng and kind = as_int kind in
            let got = as_int got and want = as_int want in
            let ctxt = List.map (fun i -> List.nth store (as_int i)) (as_list ctxidx) in
            let atoms = List.map (fun av ->
                match as_list av with
                | [s; px; ot; oi; r] -> (dec_subject s, List.map dec_pair (as_list px), mk_obj (as_int ot) (as_int oi), n_of_int (as_int r))
                | _ -> failwith "atom entry") (as_list atomsv) in
            let where =
              Printf.sprintf "%s on the %s engine (%s), contextual tuples %d: answer class %s, all-stored answer class %s%s"
                (api_name api) (eng_name eng) (kind_name kind) (List.length ctxt) (impl_s got) (impl_s want)
                (match atoms with (s, _, o, r) :: _ -> Printf.sprintf "; e.g. %s#r%d@%s" (obj_s o) (int_of_n r) (subj_s s) | [] -> "") in
            let lenient = eng = 2 && List.exists (fun t -> lenient_cond m cs t) ctxt in
            let wildcard_lo =
              api = 2 && eng = 1 && ctxt <> [] && atoms <> [] &&
              List.for_all (fun (s, _, _, _) -> match s with SWild _ -> true | _ -> false) atoms in
            let conflict =
              eng <> 2 && (api = 0 || api = 1 || api = 2) &&
              List.exists (fun (s, _, _, _) -> wild_direct_conflict m cs store s) atoms in
            (* optimised ListObjects on a degenerate rewrite: its own traversal drops objects that the
               sub-results cached by Check put back *)
            let lo_degenerate = api = 2 && eng = 1 &&
                                List.exists (fun (_, _, o, r) -> degenerate_reachable m o.otype r) atoms in
            let v2cache = eng = 2 && kind = 1 && (api = 0 || api = 1) && Lazy.force recursive in
            let v1trig =
              if eng = 2 || api = 4 then None
              else List.fold_left (fun acc (s, px, o, r) ->
                  match acc with
                  | Some _ -> acc
                  | None ->
                    let (_, tr) = check_top m cs store s px md fuel o r in
                    if tr.tr_excl_sub_cycle then Some "excl_sub_cycle"
                    else if tr.tr_swallow then Some "cond_err_swallowed" else None) None atoms in
            (* a condition that cannot be evaluated: "fails" versus "denies" *)
            let cond_flip =
              ((got = 3 && (want = 1 || want = 2)) || (want = 3 && (got = 1 || got = 2)) ||
               (api >= 2 && api <> 4 && (got = 3 || want = 3))) && Lazy.force has_e in
            (* weighted-graph engine: with an unevaluable condition in play even allowed / error flips *)
            let wg_race = eng = 2 && (got = 3 || want = 3) && Lazy.force has_e in
            (* ListUsers: both answers are outcomes of the ListUsers algorithm model (Query/ListUsers.v: the
               engine may give either on this very data, whatever the split) and the model raised the
               trigger of a listed ListUsers finding (checks/C06.findings.json) *)
            let lu_flag =
              if api <> 3 then None
              else match as_list luv with
                | [ft; fr; edges; ot; oi; r; gotv; wantv] ->
                  let ans v = match as_list v with I "0" :: us -> Some (List.map dec_subject us) | _ -> None in
                  (match ans gotv, ans wantv with
                   | Some g, Some w ->
                     let lf = list_users m cs store (n_of_int (as_int ft)) (n_of_int (as_int fr)) (nat_of_int 25)
                         (as_int edges = 0) (mk_obj (as_int ot) (as_int oi)) (n_of_int (as_int r)) in
                     let same_set a b = List.for_all (fun x -> List.mem x b) a && List.for_all (fun x -> List.mem x a) b in
                     let inm x = List.exists (same_set x) lf.lf_results in
                     if lf.lf_errs = [] && inm g && inm w then begin
                       let tg = lf.lf_trig in
                       if tg.tg_excl_cycle then Some "lu_excl_sub_cycle"
                       else if tg.tg_excl then Some "lu_excl_den_fail"
                       else if tg.tg_union then Some "lu_union_den_fail"
                       else if tg.tg_inter then Some "lu_inter_den_fail"
                       else if tg.tg_merge then Some "lu_merge_den_fail"
                       else if tg.tg_race then Some "lu_status_race"
                       else None
                     end else None
                   | _ -> None)
                | _ -> None in
            if lenient then knowns := ("ctx_lenient_condition " ^ where) :: !knowns
            else if wildcard_lo then knowns := ("lo_wildcard_empty_user_filter " ^ where) :: !knowns
            else if conflict then knowns := ("sorted_dedup_by_object " ^ where) :: !knowns
            else if lo_degenerate then knowns := ("lo_degenerate_rewrite " ^ where) :: !knowns
            else if v2cache then knowns := ("wg_cache_visited " ^ where) :: !knowns
            else if cond_flip then knowns := ("cond_err_order_dependent " ^ where) :: !knowns
            else if wg_race then knowns := ("wg_cond_err_race " ^ where) :: !knowns
            else if lu_flag <> None then knowns := ((match lu_flag with Some f -> f | None -> "") ^ " " ^ where) :: !knowns
            else (match v1trig with
                | Some fl -> knowns := (fl ^ " " ^ where) :: !knowns
                | None -> props := where :: !props)
          | _ -> failwith "mismatch entry") mms;
      (* one verdict per scenario: the rarer findings first *)
      let prio k =
        let rec idx i = function [] -> i | p :: l -> if String.length k >= String.length p && String.sub k 0 (String.length p) = p then i else idx (i + 1) l in
        idx 0 ["lo_degenerate_rewrite"; "lu_status_race"; "sorted_dedup_by_object"; "wg_cache_visited"; "excl_sub_cycle"; "cond_err_swallowed";
               "wg_cond_err_race"; "cond_err_order_dependent"; "ctx_lenient_condition"; "lo_wildcard_empty_user_filter"] in
      (match List.rev !props, List.sort (fun a b -> compare (prio a) (prio b)) (List.rev !knowns) with
       | p :: _, _ -> "PROP " ^ p
       | [], k :: _ -> "KNOWN " ^ k
       | [], [] -> "OK")
    end
  | [I "3"; ctx; by_user; by_obj] ->
    let ctx = dec_rts ctx in
    let diffs = ref [] in
    let nu = ref 0 and hu = ref 0 and no = ref 0 and ho = ref 0 in
    let acc n h (m : rtuple list) = (if m <> [] then incr n); h := (!h * 131 + hl m + 1) mod 1000000007 in
    List.iter (fun e ->
        match as_list e with
        | [u; r; ot; ok; got] ->
          let m = index_by_user ctx ((n_of_int (as_int u), n_of_int (as_int r)), n_of_int (as_int ot)) in
          acc nu hu m;
          let got = dec_rts got in
          if got <> m || as_bool ok <> (m <> []) then
            diffs := Printf.sprintf "by-user index (u%d,r%d,t%d): implementation %s ok=%b, model %s" (as_int u) (as_int r) (as_int ot)
                (show_l got) (as_bool ok) (show_l m) :: !diffs
        | _ -> failwith "by_user entry") (as_list by_user);
    List.iter (fun e ->
        match as_list e with
        | [o; r; ut; ur; ok; got] ->
          let m = index_by_object ctx ((n_of_int (as_int o), n_of_int (as_int r)), (n_of_int (as_int ut), n_of_int (as_int ur))) in
          acc no ho m;
          let got = dec_rts got in
          if got <> m || as_bool ok <> (m <> []) then
            diffs := Printf.sprintf "by-object index (o%d,r%d,t%d#r%d): implementation %s ok=%b, model %s" (as_int o) (as_int r) (as_int ut) (as_int ur)
                (show_l got) (as_bool ok) (show_l m) :: !diffs
        | _ -> failwith "by_object entry") (as_list by_obj);
    dump_line id [3; b2i (keys_unique ctx); !nu; !hu; !no; !ho];
    (match List.rev !diffs with d :: _ -> "DIFF " ^ d | [] -> "OK")
  | _ -> "DIFF malformed-record"

let () = run_oracle f
