(* C30 oracle.  Record: 1 model conds stored requests typeNames relNames idNames
   request = (qkind ot oi r ctxTuples outcome), outcome = (0 tree) | (1 errclass)
   For every request:
   * DIFF  when the real outcome differs from the Coq model Query/Expand.v expand_top (tree
     compared node by node, user lists and computed lists in order; error classes);
   * PROP  when the real tree violates the property's own predicate, evaluated by the extracted
     check_tree (proved equivalent to the specification relation `mirrors`): shape = the
     rewrite, every node named object#relation, every direct leaf sorted, duplicate-free and
     equal as a set to the users of the valid (valid_for_read) contextual+stored tuples,
     computed / tuple-to-userset leaves naming the right usersets; also when a well-formed
     request on a defined relation without contextual tuples is refused, or a request on an
     undefined relation is answered. *)

let names_of v = Array.of_list (List.map as_bytes (as_list v))

let dec_name v =
  match as_list v with
  | [t; i; r] -> (mk_obj (as_int t) (as_int i), n_of_int (as_int r))
  | _ -> failwith "name"

exception Bad_tree of string

let rec dec_tree render v : tree =
  match as_list v with
  | [I "0"; name; us] ->
    TUsers (dec_name name, List.map (fun u ->
      match as_list u with
      | [s; raw] ->
        let s' = dec_subject s in
        if render s' <> as_bytes raw then raise (Bad_tree ("user string " ^ as_bytes raw ^ " does not parse back"));
        s'
      | _ -> failwith "user") (as_list us))
  | [I "1"; name; u] -> TComputed (dec_name name, dec_name u)
  | [I "2"; name; ts; cs] ->
    TTupleToUserset (dec_name name, dec_name ts, List.map (fun c ->
      match as_list c with
      | [k; t; i; r] ->
        let b = if as_int k = 1 then UWild (n_of_int (as_int t)) else UObj (mk_obj (as_int t) (as_int i)) in
        (b, n_of_int (as_int r))
      | _ -> failwith "cref") (as_list cs))
  | [I "3"; name; ks] -> TUnion (dec_name name, List.map (dec_tree render) (as_list ks))
  | [I "4"; name; ks] -> TInter (dec_name name, List.map (dec_tree render) (as_list ks))
  | [I "5"; name; b; s] -> TDiff (dec_name name, dec_tree render b, dec_tree render s)
  | _ -> raise (Bad_tree "node without a known value")

let err_s = function 0 -> "invalid_expand_input" | 1 -> "invalid_tuple" | 2 -> "validation_error"
  | 3 -> "relation_not_found" | 4 -> "type_not_found" | _ -> "other"
let xerr_code = function EInvalidInput -> 0 | EInvalidTuple -> 1 | EValidation -> 2 | ERelationNotFound -> 3

(* Cross-check of extraction: with ORACLE_DUMP=<file> the values the EXTRACTED model computes for
   every request (error class, or the tree as a code list: node kinds, names, arities, leaf lengths
   and order-sensitive checksums of the leaf users / computed entries) are appended to that file;
   bin/coqreplay_c30.py recomputes the same numbers inside Coq with vm_compute. *)
let dump_chan = match Sys.getenv_opt "ORACLE_DUMP" with
  | Some p when p <> "" -> Some (open_out_gen [Open_append; Open_creat] 0o644 p)
  | _ -> None
let obj_code (o : obj) = int_of_n o.otype * 1009 + int_of_n o.oid
let subj_code = function
  | SObj o -> 7 * obj_code o
  | SWild t -> 7 * int_of_n t + 1
  | SSet (o, r) -> 7 * (obj_code o * 1013 + int_of_n r) + 2
let cref_code (b, r) = (match b with UObj o -> 2 * obj_code o | UWild t -> 2 * int_of_n t + 1) * 1013 + int_of_n r
let wsum f l = snd (List.fold_left (fun (i, acc) x -> (i + 1, acc + i * f x)) (1, 0) l)
let name_code (o, r) = [obj_code o; int_of_n r]
let rec tree_code = function
  | TUsers (n, us) -> 0 :: name_code n @ [List.length us; wsum subj_code us]
  | TComputed (n, u) -> 1 :: name_code n @ name_code u
  | TTupleToUserset (n, u, cs) -> 2 :: name_code n @ name_code u @ [List.length cs; wsum cref_code cs]
  | TUnion (n, ks) -> 3 :: name_code n @ (List.length ks :: List.concat_map tree_code ks)
  | TInter (n, ks) -> 4 :: name_code n @ (List.length ks :: List.concat_map tree_code ks)
  | TDiff (n, b, s) -> 5 :: name_code n @ tree_code b @ tree_code s
let res_code = function
  | XErr e -> [900 + xerr_code e]
  | XTree t -> 800 :: tree_code t

let f _id vs =
  match vs with
  | [I "1"; model; conds; stored; requests; tn; rn; idn] ->
    let m = dec_model model in
    let cs = List.map (fun c -> n_of_int (as_int c)) (as_list conds) in
    let store = List.map dec_tuple (as_list stored) in
    let tn = names_of tn and rn = names_of rn and idn = names_of idn in
    let nm a i = if i >= 1 && i <= Array.length a then a.(i - 1) else Printf.sprintf "?%d" i in
    let render s = match s with
      | SObj o -> nm tn (int_of_n o.otype) ^ ":" ^ nm idn (int_of_n o.oid)
      | SWild t -> nm tn (int_of_n t) ^ ":*"
      | SSet (o, r) -> nm tn (int_of_n o.otype) ^ ":" ^ nm idn (int_of_n o.oid) ^ "#" ^ nm rn (int_of_n r) in
    let leb a b = compare (render a) (render b) <= 0 in
    let name_s (o, r) = render (SSet (o, r)) in
    let props = ref [] and diffs = ref [] in
    List.iter (fun rv ->
      match as_list rv with
      | [qk; ot; oi; r; ctxv; outcome] ->
        let ctx = List.map dec_tuple (as_list ctxv) in
        let o = mk_obj (as_int ot) (as_int oi) and rel = n_of_int (as_int r) in
        let q = match as_int qk with 0 -> XReq (o, rel) | 1 -> XEmpty | _ -> XMalformed in
        let where = (match q with XReq _ -> name_s (o, rel) | XEmpty -> "<empty>" | XMalformed -> "<malformed>")
                    ^ Printf.sprintf " [%d contextual]" (List.length ctx) in
        let mres = expand_top leb m cs ctx store q in
        (match dump_chan with
         | Some ch -> output_string ch (String.concat " " (_id :: List.map string_of_int (res_code mres)) ^ "\n")
         | None -> ());
        let rd = match q with XReq _ -> get_relation m o.otype rel | _ -> None in
        (match as_list outcome with
         | [I "1"; c] ->
           let c = as_int c in
           (match mres with
            | XErr e when xerr_code e = c -> ()
            | XErr e -> diffs := Printf.sprintf "%s: impl error %s, model error %s" where (err_s c) (err_s (xerr_code e)) :: !diffs
            | XTree _ -> diffs := Printf.sprintf "%s: impl error %s, model returns a tree" where (err_s c) :: !diffs);
           (match rd with
            | Some d when ctx = [] && tuplesets_defined m o.otype d.rd_rw ->
              props := Printf.sprintf "%s: refused (%s) although the relation is defined and there are no contextual tuples" where (err_s c) :: !props
            | _ -> ())
         | [I "0"; tv] ->
           (match (try Ok (dec_tree render tv) with Bad_tree s -> Error s) with
            | Error s -> props := Printf.sprintf "%s: %s" where s :: !props
            | Ok t ->
              (match mres with
               | XTree t' when t = t' -> ()
               | XTree _ -> diffs := Printf.sprintf "%s: tree differs from the model's" where :: !diffs
               | XErr e -> diffs := Printf.sprintf "%s: impl returns a tree, model error %s" where (err_s (xerr_code e)) :: !diffs);
              (match rd with
               | None -> props := Printf.sprintf "%s: a tree is returned for an undefined relation or malformed request" where :: !props
               | Some d ->
                 if not (check_tree leb m cs (ctx @ store) o rel d.rd_rw t) then begin
                   let why =
                     if shape t <> skeleton d.rd_rw then "the tree's shape is not the rewrite's"
                     else "a node is misnamed or a leaf does not list exactly the sorted distinct users / usersets of the valid tuples" in
                   props := Printf.sprintf "%s: %s" where why :: !props
                 end))
         | _ -> failwith "outcome")
      | _ -> failwith "request") (as_list requests);
    (match !props, !diffs with
     | p :: _, _ -> "PROP " ^ p ^ (match !diffs with d :: _ -> " || also model-diff: " ^ d | [] -> "")
     | [], d :: _ -> "DIFF " ^ d
     | [], [] -> "OK")
  | _ -> "DIFF malformed-record"

let () = run_oracle f
