(* C32 oracle.  Record: 1 latestModel checks lists calls  (see harness/cmd/c32/main.go).
   The native answers recorded by the driver are the `check` / `list_users` / `list_objects`
   functions handed to the extracted Coq endpoint model (Query/Authzen.v); every AuthZEN call is
   mapped by the MODEL to its native request, whose answer is looked up in the tables:
   * DIFF  the model maps the call to a native request the driver's independent derivation of the
           mirror did not issue (mapping differs), or the observed response differs from the model's
           in something that is not a decision (truncation of a short-circuit list, error status,
           InvalidArgument, error code);
   * PROP  the AuthZEN decision / result set differs from the native answer of the mapped request. *)

type err = { code : int; direct : int; batch : int }

exception Missing of string

let opt v f = match as_list v with [] -> None | [x] -> Some (f x) | _ -> failwith "option"

let dec_props v : string pstruct option =
  opt v (fun l -> List.map (fun kv ->
    match as_list kv with [k; x] -> (as_cbytes k, as_bytes x) | _ -> failwith "kv") (as_list l))

let dec_ent v = opt v (fun e ->
  match as_list e with
  | [t; i; p] -> { e_type = as_cbytes t; e_id = as_cbytes i; e_props = dec_props p }
  | _ -> failwith "entity")

let dec_act v = opt v (fun e ->
  match as_list e with
  | [t; _; p] -> { a_name = as_cbytes t; a_props = dec_props p }
  | _ -> failwith "action")

(* canonical form of a context read as a map (first binding of a key wins, as `lookup`) *)
let canon_ctx (c : string pstruct option) : string =
  match c with
  | None -> ""
  | Some l ->
    let seen = Hashtbl.create 8 in
    let l = List.filter (fun (k, _) -> if Hashtbl.mem seen k then false else (Hashtbl.add seen k (); true)) l in
    let l = List.sort compare (List.map (fun (k, v) -> (coq_to_bytes k, v)) l) in
    String.concat "" (List.map (fun (k, v) -> k ^ "=" ^ v ^ ";") l)

(* request validation of the AuthZEN messages (generated validators: ^[^:#@\s]{1,n}$) *)
let valid_name max (s : string) =
  let n = String.length s in
  n >= 1 && n <= max &&
  not (String.exists (fun c -> c = ':' || c = '#' || c = '@' || c = ' ' || c = '\t' || c = '\n' || c = '\012' || c = '\r') s)
let valid_ent idmax = function
  | None -> true
  | Some e -> valid_name 50 (coq_to_bytes e.e_type) && valid_name idmax (coq_to_bytes e.e_id)
let valid_act = function None -> true | Some a -> valid_name 50 (coq_to_bytes a.a_name)

(* Cross-check of extraction: with ORACLE_DUMP=<file> the values the EXTRACTED model computes for
   every Evaluation / Evaluations / SubjectSearch / ResourceSearch call (checksums of the mapped
   native request incl. the merged context, the evaluation outcome code, the batch outcome codes
   under a total table-driven Check) are appended to that file; bin/coqreplay_c32.py recomputes
   the same numbers inside Coq with vm_compute. *)
let dump_chan = match Sys.getenv_opt "ORACLE_DUMP" with
  | Some p when p <> "" -> Some (open_out_gen [Open_append; Open_creat] 0o644 p)
  | _ -> None
let bsum (s : string) = let t = ref 0 in String.iter (fun c -> t := !t + Char.code c) s; !t
let csum (b : bytes) = bsum (coq_to_bytes b)
let ctx_cs (c : string pstruct option) : int list =
  match c with
  | None -> [0; 0]
  | Some l ->
    let seen = Hashtbl.create 8 in
    let l = List.filter (fun (k, _) -> if Hashtbl.mem seen k then false else (Hashtbl.add seen k (); true)) l in
    [List.length l; List.fold_left (fun acc (k, v) -> acc + csum k * 31 + bsum v) 0 l]
let q_cs (q : string check_req) =
  [csum q.q_user; List.length q.q_user; csum q.q_relation; csum q.q_object; List.length q.q_object; csum q.q_model] @ ctx_cs q.q_context

let f _id vs =
  match vs with
  | [I "1"; latest; checks; lists; calls] ->
    let latest = as_bytes latest in
    let canon_model m = if m = "" then latest else m in
    let ctbl = Hashtbl.create 256 and ltbl = Hashtbl.create 64 in
    List.iter (fun cv ->
      match as_list cv with
      | [u; r; o; ctx; m; out] ->
        let key = (as_bytes u, as_bytes r, as_bytes o, canon_ctx (dec_props ctx), as_bytes m) in
        let res = match as_list out with
          | [I "0"; b] -> CAllow (as_bool b)
          | [I "1"; c; st] -> CErr { code = as_int c; direct = as_int st; batch = -1 }
          | _ -> failwith "direct" in
        Hashtbl.replace ctbl key res
      | _ -> failwith "check entry") (as_list checks);
    List.iter (fun lv ->
      match as_list lv with
      | [I "0"; ot; oi; r; ft; ctx; m; out] ->
        let key = "u|" ^ String.concat "|" [as_bytes ot; as_bytes oi; as_bytes r; as_bytes ft; canon_ctx (dec_props ctx); as_bytes m] in
        let res = match as_list out with
          | [I "0"; us] -> Inr (List.map (fun u ->
              match as_list u with
              | [I "0"; t; i; _] -> UObject (as_cbytes t, as_cbytes i)
              | [I "1"; t; _; _] -> UWildcard (as_cbytes t)
              | [_; t; i; r] -> UUserset (as_cbytes t, as_cbytes i, as_cbytes r)
              | _ -> failwith "user") (as_list us))
          | [I "1"; c] -> Inl { code = as_int c; direct = -1; batch = -1 }
          | _ -> failwith "list out" in
        Hashtbl.replace ltbl key (`Users res)
      | [I "1"; u; r; t; ctx; m; out] ->
        let key = "o|" ^ String.concat "|" [as_bytes u; as_bytes r; as_bytes t; canon_ctx (dec_props ctx); as_bytes m] in
        let res = match as_list out with
          | [I "0"; os] -> Inr (List.map as_cbytes (as_list os))
          | [I "1"; c] -> Inl { code = as_int c; direct = -1; batch = -1 }
          | _ -> failwith "list out" in
        Hashtbl.replace ltbl key (`Objects res)
      | _ -> failwith "list entry") (as_list lists);
    let check (q : string check_req) : err cres =
      let key = (coq_to_bytes q.q_user, coq_to_bytes q.q_relation, coq_to_bytes q.q_object,
                 canon_ctx q.q_context, canon_model (coq_to_bytes q.q_model)) in
      match Hashtbl.find_opt ctbl key with
      | Some r -> r
      | None -> let (u, r, o, c, m) = key in
        raise (Missing (Printf.sprintf "Check(%s, %s, %s, {%s}, model %s)" u r o c m)) in
    let list_users (q : string list_users_req) =
      let key = "u|" ^ String.concat "|" [coq_to_bytes q.lu_obj_type; coq_to_bytes q.lu_obj_id; coq_to_bytes q.lu_relation;
                                           coq_to_bytes q.lu_filter_type; canon_ctx q.lu_context; canon_model (coq_to_bytes q.lu_model)] in
      match Hashtbl.find_opt ltbl key with Some (`Users r) -> r | _ -> raise (Missing ("ListUsers " ^ key)) in
    let list_objects (q : string list_objects_req) =
      let key = "o|" ^ String.concat "|" [coq_to_bytes q.lo_user; coq_to_bytes q.lo_relation; coq_to_bytes q.lo_type;
                                           canon_ctx q.lo_context; canon_model (coq_to_bytes q.lo_model)] in
      match Hashtbl.find_opt ltbl key with Some (`Objects r) -> r | _ -> raise (Missing ("ListObjects " ^ key)) in
    let sd e = n_of_int e.direct and sb e = n_of_int e.batch in
    (* ---- dump (before any comparison) ---- *)
    (match dump_chan with
     | None -> ()
     | Some ch ->
       let check_t q = try check q with Missing _ -> CErr { code = 999; direct = 0; batch = 0 } in
       let dsd e = n_of_int e.direct and dsb e = n_of_int (e.direct + 1000) in
       List.iter (fun cv ->
         match as_list cv with
         | [kind; _; header; sv; rv; av; ctxv; itemsv; semv; _; _] ->
           let h = opt header as_cbytes in
           let s = dec_ent sv and r = dec_ent rv and a = dec_act av and c = dec_props ctxv in
           let nums =
             match as_int kind with
             | 0 ->
               let b = match build_check_request [] (model_id_from_header h) s r a c with
                 | Inl MissingSubject -> [0; 1] | Inl MissingResource -> [0; 2] | Inl MissingAction -> [0; 3]
                 | Inr q -> 1 :: q_cs q in
               let e = match evaluation check_t { ev_store = []; ev_header = h; ev_subject = s; ev_resource = r; ev_action = a; ev_context = c } with
                 | EvDecision b -> if b then 1 else 0
                 | EvInvalidArg -> 2
                 | EvError e -> 10 + e.code in
               100 :: b @ [e]
             | 1 ->
               let items = List.map (fun iv ->
                 match as_list iv with
                 | [is; ir; ia; ic] -> { i_subject = dec_ent is; i_resource = dec_ent ir; i_action = dec_act ia; i_context = dec_props ic }
                 | _ -> failwith "item") (as_list itemsv) in
               let top = { es_store = []; es_header = h; es_subject = s; es_resource = r; es_action = a; es_context = c;
                           es_items = items; es_options = (match opt semv as_int with None -> None | Some n -> Some (n_of_int n)) } in
               (match evaluations check_t (fun qs -> Inr (List.map check_t qs)) dsd dsb top with
                | EsOk l -> 101 :: 200 :: List.length l :: List.map (function RDecision b -> if b then 1 else 0 | RDenyErr st -> 2 + int_of_n st) l
                | EsInvalidArg -> [101; 201]
                | EsError e -> [101; 202; e.code])
             | 2 ->
               (match s, r, a with
                | Some s', Some r', Some a' ->
                  let q = subject_search_map { ss_store = []; ss_header = h; ss_resource = r'; ss_action = a';
                                               ss_subject = { f_type = s'.e_type; f_props = s'.e_props }; ss_context = c } in
                  [102; csum q.lu_obj_type; csum q.lu_obj_id; csum q.lu_relation; csum q.lu_filter_type; csum q.lu_model] @ ctx_cs q.lu_context
                | _ -> [102; 0])
             | 3 ->
               (match s, r, a with
                | Some s', Some r', Some a' ->
                  let q = resource_search_map { rs_store = []; rs_header = h; rs_subject = s'; rs_action = a';
                                                rs_resource = { f_type = r'.e_type; f_props = r'.e_props }; rs_context = c } in
                  [103; csum q.lo_user; csum q.lo_relation; csum q.lo_type; csum q.lo_model] @ ctx_cs q.lo_context
                | _ -> [103; 0])
             | _ -> [104] in
           output_string ch (String.concat " " (_id :: List.map string_of_int nums) ^ "\n")
         | _ -> ()) (as_list calls));
    let props = ref [] and diffs = ref [] in
    let idx = ref 0 in
    List.iter (fun cv ->
      incr idx;
      match as_list cv with
      | [kind; stable; header; sv; rv; av; ctxv; itemsv; semv; observed; extra] when as_bool stable ->
        let kind = as_int kind in
        let h = opt header as_cbytes in
        let s = dec_ent sv and r = dec_ent rv and a = dec_act av and c = dec_props ctxv in
        let where = Printf.sprintf "call %d (%s)" !idx
            (match kind with 0 -> "Evaluation" | 1 -> "Evaluations" | 2 -> "SubjectSearch" | 3 -> "ResourceSearch" | _ -> "ActionSearch") in
        let diff s = diffs := (where ^ ": " ^ s) :: !diffs and prop s = props := (where ^ ": " ^ s) :: !props in
        let obs = as_list observed in
        let obs_err = match obs with [I "1"; c] -> Some (as_int c) | _ -> None in
        let expect_code c = if obs_err <> Some c then
            diff (Printf.sprintf "expected error code %d, observed %s" c
                    (match obs_err with Some x -> "code " ^ string_of_int x | None -> "an answer")) in
        let expect_native_err c = match obs_err with
          | None -> prop (Printf.sprintf "answers although the native request it maps to fails (code %d)" c)
          | Some _ -> expect_code c in
        (try
          (match kind with
           | 0 ->
             if s = None || r = None || a = None || not (valid_ent 500 s && valid_ent 256 r && valid_act a) then expect_code 3
             else begin
               match evaluation check { ev_store = []; ev_header = h; ev_subject = s; ev_resource = r; ev_action = a; ev_context = c } with
               | EvInvalidArg -> expect_code 3
               | EvError e ->
                 (match obs with
                  | [I "1"; c] when as_int c = e.code -> ()
                  | [I "1"; c] -> diff (Printf.sprintf "error code %d, native Check of the mapped request fails with %d" (as_int c) e.code)
                  | _ -> prop "answers although the native Check of the mapped request fails")
               | EvDecision b ->
                 (match obs with
                  | [I "0"; d] ->
                    (match as_list d with
                     | [I "0"; x] when as_bool x = b -> ()
                     | [I "0"; x] -> prop (Printf.sprintf "decision %b, native Check of the mapped request says %b" (as_bool x) b)
                     | _ -> diff "decision carries an error context")
                  | _ -> prop (Printf.sprintf "fails (code %s) although the native Check of the mapped request answers %b"
                                 (match obs_err with Some x -> string_of_int x | None -> "?") b))
             end
           | 1 ->
             let items = List.map (fun iv ->
               match as_list iv with
               | [is; ir; ia; ic] -> { i_subject = dec_ent is; i_resource = dec_ent ir; i_action = dec_act ia; i_context = dec_props ic }
               | _ -> failwith "item") (as_list itemsv) in
             let sem = opt semv as_int in
             let valid =
               valid_ent 500 s && valid_ent 256 r && valid_act a &&
               List.for_all (fun it -> valid_ent 500 it.i_subject && valid_ent 256 it.i_resource && valid_act it.i_action) items &&
               (match sem with None -> true | Some n -> n >= 0 && n <= 2) in
             if not valid then expect_code 3
             else begin
               let top = { es_store = []; es_header = h; es_subject = s; es_resource = r; es_action = a; es_context = c;
                           es_items = items; es_options = (match sem with None -> None | Some n -> Some (n_of_int n)) } in
               let batch_check qs =
                 match as_list extra with
                 | [I "1"; code] -> Inl { code = as_int code; direct = -1; batch = -1 }
                 | [I "0"; views] ->
                   let views = as_list views in
                   if List.length views <> List.length qs then raise (Missing "BatchCheck of another length");
                   Inr (List.map2 (fun v q ->
                     let d = check q in
                     match as_list v, d with
                     | [I "0"; b], CAllow b' when as_bool b = b' -> CAllow b'
                     | [I "1"; st], CErr e -> CErr { e with batch = as_int st }
                     | _ -> raise (Missing "assumption violated: native BatchCheck item differs from native Check of the same request")) views qs)
                 | _ -> raise (Missing "native BatchCheck not recorded") in
               match evaluations check batch_check sd sb top with
               | EsInvalidArg -> expect_code 3
               | EsError e -> expect_native_err e.code
               | EsOk l ->
                 (match obs with
                  | [I "0"; rs] ->
                    let rs = as_list rs in
                    if List.length rs <> List.length l then
                      diff (Printf.sprintf "%d responses, the model gives %d (semantic %s)" (List.length rs) (List.length l)
                              (match sem with None -> "absent" | Some n -> string_of_int n))
                    else List.iteri (fun i (o, e) ->
                      match as_list o, e with
                      | [I "0"; x], RDecision b when as_bool x = b -> ()
                      | [I "1"; st], RDenyErr st' when as_int st = int_of_n st' -> ()
                      | [I "0"; x], RDecision b -> prop (Printf.sprintf "item %d: decision %b, native Check of the mapped request says %b" i (as_bool x) b)
                      | [I "0"; x], RDenyErr _ when as_bool x -> prop (Printf.sprintf "item %d: permitted although the native Check of the mapped request fails" i)
                      | [I "1"; _], RDecision true -> prop (Printf.sprintf "item %d: denied with an error although the native Check of the mapped request allows" i)
                      | _, _ -> diff (Printf.sprintf "item %d: response differs from the model's (error status / context)" i))
                      (List.combine rs l)
                  | _ -> diff (Printf.sprintf "fails (code %s), the model answers %d responses"
                                 (match obs_err with Some x -> string_of_int x | None -> "?") (List.length l)))
             end
           | 2 ->
             (match s, r, a with
              | Some s', Some r', Some a' when valid_name 50 (coq_to_bytes s'.e_type) && valid_ent 256 r && valid_act a ->
                let req = { ss_store = []; ss_header = h; ss_resource = r'; ss_action = a';
                            ss_subject = { f_type = s'.e_type; f_props = s'.e_props }; ss_context = c } in
                (match subject_search list_users req with
                 | Inl e -> expect_native_err e.code
                 | Inr l ->
                   let exp = List.sort compare (List.map (fun (t, i) -> (coq_to_bytes t, coq_to_bytes i)) l) in
                   (match obs with
                    | [I "0"; rs] ->
                      let got = List.sort compare (List.map (fun p -> match as_list p with [t; i] -> (as_bytes t, as_bytes i) | _ -> failwith "pair") (as_list rs)) in
                      if got <> exp then prop (Printf.sprintf "%d subjects, native ListUsers of the mapped request gives %d (or other ones)" (List.length got) (List.length exp))
                    | _ -> prop "fails although the native ListUsers of the mapped request answers"))
              | _ -> expect_code 3)
           | 3 ->
             (match s, r, a with
              | Some s', Some r', Some a' when valid_name 50 (coq_to_bytes r'.e_type) && valid_ent 500 s && valid_act a ->
                let req = { rs_store = []; rs_header = h; rs_subject = s'; rs_action = a';
                            rs_resource = { f_type = r'.e_type; f_props = r'.e_props }; rs_context = c } in
                (match resource_search list_objects req with
                 | Inl e -> expect_native_err e.code
                 | Inr l ->
                   let exp = List.sort compare (List.map (fun (t, i) -> (coq_to_bytes t, coq_to_bytes i)) l) in
                   (match obs with
                    | [I "0"; rs] ->
                      let got = List.sort compare (List.map (fun p -> match as_list p with [t; i] -> (as_bytes t, as_bytes i) | _ -> failwith "pair") (as_list rs)) in
                      if got <> exp then prop (Printf.sprintf "%d resources, native ListObjects of the mapped request gives %d (or other ones)" (List.length got) (List.length exp))
                    | _ -> prop "fails although the native ListObjects of the mapped request answers"))
              | _ -> expect_code 3)
           | _ ->
             (match s, r, as_list extra with
              | Some s', Some r', [known; rels] when valid_ent 500 s && valid_ent 256 r ->
                if not (as_bool known) then expect_code 3
                else begin
                  let rels = List.map as_cbytes (as_list rels) in
                  if rels = [] then expect_code 3 (* BatchCheckRequest.Validate: at least one check *)
                  else begin
                    let req = { as_store = []; as_model = bytes_to_coq (canon_model (coq_to_bytes (model_id_from_header h)));
                                as_subject = s'; as_resource = r'; as_context = c } in
                    match action_search (fun qs -> Inr (List.map check qs)) req rels with
                    | Inl (e : err) -> expect_native_err e.code
                    | Inr l ->
                      let exp = List.sort compare (List.map coq_to_bytes l) in
                      (match obs with
                       | [I "0"; ns] ->
                         let got = List.map as_bytes (as_list ns) in
                         if List.sort compare got <> exp then prop "the actions differ from the relations the native Check allows"
                         else if got <> exp then diff "actions not sorted by name"
                       | _ -> prop "fails although every native Check answers")
                  end
                end
              | _ -> expect_code 3))
        with Missing m -> diff ("the model maps the call to a native request the driver did not derive: " ^ m))
      | _ -> ()) (as_list calls);
    (match !props, !diffs with
     | p :: _, _ -> "PROP " ^ p ^ (match !diffs with d :: _ -> " || also model-diff: " ^ d | [] -> "")
     | [], d :: _ -> "DIFF " ^ d
     | [], [] -> "OK")
  | _ -> "DIFF malformed-record"

let () = run_oracle f
