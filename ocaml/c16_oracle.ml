(* C16 oracle: replays the interleaved history on Store/Stores.v (instance t_strace) and compares
   every output with the implementation's (DIFF).  The property predicate itself - per store, the
   interleaved run is answered exactly like the run of that store alone - is evaluated by the
   driver on the implementation (two real runs), which writes PROP lines. *)

(* Cross-check of extraction: with ORACLE_DUMP=<file> one line per interleaved history is appended
   with what the EXTRACTED model computed: per model operation the result class and a checksum of
   the answer; bin/coqreplay_c16.py recomputes the same numbers inside Coq (vm_compute). *)
let dump_chan = match Sys.getenv_opt "ORACLE_DUMP" with
  | Some p when p <> "" -> Some (open_out_gen [Open_append; Open_creat] 0o644 p)
  | _ -> None
let chk_add acc x = (acc * 31 + x + 7) mod 1000003
let chk_bytes acc (b : n list) = List.fold_left (fun a x -> chk_add a (int_of_n x)) acc b
let chk_blist acc l = List.fold_left (fun a b -> chk_add (chk_bytes a b) 256) acc l
let chk_tup a ((o, r), u) = chk_add (chk_bytes (chk_add (chk_bytes (chk_add (chk_bytes a o) 256) r) 256) u) 257
let out_code (o : t_sout) : int list =
  match o with
  | QOk -> [0; 0] | QCollision -> [1; 0] | QNotFound -> [2; 0]
  | QStore (id, name) -> [3; chk_bytes (chk_add (chk_bytes 0 id) 256) name]
  | QStores l -> [4; List.fold_left (fun a (i, n) -> chk_add (chk_bytes (chk_add (chk_bytes a i) 256) n) 257) 0 l]
  | QWrite c -> [5; int_of_n c]
  | QQuery (TTuples l) -> [6; List.fold_left chk_tup 0 l]
  | QQuery (TChgs l) -> [7; List.fold_left (fun a (w, t) -> chk_tup (chk_add a (if w then 1 else 0)) t) 0 l]
  | QQuery (TBool b) -> [8; if b then 1 else 0]
  | QQuery (TErr c) -> [9; int_of_n c]
  | QModel (id, b) -> [10; chk_add (chk_bytes 0 id) (int_of_n b.tb_variant)]
  | QIds ids -> [11; chk_blist 0 ids]
  | QAsserts l -> [12; List.fold_left (fun a x -> chk_add (chk_bytes a x.a_enc) 256) 0 l]
let dump id nums =
  match dump_chan with
  | Some ch -> output_string ch (id ^ " " ^ String.concat " " (List.map string_of_int nums) ^ "\n"); flush ch
  | None -> ()

let str l = coq_to_bytes l
let b s = bytes_to_coq s
let body variant = { tb_enc = [n_of_int variant]; tb_wf = true; tb_valid = true; tb_ntypes = n_of_int 3;
                     tb_size = n_of_int 200; tb_variant = n_of_int variant }
let tup v = match as_list v with [o; r; u] -> ((as_cbytes o, as_cbytes r), as_cbytes u) | _ -> failwith "tuple"
let show_tup ((o, r), u) = str o ^ "#" ^ str r ^ "@" ^ str u
let asrt i = { a_enc = [n_of_int i]; a_size = N0; a_wf = true; a_valid = true }

(* one implementation operation = one or more model operations + a check of their outputs *)
type step = { mops : t_sop list; check : t_sout list -> string option }

let expect_cls what model_cls impl_cls =
  if model_cls = impl_cls then None else Some (Printf.sprintf "%s: model=class %d impl=class %d" what model_cls impl_cls)

let parse v : step =
  match as_list v with
  | [I "0"; s; name; cls] ->
    { mops = [PCreate (as_cbytes s, as_cbytes name)];
      check = (function [QStore _] -> expect_cls "create" 0 (as_int cls) | _ -> Some "create: model refuses") }
  | [I "1"; s; cls] ->
    { mops = [PDelete (as_cbytes s)]; check = (function [QOk] -> expect_cls "delete" 0 (as_int cls) | _ -> Some "delete") }
  | [I "2"; s; cls; name] ->
    { mops = [PGet (as_cbytes s)];
      check = (function
        | [QStore (_, n)] -> if as_int cls = 0 && str n = as_bytes name then None else Some (Printf.sprintf "get: model finds the store, impl=class %d" (as_int cls))
        | [QNotFound] -> expect_cls "get" 6 (as_int cls)
        | _ -> Some "get") }
  | [I "3"; _s; cls; ids] ->
    let got = List.sort compare (List.map as_bytes (as_list ids)) in
    { mops = [PList];
      check = (function
        | [QStores l] ->
          let m = List.sort compare (List.map (fun (i, _) -> str i) l) in
          if as_int cls = 0 && m = got then None
          else Some (Printf.sprintf "list: model [%s] impl [%s]" (String.concat "," m) (String.concat "," got))
        | _ -> Some "list") }
  | [I "13"; _s; ids; name; cls; got] ->
    let got = List.sort compare (List.map as_bytes (as_list got)) in
    { mops = [PListF (List.map as_cbytes (as_list ids), as_cbytes name)];
      check = (function
        | [QStores l] ->
          let m = List.sort compare (List.map (fun (i, _) -> str i) l) in
          if as_int cls = 0 && m = got then None
          else Some (Printf.sprintf "listf: model [%s] impl [%s]" (String.concat "," m) (String.concat "," got))
        | _ -> Some "listf") }
  | [I "4"; s; id; variant; cls] ->
    { mops = [PWriteModel (as_cbytes s, as_cbytes id, body (as_int variant))];
      check = (function [QOk] -> expect_cls "wmodel" 0 (as_int cls) | _ -> Some "wmodel: model refuses") }
  | [I "5"; s; id; cls; vplus] ->
    { mops = [PReadModel (as_cbytes s, as_cbytes id)];
      check = (function
        | [QModel (_, bd)] ->
          if as_int cls = 0 && int_of_n bd.tb_variant = as_int vplus - 1 then None
          else Some (Printf.sprintf "rmodel: model has variant %d, impl class %d variant %d" (int_of_n bd.tb_variant) (as_int cls) (as_int vplus - 1))
        | [QNotFound] -> expect_cls "rmodel" 2 (as_int cls)
        | _ -> Some "rmodel") }
  | [I "6"; s; cls; ids] ->
    let got = List.map as_bytes (as_list ids) in
    { mops = [PListModels (as_cbytes s)];
      check = (function
        | [QIds l] -> let m = List.map str l in
          if as_int cls = 0 && m = got then None else Some (Printf.sprintf "lmodels: model [%s] impl [%s]" (String.concat "," m) (String.concat "," got))
        | _ -> Some "lmodels") }
  | [I "7"; s; dels; wrs; cls] ->
    { mops = [PWrite (as_cbytes s, (List.map tup (as_list dels), List.map tup (as_list wrs)))];
      check = (function [QWrite c] -> expect_cls "wtuples" (int_of_n c) (as_int cls) | _ -> Some "wtuples") }
  | [I "8"; s; cls; ts] ->
    let got = List.sort compare (List.map (fun t -> show_tup (tup t)) (as_list ts)) in
    { mops = [PQuery (as_cbytes s, TReadAll)];
      check = (function
        | [QQuery (TTuples l)] -> let m = List.sort compare (List.map show_tup l) in
          if as_int cls = 0 && m = got then None else Some (Printf.sprintf "readall: model [%s] impl [%s]" (String.concat " " m) (String.concat " " got))
        | _ -> Some "readall") }
  | [I "9"; s; cls; cs] ->
    let got = List.map (fun c -> match as_list c with [w; o; r; u] -> (as_bool w, show_tup ((as_cbytes o, as_cbytes r), as_cbytes u)) | _ -> failwith "chg") (as_list cs) in
    { mops = [PQuery (as_cbytes s, TChanges)];
      check = (function
        | [QQuery (TChgs l)] -> let m = List.map (fun (w, t) -> (w, show_tup t)) l in
          if as_int cls = 0 && m = got then None
          else Some (Printf.sprintf "changes: model %d entries, impl %d entries (or another order)" (List.length m) (List.length got))
        | _ -> Some "changes") }
  | [I "10"; s; obj; k; user; mid; cls; allowed] ->
    let s = as_cbytes s and obj = as_cbytes obj and user = as_cbytes user and k = as_int k in
    if as_bytes mid = "" then
      { mops = [PQuery (s, TCheck (obj, n_of_int k, user))];
        check = (function
          | [QQuery (TBool bb)] -> if as_int cls = 0 && bb = as_bool allowed then None
            else Some (Printf.sprintf "check (latest model): model=%b impl=class %d %b" bb (as_int cls) (as_bool allowed))
          | [QQuery (TErr c)] -> expect_cls "check" (int_of_n c) (as_int cls)
          | _ -> Some "check") }
    else
      { mops = [PReadModel (s, as_cbytes mid); PQuery (s, TReadAll)];
        check = (function
          | [QNotFound; _] -> expect_cls "check (named model)" 2 (as_int cls)
          | [QModel (_, bd); QQuery (TTuples l)] ->
            let rel = if (int_of_n bd.tb_variant lsr k) land 1 = 1 then rel_viewer else rel_editor in
            let bb = List.exists (fun t -> t = ((obj, rel), user)) l in
            if as_int cls = 0 && bb = as_bool allowed then None
            else Some (Printf.sprintf "check (named model, variant %d): model=%b impl=class %d %b" (int_of_n bd.tb_variant) bb (as_int cls) (as_bool allowed))
          | _ -> Some "check") }
  | [I "11"; s; mid; idxs; cls] ->
    let s = as_cbytes s and mid = as_cbytes mid in
    if as_int cls = 0 then
      { mops = [PReadModel (s, mid); PWriteAsserts (s, mid, List.map (fun i -> asrt (as_int i)) (as_list idxs))];
        check = (function [QModel _; QOk] -> None | _ -> Some "wasserts: accepted by impl, model does not know the model id") }
    else
      { mops = [PReadModel (s, mid)];
        check = (function [QNotFound] -> expect_cls "wasserts" 2 (as_int cls) | _ -> Some (Printf.sprintf "wasserts: impl=class %d, model knows the model id" (as_int cls))) }
  | [I "12"; s; mid; cls; idxs] ->
    let s = as_cbytes s and mid = as_cbytes mid in
    let got = List.map (fun i -> as_int i - 1) (as_list idxs) in
    if as_int cls = 0 then
      { mops = [PReadModel (s, mid); PReadAsserts (s, mid)];
        check = (function
          | [QModel _; QAsserts l] -> let m = List.map (fun a -> match a.a_enc with [x] -> int_of_n x | _ -> -1) l in
            if m = got then None else Some (Printf.sprintf "rasserts: model %d assertions, impl %d (or other ones)" (List.length m) (List.length got))
          | _ -> Some "rasserts: answered by impl, model does not know the model id") }
    else
      { mops = [PReadModel (s, mid)];
        check = (function [QNotFound] -> expect_cls "rasserts" 2 (as_int cls) | _ -> Some (Printf.sprintf "rasserts: impl=class %d, model knows the model id" (as_int cls))) }
  | _ -> failwith "op"

(* sqlite: the store-table operations are also replayed on the model of sqlite's store table *)
let sql_table_diff ops =
  let tops = List.filter_map (fun v ->
    match as_list v with
    | [I "0"; s; name; cls] -> Some (TCreate (as_cbytes s, as_cbytes name), `C (as_int cls))
    | [I "1"; s; cls] -> Some (TDelete (as_cbytes s), `C (as_int cls))
    | [I "2"; s; cls; _] -> Some (TGet (as_cbytes s), `C (as_int cls))
    | [I "3"; _; _; ids] -> Some (TList ([], []), `L (List.sort compare (List.map as_bytes (as_list ids))))
    | [I "13"; _; ids; name; _; got] ->
      Some (TList (List.map as_cbytes (as_list ids), as_cbytes name), `L (List.sort compare (List.map as_bytes (as_list got))))
    | _ -> None) ops in
  let tr = sql_ttrace [] (List.map fst tops) in
  let rec go i tr obs =
    match tr, obs with
    | (_, out) :: tr', (_, o) :: obs' ->
      let ok = match out, o with
        | TStore _, `C 0 | TOk, `C 0 -> true
        | TNotFound, `C 6 -> true
        | TStores l, `L got -> List.sort compare (List.map (fun (i, _) -> str i) l) = got
        | _ -> false in
      if ok then go (i + 1) tr' obs' else Some (Printf.sprintf "sqlite store table: store operation %d differs from the model" i)
    | _ -> None in
  go 0 tr tops

let f cid vs =
  match vs with
  | [backend; _combo; ops] when (match sql_table_diff (if as_int backend = 1 then as_list ops else []) with Some _ -> true | None -> false) ->
    (match sql_table_diff (as_list ops) with Some t -> "DIFF " ^ t | None -> "OK")
  | [_backend; _combo; ops] ->
    let steps = List.map parse (as_list ops) in
    let h = List.concat_map (fun st -> st.mops) steps in
    let outs = ref (List.map snd (t_strace h)) in
    dump cid (List.concat_map out_code !outs);
    let take n = let rec go n acc = if n = 0 then List.rev acc else match !outs with x :: r -> outs := r; go (n - 1) (x :: acc) | [] -> failwith "short" in go n [] in
    let rec go i steps =
      match steps with
      | [] -> "OK"
      | st :: r ->
        (match st.check (take (List.length st.mops)) with
         | Some t -> Printf.sprintf "DIFF op %d: %s" i t
         | None -> go (i + 1) r) in
    go 0 steps
  | [I "9"; _backend; _combo; _done_before; c1; a1; c2; a2] ->
    (* gated two-store case: the driver compared the two real runs (PROP line); the model side is
       Props/C17.v latest_lookup_isolated.  Re-check the recorded pair. *)
    if as_int c1 = as_int c2 && as_bool a1 = as_bool a2 && as_int c1 = 0 && as_bool a1 then "OK"
    else "PROP cross-store: model-less Check of store B while store A's lookup is in flight differs from B alone (B's latest model allows)"
  | _ -> "DIFF malformed-record"

let () = run_oracle f
