(* C03 oracle.  Record (one per scenario):
     1 model conds tuples atoms maxdepth mgok backend cyc cyc_ttu subjects faults cached   (backend: 0 memory, 1 sqlite)
   faults   = ((ot oi r subject strategy op k fired class v2default v2weight2 v2recursive polls) ...)   polls = times the failed iterator was polled again (capped)
              one weighted-graph run (strategy 1 weight2 / 2 recursive forced, no fallback) with the iterators of ONE
              read (op 0 ReadStartingWithUser, 1 ReadUsersetTuples, 2 Read) failing after k tuples
   cached   = ((ot oi subject ((r class v2default v2weight2 v2recursive) ...)) ...)
              sequences of requests on one (object, user) through the weighted-graph engine with the query cache on
   cyc      = ((ot r ut ur) ...)   userset edges the real weighted graph marks recursive / tuple cycle
   cyc_ttu  = ((ot r pt c) ...)    TTU edges so marked (parent type, computed relation)
   subjects = ((subject pathx (result ...)) ...)
   result   = (ot oi r v1 v1raw v2default v2weight2 v2recursive fbfinal fbtaken
               rsn_check rsn_excl rsn_err term_raw term_mapped srv_final srv_reason srv_fallback)
   Outcome classes: 0 allowed, 1 denied, 10.. error classes (see harness/cmd/c03/main.go).

   DIFF : the real detector / terminal-error classification / server glue differs from its Coq model
          (Check/V2Breaking.v), or the default engine is outside its algorithm model (Check/V1.v).
   PROP : the C03 contract (Check/V2Contract.v c03_ok) is violated and no listed finding explains it.
   KNOWN: the violation is explained by a listed finding.  The explanation is computed, not
          guessed: the observed v2 answer must EQUAL the reference semantics evaluated with exactly
          the switches of that finding (Check/V2Sem.v), or the default-engine model must raise a
          C01 trigger for the request. *)

let v2out_of = function
  | 0 -> V2T | 1 -> V2F
  | 10 -> V2E EValidation | 11 -> V2E EInvalidUser | 12 -> V2E EInvalidTuple
  | 13 -> V2E EUsersetExcl | 14 -> V2E EWildExcl | 15 -> V2E EPanic | 16 -> V2E EGraph
  | 17 -> V2E ECond | 18 -> V2E ETimeout | 20 -> V2E EModel | _ -> V2E EOther
let dec_of = function 0 -> DT | 1 -> DF | _ -> DE
let class_s = function
  | 0 -> "allowed" | 1 -> "denied" | 10 -> "ErrValidation" | 11 -> "ErrInvalidUser" | 12 -> "InvalidTupleError"
  | 13 -> "ErrUsersetInvalidRequest" | 14 -> "ErrWildcardInvalidRequest" | 15 -> "ErrPanicRequest"
  | 16 -> "ErrGraphError" | 17 -> "condition-error" | 18 -> "timeout" | 19 -> "other-error" | 20 -> "ErrInvalidModel"
  | 21 -> "params-error" | 22 -> "depth-error" | 23 -> "invalid-request" | _ -> "?"
let reason_of = function
  | 0 -> RNone | 1 -> RSelfRef | 2 -> RAlias | 3 -> RComputedSelf | 4 -> RTTU | 5 -> RUsersetExcl | 6 -> RWildExcl
  | _ -> failwith "reason code"
let reason_s = function
  | RNone -> "none" | RSelfRef -> "self_referential_userset" | RAlias -> "alias_userset"
  | RComputedSelf -> "computed_userset_self_object" | RTTU -> "ttu_userset"
  | RUsersetExcl -> "userset_with_exclusion" | RWildExcl -> "wildcard_with_exclusion"
let dec_s = function DT -> "allowed" | DF -> "denied" | DE -> "error"
let v1raw_aout = function 0 -> Some AT | 1 -> Some AFn | 2 -> Some AFc | 3 -> Some AEc | 4 -> Some AEd | 5 -> Some AEo | _ -> None
let b3_of_class = function 0 -> Some T | 1 -> Some F | _ -> None

(* Cross-check of extraction: with ORACLE_DUMP=<file> the values the EXTRACTED model computes are
   appended to that file, and bin/coqreplay_c03.py recomputes them inside Coq with vm_compute:
     <id> R <i> spec v1-outcome-mask triggers stratified converged CheckReason CheckExclusionReason
              c03_ok(default) c03_ok(weight2) c03_ok(recursive)        one line per evaluated request i
     <id> X <i> <switch mask> <value>     the semantics variant (Check/V2Sem.v) that explained a deviation
   (switch mask: 1 noexpand, 2 strip_ttu_userset, 4 strict_cond, 8 keep_last_recursive,
    16 / 32 swallow by object / by user, 64 noreflex). *)
let dump_chan = match Sys.getenv_opt "ORACLE_DUMP" with
  | Some p when p <> "" -> Some (open_out_gen [Open_append; Open_creat] 0o644 p)
  | _ -> None
let aout_bit = function AT -> 1 | AFn -> 2 | AFc -> 4 | AEc -> 8 | AEd -> 16 | AEo -> 32 | AFuel -> 64
let b3_code = function T -> 0 | F -> 1 | E -> 2
let reason_code = function RNone -> 0 | RSelfRef -> 1 | RAlias -> 2 | RComputedSelf -> 3 | RTTU -> 4 | RUsersetExcl -> 5 | RWildExcl -> 6
let bi b = if b then 1 else 0

let dec_edge v =
  match as_list v with
  | [a; b; c; d] -> (((n_of_int (as_int a), n_of_int (as_int b)), n_of_int (as_int c)), n_of_int (as_int d))
  | _ -> failwith "edge"

let f _id vs =
  match vs with
  | [I "1"; model; conds; tuples; atoms; maxdepth; mgok; backend; cyc; cyct; subjects; faults; cached] ->
    let m = dec_model model in
    let cs = List.map (fun c -> n_of_int (as_int c)) (as_list conds) in
    let store = List.map dec_tuple (as_list tuples) in
    let ats = List.map dec_atom (as_list atoms) in
    let md = nat_of_int (as_int maxdepth) in
    let mgok = as_int mgok = 1 in
    let cyc = List.map dec_edge (as_list cyc) in
    let cyct = List.map dec_edge (as_list cyct) in
    let fuel = nat_of_int (List.length ats + 3) in
    let strat = stratified m in
    let has_e = List.exists (fun t -> t.t_ceval = E && valid_for_read m cs t) store in
    let _ = backend in
    let ttuus = has_ttu_userset m store in
    let uniq l = List.sort_uniq compare l in
    let edge_parts (((a, b), c), d) = (a, b, c, d) in
    (* parents of tupleset tuples and computed relations of the TTU edges that carry the visited set *)
    let ttu_comps = uniq (List.map (fun e -> let (_, _, _, c) = edge_parts e in c) cyct) in
    let ttu_parents = uniq (List.concat_map (fun t -> match t.t_sub with
        | SObj p when is_tupleset m t.t_obj.otype t.t_rel -> [p] | _ -> []) store) in
    (* users of tuples whose condition is not met, on edges that carry the visited set *)
    let poisonable = uniq (List.concat_map (fun t ->
        if t.t_ceval <> T && valid_for_read m cs t then
          (match t.t_sub with
           | SSet (o', r') when List.exists (fun e -> let (a, b, c, d) = edge_parts e in a = t.t_obj.otype && b = t.t_rel && c = o'.otype && d = r') cyc -> [t.t_sub]
           | SObj p when List.exists (fun e -> let (a, _, c, _) = edge_parts e in a = t.t_obj.otype && c = p.otype) cyct
                         && is_tupleset m t.t_obj.otype t.t_rel -> [t.t_sub]
           | _ -> [])
        else []) store) in
    let lax = has_lax_cond m cs store in
    let tworec = has_two_recursive m in
    let m_kl = if tworec then keep_last_recursive m else m in
    let props = ref [] and diffs = ref [] and knowns = ref [] in
    let diff s = diffs := s :: !diffs in
    let ridx = ref 0 in
    List.iter (fun sv ->
      match as_list sv with
      | [s; px; results] ->
        let subj = dec_subject s in
        let kind = kind_of subj in
        let pathx = List.map dec_pair (as_list px) in
        let (v, conv) = lfp m cs store subj ats in
        (* semantics variants, computed on demand; switches (Check/V2Sem.v):
           nr noreflex, ne noexpand, tu strip_ttu_userset, sc strict_cond,
           kl keep_last_recursive, so/su swallow by object / by user *)
        let memo = Hashtbl.create 8 in
        let variant ((nr, ne, tu, sc, kl, so, su, win, poison) as key) =
          match Hashtbl.find_opt memo key with
          | Some x -> x
          | None ->
            let q = { q_noreflex = nr; q_noexpand = ne; q_ttuwin = win; q_poison = poison } in
            let mm = if kl then m_kl else m in
            let ss = if sc then strict_cond m cs store else store in
            let ss = if tu then strip_ttu_userset m ss else ss in
            let ss = if so || su then swallow mm cs so su ss else ss in
            let (vq, cq) = lfp_q q cyc cyct mm cs ss subj ats in
            let x = (q, vq, cq && stratified mm) in
            Hashtbl.add memo key x; x in
        let variant_val sw o rel =
          let (q, vq, okq) = variant sw in
          if okq then Some (atomval_q q subj vq o rel) else None in
        (* the smallest switch set (beyond the documented one: noreflex for userset subjects) whose
           semantics yields `got`; the finding named is the first switch of that set *)
        let explain got o rel =
          let nr = (kind = KSet) in
          let bools c = if c then [false; true] else [false] in
          let combos =
            List.concat_map (fun ne -> List.concat_map (fun tu ->
            List.concat_map (fun sc -> List.concat_map (fun kl ->
              List.map (fun (so, su) -> (nr, ne, tu, sc, kl, so, su, [], []))
                (if has_e then [(false, false); (true, false); (false, true); (true, true)] else [(false, false)]))
              (bools (tworec && kind <> KSet))) (bools lax)) (bools ttuus)) (bools (kind = KSet)) in
          let weight (_, ne, tu, sc, kl, so, su, _, _) = List.length (List.filter (fun x -> x) [ne; tu; sc; kl; so || su]) in
          let combos = List.stable_sort (fun x y -> compare (weight x) (weight y)) combos in
          match List.find_opt (fun sw -> variant_val sw o rel = Some got) combos with
          | Some (_, ne, tu, sc, kl, so, su, _, _) ->
            (match dump_chan with
             | Some ch ->
               Printf.fprintf ch "%s X %d %d %d\n" _id !ridx
                 (bi ne + 2 * bi tu + 4 * bi sc + 8 * bi kl + 16 * bi so + 32 * bi su + 64 * bi nr) (b3_code got)
             | None -> ());
            Some (if ne then "userset_subject_not_expanded"
                  else if tu then "ttu_userset_tuple_accepted"
                  else if sc then "condition_on_other_restriction_kind"
                  else if kl then "two_recursive_edges"
                  else if so || su then "cond_err_swallowed"
                  else "detector_miss_reflexive")
          | None ->
            (* order-dependent effects of the shared visited set: enumerate the possible outcomes *)
            let rec maps ps cs = match ps with
              | [] -> [[]]
              | p :: rest -> List.concat_map (fun tl -> List.map (fun c -> (p, c) :: tl) cs) (maps rest cs) in
            let rec subsets = function [] -> [[]] | x :: r -> let s = subsets r in s @ List.map (fun l -> x :: l) s in
            let take n l = List.filteri (fun i _ -> i < n) l in
            let base = (nr, false, false, false, false, false, false) in
            let mk (a, b, c, d, e, f, g) win poison = (a, b, c, d, e, f, g, win, poison) in
            let wins = if List.length ttu_comps >= 2 then maps (take 5 ttu_parents) (take 3 ttu_comps) else [] in
            if List.exists (fun w -> w <> [] && variant_val (mk base w []) o rel = Some got) wins
            then Some "ttu_visited_key_without_relation"
            else if List.exists (fun p -> p <> [] && variant_val (mk base [] p) o rel = Some got) (subsets (take 6 poisonable))
            then Some "visited_marked_before_condition"
            else None in
        List.iter (fun rv ->
          match List.map as_int (as_list rv) with
          | [ot; oi; r; v1c; v1raw; a; b; c; fbf; fbt; rc; re; rerr; tr; tc; sf; sr; sfb] ->
            let o = mk_obj ot oi in
            let rel = n_of_int r in
            let where = Printf.sprintf "%s#r%d@%s" (obj_s o) r (subj_s subj) in
            let v2cs = [a; b; c] in
            if v1c = 23 then begin
              (* the default engine rejects the request: the weighted-graph path must reject it too *)
              List.iter (fun x ->
                if not (List.mem x [10; 11; 20]) then
                  props := (Printf.sprintf "%s default engine rejects the request, weighted-graph engine answers %s" where (class_s x)) :: !props) v2cs
            end else if List.exists (fun x -> x = 10 || x = 11) v2cs then
              props := (Printf.sprintf "%s weighted-graph engine rejects the request (%s) that the default engine accepts (%s)"
                          where (class_s (List.find (fun x -> x = 10 || x = 11) v2cs)) (class_s v1c)) :: !props
            else if List.mem 18 (v1c :: fbf :: v2cs) then diff (where ^ " timeout")
            else begin
              let spec = atomval subj v o rel in
              let v1 = dec_of v1c in
              let rcr = reason_of rc and rer = reason_of re in
              (* ---- default engine inside its algorithm model (needed for the C01 triggers) ---- *)
              let (oset, trg) = check_top m cs store subj pathx md fuel o rel in
              let in_v1_model = match v1raw_aout v1raw with Some x -> List.mem x oset | None -> false in
              (* (a default-engine answer outside Check/V1.v is C01's subject, not reported here: it
                 only disables the attribution of a deviation to a C01 trigger) *)
              let in_v1_model = in_v1_model && not (List.mem AFuel oset) in
              (* ---- detector ---- *)
              let mrc = check_reason m subj o rel in
              if mrc <> rcr then
                diff (Printf.sprintf "%s CheckReason: real=%s model=%s" where (reason_s rcr) (reason_s mrc));
              (match excl_reason m subj o rel with
               | None -> diff (where ^ " CheckExclusionReason model out of fuel")
               | Some mre ->
                 if mre <> rer then
                   diff (Printf.sprintf "%s CheckExclusionReason: real=%s model=%s" where (reason_s rer) (reason_s mre)));
              (match v2out_of a with
               | V2E e when a <> 20 ->
                 if reason_from_error e <> reason_of rerr then
                   diff (Printf.sprintf "%s CheckReasonFromV2Error(%s): real=%s" where (class_s a) (reason_s (reason_of rerr)));
                 if (terminal_raw e) <> (tr = 1) then
                   diff (Printf.sprintf "%s IsV2CheckTerminalError(raw %s): real=%d" where (class_s a) tr);
                 if (terminal_mapped e) <> (tc = 1) then
                   diff (Printf.sprintf "%s IsV2CheckTerminalError(mapped %s): real=%d" where (class_s a) tc)
               | _ -> ());
              (* ---- CheckQueryV2.Execute with a fallback checker ---- *)
              if mgok && fbt = 0 then
                (match v2out_of fbf with
                 | V2E e when not (terminal_raw e) ->
                   diff (Printf.sprintf "%s CheckQueryV2 with fallback returned the non-terminal error %s without falling back" where (class_s fbf))
                 | _ -> ());
              (* ---- Server.Check with the experimental flag ----
                 The server run is one more execution of both engines: the weighted-graph outcome
                 may be any decision or any error class possible for the request (error-vs-denied
                 races of intersections / exclusions), the default engine's answer any outcome of
                 its algorithm model.  What is compared is the glue: (final, reason, fallback)
                 must be what pkg/server/check.go yields for SOME such pair. *)
              let v1decs =
                let ds = List.map (fun x -> match x with AT -> DT | AFn | AFc -> DF | _ -> DE) oset in
                let ds = if List.mem v1 ds then ds else v1 :: ds in
                (* Server.Check runs the default engine with the adaptive planner: its other
                   strategies do not share the forced-default strategy's deviations (C01/C02) *)
                let sd = match spec with T -> DT | F -> DF | E -> DE in
                let ds = if List.mem sd ds then ds else ds @ [sd] in
                (* ... and may hit a condition that cannot be evaluated on a path the forced strategy never reads *)
                if has_e && not (List.mem DE ds) then ds @ [DE] else ds in
              let cands = (if mgok && fbt = 0 then [fbf] else []) @ v2cs in
              if sf <> 9 then begin
                let sfd = match sf with 0 -> DT | 1 -> DF | _ -> DE in
                let v2cands =
                  List.map v2out_of cands @
                  (if mgok then [V2T; V2F; V2E ECond; V2E EUsersetExcl; V2E EWildExcl] else []) in
                (* the server's default engine runs with the adaptive planner: any answer (its
                   correctness is C01/C02's subject; here only the glue is compared) *)
                let ok = List.exists (fun v2 -> List.exists (fun v1x ->
                  server_final v2 v1x = sfd
                  && (sr < 8 && server_reason kind v2 v1x rcr rer = reason_of sr)
                  && server_fallback v2 = (sfb > 0)) [DT; DF; DE]) v2cands in
                if not ok then
                  diff (Printf.sprintf "%s Server.Check: final=%s reason=%s fallback=%d, not what pkg/server/check.go yields for v1=%s v2 in {%s} CheckReason=%s CheckExclusionReason=%s"
                          where (dec_s sfd) (if sr < 8 then reason_s (reason_of sr) else "several") sfb (dec_s v1)
                          (String.concat "," (List.map class_s cands)) (reason_s rcr) (reason_s rer))
              end;
              (* ---- the contract ---- *)
              let mk_ob ?reason x =
                let v2 = v2out_of x in
                let fb, fin =
                  if mgok then (fbt > 0, dec_of fbf)
                  else if sf <> 9 then (sfb > 0, (match sf with 0 -> DT | 1 -> DF | _ -> DE))
                  else (true, v1) (* weighted graph not built and the server-level run was not sampled: nothing observed *) in
                (* the default engine can be non-deterministic (C01 finding excl_sub_cycle): after a
                   fallback the final answer must be ONE of its possible answers *)
                let v1 = if fb && fin <> v1 && List.mem fin v1decs then fin else v1 in
                { ob_kind = kind; ob_spec = spec; ob_v1 = v1; ob_v2 = v2;
                  ob_reason = (match reason with Some r -> r | None -> server_reason kind v2 v1 rcr rer);
                  ob_fallback = fb; ob_final = fin } in
              incr ridx;
              (match dump_chan with
               | Some ch ->
                 Printf.fprintf ch "%s R %d %d %d %d %d %d %d %d %d %d %d\n" _id !ridx (b3_code spec)
                   (List.fold_left (fun acc x -> acc lor aout_bit x) 0 oset)
                   (bi trg.tr_excl_sub_cycle + 2 * bi trg.tr_swallow) (bi strat) (bi conv)
                   (reason_code mrc) (match excl_reason m subj o rel with Some r -> reason_code r | None -> 7)
                   (bi (c03_ok (mk_ob a))) (bi (c03_ok (mk_ob b))) (bi (c03_ok (mk_ob c)))
               | None -> ());
              let check_obs ?reason x label =
                let ob = mk_ob ?reason x in
                let v2 = ob.ob_v2 and fb = ob.ob_fallback and fin = ob.ob_final and v1 = ob.ob_v1 in
                if not (c03_ok ob) then begin
                  let txt = Printf.sprintf "%s [%s] v1=%s v2=%s spec=%s reason=%s fallback=%b final=%s"
                      where label (class_s v1c) (class_s x) (b3s spec) (reason_s ob.ob_reason) fb (dec_s fin) in
                  let known flag = knowns := (flag ^ " " ^ txt) :: !knowns in
                  let prop why = props := (txt ^ ": " ^ why) :: !props in
                  if not (clause3 ob) then begin
                    match v2 with
                    | V2E e when not (documented_error e) && not fb ->
                      prop "undocumented weighted-graph error returned without fallback"
                    | _ -> prop "fallback taken but the final answer is not the default engine's"
                  end else if not (strat && conv) then ()
                  else begin
                    let got = match b3_of_class x with Some g -> g | None -> E in
                    let c01 () =
                      (* the default engine itself deviates from the reference semantics here *)
                      let v1b3 = match v1 with DT -> T | DF -> F | DE -> E in
                      if in_v1_model && v1b3 <> spec && v1 <> DE && trg.tr_excl_sub_cycle then Some "excl_sub_cycle"
                      else if in_v1_model && v1b3 <> spec && v1 <> DE && trg.tr_swallow then Some "cond_err_swallowed"
                      else None in
                    if not (clause1 ob) then begin
                      (* object subject, v2 decided, differs from the reference semantics *)
                      match explain got o rel with
                      | Some flag -> known flag
                      | None -> prop "weighted-graph decision differs from the reference semantics (object subject), no listed finding reproduces it"
                    end else begin
                      (* userset / wildcard subject, engines differ, no reason reported *)
                      match c01 () with
                      | Some flag -> known flag
                      | None ->
                        (match explain got o rel with
                         | Some "detector_miss_reflexive"
                           when server_reason kind v2 v1 mrc (match excl_reason m subj o rel with Some x -> x | None -> RNone) <> RNone ->
                           (* (what pkg/server/check.go would log from the MODEL's detector results for this
                              outcome: e.g. CheckExclusionReason is only consulted on the fallback path) *)
                           (* the listed finding is a miss of the detector AS MODELLED; a shape the detector
                              model does report is a regression of the real detector *)
                           prop "the real breaking-change detector reports nothing on a shape its model (Check/V2Breaking.v) reports"
                         | Some flag -> known flag
                         | None -> prop "engines differ on a userset / wildcard subject, no breaking-change reason, no listed finding reproduces the v2 answer")
                    end
                  end
                end;
                (* condition errors only when some condition cannot be evaluated *)
                if x = 17 && not has_e then
                  props := (Printf.sprintf "%s [%s] condition error although every condition can be evaluated" where label) :: !props in
              check_obs a "default";
              check_obs b "weight2";
              check_obs c "recursive";
              if mgok && fbt = 0 then check_obs fbf "with-fallback";
              (* the server's own answer when it did not fall back is a weighted-graph decision *)
              if mgok && (sf = 0 || sf = 1) && sfb = 0 && sr < 8 then check_obs ~reason:(reason_of sr) sf "server"
            end
          | _ -> failwith "result") (as_list results)
      | _ -> failwith "subject entry") (as_list subjects);
    (* ---- injected read errors: an error or a correct decision, never a wrong decision ---- *)
    let spec_memo = Hashtbl.create 8 in
    let spec_of subj o rel =
      let (v, conv) = match Hashtbl.find_opt spec_memo subj with
        | Some x -> x
        | None -> let x = lfp m cs store subj ats in Hashtbl.add spec_memo subj x; x in
      if strat && conv then Some (atomval subj v o rel) else None in
    List.iter (fun fv ->
      match as_list fv with
      | [ot; oi; r; s; st; op; k; fired; cls; a; b; c; polls] ->
        let subj = dec_subject s in
        let o = mk_obj (as_int ot) (as_int oi) and rel = n_of_int (as_int r) in
        let cls = as_int cls in
        if cls = 18 then begin
          let txt = Printf.sprintf "%s#r%d@%s strategy=%s: %s failing after %d tuple(s): the weighted-graph engine does not answer before the deadline (failed iterator polled again %d%s times)"
              (obj_s o) (as_int r) (subj_s subj) (if as_int st = 1 then "weight2" else "recursive")
              (match as_int op with 0 -> "ReadStartingWithUser" | 1 -> "ReadUsersetTuples" | _ -> "Read") (as_int k)
              (as_int polls) (if as_int polls >= 1000 then "+" else "") in
          (* the listed finding: iterator.ToChannel keeps polling a failed object-side iterator and its consumer
             keeps going; anything else that hangs is not listed *)
          if as_int fired = 1 && as_int polls >= 100 && as_int op <> 0 then knowns := ("v2_read_error_hang " ^ txt) :: !knowns
          else props := (txt ^ ": hang that is not the listed re-polling loop") :: !props
        end else
        if as_int fired = 1 && (cls = 0 || cls = 1) then begin
          let healthy = List.filter (fun x -> x = 0 || x = 1) [as_int a; as_int b; as_int c] in
          let right = (match spec_of subj o rel with Some T -> [0] | Some F -> [1] | _ -> [0; 1]) in
          if not (List.mem cls healthy) && not (List.mem cls right) then
            props := (Printf.sprintf "%s#r%d@%s strategy=%s: %s failing after %d tuple(s) is turned into the decision %s (healthy weighted-graph decision %s): an error in a consumed stream must surface as an error"
                        (obj_s o) (as_int r) (subj_s subj) (if as_int st = 1 then "weight2" else "recursive")
                        (match as_int op with 0 -> "ReadStartingWithUser" | 1 -> "ReadUsersetTuples" | _ -> "Read") (as_int k)
                        (class_s cls) (String.concat "/" (List.map class_s healthy))) :: !props
        end
      | _ -> failwith "fault entry") (as_list faults);
    (* ---- query cache on: same decision as the uncached weighted-graph run ---- *)
    List.iter (fun cv ->
      match as_list cv with
      | [ot; oi; s; rs] ->
        let subj = dec_subject s in
        let o = mk_obj (as_int ot) (as_int oi) in
        List.iteri (fun i rv ->
          match List.map as_int (as_list rv) with
          | [r; cc; a; b; c] ->
            if (cc = 0 || cc = 1) && a = b && a = c && (a = 0 || a = 1) && cc <> a then
              props := (Printf.sprintf "%s#r%d@%s: with the check query cache on, request %d of a sequence on this object and user is %s, uncached weighted-graph decision %s"
                          (obj_s o) r (subj_s subj) (i + 1) (class_s cc) (class_s a)) :: !props
          | _ -> failwith "cached result") (as_list rs)
      | _ -> failwith "cached entry") (as_list cached);
    (match !props, !diffs, !knowns with
     | p :: _, _, _ -> "PROP " ^ p ^ (match !diffs with d :: _ -> " || also model-diff: " ^ d | [] -> "")
     | [], d :: _, _ -> "DIFF " ^ d
     | [], [], k :: _ -> "KNOWN " ^ k
     | [], [], [] -> "OK")
  | _ -> "DIFF malformed-record"

let () = run_oracle f
