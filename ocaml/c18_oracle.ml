(* C18 oracle (tuple validation accepts exactly what the model allows).

   Kind 1:  1 env model cdefs limit validated ( (tuple obs) ... )
     env    = ( ((name id) ...)types ((name id) ...)relations ((name id) ...)conditions )
     model  = as sem_common.dec_model ; cdefs = ( (cid ((pname ptype) ...)) ... )
     tuple  = ( obj rel user cond ) , cond = () | ( name ((key vkind) ...) size )
     obs    = ( direct write check listusers expand ), -1 = not run
       direct = class of validation.ValidateTupleForWrite: 0 ok 1 type_not_found 2 relation_not_found
                3 invalid_tuple 4 invalid_conditional_tuple 9 other
       write  = class of WriteCommand.Execute: 0 ok 2 validation_error, other = unexpected
       check  = contextual tuple of CheckQuery: 0 accepted, 1..4 as direct
       listusers / expand = gRPC class: 0 accepted 1 invalid_tuple 2 validation_error
   DIFF  the implementation differs from Sem/ValidWrite.v (validate_tuple / validate_write)
   PROP  the implementation's acceptance differs from the declarative allowed_raw and the difference
         is not one of the listed laxities
   KNOWN cond_any_restriction_of_type | nocond_via_plain_restriction (F4, Write and contextual)
         ctx_self_userset_accepted | ctx_size_limit_not_applied (contextual tuples only)

   Kind 2:  2 env model cdefs limit maxw before deletes writes on_duplicate on_missing class after
     the Write command on a store: result class and store afterwards must be those of write_cmd (DIFF);
     a refused request must leave the store unchanged and an accepted one must not contain a tuple
     that is neither allowed nor one of the listed laxities, at whatever position (PROP). *)

let dec_table v = List.map (fun p -> match as_list p with
  | [n; i] -> (as_cbytes n, n_of_int (as_int i)) | _ -> failwith "table entry") (as_list v)

let dec_env v = match as_list v with
  | [t; r; c] -> { e_types = dec_table t; e_rels = dec_table r; e_conds = dec_table c }
  | _ -> failwith "env"

let rec dec_ptype v = match v with
  | I _ -> (match as_int v with
      | 0 -> PBool | 1 -> PString | 2 -> PInt | 3 -> PUint | 4 -> PDouble | 5 -> PDuration
      | 6 -> PTimestamp | 7 -> PIpaddr | 8 -> PAny | _ -> failwith "ptype")
  | L [k; e] -> (match as_int k with 9 -> PList (dec_ptype e) | 10 -> PMap (dec_ptype e) | _ -> failwith "ptype")
  | _ -> failwith "ptype"

let dec_cdefs v = List.map (fun c -> match as_list c with
  | [ci; ps] -> (n_of_int (as_int ci),
                 List.map (fun p -> match as_list p with
                   | [n; t] -> (as_cbytes n, dec_ptype t) | _ -> failwith "param") (as_list ps))
  | _ -> failwith "cdef") (as_list v)

let rec dec_vkind v = match v with
  | I _ -> (match as_int v with 0 -> KNull | 1 -> KBool | 6 -> KCtl | _ -> failwith "vkind")
  | L [I "2"; a; b] -> KNum (as_bool a, as_bool b)
  | L [I "3"; L [I "0"; b]] -> KStr (SInt (as_bool b))
  | L [I "3"; I s] -> (match int_of_string s with
      | 1 -> KStr SFrac | 2 -> KStr SText | 3 -> KStr SDur | 4 -> KStr STime | 5 -> KStr SIp | _ -> failwith "sclass")
  | L (I "4" :: l) -> KList (List.map dec_vkind l)
  | L (I "5" :: l) -> KMap (List.map dec_vkind l)
  | _ -> failwith "vkind"

let dec_rtuple v = match as_list v with
  | [o; r; u; c] ->
    let cond = match as_list c with
      | [] -> None
      | [n; ctx; sz] ->
        Some { wc_name = as_cbytes n;
               wc_ctx = List.map (fun kv -> match as_list kv with
                 | [k; x] -> (as_cbytes k, dec_vkind x) | _ -> failwith "ctx entry") (as_list ctx);
               wc_size = n_of_int (as_int sz) }
      | _ -> failwith "cond" in
    { rt_obj = as_cbytes o; rt_rel = as_cbytes r; rt_user = as_cbytes u; rt_cond = cond }
  | _ -> failwith "rtuple"

let class_of = function
  | None -> 0 | Some ETypeNotFound -> 1 | Some ERelNotFound -> 2 | Some EInvalidTuple -> 3 | Some EInvalidCond -> 4

let cls = function 0 -> "ok" | 1 -> "type_not_found" | 2 -> "relation_not_found" | 3 -> "invalid_tuple"
  | 4 -> "invalid_conditional_tuple" | n -> "class" ^ string_of_int n

let show (w : rtuple) =
  Printf.sprintf "%s#%s@%s%s" (coq_to_bytes w.rt_obj) (coq_to_bytes w.rt_rel) (coq_to_bytes w.rt_user)
    (match w.rt_cond with None -> "" | Some c -> Printf.sprintf " (condition %s, %d context keys, %d bytes)"
       (coq_to_bytes c.wc_name) (List.length c.wc_ctx) (int_of_n c.wc_size))
  |> String.escaped

let dec_store v = List.map (fun x -> match as_list x with
  | [o; r; u; c] -> ({ k_obj = as_cbytes o; k_rel = as_cbytes r; k_user = as_cbytes u }, as_cbytes c)
  | _ -> failwith "stored") (as_list v)

let store_s (s : store) =
  List.sort compare (List.map (fun (k, c) ->
    Printf.sprintf "%s#%s@%s[%s]" (coq_to_bytes k.k_obj) (coq_to_bytes k.k_rel) (coq_to_bytes k.k_user) (coq_to_bytes c)) s)

let wres_class = function
  | WOk -> 0 | WInvalidInput -> 1 | WValidation -> 2 | WDuplicate -> 3 | WLimit -> 4 | WFailedInput -> 5

let dec_opt v = match as_int v with 0 -> OError | 1 -> OIgnore | _ -> OBad

(* Cross-check of extraction: with ORACLE_DUMP=<file> the values the EXTRACTED model computes are
   appended to that file, one line per record, before any comparison with the implementation;
   bin/coqreplay_c18.py recomputes them inside Coq with vm_compute.
   kind 1, per tuple: class of validate_tuple, class of validate_write, valid_for_write, valid_ctx_tuple,
                      allowed_raw, lax_cond_raw, lax_nocond_raw
   kind 2: class of write_cmd, number of datastore calls, a DsWrite among them, size and a checksum of
           the store afterwards *)
let dump_chan = match Sys.getenv_opt "ORACLE_DUMP" with
  | Some p when p <> "" -> Some (open_out_gen [Open_append; Open_creat] 0o644 p)
  | _ -> None
let dump_left = ref 800      (* only the first records are replayed *)
let b01 b = if b then 1 else 0
let store_sum (s : store) =
  List.fold_left (fun a (k, c) -> a + List.length k.k_obj + List.length k.k_rel + List.length k.k_user + List.length c) 0 s

let f id vs =
  match vs with
  | [I "1"; env; model; cds; limit; _validated; tuples] ->
    let e = dec_env env and m = dec_model model and cds = dec_cdefs cds in
    let limit = n_of_int (as_int limit) in
    (match dump_chan with
     | Some ch when !dump_left > 0 ->
       decr dump_left;
       output_string ch id;
       List.iter (fun tv -> match as_list tv with
         | [t; _] ->
           let w = dec_rtuple t in
           Printf.fprintf ch " %d %d %d %d %d %d %d"
             (class_of (validate_tuple e m cds w)) (class_of (validate_write e m cds limit w))
             (b01 (valid_for_write e m cds limit w)) (b01 (valid_ctx_tuple e m cds w))
             (b01 (allowed_raw e m cds limit w)) (b01 (lax_cond_raw e m cds limit w)) (b01 (lax_nocond_raw e m cds limit w))
         | _ -> failwith "tuple entry") (as_list tuples);
       output_char ch '\n'; flush ch
     | _ -> ());
    let model_hyps = env_wf e && restr_wf m && tupleset_direct m && cds_wf cds in
    let props = ref [] and diffs = ref [] and knowns = ref [] in
    let known flag txt = if not (List.mem_assoc flag !knowns) then knowns := (flag, txt) :: !knowns in
    List.iter (fun tv ->
      match as_list tv with
      | [t; o] ->
        let w = dec_rtuple t in
        let (direct, write, check, lusers, expand) = match List.map as_int (as_list o) with
          | [a; b; c; d; e] -> (a, b, c, d, e) | _ -> failwith "obs" in
        let vt = class_of (validate_tuple e m cds w) in
        let vw = validate_write e m cds limit w in
        let where = show w in
        (* --- implementation vs algorithm model --- *)
        if direct <> vt then
          diffs := Printf.sprintf "%s: ValidateTupleForWrite=%s model=%s" where (cls direct) (cls vt) :: !diffs;
        if write >= 0 then begin
          let exp = if vw = None then 0 else 2 in
          if write <> exp then
            diffs := Printf.sprintf "%s: Write class=%d model=%d (%s)" where write exp (cls (class_of vw)) :: !diffs
        end;
        if check >= 0 && check <> vt then
          diffs := Printf.sprintf "%s: contextual tuple of Check=%s model=%s" where (cls check) (cls vt) :: !diffs;
        let code_exp = if vt = 0 then 0 else if vt = 4 then 2 else 1 in
        if lusers >= 0 && lusers <> code_exp then
          diffs := Printf.sprintf "%s: ListUsers validation class=%d model=%d" where lusers code_exp :: !diffs;
        if expand >= 0 && expand <> code_exp then
          diffs := Printf.sprintf "%s: Expand class=%d model=%d" where expand code_exp :: !diffs;
        (* --- implementation vs the property --- *)
        if model_hyps && rt_wf w then begin
          let allowed = allowed_raw e m cds limit w in
          let lc = lax_cond_raw e m cds limit w and ln = lax_nocond_raw e m cds limit w in
          (* Write *)
          if write >= 0 then begin
            let acc = (write = 0) in
            if acc && not allowed then begin
              if lc then known "cond_any_restriction_of_type" (where ^ " accepted by Write: the condition is carried by another form of the user's type")
              else if ln then known "nocond_via_plain_restriction" (where ^ " accepted by Write without a condition through the plain restriction of its type")
              else props := (where ^ ": accepted by Write, not allowed by the model") :: !props
            end
            else if (not acc) && allowed then
              props := (where ^ ": allowed by the model, rejected by Write") :: !props
          end;
          (* contextual tuples: ValidateTupleForWrite itself and the query commands *)
          let ctx_obs = (direct = 0) :: (List.filter_map (fun x -> if x >= 0 then Some (x = 0) else None) [check; lusers; expand]) in
          List.iter (fun acc ->
            if acc && not allowed then begin
              let sz = ctx_size w in
              let self = match parse e w with Some t -> self_pointing t | None -> false in
              let expl_at_size = allowed_raw e m cds sz w || lax_cond_raw e m cds sz w || lax_nocond_raw e m cds sz w in
              if self then known "ctx_self_userset_accepted" (where ^ " accepted as a contextual tuple although it points at itself")
              else if int_of_n sz > int_of_n limit && expl_at_size then
                known "ctx_size_limit_not_applied" (where ^ " accepted as a contextual tuple beyond the context size limit")
              else if lc then known "cond_any_restriction_of_type" (where ^ " accepted as a contextual tuple: the condition is carried by another form of the user's type")
              else if ln then known "nocond_via_plain_restriction" (where ^ " accepted as a contextual tuple without a condition through the plain restriction of its type")
              else props := (where ^ ": accepted as a contextual tuple, not allowed by the model") :: !props
            end
            else if (not acc) && allowed then
              props := (where ^ ": allowed by the model, rejected as a contextual tuple") :: !props) ctx_obs
        end
      | _ -> failwith "tuple entry") (as_list tuples);
    (match !props, !diffs, !knowns with
     | p :: _, _, _ -> "PROP " ^ p ^ (match !diffs with d :: _ -> " || also model-diff: " ^ d | [] -> "")
     | [], d :: _, _ -> Printf.sprintf "DIFF %s (%d differing observation(s) in this record)" d (List.length !diffs)
     | [], [], (_ :: _ as ks) ->
       let ks = List.rev ks in
       let n = try int_of_string id with _ -> 0 in
       let (flag, txt) = List.nth ks (n mod List.length ks) in
       "KNOWN " ^ flag ^ " " ^ txt
     | [], [], [] -> "OK")
  | [I "2"; env; model; cds; limit; maxw; before; deletes; writes; od; om; cl; after] ->
    let e = dec_env env and m = dec_model model and cds = dec_cdefs cds in
    let limit = n_of_int (as_int limit) and maxw = n_of_int (as_int maxw) in
    let before = dec_store before and after = dec_store after in
    let deletes = List.map (fun x -> match as_list x with
      | [o; r; u] -> { k_obj = as_cbytes o; k_rel = as_cbytes r; k_user = as_cbytes u } | _ -> failwith "delete") (as_list deletes) in
    let writes = List.map dec_rtuple (as_list writes) in
    let ((r, calls), s') = write_cmd e m cds limit maxw (dec_opt od) (dec_opt om) before deletes writes in
    (match dump_chan with
     | Some ch when !dump_left > 0 ->
       decr dump_left;
       Printf.fprintf ch "%s %d %d %d %d %d\n" id (wres_class r) (List.length calls)
         (b01 (List.exists (function DsWrite _ -> true | DsReadModel -> false) calls)) (List.length s') (store_sum s');
       flush ch
     | _ -> ());
    let cl = as_int cl in
    let what = Printf.sprintf "writes=[%s] deletes=%d" (String.concat "; " (List.map show writes)) (List.length deletes) in
    let hyps = env_wf e && restr_wf m && tupleset_direct m && cds_wf cds in
    let not_allowed = List.filter (fun w ->
      rt_wf w && not (allowed_raw e m cds limit w || lax_cond_raw e m cds limit w || lax_nocond_raw e m cds limit w)) writes in
    if cl <> 0 && store_s before <> store_s after then
      "PROP a rejected write request changed the store: " ^ what
    else if cl = 0 && hyps && not_allowed <> [] then
      Printf.sprintf "PROP invalid tuple accepted: the Write request succeeded although %s is not allowed by the model (position %d of %d): %s"
        (show (List.hd not_allowed))
        (let rec idx i = function [] -> -1 | x :: r -> if x == List.hd not_allowed then i else idx (i + 1) r in idx 0 writes)
        (List.length writes) what
    else if cl <> wres_class r then
      Printf.sprintf "DIFF Write request class=%d model=%d: %s" cl (wres_class r) what
    else if store_s after <> store_s s' then
      Printf.sprintf "DIFF store after the Write request differs from the model: impl={%s} model={%s}: %s"
        (String.concat ", " (store_s after)) (String.concat ", " (store_s s')) what
    else "OK"
  | _ -> "DIFF malformed-record"

let () = run_oracle f
