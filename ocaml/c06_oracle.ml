(* C06 oracle.  Record: 1 model conds tuples atoms requests checks   (see harness/cmd/c06/main.go)

   For every ListUsers request:
     DIFF   the implementation's answer is not one of the outcomes of the algorithm model
            Query/ListUsers.v (list_users / validate);
     PROP   the property's own predicate fails on the implementation's answer, judged by the
            reference semantics Sem.holds3 (never by the algorithm model):
              - an entry is returned twice;
              - an entry does not match the user filter (type; relation for userset filters);
              - a returned object / userset / typed wildcard does not hold the relation
                (holds3 with that entry as the subject is not T), or fails its individual Check;
              - (no result limit) a concrete object / userset of the filter shape that occurs in
                the data holds the relation but is neither returned nor covered by a returned
                wildcard of its type;
     KNOWN  a PROP that the algorithm model reproduces (the answer is a model outcome) AND for
            which the model raised the trigger of a listed finding.
   A clean error (condition / depth / validation) is "no answer".  Models that are not stratified
   or whose fixpoint did not converge are compared with the algorithm model only (as in C01). *)

let impl_aout = function 0 -> Some AT | 1 -> Some AFn | 2 -> Some AFc | 3 -> Some AEc | 4 -> Some AEd | 5 -> Some AEo | _ -> None
let out_s = function 0 -> "ok" | 3 -> "Econd" | 4 -> "Edepth" | 5 -> "Eother" | 6 -> "timeout" | 8 -> "invalid-type"
  | 9 -> "invalid-relation" | 10 -> "invalid-other" | _ -> "?"
let lerr_s = function LCond -> "Econd" | LDepth -> "Edepth" | LOther -> "Eother" | LFuel -> "FUEL"
let set_s l = "{" ^ String.concat "," (List.sort compare (List.map subj_s l)) ^ "}"

(* Cross-check of extraction: with ORACLE_DUMP=<file> every value the EXTRACTED model computes for a
   request (validate; list_users: every possible answer, error / ambiguity classes, trigger flags;
   stratified; converged and holds3 for every subject whose Sem value enters the verdict) is
   appended to that file, one line per request, before any comparison with the implementation;
   bin/coqreplay_c06.py recomputes the same numbers inside Coq with vm_compute. *)
let dump_chan = match Sys.getenv_opt "ORACLE_DUMP" with
  | Some p when p <> "" -> Some (open_out_gen [Open_append; Open_creat] 0o644 p)
  | _ -> None
let b3_code = function T -> 0 | F -> 1 | E -> 2
let subj_code = function
  | SObj o -> 3 * (int_of_n o.otype + 1000 * int_of_n o.oid)
  | SWild t -> 1 + 3 * int_of_n t
  | SSet (o, r) -> 2 + 3 * (int_of_n o.otype + 1000 * (int_of_n o.oid + 1000 * int_of_n r))
let lerr_bit = function LCond -> 1 | LDepth -> 2 | LOther -> 4 | LFuel -> 8
let lerr_mask l = List.fold_left (fun acc e -> acc lor lerr_bit e) 0 l
let trig_mask tg = (if tg.tg_race then 1 else 0) + (if tg.tg_excl_cycle then 2 else 0) + (if tg.tg_union then 4 else 0)
                   + (if tg.tg_inter then 8 else 0) + (if tg.tg_excl then 16 else 0) + (if tg.tg_merge then 32 else 0)

let same_set a b = List.for_all (fun x -> List.mem x b) a && List.for_all (fun x -> List.mem x a) b

let f _id vs =
  match vs with
  | [I "1"; model; conds; tuples; atoms; requests; checks] ->
    let m = dec_model model in
    let cs = List.map (fun c -> n_of_int (as_int c)) (as_list conds) in
    let store = List.map dec_tuple (as_list tuples) in
    let ats = List.map dec_atom (as_list atoms) in
    let strat = stratified m in
    let has_e = List.exists (fun t -> t.t_ceval = E && valid_for_read m cs t) store in
    let fuel = nat_of_int (List.length ats + 3) in
    (* the real Checks: subject -> pathx, (object, relation) -> outcome *)
    let chk : (subject * obj * n, int) Hashtbl.t = Hashtbl.create 64 in
    let pathx : (subject, (n * n) list) Hashtbl.t = Hashtbl.create 16 in
    let chk_subjects = ref [] in
    List.iter (fun sv ->
      match as_list sv with
      | [s; px; results] ->
        let subj = dec_subject s in
        chk_subjects := subj :: !chk_subjects;
        Hashtbl.replace pathx subj (List.map dec_pair (as_list px));
        List.iter (fun rv ->
          match as_list rv with
          | [ot; oi; r; impl] -> Hashtbl.replace chk (subj, mk_obj (as_int ot) (as_int oi), n_of_int (as_int r)) (as_int impl)
          | _ -> failwith "check") (as_list results)
      | _ -> failwith "check entry") (as_list checks);
    let sem_cache = Hashtbl.create 16 in
    let sem subj =
      match Hashtbl.find_opt sem_cache subj with
      | Some x -> x
      | None -> let x = lfp m cs store subj ats in Hashtbl.replace sem_cache subj x; x in
    let chk_subjects = List.rev !chk_subjects in
    let props = ref [] and diffs = ref [] and knowns = ref [] in
    (* one dump line per request: model values, then the number of (converged, holds3) pairs, then the pairs *)
    let dump = ref [] and dsem = ref [] in
    let dump_add l = if dump_chan <> None then dump := List.rev_append l !dump in
    let dump_sem l = if dump_chan <> None then dsem := List.rev_append l !dsem in
    let dump_flush () = match dump_chan with
      | Some ch ->
        let all = List.rev !dump @ (List.length !dsem / 2 :: List.rev !dsem) in
        output_string ch (_id ^ " " ^ String.concat " " (List.map string_of_int all) ^ "\n"); flush ch; dump := []; dsem := []
      | None -> () in
    (* individual Check of (subject, o, rel) against the reference semantics, classified as in C01;
       returns None when fine / not judgeable, Some (known_flag option, text) otherwise *)
    let check_vs_sem subj o rel spec =
      match Hashtbl.find_opt chk (subj, o, rel) with
      | None -> None
      | Some impl when impl = 7 || impl = 6 -> None
      | Some impl ->
        let wrong = match impl, spec with
          | 0, T -> None
          | 0, _ -> Some "Check allows although the reference semantics does not grant it"
          | (1 | 2), F -> None
          | (1 | 2), T -> Some "Check denies although the reference semantics grants it"
          | (1 | 2), E -> Some "Check denies although a deciding condition cannot be evaluated"
          | 3, _ -> if has_e then None else Some "Check: condition error although every condition can be evaluated"
          | 4, _ -> None
          | _, _ -> Some "Check: unexpected error" in
        (match wrong with
         | None -> None
         | Some why ->
           let px = try Hashtbl.find pathx subj with Not_found -> [] in
           let (oset, tr) = check_top m cs store subj px (nat_of_int 25) fuel o rel in
           let in_model = match impl_aout impl with Some a -> List.mem a oset | None -> false in
           if in_model && tr.tr_excl_sub_cycle then Some (Some "excl_sub_cycle", why)
           else if in_model && tr.tr_swallow then Some (Some "cond_err_swallowed", why)
           else Some (None, why)) in
    List.iter (fun rv ->
      (match as_list rv with
      | ot :: oi :: r :: ft :: fr :: depth :: limit :: edges :: outcome :: users :: rest ->
        (* mode 0: plain request; 1: one datastore read key fails (injected, non-cancellation error);
           2: the reads of one object are delayed until the other reads are done (arrival order) *)
        let mode = (match rest with [md] -> as_int md | _ -> 0) in
        let o = mk_obj (as_int ot) (as_int oi) in
        let rel = n_of_int (as_int r) in
        let ftype = n_of_int (as_int ft) and frel = n_of_int (as_int fr) in
        let limit = as_int limit and edges = as_int edges and outcome = as_int outcome in
        let users = List.map dec_subject (as_list users) in
        let where = Printf.sprintf "ListUsers(%s#r%d, filter t%d%s%s%s)" (obj_s o) (int_of_n rel) (as_int ft)
            (if as_int fr = 0 then "" else Printf.sprintf "#r%d" (as_int fr))
            (if limit > 0 then Printf.sprintf ", limit %d" limit else "")
            (if as_int depth <> 25 then Printf.sprintf ", depth %d" (as_int depth) else "")
            ^ (match mode with 1 -> " [one read fails]" | 2 -> " [one object's reads delayed]" | _ -> "") in
        let diff s = diffs := (where ^ " " ^ s) :: !diffs in
        let vres = validate m ftype frel o rel in
        dump_add [match vres with None -> 0 | Some VType -> 1 | Some VRel -> 2];
        (match vres with
         | Some VType -> if outcome <> 8 then diff ("impl=" ^ out_s outcome ^ " model=invalid-type")
         | Some VRel -> if outcome <> 9 then diff ("impl=" ^ out_s outcome ^ " model=invalid-relation")
         | None ->
           if outcome >= 8 then diff ("impl=" ^ out_s outcome ^ " model=valid")
           else if outcome = 6 || edges = 2 then ()
           else begin
             let lf = list_users m cs store ftype frel (nat_of_int (as_int depth)) (edges = 0) o rel in
             let errs = lf.lf_errs and amb = lf.lf_amb in
             dump_add (List.length lf.lf_results ::
                       List.concat_map (fun res -> List.length res :: List.map subj_code res) lf.lf_results);
             (* the result limit counts distinct keys of foundUsersUnique (NoRelationship ones included) *)
             let ks = if limit > 0 then List.map int_of_nat (list_users_nkeys m cs store ftype frel (nat_of_int (as_int depth)) (edges = 0) o rel) else [] in
             (* every key a cut-short traversal can deliver (Query/ListUsers.v list_users_may) *)
             let may = if limit > 0 then list_users_may m cs store ftype frel (nat_of_int (as_int depth)) (edges = 0) o rel else [] in
             if limit > 0 then dump_add ((List.length ks :: ks) @ (List.length may :: List.map subj_code may));
             dump_add [lerr_mask errs; lerr_mask amb; trig_mask lf.lf_trig; (if strat then 1 else 0)];
             let kmax = List.fold_left Stdlib.max 0 ks and kmin = List.fold_left Stdlib.min Stdlib.max_int ks in
             let lim_free = limit = 0 || limit > kmax in       (* the limit cannot apply: as without limit *)
             let lim_exact = limit > 0 && limit = kmax in      (* reached with the last distinct key: exact set *)
             let cls = match outcome with 3 -> Some LCond | 4 -> Some LDepth | 5 -> Some LOther | _ -> None in
             let model_s = Printf.sprintf "model: results=[%s] errs=[%s] amb=[%s]"
                 (String.concat " | " (List.map set_s lf.lf_results))
                 (String.concat "," (List.map lerr_s errs)) (String.concat "," (List.map lerr_s amb)) in
             let in_model =
               if List.mem LFuel errs || List.mem LFuel amb then (diff "model out of fuel"; false)
               else match cls with
                 | Some c ->
                   let ok = mode = 1 || (if errs <> [] then List.mem c errs || List.mem c amb else List.mem c amb) in
                   if not ok then diff (Printf.sprintf "impl=%s %s" (out_s outcome) model_s); ok
                 | None ->
                   if limit > 0 && mode <> 1 && errs <> [] then begin
                     (* the traversal fails, but the collector may reach the limit first and return what
                        it has received by then (finding limit_drops_error).  Which entries the cancelled
                        sibling branches still delivered is arbitrary, so the model's outcome here is any
                        set of at most `limit` keys of the cut-short traversal; the limit must be
                        reachable at all *)
                     let ok = List.length users <= limit && limit <= List.length may
                              && List.for_all (fun u -> List.mem u may) users in
                     if not ok then diff (Printf.sprintf "impl=%s (limit %d, traversal fails, reachable keys %s) %s" (set_s users) limit (set_s may) model_s); ok
                   end else if lim_free then begin
                     let ok = errs = [] && List.exists (same_set users) lf.lf_results in
                     if not ok then begin
                       diff (Printf.sprintf "impl=%s %s" (set_s users) model_s);
                       if mode = 1 then props := (where ^ " a failed datastore read gave neither an error nor the exact answer: impl=" ^ set_s users ^ " " ^ model_s) :: !props
                       else if limit > 0 then props := (Printf.sprintf "%s the limit exceeds the %d distinct results, the answer must be the exact set: impl=%s %s" where kmax (set_s users) model_s) :: !props
                     end; ok
                   end else if lim_exact then begin
                     let ok = List.exists (same_set users) lf.lf_results in
                     if not ok then begin
                       diff (Printf.sprintf "impl=%s %s" (set_s users) model_s);
                       props := (Printf.sprintf "%s the limit equals the %d distinct results, the answer must be the exact set: impl=%s %s" where kmax (set_s users) model_s) :: !props
                     end; ok
                   end else begin
                     let all = List.concat lf.lf_results in
                     let hmin = List.fold_left (fun a res -> Stdlib.min a (List.length res)) Stdlib.max_int lf.lf_results in
                     let lower = if kmin >= limit then limit - (kmax - hmin) else 0 in
                     let ok = List.length users <= limit && List.length users >= lower && List.for_all (fun u -> List.mem u all) users in
                     if not ok then diff (Printf.sprintf "impl=%s (limit %d, distinct keys %d..%d) %s" (set_s users) limit kmin kmax model_s); ok
                   end in
             if outcome = 0 then begin
               let tg = lf.lf_trig in
               (* a finding is KNOWN only when the algorithm model reproduces the answer and raised
                  the trigger; the order fixes which flag is named when several are raised *)
               let classify txt =
                 let flag =
                   if not in_model then None
                   else if tg.tg_excl_cycle then Some "excl_sub_cycle"
                   else if tg.tg_excl then Some "excl_den_fail"
                   else if tg.tg_union then Some "union_den_fail"
                   else if tg.tg_inter then Some "inter_den_fail"
                   else if tg.tg_merge then Some "merge_den_fail"
                   else if tg.tg_race then Some "status_race"
                   else None in
                 match flag with
                 | Some fl -> knowns := (fl ^ " " ^ where ^ " " ^ txt) :: !knowns
                 | None -> props := (where ^ " " ^ txt) :: !props in
               (* duplicates *)
               let rec dup = function [] -> None | x :: l -> if List.mem x l then Some x else dup l in
               (match dup users with
                | Some x -> props := (where ^ " returns " ^ subj_s x ^ " twice") :: !props
                | None -> ());
               (* filter *)
               List.iter (fun u ->
                 let type_ok = (match u with SObj x -> x.otype = ftype | SWild t -> t = ftype | SSet (x, _) -> x.otype = ftype) in
                 let shape_ok = (match u with
                     | SSet (_, r') -> frel <> N0 && r' = frel
                     | _ -> frel = N0) in
                 if not type_ok then props := (where ^ " returns " ^ subj_s u ^ ": wrong type for the filter") :: !props
                 else if not shape_ok then begin
                   let txt = where ^ " returns " ^ subj_s u ^ ": does not match the filter's relation" in
                   (match u with
                    | SSet _ -> props := txt :: !props
                    | _ -> if in_model && frel <> N0 then knowns := ("filter_relation_ignored " ^ txt) :: !knowns
                      else props := txt :: !props)
                 end) users;
               (* soundness and completeness against the reference semantics *)
               if strat then begin
                 List.iter (fun u ->
                   let (v, conv) = sem u in
                   dump_sem [(if conv then 1 else 0); b3_code (atomval u v o rel)];
                   if conv then begin
                     let spec = atomval u v o rel in
                     if spec <> T then begin
                       let txt = Printf.sprintf "returns %s, reference semantics says %s (impl=%s)" (subj_s u) (b3s spec) (set_s users) in
                       (* the result limit was reached before the traversal reported its error (condition or depth):
                          the partial answer was computed with the failing branch treated as empty *)
                       if limit > 0 && in_model && (errs <> [] || amb <> []) then
                         knowns := ("limit_drops_error " ^ where ^ " " ^ txt) :: !knowns
                       else classify txt
                     end;
                     (match check_vs_sem u o rel spec with
                      | None -> ()
                      | Some (Some fl, why) -> knowns := (fl ^ " " ^ where ^ " re-check of " ^ subj_s u ^ ": " ^ why) :: !knowns
                      | Some (None, why) -> props := (where ^ " re-check of " ^ subj_s u ^ ": " ^ why) :: !props)
                   end) users;
                 if errs = [] && (lim_free || lim_exact) then
                   List.iter (fun subj ->
                     if Hashtbl.mem chk (subj, o, rel) && not (List.mem subj users) then begin
                       let cand = (match subj with
                           | SObj x -> frel = N0 && x.otype = ftype
                           | SSet (x, r') -> frel <> N0 && x.otype = ftype && r' = frel
                           | SWild _ -> false) in
                       if cand then begin
                         let (v, conv) = sem subj in
                         if limit = 0 then dump_sem [(if conv then 1 else 0); b3_code (atomval subj v o rel)];
                         if conv then begin
                           let spec = atomval subj v o rel in
                           let covered = (match subj with SObj x -> List.mem (SWild x.otype) users | _ -> false) in
                           if spec = T && not covered then
                             classify (Printf.sprintf "omits %s, which holds the relation (impl=%s)" (subj_s subj) (set_s users));
                           (match check_vs_sem subj o rel spec with
                            | None -> ()
                            | Some (Some fl, why) -> knowns := (fl ^ " " ^ where ^ " check of " ^ subj_s subj ^ ": " ^ why) :: !knowns
                            | Some (None, why) -> props := (where ^ " check of " ^ subj_s subj ^ ": " ^ why) :: !props)
                         end
                       end
                     end) chk_subjects
               end
             end
           end)
      | _ -> failwith "request");
      dump_flush ()) (as_list requests);
    if Sys.getenv_opt "C06_VERBOSE" <> None then begin
      List.iter (fun x -> prerr_endline (_id ^ "\tPROP " ^ x)) (List.rev !props);
      List.iter (fun x -> prerr_endline (_id ^ "\tDIFF " ^ x)) (List.rev !diffs);
      List.iter (fun x -> prerr_endline (_id ^ "\tKNOWN " ^ x)) (List.rev !knowns)
    end;
    (match !props, !diffs, !knowns with
     | p :: _, _, _ -> "PROP " ^ p ^ (match !diffs with d :: _ -> " || also model-diff: " ^ d | [] -> "")
     | [], d :: _, _ -> "DIFF " ^ d
     | [], [], k :: _ -> "KNOWN " ^ k
     | [], [], [] -> "OK")
  | _ -> "DIFF malformed-record"

let () = run_oracle f
