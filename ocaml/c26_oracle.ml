(* C26 oracle.  One record = one caller identity of one scenario:
     kind 1  calls of the handlers that authorize before anything else
     kind 3  calls of Write and ActionSearch (they resolve the store's model first)
     kind 2  ListStores (all pages; name filters) and CreateStore
     kind 6  faults: the k-th authorization check of a call fails, or the request context is
             cancelled when it is issued: PROP when a call the (faulted) decision denies is let through
     kind 5  probes: an unauthorised caller sends the same request to a store with a model, a
             store without model and a store id that never existed (model id: default / unknown /
             malformed): PROP when the answer depends on, or reveals, the target store's state
     kind 4  ListStores again after stores were deleted (their grant tuples stay in the control
             store) and new stores were created; the store list is the live list
   with the grant table the driver obtained from the control store itself.
   DIFF  = the implementation's outcome differs from Sec/Authz.v (authorize / write_authorize /
           list_stores / authorize_create_store with the regenerated relation table);
   PROP  = the outcome violates the property's own predicate (spec_allowed with the hand-written
           relation table; "ListStores returns only stores the caller may get"; a denied call
           touched the target store's data);
   (F9, list_stores_empty_grant, was repaired by c075cf0: a store returned to a caller who may
   not get it is a PROP in every situation, the empty accessible list included);
   KNOWN model_read_before_authz   = a call that the model denies observed something of the
           store's model (datastore read / model-id header / pre-authorization error), for a
           handler that carries the regenerated table's trigger flag. *)

let s_of v = as_bytes v
let cb v = as_cbytes v

exception Missing of string

let base_handler (h : string) : string =
  match String.index_opt h '#' with Some i -> String.sub h 0 i | None -> h

type verdicts = { mutable prop : string list; mutable diff : string list;
                  mutable known_model : string list }

let decode_common claims_state client stores grants la =
  let cl = if as_int claims_state = 0 then NoClaims else Claims (cb client) in
  let all = List.map (fun v -> match as_list v with
      | [c; n] -> (cb c, cb n) | _ -> failwith "store entry") (as_list stores) in
  let table = List.map (fun v -> match as_list v with
      | [rel; kind; st; md; res] ->
        let r = match relation_of_bytes (cb rel) with
          | Some r -> r
          | None -> raise (Missing ("relation " ^ s_of rel ^ " is not a CanCall* constant of authz.go")) in
        ((r, as_int kind, s_of st, s_of md), as_int res)
      | _ -> failwith "grant entry") (as_list grants) in
  let g _c r o =
    let key = match o with
      | OSystem -> (r, 0, "", "")
      | OStore s -> (r, 1, coq_to_bytes s, "")
      | OModule (s, m) -> (r, 2, coq_to_bytes s, coq_to_bytes m) in
    match List.assoc_opt key table with
    | Some 1 -> Some true
    | Some 0 -> Some false
    | Some _ -> None
    | None ->
      let (_, k, s, m) = key in
      raise (Missing (Printf.sprintf "grant table has no entry for %s kind %d store %s module %s"
                        (coq_to_bytes (relation_bytes r)) k s m)) in
  let la _c = match as_list la with
    | [e] when as_int e = 1 -> None
    | [_; ids] -> Some (List.map cb (as_list ids))
    | _ -> failwith "la entry" in
  (cl, all, g, la)

let finish (v : verdicts) : string =
  let n l = List.length l in
  match v.prop, v.diff, v.known_model with
  | p :: _, _, _ -> Printf.sprintf "PROP %s (%d such)" p (n v.prop)
  | [], d :: _, _ -> Printf.sprintf "DIFF %s (%d such)" d (n v.diff)
  | [], [], k :: _ -> Printf.sprintf "KNOWN model_read_before_authz %s (%d such)" k (n v.known_model)
  | [], [], [] -> "OK"

let calls_record claims_state client stores grants la calls =
  let (cl, _all, g, _la) = decode_common claims_state client stores grants la in
  let v = { prop = []; diff = []; known_model = [] } in
  List.iter (fun c ->
    match as_list c with
    | [handler; meth; store; lookups; cls; code; touched; headers; has_model] ->
      let h = s_of handler and sid = cb store in
      let cls = as_int cls and code = as_int code in
      let touched = as_bool touched and headers = as_int headers in
      let has_model = as_bool has_model in
      let hb = bytes_to_coq (base_handler h) in
      let where = Printf.sprintf "%s on %s" h (s_of store) in
      if not (handler_store_scoped_b hb) then v.diff <- (where ^ ": handler is not in the pinned list of store-scoped handlers") :: v.diff
      else begin
        let model_first = handler_model_read_before_authz_b hb in
        let passed = cls <> 1 in
        let (model_allow, spec_allow) =
          if h = "Write" then begin
            let ls = List.map (fun l -> match as_list l with
                | [k; m] -> (match as_int k with
                    | 0 -> LTypeNotFound | 1 -> LNoRelation | _ -> LModule (cb m))
                | _ -> failwith "lookup entry") (as_list lookups) in
            (is_allow (write_authorize g cl sid ls), spec_write_allowed g cl sid ls)
          end else if s_of meth = "" then (true, true)   (* no authorization at all (GetConfiguration) *)
          else match method_of_bytes (cb meth) with
            | None -> raise (Missing ("API method " ^ s_of meth ^ " is not an apimethod constant"))
            | Some m -> (is_allow (authorize g cl m sid []), spec_allowed g cl m sid [])
        in
        (* what the request runs into before the authorization call of a model-first handler *)
        let pre =
          if not model_first then 0
          else if not has_model then 2020
          else if h = "ActionSearch" && s_of store = "root" then 3
          else 0 in
        if pre <> 0 then begin
          if cls = 2 && code = pre then begin
            if not model_allow then
              v.known_model <- (Printf.sprintf "%s: caller without the grant got error code %d from the model lookup instead of forbidden" where code) :: v.known_model
          end else
            v.diff <- (Printf.sprintf "%s: expected the pre-authorization error %d, observed class %d code %d" where pre cls code) :: v.diff
        end
        else if model_allow = passed then begin
          if (not passed) && (touched || headers > 0) then begin
            if model_first then
              v.known_model <- (Printf.sprintf "%s: forbidden, but the store's model was read first (datastore touched=%b, response headers set=%d)" where touched headers) :: v.known_model
            else
              v.prop <- (Printf.sprintf "%s: forbidden, but the target store was accessed (touched=%b headers=%d)" where touched headers) :: v.prop
          end
        end
        else begin
          let txt = Printf.sprintf "%s: model %s, implementation %s (class %d code %d)" where
              (if model_allow then "allows" else "denies") (if passed then "let the call through" else "answered forbidden") cls code in
          if spec_allow <> passed then
            v.prop <- ((if passed then "call got past authorization without the grant: " else "call denied despite the grant: ") ^ txt) :: v.prop
          else v.diff <- txt :: v.diff
        end
      end
    | _ -> v.diff <- "malformed call entry" :: v.diff) (as_list calls);
  v.prop <- List.rev v.prop; v.diff <- List.rev v.diff;
  v.known_model <- List.rev v.known_model;
  finish v

let sorted_ids (l : n list list) : string list = List.sort compare (List.map coq_to_bytes l)

let subset a b = List.for_all (fun x -> List.mem x b) a

let lists_record claims_state client stores grants la lists create backend =
  let (cl, all, g, la) = decode_common claims_state client stores grants la in
  let v = { prop = []; diff = []; known_model = [] } in
  let get_m = match method_of_bytes (bytes_to_coq "GetStore") with Some m -> m | None -> raise (Missing "GetStore") in
  let list_m = match method_of_bytes (bytes_to_coq "ListStores") with Some m -> m | None -> raise (Missing "ListStores") in
  let create_m = match method_of_bytes (bytes_to_coq "CreateStore") with Some m -> m | None -> raise (Missing "CreateStore") in
  List.iter (fun l ->
    match as_list l with
    | [name; cls; ids; seen; from] ->
      let cls = as_int cls in
      let from = as_int from in
      let obs = List.map s_of (as_list ids) in
      let seen = String.concat "," (List.map s_of (as_list seen)) in
      let where = if from < 0 then Printf.sprintf "ListStores(name=%S)" (s_of name)
        else Printf.sprintf "ListStores(name=%S, continuation token forged to denote position %d of the id-ordered %s)" (s_of name) from
            (if s_of backend = "sqlite" then "live stores" else "filtered list") in
      let model =
        if from >= 0 then list_stores_from (s_of backend = "sqlite") g la cl (cb name) all (nat_of_int from)
        else if s_of backend = "sqlite" then list_stores_sqlite g la cl (cb name) all
        else list_stores g la cl (cb name) all in
      let show = function None -> "forbidden" | Some l -> "[" ^ String.concat " " l ^ "]" in
      let m = match model with LSDenied -> None | LSStores l -> Some (sorted_ids l) in
      let o = if cls = 1 then None else if cls = 0 then Some obs else Some ["<error>"] in
      (* the property's predicate on the implementation's answer *)
      let may_list = spec_system_allowed g cl list_m in
      let not_gettable = match o with
        | None -> []
        | Some l -> List.filter (fun s -> s <> "<error>" && not (spec_allowed g cl get_m (bytes_to_coq s) [])) l in
      (* the authorizer's accessible id list (may name stores that no longer exist) *)
      let acc = match accessible_stores g la cl with Some l -> Some (List.map coq_to_bytes l) | None -> None in
      let outside_acc = match o, acc with
        | Some l, Some (_ :: _ as a) -> List.filter (fun s -> s <> "<error>" && not (List.mem s a)) l
        | _, _ -> [] in
      if cls = 0 && not may_list then
        v.prop <- (where ^ ": answered without the can_call_list_stores grant") :: v.prop
      else if outside_acc <> [] then
        v.prop <- (Printf.sprintf "ListStores returned a store the caller cannot get: %s returned %s; not in the caller's accessible set [%s]: [%s] (backend saw IDs: %s)"
                     where (show o) (String.concat " " (match acc with Some a -> a | None -> []))
                     (String.concat " " outside_acc) seen) :: v.prop
      else if not_gettable <> [] then
        v.prop <- (Printf.sprintf "ListStores returned a store the caller cannot get: %s returned %s; the caller may not get [%s] (accessible set [%s]; backend saw IDs: %s)"
                     where (show o) (String.concat " " not_gettable)
                     (String.concat " " (match acc with Some a -> a | None -> [])) seen) :: v.prop
      else if m <> o then
        v.diff <- (Printf.sprintf "%s: model %s, implementation %s" where (show m) (show o)) :: v.diff
    | _ -> v.diff <- "malformed list entry" :: v.diff) (as_list lists);
  let ccls = as_int create in
  let cm = is_allow (authorize_create_store g cl) in
  let cs = spec_system_allowed g cl create_m in
  let cpassed = ccls <> 1 in
  if ccls >= 0 && cm <> cpassed then begin
    let txt = Printf.sprintf "CreateStore: model %s, implementation class %d" (if cm then "allows" else "denies") ccls in
    if cs <> cpassed then v.prop <- txt :: v.prop else v.diff <- txt :: v.diff
  end;
  v.prop <- List.rev v.prop; v.diff <- List.rev v.diff;
  finish v

(* kind 5: an unauthorised caller probes target stores in different states with the same request *)
let probe_record claims_state client stores grants la handler meth probes =
  let (cl, _all, g, _la) = decode_common claims_state client stores grants la in
  let v = { prop = []; diff = []; known_model = [] } in
  let h = s_of handler in
  let hb = bytes_to_coq (base_handler h) in
  let model_first = handler_model_read_before_authz_b hb in
  let no_authz = s_of meth = "" in
  let m = if no_authz then None else match method_of_bytes (cb meth) with
      | None -> raise (Missing ("API method " ^ s_of meth ^ " is not an apimethod constant"))
      | Some m -> Some m in
  List.iter (fun p ->
    match as_list p with
    | [variant; answers] ->
      let ans = List.map (fun a -> match as_list a with
          | [st; cls; code; touched; headers] -> (s_of st, as_int cls, as_int code, as_bool touched, as_int headers)
          | _ -> failwith "probe answer") (as_list answers) in
      let authorised = match m with
        | None -> false
        | Some m -> List.exists (fun (st, _, _, _, _) -> spec_allowed g cl m (bytes_to_coq st) []) ans in
      if not authorised then begin
        let same = match ans with
          | [] -> true
          | (_, c0, k0, _, _) :: r -> List.for_all (fun (_, c, k, _, _) -> c = c0 && k = k0) r in
        let all_forbidden = List.for_all (fun (_, c, _, _, _) -> c = 1) ans in
        let all_invalid_request = List.for_all (fun (_, c, k, _, _) -> c = 2 && k = 3) ans in
        let consulted = List.exists (fun (_, _, _, t, hd) -> t || hd > 0) ans in
        let ok = if no_authz then same else ((all_forbidden || all_invalid_request) && not consulted) in
        if not ok then begin
          let show (st, c, k, t, hd) =
            Printf.sprintf "%s store -> %s%s%s" st
              (if c = 1 then "forbidden" else if c = 0 then "OK" else Printf.sprintf "error code %d" k)
              (if t then " [target store read]" else "") (if hd > 0 then " [model id of the target store in the response headers]" else "") in
          let txt = Printf.sprintf "unauthorised caller, %s(%s): the answer depends on / reveals the state of the target store before the authorization decision: %s"
              h (s_of variant) (String.concat "; " (List.map show ans)) in
          if model_first then v.known_model <- txt :: v.known_model else v.prop <- txt :: v.prop
        end
      end
    | _ -> v.diff <- "malformed probe entry" :: v.diff) (as_list probes);
  v.prop <- List.rev v.prop; v.diff <- List.rev v.diff; v.known_model <- List.rev v.known_model;
  finish v

(* kind 6: the k-th authorization check of the call fails / the request context is cancelled
   when it is issued *)
let dec_lookups lookups =
  List.map (fun l -> match as_list l with
      | [k; m] -> (match as_int k with 0 -> LTypeNotFound | 1 -> LNoRelation | _ -> LModule (cb m))
      | _ -> failwith "lookup entry") (as_list lookups)

let fault_decisions g cl h meth sid lookups k from =
  (* (decision with the fault, decision without, does the k-th check get issued) *)
  if h = "Write" then begin
    let ls = dec_lookups lookups in
    let fires = match extract_modules ls [] with
      | MErr -> false
      | MMods ms -> (match method_of_bytes (bytes_to_coq "Write") with
          | Some m -> fault_fires g (n_of_int k) cl m sid ms | None -> false) in
    (is_allow (write_authorize_fault g (n_of_int k) from cl sid ls), is_allow (write_authorize g cl sid ls), fires)
  end else match method_of_bytes (cb meth) with
    | None -> raise (Missing ("API method " ^ s_of meth ^ " is not an apimethod constant"))
    | Some m -> (is_allow (authorize_fault g (n_of_int k) from cl m sid []), is_allow (authorize g cl m sid []),
                 fault_fires g (n_of_int k) cl m sid [])

let fault_record claims_state client stores grants la faults lsfaults backend =
  let (cl, all, g, la) = decode_common claims_state client stores grants la in
  let v = { prop = []; diff = []; known_model = [] } in
  List.iter (fun c ->
    match as_list c with
    | [handler; meth; store; lookups; k; from; cls; code; fired; nchecks] ->
      let h = s_of handler and sid = cb store in
      let k = as_int k and from = as_bool from and cls = as_int cls and code = as_int code in
      let fired = as_bool fired in
      let (with_f, without_f, fires) = fault_decisions g cl h meth sid lookups k from in
      let passed = cls <> 1 in
      let where = Printf.sprintf "%s on %s, %s authorization check #%d (the call issued %d)" h (s_of store)
          (if from then "request context cancelled at" else "injected failure of") k (as_int nchecks) in
      if fired && passed && not with_f then
        v.prop <- (Printf.sprintf "an error while deciding did not deny the call: %s: the call was let through (class %d code %d); without the fault the control store %s it"
                     where cls code (if without_f then "authorizes" else "does NOT authorize")) :: v.prop
      else if fired <> fires then
        v.diff <- (Printf.sprintf "%s: the model says check #%d is %s, the implementation %s it" where k
                     (if fires then "issued" else "not issued") (if fired then "issued" else "did not issue")) :: v.diff
      else if with_f <> passed then
        v.diff <- (Printf.sprintf "%s: model %s, implementation %s (class %d code %d)" where
                     (if with_f then "allows" else "denies") (if passed then "let the call through" else "answered forbidden") cls code) :: v.diff
    | _ -> v.diff <- "malformed fault entry" :: v.diff) (as_list faults);
  List.iter (fun c ->
    match as_list c with
    | [k; from; cls; ids; fired] ->
      let k = as_int k and from = as_bool from and cls = as_int cls and fired = as_bool fired in
      let obs = List.map s_of (as_list ids) in
      (* ListStores: check #1 on the system object, #2 ListObjects *)
      let g' = if k = 1 then with_fault g (fun _ -> true) else g in
      let la' = if k = 2 || (from && k = 1) then (fun _ -> None) else la in
      let model = if s_of backend = "sqlite" then list_stores_sqlite g' la' cl [] all else list_stores g' la' cl [] all in
      let m = match model with LSDenied -> None | LSStores l -> Some (sorted_ids l) in
      let o = if cls = 1 then None else if cls = 0 then Some obs else Some ["<error>"] in
      let where = Printf.sprintf "ListStores, %s authorization check #%d" (if from then "request context cancelled at" else "injected failure of") k in
      if fired && cls = 0 && m = None then
        v.prop <- (Printf.sprintf "an error while deciding did not deny the call: %s: answered [%s]" where (String.concat " " obs)) :: v.prop
      else if m <> o && not (cls = 2 && m <> None && from) then
        v.diff <- (Printf.sprintf "%s: model %s, implementation %s" where
                     (match m with None -> "forbidden" | Some l -> "[" ^ String.concat " " l ^ "]")
                     (match o with None -> "forbidden" | Some l -> "[" ^ String.concat " " l ^ "]")) :: v.diff
    | _ -> v.diff <- "malformed ListStores fault entry" :: v.diff) (as_list lsfaults);
  v.prop <- List.rev v.prop; v.diff <- List.rev v.diff;
  finish v

(* Cross-check of extraction: with ORACLE_DUMP=<file> the values the EXTRACTED model computed for
   every case are appended to that file, before any comparison with the implementation:
     kind 1/3  per call: is_allow (authorize / write_authorize), spec_allowed / spec_write_allowed,
               handler_model_read_before_authz_b + 2 * handler_store_scoped_b
     kind 2/4  per ListStores variant: 0 (denied) or 1, number of ids, checksum of the ids in model
               order (list_stores / list_stores_sqlite); then CreateStore: is_allow, spec
     kind 5    the handler's model-first flag; per variant and state: spec_allowed
   bin/coqreplay_c26.py recomputes the same numbers inside Coq with vm_compute. *)
let dump_chan = match Sys.getenv_opt "ORACLE_DUMP" with
  | Some p when p <> "" -> Some (open_out_gen [Open_append; Open_creat] 0o644 p)
  | _ -> None
let b2i b = if b then 1 else 0
let hp = 1000000007
let hbytes (s : string) : int =
  let acc = ref 0 in String.iter (fun c -> acc := (!acc * 131 + Char.code c) mod hp) s; !acc
let hlist (l : string list) : int = List.fold_left (fun acc s -> (acc * 131 + hbytes s + 1) mod hp) 0 l

let dump_case id vs =
  match dump_chan with
  | None -> ()
  | Some ch ->
    let nums = match vs with
      | [I k; claims_state; client; stores; grants; la; calls] when k = "1" || k = "3" ->
        let (cl, _all, g, _la) = decode_common claims_state client stores grants la in
        int_of_string k :: List.concat_map (fun c -> match as_list c with
          | [handler; meth; store; lookups; _; _; _; _; _] ->
            let h = s_of handler and sid = cb store in
            let hb = bytes_to_coq (base_handler h) in
            let (a, b) =
              if h = "Write" then begin
                let ls = List.map (fun l -> match as_list l with
                    | [k; m] -> (match as_int k with 0 -> LTypeNotFound | 1 -> LNoRelation | _ -> LModule (cb m))
                    | _ -> failwith "lookup entry") (as_list lookups) in
                (is_allow (write_authorize g cl sid ls), spec_write_allowed g cl sid ls)
              end else if s_of meth = "" then (true, true)
              else match method_of_bytes (cb meth) with
                | None -> (false, false)
                | Some m -> (is_allow (authorize g cl m sid []), spec_allowed g cl m sid []) in
            [b2i a; b2i b; b2i (handler_model_read_before_authz_b hb) + 2 * b2i (handler_store_scoped_b hb)]
          | _ -> []) (as_list calls)
      | [I k; claims_state; client; stores; grants; la; lists; _create; backend] when k = "2" || k = "4" ->
        let (cl, all, g, la) = decode_common claims_state client stores grants la in
        let per = List.concat_map (fun l -> match as_list l with
          | [name; _; _; _; from] ->
            let from = as_int from in
            let model =
              if from >= 0 then list_stores_from (s_of backend = "sqlite") g la cl (cb name) all (nat_of_int from)
              else if s_of backend = "sqlite" then list_stores_sqlite g la cl (cb name) all
              else list_stores g la cl (cb name) all in
            (match model with
             | LSDenied -> [0]
             | LSStores ids -> let ss = List.map coq_to_bytes ids in [1; List.length ss; hlist ss])
          | _ -> []) (as_list lists) in
        let create_m = match method_of_bytes (bytes_to_coq "CreateStore") with Some m -> m | None -> raise (Missing "CreateStore") in
        int_of_string k :: per @ [b2i (is_allow (authorize_create_store g cl)); b2i (spec_system_allowed g cl create_m)]
      | [I "5"; claims_state; client; stores; grants; la; handler; meth; probes] ->
        let (cl, _all, g, _la) = decode_common claims_state client stores grants la in
        let hb = bytes_to_coq (base_handler (s_of handler)) in
        let m = if s_of meth = "" then None else method_of_bytes (cb meth) in
        5 :: b2i (handler_model_read_before_authz_b hb) :: List.concat_map (fun p -> match as_list p with
          | [_; answers] -> List.map (fun a -> match as_list a with
              | st :: _ -> (match m with Some m -> b2i (spec_allowed g cl m (cb st) []) | None -> 2)
              | _ -> 9) (as_list answers)
          | _ -> []) (as_list probes)
      | [I "6"; claims_state; client; stores; grants; la; faults; _lsfaults; _backend] ->
        let (cl, _all, g, _la) = decode_common claims_state client stores grants la in
        6 :: List.concat_map (fun c -> match as_list c with
          | [handler; meth; store; lookups; k; from; _; _; _; _] ->
            let (a, b, c) = fault_decisions g cl (s_of handler) meth (cb store) lookups (as_int k) (as_bool from) in
            [b2i a; b2i b; b2i c]
          | _ -> []) (as_list faults)
      | _ -> [] in
    if nums <> [] then begin
      output_string ch (id ^ " " ^ String.concat " " (List.map string_of_int nums) ^ "\n"); flush ch
    end

let f id vs =
  (try dump_case id vs with _ -> ());
  try
    match vs with
    | [I "5"; claims_state; client; stores; grants; la; handler; meth; probes] ->
      probe_record claims_state client stores grants la handler meth probes
    | [I "6"; claims_state; client; stores; grants; la; faults; lsfaults; backend] ->
      fault_record claims_state client stores grants la faults lsfaults backend
    | [I k; claims_state; client; stores; grants; la; calls] when k = "1" || k = "3" ->
      calls_record claims_state client stores grants la calls
    | [I k; claims_state; client; stores; grants; la; lists; create; backend] when k = "2" || k = "4" ->
      lists_record claims_state client stores grants la lists create backend
    | _ -> "DIFF malformed-record"
  with Missing what -> "DIFF " ^ what

let () = run_oracle f
