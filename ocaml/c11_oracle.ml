(* C11 oracle: replays the recorded timeline of one case (measured instants, ns) on the extracted
   model Cache/Controller.v and compares, operation by operation,
     - who spawned a run / whether a call was swallowed by the in-flight run,
     - the decision of every run (which cache entries it Set: changelog entry, store-wide marker,
       the list of entity markers in order) and the changelog length it had read,
     - for every request: LastCacheInvalidationTime zero or not, query-cache hit, iterator-cache
       hit per read, and the CONTENT of every read (the model's provenance turned into a tuple set)
   (DIFF), and checks the property's own predicates on the observed contents (PROP):
     P1  after a run that read the changelog at length L has completed, every read reflects the
         first L changes (exactly one cache enabled, no jitter);
     P2  every read returns the content of SOME state the store went through;
     P3  a read that reached the datastore returns the current content.
   With TTL jitter a P1 violation that the model reproduces, and that the same model without the
   jitter draws does not have, is KNOWN (flag by cache kind).  With both caches enabled P1 is not
   part of the property (docs/caching.md) and only the model comparison applies. *)

let year_ns = 31536000000000000

(* extraction cross-check (bin/coqreplay_c11.py): with ORACLE_DUMP=<file> the numbers the EXTRACTED model
   computes for every operation of a resolver-level case (answer provenance, query / iterator hits,
   trigger and spawn flags, run decisions with their marker lists) and the final clock, changelog length
   and ghost counter are appended to that file; the script recomputes them inside Coq by vm_compute over
   the same fold of Controller.step. *)
let dump_chan = match Sys.getenv_opt "ORACLE_DUMP" with
  | Some p when p <> "" -> Some (open_out_gen [Open_append; Open_creat] 0o644 p)
  | _ -> None
let dump_buf : string list ref = ref []
let dpush (l : string list) = if dump_chan <> None then dump_buf := List.rev_append l !dump_buf
let di i = string_of_int i
let db_ b = if b then "1" else "0"
let enc_marker m = match m with
  | MStore -> ["0"]
  | MOR (t, i, r) -> ["1"; dec_of_n t; dec_of_n i; dec_of_n r]
  | MUOT (u, t) -> ["2"; dec_of_n u; dec_of_n t]
let enc_out (o : out) : string list =
  match o with
  | OUnit -> ["1"]
  | OAns (a, qh, ih, trig, sp) ->
    ["2"; di (List.length a)] @ List.map (fun (_, n) -> di (int_of_nat n)) a
    @ [di (List.length qh)] @ List.map db_ qh @ [di (List.length ih)] @ List.map db_ ih @ [db_ trig; db_ sp]
  | OStart b -> ["3"; db_ b]
  | ORead b -> ["4"; db_ b]
  | OFin d ->
    (match d with
     | DNoRun -> ["5"; "0"] | DError -> ["5"; "1"] | DNoNew -> ["5"; "2"] | DNoneInWindow -> ["5"; "3"] | DFull -> ["5"; "4"]
     | DPartial ms -> ["5"; "5"; di (List.length ms)] @ List.concat_map enc_marker ms)

let nat_len l = int_of_nat (length l)

let dec_key v =
  match as_list v with
  | [I "0"; op; ot; oid; r] -> KOR (as_n op, as_n ot, as_n oid, as_n r)
  | [I "1"; us; ot; r] -> KUOT (List.map as_n (as_list us), as_n ot, as_n r)
  | _ -> failwith "key"

let dec_tup v =
  match as_list v with
  | [u; ot; oid; r; d] -> { tu_user = as_n u; tu_otype = as_n ot; tu_oid = as_n oid; tu_rel = as_n r; tu_del = as_bool d }
  | _ -> failwith "tup"

(* the content of a read whose data consists of these changes, as sorted (user, oid, rel) *)
let content_of (chs : change list) : (int * int * int) list =
  let tbl = Hashtbl.create 16 in
  List.iter (fun ch ->
    let t = ch.ch_tup in
    let k = (int_of_n t.tu_user, int_of_n t.tu_oid, int_of_n t.tu_rel) in
    if t.tu_del then Hashtbl.remove tbl k else Hashtbl.replace tbl k ()) chs;
  List.sort compare (Hashtbl.fold (fun k () acc -> k :: acc) tbl [])

let dec_content v : (int * int * int) list =
  List.sort compare (List.map (fun x -> match as_list x with
    | [a; b; c] -> (as_int a, as_int b, as_int c) | _ -> failwith "content") (as_list v))

let show_content c = "{" ^ String.concat "," (List.map (fun (a, b, c) -> Printf.sprintf "%d/%d/%d" a b c) c) ^ "}"

let dec_marker v =
  match as_list v with
  | [I "0"; ot; oid; r] -> Some (MOR (as_n ot, as_n oid, as_n r))
  | [I "1"; u; ot] -> Some (MUOT (as_n u, as_n ot))
  | _ -> None

let show_marker m = match m with
  | MStore -> "store"
  | MOR (t, i, r) -> Printf.sprintf "OR(%d:%d#%d)" (int_of_n t) (int_of_n i) (int_of_n r)
  | MUOT (u, t) -> Printf.sprintf "UOT(%d,%d)" (int_of_n u) (int_of_n t)

(* ( id (keys) (children) ) ; children and further roots become first-child / next-sibling *)
let rec dec_forest (vs : value list) : qforest =
  match vs with
  | [] -> QNil
  | v :: rest ->
    (match as_list v with
     | [id; keys; kids] -> QCons (as_n id, List.map dec_key (as_list keys), dec_forest (as_list kids), dec_forest rest)
     | _ -> failwith "forest")

let tick_to (c : cfg) (s : state) (t : int) : state =
  let now = int_of_n s.s_now in
  if t > now then fst (step c s (Tick (n_of_int (t - now)))) else s

(* end-to-end case: ( 9 unquiet ) ( ( observed reference-answers... ) ... ) *)
let f_e2e unquiet checks =
  let bad = ref [] in
  List.iteri (fun i cv ->
    match List.map as_bool (as_list cv) with
    | obs :: refs -> if not (List.mem obs refs) then bad := i :: !bad
    | [] -> ()) checks;
  match List.rev !bad with
  | [] -> "OK"
  | i :: _ ->
    if unquiet then
      Printf.sprintf "KNOWN subproblem_restamped_after_write check %d (and %d more) of the real server differs from every uncached answer since the last completed run; Checks were issued between a write and that run"
        i (List.length !bad - 1)
    else
      Printf.sprintf "PROP end-to-end: check %d (and %d more) of the real server differs from the uncached answer although an invalidation run that read the changelog after the last write has completed and no Check fell between a write and its run"
        i (List.length !bad - 1)

let rec f id vs =
  dump_buf := [];
  let v = f0 id vs in
  (match dump_chan with
   | Some oc when !dump_buf <> [] ->
     output_string oc (id ^ " " ^ String.concat " " (List.rev !dump_buf) ^ "\n"); flush oc
   | _ -> ());
  v
and f0 _id vs =
  match vs with
  | [L [I "9"; unq]; checks] -> f_e2e (as_bool unq) (as_list checks)
  | [cfgv; opsv] ->
    let (qon, ion, qttl, ittl, intv, jit) = match as_list cfgv with
      | [a; b; c; d; e; g] -> (as_bool a, as_bool b, as_int c, as_int d, as_int e, as_int g)
      | _ -> failwith "cfg" in
    let c = { c_qon = qon; c_ion = ion; c_qttl = n_of_int qttl; c_ittl = n_of_int ittl; c_interval = n_of_int intv;
              c_full = n_of_int year_ns; c_page = nat_of_int 50; c_jit = n_of_int jit; c_wtick = n_of_int 1; c_subinv = true } in
    let diffs = ref [] and props = ref [] and knowns = ref [] in
    let diff i fmt = Printf.ksprintf (fun s -> diffs := Printf.sprintf "op%d %s" i s :: !diffs) fmt in
    let prop i fmt = Printf.ksprintf (fun s -> props := Printf.sprintf "op%d %s" i s :: !props) fmt in
    let s = ref init_state in      (* model driven with the observed jitter draws *)
    let s0 = ref init_state in     (* same timeline, jitter draws zero *)
    let cov = ref 0 in             (* longest changelog a completed run had read, from the observations *)
    let unquiet = ref false in     (* a dispatching request fell between a write and the completed run covering it *)
    let b2 b = if b then "1" else "0" in
    List.iteri (fun i opv ->
      match as_list opv with
      | I "1" :: tb :: _ :: ws :: [] ->
        let o = Write (List.map dec_tup (as_list ws)) in
        s := fst (step c (tick_to c !s (as_int tb)) o); dpush ["1"];
        s0 := fst (step c (tick_to c !s0 (as_int tb)) o)
      | I "2" :: tb :: _ :: forest :: tzero :: spawned :: qhits :: ihits :: cts :: jq :: jisv :: [] ->
        let fr = dec_forest [forest] in
        let qhits = List.map as_bool (as_list qhits) and ihits = List.map as_bool (as_list ihits) in
        let cts = List.map dec_content (as_list cts) in
        let jisl = List.map as_int (as_list jisv) in
        let jis = List.map n_of_int jisl in
        let jmax ttl = ttl / 100 * (min jit 100) + (ttl mod 100) * (min jit 100) / 100 in
        List.iteri (fun j x -> if x < 0 || x > jmax ittl then
          diff i "iterator entry %d stored with TTL %d, outside [%d, %d]" j (ittl + x) ittl (ittl + jmax ittl)) jisl;
        if as_int jq < 0 || as_int jq > jmax qttl then
          diff i "query entry stored with TTL %d, outside [%d, %d]" (qttl + as_int jq) qttl (qttl + jmax qttl);
        let st = tick_to c !s (as_int tb) and st0 = tick_to c !s0 (as_int tb) in
        if not (req_ok c st fr) then unquiet := true;
        let m_tzero = int_of_n (fst (determine c st)) = 0 in
        let (st', out) = step c st (Request (fr, true, n_of_int (as_int jq), jis)) in
        dpush (enc_out out);
        let (st0', out0) = step c st0 (Request (fr, true, N0, [])) in
        s := st'; s0 := st0';
        let db = st.s_db in
        let ndb = nat_len db in
        let bl l = String.concat "" (List.map b2 l) in
        (match out with
         | OAns (ans, m_qhits, m_ihits, _, m_spawned) ->
           if m_tzero <> as_bool tzero then diff i "invalidation-time-zero model=%s impl=%s" (b2 m_tzero) (b2 (as_bool tzero));
           if m_spawned <> as_bool spawned then diff i "request spawned run model=%s impl=%s" (b2 m_spawned) (b2 (as_bool spawned));
           if m_qhits <> qhits then diff i "query-cache hits (sub-problems in order) model=[%s] impl=[%s]" (bl m_qhits) (bl qhits);
           if m_ihits <> ihits then diff i "iterator hits (reads in order) model=[%s] impl=[%s]" (bl m_ihits) (bl ihits);
           if List.length ans <> List.length cts then diff i "answer length model=%d impl=%d" (List.length ans) (List.length cts)
           else begin
             let all_miss = List.for_all not qhits && List.for_all not ihits in
             let stale_obs = ref false in
             List.iteri (fun j ((k, n), ct) ->
               let expect = content_of (view db k n) in
               if expect <> ct then diff i "read %d content model(at %d)=%s impl=%s" j (int_of_nat n) (show_content expect) (show_content ct);
               (* P2: some state of the store *)
               let matches lo = let r = ref false in
                 for v = lo to ndb do if content_of (view db k (nat_of_int v)) = ct then r := true done; !r in
               if not (matches 0) then prop i "read %d returns %s, which no state of the store ever held" j (show_content ct);
               (* P3: a request that was answered by the datastore alone is current *)
               if all_miss && content_of (view db k (nat_of_int ndb)) <> ct then
                 prop i "read %d went to the datastore but returns %s" j (show_content ct);
               (* P1 *)
               if not (matches !cov) then begin
                 stale_obs := true;
                 if not (qon && ion) && jit = 0 && not !unquiet then
                   prop i "stale hit after invalidation: read %d returns %s although a completed run had read the changelog at length %d (now %d)"
                     j (show_content ct) !cov ndb
               end) (List.combine ans cts);
             let fresh_upto db a = let ok = ref true in
               for v = 0 to !cov - 1 do if not (fresh_atb db (nat_of_int v) a) then ok := false done; !ok in
             if !stale_obs && not (qon && ion) then begin
               if jit > 0 then begin
                 (* attribute to the jitter only if the model agrees and the jitter-free model is fresh *)
                 let fresh0 = fresh_upto st0.s_db (out_src out0) and fresh_m = fresh_upto db ans in
                 if fresh0 && not fresh_m then
                   knowns := (if ion then "ttl_jitter_iterator_outlives_window" else "ttl_jitter_query_outlives_changelog") :: !knowns
                 else prop i "stale read under jitter that the jitter does not explain (model fresh=%s, jitter-free fresh=%s)" (b2 fresh_m) (b2 fresh0)
               end else if !unquiet then begin
                 (* no jitter, one cache: only the re-stamping of a sub-problem's stale answer can explain it,
                    and only if the model reproduces it *)
                 if qon && not (fresh_upto db ans) then knowns := "subproblem_restamped_after_write" :: !knowns
                 else prop i "stale read that the model does not reproduce"
               end
             end
           end
         | _ -> diff i "model output kind")
      | I "6" :: tb :: _ :: key :: ws :: hit :: ct :: jx :: [] ->
        (* a cached read racing with a write *)
        let k = dec_key key and ct = dec_content ct in
        let o j = RaceRead (k, List.map dec_tup (as_list ws), true, j) in
        let st = tick_to c !s (as_int tb) and st0 = tick_to c !s0 (as_int tb) in
        let (st', out) = step c st (o (n_of_int (as_int jx))) in
        dpush (enc_out out);
        let (st0', out0) = step c st0 (o N0) in
        s := st'; s0 := st0';
        let db = st.s_db in
        let ndb = nat_len db in
        (match out with
         | OAns ([(_, n)], _, [m_hit], _, _) ->
           if m_hit <> as_bool hit then diff i "racing read: iterator hit model=%s impl=%s" (b2 m_hit) (b2 (as_bool hit));
           let expect = content_of (view db k n) in
           if expect <> ct then diff i "racing read content model(at %d)=%s impl=%s" (int_of_nat n) (show_content expect) (show_content ct);
           let matches lo = let r = ref false in
             for v = lo to ndb do if content_of (view db k (nat_of_int v)) = ct then r := true done; !r in
           if not (matches 0) then prop i "racing read returns %s, which no state of the store ever held" (show_content ct);
           if not (matches !cov) && not (qon && ion) then begin
             if jit = 0 then
               prop i "stale hit after invalidation: racing read returns %s although a completed run had read the changelog at length %d (now %d)" (show_content ct) !cov ndb
             else begin
               let fresh_upto db a = let ok = ref true in
                 for v = 0 to !cov - 1 do if not (fresh_atb db (nat_of_int v) a) then ok := false done; !ok in
               if fresh_upto st0.s_db (out_src out0) && not (fresh_upto db (out_src out)) then
                 knowns := "ttl_jitter_iterator_outlives_window" :: !knowns
               else prop i "stale racing read under jitter that the jitter does not explain"
             end
           end
         | _ -> diff i "model output kind")
      | I "3" :: tb :: _ :: spawned :: [] ->
        let (st', out) = step c (tick_to c !s (as_int tb)) InvStart in
        dpush (enc_out out);
        s := st'; s0 := fst (step c (tick_to c !s0 (as_int tb)) InvStart);
        (match out with
         | OStart b -> if b <> as_bool spawned then diff i "InvalidateIfNeeded spawned model=%s impl=%s" (b2 b) (b2 (as_bool spawned))
         | _ -> diff i "model output kind")
      | I "4" :: tb :: _ :: did :: [] ->
        let (st', out) = step c (tick_to c !s (as_int tb)) InvRead in
        dpush (enc_out out);
        s := st'; s0 := fst (step c (tick_to c !s0 (as_int tb)) InvRead);
        (match out with
         | ORead b -> if b <> as_bool did then diff i "run read model=%s impl=%s" (b2 b) (b2 (as_bool did))
         | _ -> diff i "model output kind")
      | I "5" :: tb :: _ :: did :: clset :: cln :: storeset :: marks :: readlen :: clttl :: storettl :: markttl :: [] ->
        let st = tick_to c !s (as_int tb) in
        let m_readlen = match st.s_run with Some (RRead r) -> nat_len r.r_seen | _ -> -1 in
        let (st', out) = step c st InvFinish in
        dpush (enc_out out);
        s := st'; s0 := fst (step c (tick_to c !s0 (as_int tb)) InvFinish);
        let did = as_bool did and clset = as_bool clset and storeset = as_bool storeset in
        let marks = List.map dec_marker (as_list marks) in
        (match out with
         | OFin d ->
           let (m_did, m_cl, m_store, m_marks, name) = match d with
             | DNoRun -> (false, false, false, [], "no-run")
             | DError -> (true, false, true, [], "error")
             | DNoNew -> (true, true, false, [], "none(no new change)")
             | DNoneInWindow -> (true, true, false, [], "none(nothing in window)")
             | DFull -> (true, true, true, [], "full")
             | DPartial ms -> (true, true, false, ms, "partial") in
           if m_did <> did then diff i "run finish model=%s impl did=%s" name (b2 did)
           else if did then begin
             if m_cl <> clset || m_store <> storeset then
               diff i "decision model=%s impl: changelog-entry=%s store-marker=%s markers=%d" name (b2 clset) (b2 storeset) (List.length marks);
             if List.map (fun m -> Some m) m_marks <> marks then
               diff i "entity markers model=[%s] impl=[%s]" (String.concat ";" (List.map show_marker m_marks))
                 (String.concat ";" (List.map (function Some m -> show_marker m | None -> "?") marks));
             if clset && m_cl then begin
               let m_cln = match st'.s_cl with
                 | Some e -> List.length (List.filter (fun ch -> int_of_n ch.ch_ts <= int_of_n e.cl_lm) st'.s_db)
                 | None -> -1 in
               if m_cln <> as_int cln then diff i "changelog entry LastModified covers model=%d impl=%d changes" m_cln (as_int cln)
             end;
             (* the TTLs the run passed to Set *)
             let ttl_of m = match aget mkey_eqb m st'.s_mk with
               | Some e -> int_of_n e.me_exp - int_of_n e.me_lm | None -> -2 in
             if clset && m_cl then begin
               let m_ttl = match st'.s_cl with Some e -> int_of_n e.cl_exp - int_of_n e.cl_checked | None -> -2 in
               if m_ttl <> as_int clttl then diff i "changelog entry TTL model=%d impl=%d" m_ttl (as_int clttl)
             end;
             if storeset && m_store && ttl_of MStore <> as_int storettl then
               diff i "store-wide marker TTL model=%d impl=%d" (ttl_of MStore) (as_int storettl);
             List.iter (fun m -> if ttl_of m <> as_int markttl then
               diff i "entity marker %s TTL model=%d impl=%d" (show_marker m) (ttl_of m) (as_int markttl)) m_marks;
             if m_readlen <> as_int readlen then diff i "changelog length at the run's read model=%d impl=%d" m_readlen (as_int readlen);
             if as_int readlen > !cov then cov := as_int readlen
           end
         | _ -> diff i "model output kind")
      | _ -> diff i "malformed op") (as_list opsv);
    dpush [dec_of_n !s.s_now; di (nat_len !s.s_db); di (int_of_nat !s.s_done)];
    (match !props, !diffs, !knowns with
     | p :: _, _, _ -> "PROP " ^ p
     | [], d :: _, _ -> "DIFF " ^ String.concat " | " (List.rev !diffs |> List.filteri (fun i _ -> i < 3)) ^ (ignore d; "")
     | [], [], k :: _ -> "KNOWN " ^ k ^ " a read is stale after a completed run; the model reproduces it and attributes it to this trigger"
     | [], [], [] -> "OK")
  | _ -> "DIFF malformed-record"

let () = run_oracle f
