(* C17 oracle.
   layer 1: server histories   -> replay on Store/Models.v (t_mem_trace / t_sql_trace): DIFF;
                                  t_trace_ok (the predicate of Props/C17.v trace_property) on the
                                  implementation's observations: PROP
   layer 0: datastore histories -> replay on the backend models (t_*_btrace): DIFF
   layer 2: the gated concurrent scenario -> t_crun; a served model older than the latest at the
            start of the request is PROP, or KNOWN singleflight_stale_latest when the model
            reproduces it and its trigger flag (some request joined a call in flight) is raised *)

(* Cross-check of extraction: with ORACLE_DUMP=<file> one line per server / datastore history is
   appended with what the EXTRACTED model computed: per operation the result class and a checksum
   of the answer; bin/coqreplay_c17.py recomputes the same numbers inside Coq (vm_compute). *)
let dump_chan = match Sys.getenv_opt "ORACLE_DUMP" with
  | Some p when p <> "" -> Some (open_out_gen [Open_append; Open_creat] 0o644 p)
  | _ -> None
let chk_add acc x = (acc * 31 + x + 7) mod 1000003
let chk_bytes acc (b : n list) = List.fold_left (fun a x -> chk_add a (int_of_n x)) acc b
let chk_blist acc l = List.fold_left (fun a b -> chk_add (chk_bytes a b) 256) acc l
(* the content encoding is opaque to the model: long encodings enter the checksum (and the Coq
   replay) as their first 40 and last 8 bytes *)
let surrogate (e : n list) =
  let n = List.length e in
  if n <= 48 then e else List.filteri (fun i _ -> i < 40 || i >= n - 8) e
let chk_body b = chk_add (chk_add (chk_bytes 0 (surrogate b.tb_enc)) (int_of_n b.tb_variant)) (int_of_n b.tb_size mod 1000)
let dump id nums =
  match dump_chan with
  | Some ch -> output_string ch (id ^ " " ^ String.concat " " (List.map string_of_int nums) ^ "\n"); flush ch
  | None -> ()

let hex l = hex_of_string (coq_to_bytes l)
let short s = if String.length s > 20 then String.sub s 0 20 ^ ".." else s
let str l = coq_to_bytes l

let mk_body v =
  match as_list v with
  | [enc; wf; valid; ntypes; size; variant] ->
    { tb_enc = as_cbytes enc; tb_wf = as_bool wf; tb_valid = as_bool valid; tb_ntypes = as_n ntypes;
      tb_size = as_n size; tb_variant = as_n variant }
  | _ -> failwith "body"

let dummy_body enc variant = { tb_enc = enc; tb_wf = true; tb_valid = true; tb_ntypes = n_of_int 1; tb_size = N0; tb_variant = n_of_int variant }

let merr_class e =
  match e with
  | MInvalidArgument -> 1 | MExceeded -> 4 | MInvalidModel -> 14 | MModelNotFound -> 2
  | MLatestNotFound -> 3 | MStoredModelInvalid -> 5 | MInternal -> 7
let merr_of_class c =
  match c with
  | 1 -> MInvalidArgument | 4 -> MExceeded | 14 -> MInvalidModel | 2 -> MModelNotFound
  | 3 -> MLatestNotFound | 5 -> MStoredModelInvalid | _ -> MInternal

type sobs =
  | OW of n list * tbody * int * n list            (* store body class id *)
  | OR of n list * n list * int * n list * n list  (* store id class rid enc *)
  | OL of n list * int * n list list               (* store class ids *)
  | OP of n list * n list option * int * int * n list  (* store idopt class variant header-id *)

let parse_sop v =
  match as_list v with
  | [I "0"; s; b; cls; id] -> OW (as_cbytes s, mk_body b, as_int cls, as_cbytes id)
  | [I "1"; s; id; cls; rid; enc] -> OR (as_cbytes s, as_cbytes id, as_int cls, as_cbytes rid, as_cbytes enc)
  | [I "2"; s; cls; ids] -> OL (as_cbytes s, as_int cls, List.map as_cbytes (as_list ids))
  | [I "3"; s; ido; cls; variant; hid] ->
    let ido = match as_list ido with [x] -> Some (as_cbytes x) | _ -> None in
    OP (as_cbytes s, ido, as_int cls, as_int variant, as_cbytes hid)
  | _ -> failwith "sop"

let server_case cid backend obs =
  (* ids: accepted writes carry the real (rank-canonical) id; the id drawn by a rejected write is
     not observable: it gets a placeholder between its neighbours so that the hypothesis talks
     about the observable ids only *)
  let last = ref [] and bangs = ref 0 in
  let h = List.map (fun o ->
    match o with
    | OW (s, b, cls, id) ->
      if cls = 0 then begin last := id; bangs := 0; MWrite (s, b, id) end
      else begin incr bangs; MWrite (s, b, !last @ List.init !bangs (fun _ -> n_of_int 33)) end
    | OR (s, id, _, _, _) -> MRead (s, id)
    | OL (s, _, _) -> MList s
    | OP (s, ido, _, _, _) -> MResolve (s, ido)) obs in
  let tr = if backend = 0 then t_mem_trace h else t_sql_trace h in
  dump cid (List.concat_map (fun (_, out) -> match out with
    | MWritten id -> [0; chk_bytes 0 id]
    | MModel (id, b) -> [1; chk_add (chk_bytes 0 id) (chk_body b)]
    | MIds ids -> [2; chk_blist 0 ids]
    | MResolved (id, b) -> [3; chk_add (chk_bytes 0 id) (chk_body b)]
    | MErr e -> [10 + merr_class e; 0]) tr);
  let rec cmp i tr obs =
    match tr, obs with
    | [], [] -> None
    | (_, out) :: tr', o :: obs' ->
      let cls_of = function OW (_, _, c, _) -> c | OR (_, _, c, _, _) -> c | OL (_, c, _) -> c | OP (_, _, c, _, _) -> c in
      let bad =
        match out, o with
        | MErr e, _ -> if cls_of o = merr_class e then None else Some (Printf.sprintf "model=class %d impl=class %d" (merr_class e) (cls_of o))
        | MWritten _, OW (_, _, 0, _) -> None
        | MModel (id, b), OR (_, _, 0, rid, enc) ->
          if id = rid && b.tb_enc = enc then None else Some (Printf.sprintf "model=(%s,%s) impl=(%s,%s)" (str id) (short (hex b.tb_enc)) (str rid) (short (hex enc)))
        | MIds ids, OL (_, 0, got) -> if ids = got then None else Some (Printf.sprintf "model lists %d ids, impl %d (or another order)" (List.length ids) (List.length got))
        | MResolved (id, b), OP (_, _, 0, variant, hid) ->
          if int_of_n b.tb_variant = variant && (hid = [] || hid = id) then None
          else Some (Printf.sprintf "model resolves %s (variant %d), impl used %s (variant %d)" (str id) (int_of_n b.tb_variant) (str hid) variant)
        | _, _ -> Some (Printf.sprintf "model answers, impl=class %d" (cls_of o)) in
      (match bad with Some t -> Some (Printf.sprintf "op %d: %s" i t) | None -> cmp (i + 1) tr' obs')
    | _ -> Some "length" in
  let diff = cmp 0 tr obs in
  (* the implementation's observations as a trace *)
  let accepted = ref [] in   (* (store, id, body), newest first *)
  let otrace = List.map2 (fun o mo ->
    match o with
    | OW (s, b, cls, id) ->
      if cls = 0 then begin accepted := (s, id, b) :: !accepted; (mo, MWritten id) end else (mo, MErr (merr_of_class cls))
    | OR (_, _, cls, rid, enc) -> (mo, if cls = 0 then MModel (rid, dummy_body enc 9) else MErr (merr_of_class cls))
    | OL (_, cls, got) -> (mo, if cls = 0 then MIds got else MErr (merr_of_class cls))
    | OP (s, ido, cls, variant, hid) ->
      if cls <> 0 then (mo, MErr (merr_of_class cls))
      else begin
        (* without a response header (v2 check) a request that names its model can only be
           judged by the answers: they must be those of the named model *)
        let hid = match hid, ido with [], Some id -> id | _ -> hid in
        (* which written model do the observations identify? by header id when present, else the
           most recent model of the store with the observed variant *)
        let cands = List.filter (fun (s', _, _) -> s' = s) !accepted in
        let found =
          if hid <> [] then List.find_opt (fun (_, id, b) -> id = hid && int_of_n b.tb_variant = variant) cands
          else List.find_opt (fun (_, _, b) -> int_of_n b.tb_variant = variant) cands in
        match found with
        | Some (_, id, b) -> (mo, MResolved (id, b))
        | None -> (mo, MResolved (hid, dummy_body [n_of_int 255] variant))
      end) obs h in
  let prop_ok = t_trace_ok otrace in
  let first_bad () =
    let rec take k l = if k = 0 then [] else match l with [] -> [] | x :: r -> x :: take (k - 1) r in
    let n = List.length otrace in
    let rec go k = if k > n then n else if not (t_trace_ok (take k otrace)) then k - 1 else go (k + 1) in
    go 1 in
  if not prop_ok then
    Printf.sprintf "PROP op %d: the observed trace violates the model-history predicate (validated, fresh increasing id, immutable, latest used)" (first_bad ())
    ^ (match diff with Some t -> "; first model difference: " ^ t | None -> "")
  else match diff with
    | Some t -> "DIFF " ^ t
    | None -> if t_ids_increasing h then "OK" else "DIFF observed model ids are not increasing in creation order (ULID-monotonic hypothesis violated)"

let raw_case cid backend ops =
  let parsed = List.map (fun v ->
    match as_list v with
    | [I "0"; s; id; b; cls] -> (BWrite (as_cbytes s, as_cbytes id, mk_body b), `W (as_int cls))
    | [I "1"; s; id; cls; rid; enc] -> (BRead (as_cbytes s, as_cbytes id), `M (as_int cls, as_cbytes rid, as_cbytes enc))
    | [I "2"; s; _; cls; rid; enc] -> (BLatest (as_cbytes s), `M (as_int cls, as_cbytes rid, as_cbytes enc))
    | [I "3"; s; cls; ids] -> (BList (as_cbytes s), `L (as_int cls, List.map as_cbytes (as_list ids)))
    | _ -> failwith "rawop") ops in
  let h = List.map fst parsed in
  let tr = if backend = 0 then t_mem_btrace h else t_sql_btrace h in
  dump cid (List.concat_map (fun (_, out) -> match out with
    | BOk -> [0; 0] | BErr -> [1; 0] | BNotFound -> [2; 0]
    | BModel (id, b) -> [3; chk_add (chk_bytes 0 id) (chk_body b)]
    | BIds ids -> [4; chk_blist 0 ids]) tr);
  let rec cmp i tr obs =
    match tr, obs with
    | [], [] -> None
    | (_, out) :: tr', (_, o) :: obs' ->
      let bad =
        match out, o with
        | BOk, `W 0 -> None
        | BErr, `W c when c <> 0 -> None
        | BNotFound, `M (1, _, _) -> None
        | BModel (id, b), `M (0, rid, enc) ->
          (* memory answers a read of the EMPTY id with the latest model: its own id is not the requested one *)
          if (id = rid || id = []) && b.tb_enc = enc then None else Some "another model"
        | BIds ids, `L (0, got) -> if ids = got then None else Some (Printf.sprintf "model [%s] impl [%s]" (String.concat "," (List.map str ids)) (String.concat "," (List.map str got)))
        | _, _ -> Some "outcome kinds differ" in
      (match bad with Some t -> Some (Printf.sprintf "op %d: %s" i t) | None -> cmp (i + 1) tr' obs')
    | _ -> Some "length" in
  match cmp 0 tr parsed with Some t -> "DIFF " ^ t | None -> "OK"

let concurrent_case joined served1 served2 =
  let s = bytes_to_coq "store" in
  let m k = (bytes_to_coq (Printf.sprintf "m%d" k), dummy_body [n_of_int k] k) in
  let r1 = n_of_int 1 and r2 = n_of_int 2 in
  let events =
    if joined then [CWrite (s, m 1); CBegin (r1, s); CWrite (s, m 2); CBegin (r2, s); CEnd s]
    else [CWrite (s, m 1); CBegin (r1, s); CWrite (s, m 2); CEnd s; CBegin (r2, s); CEnd s] in
  let st = t_crun events in
  let served_of r =
    match List.find_opt (fun (((((r', _), _), _), _), _) -> r' = r) st.c_done with
    | Some (((_, _), Some (id, _)), _) -> if coq_to_bytes id = "m1" then 1 else 2
    | _ -> 0 in
  let diff =
    if served_of r1 = served1 && served_of r2 = served2 then None
    else Some (Printf.sprintf "model serves (m%d, m%d), impl served (m%d, m%d)" (served_of r1) (served_of r2) served1 served2) in
  (* property on the implementation: request 1 starts when m1 is the latest, request 2 after the
     write of m2 has completed *)
  let prop_ok = served1 >= 1 && served2 = 2 in
  if prop_ok then (match diff with Some t -> "DIFF " ^ t | None -> "OK")
  else if diff = None && t_some_joined st && not (t_all_fresh st) then
    "KNOWN singleflight_stale_latest a model-less request that started after WriteAuthorizationModel returned joined the latest-model lookup already in flight and was evaluated against the older model"
  else "PROP a model-less request was not evaluated against the latest model of its store"
    ^ (match diff with Some t -> "; " ^ t | None -> "")

(* two stores: A's lookup is held in flight while a model-less request for B arrives *)
let concurrent2_case served1 served2 =
  let sa = bytes_to_coq "storeA" and sb = bytes_to_coq "storeB" in
  let ma = (bytes_to_coq "mA", dummy_body [n_of_int 1] 0) and mb = (bytes_to_coq "mB", dummy_body [n_of_int 2] 1) in
  let r1 = n_of_int 1 and r2 = n_of_int 2 in
  let st = t_crun [CWrite (sa, ma); CWrite (sb, mb); CBegin (r1, sa); CBegin (r2, sb); CEnd sb; CEnd sa] in
  (* the model: which store was each request's lookup made for? *)
  let own r =
    match List.find_opt (fun (((((r', _), _), _), _), _) -> r' = r) st.c_done with
    | Some (((((_, s_req), s_flight), _), _), _) -> if s_req = s_flight then 1 else 2
    | None -> 0 in
  let diff =
    if own r1 = served1 && own r2 = served2 && t_all_own_store st then None
    else Some (Printf.sprintf "model serves (own=%d, own=%d), impl (%d, %d) [1 = the store's own model, 2 = the other store's]" (own r1) (own r2) served1 served2) in
  if served1 = 1 && served2 = 1 then (match diff with Some t -> "DIFF " ^ t | None -> "OK")
  else "PROP cross-store: a model-less request was evaluated against another store's latest model (or failed) while that store's latest-model lookup was in flight"
    ^ (match diff with Some t -> "; " ^ t | None -> "")

let f cid vs =
  match vs with
  | [I "1"; backend; _combo; ops] -> server_case cid (as_int backend) (List.map parse_sop (as_list ops))
  | [I "0"; backend; _combo; ops] -> raw_case cid (as_int backend) (as_list ops)
  | [I "2"; _backend; _combo; joined; s1; s2] -> concurrent_case (as_bool joined) (as_int s1) (as_int s2)
  | [I "3"; _backend; _combo; _done_before; s1; s2] -> concurrent2_case (as_int s1) (as_int s2)
  | _ -> "DIFF malformed-record"

let () = run_oracle f
