(* C28 oracle: compares pkg/encoder, pkg/encrypter and the ReadChanges/Read token handling with
   Codec/Base64.v and Codec/Token.v.

   AES-GCM is abstract in the model (Section variables seal/aopen).  Here they are instantiated by
   the IDEAL AEAD over the table of (nonce, plaintext, sealed) triples that the driver computed
   with crypto/cipher under the scenario's key: seal = table lookup (first match; "" when the
   pair is not in the table, which is then reported), aopen accepts exactly the table's
   (nonce, sealed) pairs.  That is the authenticity hypothesis of the theorems, so every string
   the real GCM encoder accepts but the ideal one rejects shows up as a difference.

   Cross-check of extraction: with ORACLE_DUMP=<file> every value the extracted model computes
   for a case is appended to that file as numbers (before any comparison with the
   implementation); bin/coqreplay_c28.py recomputes the same numbers inside Coq with vm_compute,
   with the same ideal AEAD defined in Coq from the same table.  Encoding: a byte string is
   (length, hash) with hash = fold (acc*257 + b + 1) mod 1000000007; an option is 0 | 1 value;
   a resume is 0 invalid | 1 mismatch | 2 start | 3 length hash. *)

let dump_chan = match Sys.getenv_opt "ORACLE_DUMP" with
  | Some p when p <> "" -> Some (open_out_gen [Open_append; Open_creat] 0o644 p)
  | _ -> None
let dump id (nums : int list) =
  match dump_chan with
  | Some ch -> output_string ch (id ^ " " ^ String.concat " " (List.map string_of_int nums) ^ "\n")
  | None -> ()
let nh (l : n list) : int list =
  [List.length l; List.fold_left (fun acc b -> (acc * 257 + int_of_n b + 1) mod 1000000007) 0 l]
let n_opt o = match o with None -> [0] | Some l -> 1 :: nh l
let n_pair o = match o with None -> [0] | Some (a, b) -> 1 :: (nh a @ nh b)
let n_res r = match r with RInvalid -> [0] | RMismatch -> [1] | RStart -> [2] | RFrom u -> 3 :: nh u
let n_bool b = [if b then 1 else 0]

let hx l = hex_of_string (coq_to_bytes l)
let hs s = hex_of_string s
let b2s b = if b then "1" else "0"

let check (fields : (string * bool * string * string) list) : string =
  (* (name, is_property_field, model, impl) *)
  let bad = List.filter (fun (_, _, m, i) -> m <> i) fields in
  match bad with
  | [] -> "OK"
  | _ ->
    let prop = List.exists (fun (_, p, _, _) -> p) bad in
    let txt = String.concat "; "
        (List.map (fun (n, _, m, i) -> Printf.sprintf "%s model=%s impl=%s" n m i)
           (List.filteri (fun i _ -> i < 6) bad)) in
    (if prop then "PROP " else "DIFF ") ^ txt

let opt_bytes o = match o with Some l -> "1/" ^ hx l | None -> "0/"
let pair_str o = match o with None -> "0/" | Some (a, b) -> "1/" ^ hx a ^ "/" ^ hx b
let impl_opt ok b = if as_bool ok then "1/" ^ hs (as_bytes b) else "0/"
let impl_pair ok a b = if as_bool ok then "1/" ^ hs (as_bytes a) ^ "/" ^ hs (as_bytes b) else "0/"

let encoder_of_cfg (c : int) : encoder =
  match c with
  | 0 -> ENoop
  | 1 -> EBase64
  | 2 -> EToken (CNoop, EBase64)
  | 3 -> EToken (CGcm, EBase64)
  | 4 -> EToken (CGcm, ENoop)
  | 5 -> EToken (CGcm, EToken (CNoop, EBase64))
  | _ -> failwith "unknown encoder configuration"

let resume_str (r : resume) : string =
  match r with
  | RInvalid -> "0/" | RMismatch -> "1/" | RStart -> "2/" | RFrom u -> "3/" ^ hx u

(* the ideal AEAD over the driver's table *)
let ideal_aead (table : value) =
  let tbl = List.map (fun v -> match as_list v with
      | [n; p; s] -> (as_cbytes n, as_cbytes p, as_cbytes s)
      | _ -> failwith "table entry") (as_list table) in
  let miss = ref false in
  let seal n m =
    match List.find_opt (fun (a, b, _) -> a = n && b = m) tbl with
    | Some (_, _, s) -> s
    | None -> miss := true; [] in
  let aopen n c =
    match List.find_opt (fun (a, _, s) -> a = n && s = c) tbl with
    | Some (_, p, _) -> Some p
    | None -> None in
  (seal, aopen, miss)

let miss_msg = "DIFF seal-table-miss: the model sealed a (nonce, plaintext) pair the driver did not, i.e. serializer, nonce handling or the empty-input short cut differ"

let f _id vs =
  match vs with
  | [I "1"; data; enc; dok; dec] ->
    let d = as_cbytes data in
    let m_enc = b64_encode d in
    let m_dec = b64_decode m_enc in
    let m_ok = bytes_ok d in
    dump _id (nh m_enc @ n_opt m_dec @ n_bool m_ok);
    check [
      ("Base64.Encode", false, hx m_enc, hs (as_bytes enc));
      ("Base64.Decode(Encode)", true, opt_bytes m_dec, impl_opt dok dec);
      ("bytes_ok", false, b2s m_ok, "1");
    ]
  | [I "2"; s; ok; dec] ->
    let m = b64_decode (as_cbytes s) in
    dump _id (n_opt m);
    check [("Base64.Decode", false, opt_bytes m, impl_opt ok dec)]
  | [I "3"; u; t; sok; ser; dok; du; dt] ->
    let u' = as_cbytes u and t' = as_cbytes t in
    let m_ser = serialize u' t' in
    let m_des = match m_ser with None -> None | Some tok -> deserialize tok in
    dump _id (n_opt m_ser @ n_pair m_des);
    check [
      ("Serialize", false, opt_bytes m_ser, impl_opt sok ser);
      ("Deserialize(Serialize)", false, pair_str m_des, impl_pair dok du dt);
    ]
  | [I "4"; tok; ok; u; t] ->
    let m = deserialize (as_cbytes tok) in
    dump _id (n_pair m);
    check [("Deserialize", false, pair_str m, impl_pair ok u t)]
  | [I "5"; cfg; table; issued; presented] ->
    let e = encoder_of_cfg (as_int cfg) in
    let (seal, aopen, miss) = ideal_aead table in
    (* model values first *)
    let mi = List.map (fun v -> match as_list v with
        | [nonce; u; t; tokE; tokRC; tokR] ->
          let n = as_cbytes nonce and u' = as_cbytes u and t' = as_cbytes t in
          let m_tokE = match serialize u' t' with
            | None -> None
            | Some tok -> Some (enc_encode seal e n tok) in
          let m_rc = issue_token seal e n u' t' and m_r = issue_token seal e n u' [] in
          ((m_tokE, m_rc, m_r), (tokE, tokRC, tokR))
        | _ -> failwith "issued entry") (as_list issued) in
    let mp = List.map (fun v -> match as_list v with
        | [s; ty; dok; dec; rco; rcu; ro; ru] ->
          let s' = as_cbytes s and ty' = as_cbytes ty in
          let m_dec = enc_decode aopen e s' in
          let m_rc = read_changes_resume aopen e ty' s' and m_r = read_resume aopen e s' in
          ((m_dec, m_rc, m_r), (s, dok, dec, rco, rcu, ro, ru))
        | _ -> failwith "presented entry") (as_list presented) in
    dump _id (List.concat (List.map (fun ((a, b, c), _) -> n_opt a @ nh b @ nh c) mi)
              @ List.concat (List.map (fun ((a, b, c), _) -> n_opt a @ n_res b @ n_res c) mp));
    if !miss then miss_msg else begin
      let fi = List.concat (List.mapi (fun k ((m_tokE, m_rc, m_r), (tokE, tokRC, tokR)) ->
          let tag s = Printf.sprintf "issued[%d].%s" k s in
          [ (tag "Encode(Serialize)", false, (match m_tokE with None -> "" | Some l -> hx l), hs (as_bytes tokE));
            (tag "ReadChanges.token", false, hx m_rc, hs (as_bytes tokRC));
            (tag "Read.token", false, hx m_r, hs (as_bytes tokR)) ]) mi) in
      let fp = List.concat (List.mapi (fun k ((m_dec, m_rc, m_r), (s, dok, dec, rco, rcu, ro, ru)) ->
          let tag x = Printf.sprintf "presented[%d:%s].%s" k (hs (as_bytes s)) x in
          let impl_res o u = let o = as_int o in
            if o = 3 then "3/" ^ hs (as_bytes u) else string_of_int o ^ "/" in
          (* the implementation resolving a string to a position that the ideal AEAD does not
             resolve to is the property itself *)
          let forged m i = (match m with RFrom _ -> false | _ -> true) && String.length i > 0 && i.[0] = '3' in
          let i_rc = impl_res rco rcu and i_r = impl_res ro ru in
          [ (tag "Decode", false, opt_bytes m_dec, impl_opt dok dec);
            (tag "ReadChanges.resume", forged m_rc i_rc, resume_str m_rc, i_rc);
            (tag "Read.resume", forged m_r i_r, resume_str m_r, i_r) ]) mp) in
      check (fi @ fp)
    end
  | [I "6"; cfg; table; nonce; data; tok; dok; dec] ->
    let e = encoder_of_cfg (as_int cfg) in
    let (seal, aopen, miss) = ideal_aead table in
    let m_tok = enc_encode seal e (as_cbytes nonce) (as_cbytes data) in
    let m_dec = enc_decode aopen e m_tok in
    dump _id (nh m_tok @ n_opt m_dec);
    if !miss then miss_msg else
      check [
        ("Encode", false, hx m_tok, hs (as_bytes tok));
        ("Decode(Encode)", true, opt_bytes m_dec, impl_opt dok dec);
      ]
  | _ -> "DIFF malformed-record"

let () = run_oracle f
