(* C28 oracle: compares pkg/encoder, pkg/encrypter and the ReadChanges/Read token handling with
   Codec/Base64.v and Codec/Token.v.

   AES-GCM is abstract in the model (Section variables seal/aopen).  Here they are instantiated by
   the IDEAL AEAD over the table of (nonce, plaintext, sealed) triples that the driver computed
   with crypto/cipher under the scenario's key: seal = table lookup, aopen accepts exactly the
   table's (nonce, sealed) pairs.  That is the authenticity hypothesis of the theorems, so every
   string the real GCM encoder accepts but the ideal one rejects shows up as a difference. *)

let hx l = hex_of_string (coq_to_bytes l)
let hs s = hex_of_string s
let b2s b = if b then "1" else "0"

let check (fields : (string * bool * string * string) list) : string =
  (* (name, is_property_field, model, impl) *)
  let bad = List.filter (fun (_, _, m, i) -> m <> i) fields in
  match bad with
  | [] -> "OK"
  | _ ->
    let prop = List.exists (fun (_, p, _, _) -> p) bad in
    let txt = String.concat "; "
        (List.map (fun (n, _, m, i) -> Printf.sprintf "%s model=%s impl=%s" n m i)
           (List.filteri (fun i _ -> i < 6) bad)) in
    (if prop then "PROP " else "DIFF ") ^ txt

let opt_bytes o = match o with Some l -> "1/" ^ hx l | None -> "0/"
let impl_opt ok b = if as_bool ok then "1/" ^ hs (as_bytes b) else "0/"

let encoder_of_cfg (c : int) : encoder =
  match c with
  | 0 -> ENoop
  | 1 -> EBase64
  | 2 -> EToken (CNoop, EBase64)
  | 3 -> EToken (CGcm, EBase64)
  | 4 -> EToken (CGcm, ENoop)
  | 5 -> EToken (CGcm, EToken (CNoop, EBase64))
  | _ -> failwith "unknown encoder configuration"

let resume_str (r : resume) : string =
  match r with
  | RInvalid -> "0/" | RMismatch -> "1/" | RStart -> "2/" | RFrom u -> "3/" ^ hx u

exception Seal_miss

let f _id vs =
  match vs with
  | [I "1"; data; enc; dok; dec] ->
    let d = as_cbytes data in
    check [
      ("Base64.Encode", false, hx (b64_encode d), hs (as_bytes enc));
      ("Base64.Decode(Encode)", true, opt_bytes (b64_decode (b64_encode d)), impl_opt dok dec);
      ("bytes_ok", false, b2s (bytes_ok d), "1");
    ]
  | [I "2"; s; ok; dec] ->
    check [("Base64.Decode", false, opt_bytes (b64_decode (as_cbytes s)), impl_opt ok dec)]
  | [I "3"; u; t; sok; ser; dok; du; dt] ->
    let u' = as_cbytes u and t' = as_cbytes t in
    let m_ser = serialize u' t' in
    let m_des = match m_ser with
      | None -> "0/"
      | Some tok -> (match deserialize tok with
          | None -> "0/"
          | Some (a, b) -> "1/" ^ hx a ^ "/" ^ hx b) in
    let i_des = if as_bool dok then "1/" ^ hs (as_bytes du) ^ "/" ^ hs (as_bytes dt) else "0/" in
    check [
      ("Serialize", false, opt_bytes m_ser, impl_opt sok ser);
      ("Deserialize(Serialize)", false, m_des, i_des);
    ]
  | [I "4"; tok; ok; u; t] ->
    let m = match deserialize (as_cbytes tok) with
      | None -> "0/" | Some (a, b) -> "1/" ^ hx a ^ "/" ^ hx b in
    let i = if as_bool ok then "1/" ^ hs (as_bytes u) ^ "/" ^ hs (as_bytes t) else "0/" in
    check [("Deserialize", false, m, i)]
  | [I "5"; cfg; table; issued; presented] ->
    let e = encoder_of_cfg (as_int cfg) in
    let tbl = List.map (fun v -> match as_list v with
        | [n; p; s] -> (as_bytes n, as_bytes p, as_bytes s)
        | _ -> failwith "table entry") (as_list table) in
    let seal n m =
      let n' = coq_to_bytes n and m' = coq_to_bytes m in
      match List.find_opt (fun (a, b, _) -> a = n' && b = m') tbl with
      | Some (_, _, s) -> bytes_to_coq s
      | None -> raise Seal_miss in
    let aopen n c =
      let n' = coq_to_bytes n and c' = coq_to_bytes c in
      match List.find_opt (fun (a, _, s) -> a = n' && s = c') tbl with
      | Some (_, p, _) -> Some (bytes_to_coq p)
      | None -> None in
    (try
      let fi = List.concat (List.mapi (fun k v -> match as_list v with
          | [nonce; u; t; tokE; tokRC; tokR] ->
            let n = as_cbytes nonce and u' = as_cbytes u and t' = as_cbytes t in
            let tag s = Printf.sprintf "issued[%d].%s" k s in
            let m_tokE = match serialize u' t' with
              | None -> ""
              | Some tok -> hx (enc_encode seal e n tok) in
            [ (tag "Encode(Serialize)", false, m_tokE, hs (as_bytes tokE));
              (tag "ReadChanges.token", false, hx (issue_token seal e n u' t'), hs (as_bytes tokRC));
              (tag "Read.token", false, hx (issue_token seal e n u' []), hs (as_bytes tokR)) ]
          | _ -> failwith "issued entry") (as_list issued)) in
      let fp = List.concat (List.mapi (fun k v -> match as_list v with
          | [s; ty; dok; dec; rco; rcu; ro; ru] ->
            let s' = as_cbytes s and ty' = as_cbytes ty in
            let tag x = Printf.sprintf "presented[%d:%s].%s" k (hs (as_bytes s)) x in
            let impl_res o u = let o = as_int o in
              if o = 3 then "3/" ^ hs (as_bytes u) else string_of_int o ^ "/" in
            let m_rc = read_changes_resume aopen e ty' s' and m_r = read_resume aopen e s' in
            (* the implementation resolving a string to a position that the ideal AEAD does not
               resolve to is the property itself *)
            let forged m i = (match m with RFrom _ -> false | _ -> true) && String.length i > 0 && i.[0] = '3' in
            let i_rc = impl_res rco rcu and i_r = impl_res ro ru in
            [ (tag "Decode", false, opt_bytes (enc_decode aopen e s'), impl_opt dok dec);
              (tag "ReadChanges.resume", forged m_rc i_rc, resume_str m_rc, i_rc);
              (tag "Read.resume", forged m_r i_r, resume_str m_r, i_r) ]
          | _ -> failwith "presented entry") (as_list presented)) in
      check (fi @ fp)
    with Seal_miss -> "DIFF seal-table-miss: the model sealed a (nonce, plaintext) pair the driver did not, i.e. serializer or nonce handling differ")
  | [I "6"; cfg; table; nonce; data; tok; dok; dec] ->
    let e = encoder_of_cfg (as_int cfg) in
    let tbl = List.map (fun v -> match as_list v with
        | [n; p; s] -> (as_bytes n, as_bytes p, as_bytes s)
        | _ -> failwith "table entry") (as_list table) in
    let seal n m =
      let n' = coq_to_bytes n and m' = coq_to_bytes m in
      match List.find_opt (fun (a, b, _) -> a = n' && b = m') tbl with
      | Some (_, _, s) -> bytes_to_coq s
      | None -> raise Seal_miss in
    let aopen n c =
      let n' = coq_to_bytes n and c' = coq_to_bytes c in
      match List.find_opt (fun (a, _, s) -> a = n' && s = c') tbl with
      | Some (_, p, _) -> Some (bytes_to_coq p)
      | None -> None in
    (try
      let m_tok = enc_encode seal e (as_cbytes nonce) (as_cbytes data) in
      check [
        ("Encode", false, hx m_tok, hs (as_bytes tok));
        ("Decode(Encode)", true, opt_bytes (enc_decode aopen e m_tok), impl_opt dok dec);
      ]
    with Seal_miss -> "DIFF seal-table-miss: the model sealed a (nonce, plaintext) pair the driver did not")
  | _ -> "DIFF malformed-record"

let () = run_oracle f
