(* C12 / C15 oracle (c15_oracle.ml is this file with the two switches below flipped).

   One record = one history.  The history is replayed on the extracted models
   (Store/Memory.v for the memory backend, Store/SqlTxn.v with the concrete engine for sqlite)
   and compared after every step with what the Go backends returned (DIFF).  Independently of
   the models, the property predicates are evaluated on the implementation's observations
   (PROP); a failing predicate whose trigger the model computes on its own state is a listed
   finding (KNOWN <flag>). *)

let prop_c12 = true   (* failed request changes nothing; truth table of on_duplicate/on_missing; crash points *)
let prop_c15 = false  (* replay; one entry per applied item; desc = rev asc; type filter; horizon *)

(* Cross-check of extraction: with ORACLE_DUMP=<file> one line per history is appended with what
   the EXTRACTED models computed, step by step (result class, tuple count, changelog length and a
   checksum of the observable state, for the memory model and for the sqlite model, plus the
   statement count; for datastore horizon reads the number of entries and their checksum);
   bin/coqreplay_c12.py / bin/coqreplay_c15.py recompute the same numbers inside Coq (vm_compute). *)
let dump_chan = match Sys.getenv_opt "ORACLE_DUMP" with
  | Some p when p <> "" -> Some (open_out_gen [Open_append; Open_creat] 0o644 p)
  | _ -> None
let chk_add acc x = (acc * 31 + x + 7) mod 1000003
let chk_bytes acc (b : n list) = List.fold_left (fun a x -> chk_add a (int_of_n x)) acc b
let chk_tuple acc ((k, (n, c)) : otuple) =
  let a = chk_add (chk_bytes acc k.k_obj) 256 in
  let a = chk_add (chk_bytes a k.k_rel) 256 in
  let a = chk_add (chk_bytes a k.k_user) 256 in
  let a = chk_add (chk_bytes a n) 256 in
  chk_add (chk_bytes a c) 257
let chk_entry acc (((op, k), oc) : (cop * key) * ocond) =
  chk_tuple (chk_add acc (match op with OpWrite -> 0 | OpDelete -> 1)) (k, oc)
let chk_state (ts : otuple list) (lg : ((cop * key) * ocond) list) =
  List.fold_left chk_entry (chk_add (List.fold_left chk_tuple 0 ts) 258) lg

let s = coq_to_bytes
let types = ["doc"; "folder"; "group"]
let far_future = n_of_int 1000000

let opt_of i = match i with 0 -> OAbsent | 1 -> OError | 2 -> OIgnore | _ -> OBogus

let errcode (r : wres) : int =
  match r with
  | WOk -> 0
  | WErr e ->
    (match e with
     | EInvalidInput -> 1 | ECondConflict -> 2 | EConflictInsert -> 3 | EConflictDelete -> 4
     | EEmpty -> 5 | EValidation -> 6 | EDuplicate -> 7 | EExceeded -> 8 | EOther -> 9 | EInjected -> 10)

let kind_code k = match k with KBegin -> 0 | KSelect -> 1 | KDelete -> 2 | KInsert -> 3 | KLog -> 4 | KCommit -> 5

(* canonical forms: a tuple is [obj; rel; user; cond; ctx], a change is op :: tuple *)
let tup_of ((k, (n, c)) : otuple) : string list = [s k.k_obj; s k.k_rel; s k.k_user; s n; s c]
let chg_of (((op, k), (n, c)) : (cop * key) * ocond) : string list =
  (match op with OpWrite -> "0" | OpDelete -> "1") :: [s k.k_obj; s k.k_rel; s k.k_user; s n; s c]

let show_t t = match t with
  | [o; r; u; n; c] -> Printf.sprintf "%s#%s@%s[%s|%s]" o r u n c
  | _ -> "?"
let show_c c = match c with
  | op :: t -> (if op = "0" then "W " else if op = "1" then "D " else "? ") ^ show_t t
  | _ -> "?"
let show_l f l =
  let n = List.length l in
  let l' = if n > 12 then List.filteri (fun i _ -> i >= n - 12) l else l in
  (if n > 12 then Printf.sprintf "(%d)..." n else "") ^ "[" ^ String.concat "; " (List.map f l') ^ "]"

type obs = { err : int; tuples : string list list; asc : string list list; desc : string list list;
             bytype : string list list list; trace : int list; crash : int list }

let parse_obs (v : value) : obs option =
  match as_list v with
  | [I "0"] -> None
  | [_; e; ts; a; d; bt; tr; cr] ->
    let strs l = List.map (fun x -> match x with B b -> b | I i -> i | _ -> "?") (as_list l) in
    Some { err = as_int e;
           tuples = List.map strs (as_list ts);
           asc = List.map strs (as_list a);
           desc = List.map strs (as_list d);
           bytype = List.map (fun l -> List.map strs (as_list l)) (as_list bt);
           trace = List.map as_int (as_list tr);
           crash = List.map as_int (as_list cr) }
  | _ -> failwith "malformed observation"

let key_of_vals o r u = { k_obj = as_cbytes o; k_rel = as_cbytes r; k_user = as_cbytes u }

let del_of (v : value) : key =
  match as_list v with [o; r; u] -> key_of_vals o r u | _ -> failwith "malformed delete"

let wr_of (v : value) : witem =
  match as_list v with
  | [o; r; u; has; name; ck; ctext; valid] ->
    let c = if as_bool has
      then Some (as_cbytes name, (if as_int ck = 0 then CNil else CStruct (as_cbytes ctext)))
      else None in
    { w_key = key_of_vals o r u; w_cond = c; w_valid = as_bool valid }
  | _ -> failwith "malformed write"

(* an observed tuple as the Coq specification's otuple *)
let otuple_of (t : string list) : otuple =
  match t with
  | [o; r; u; n; c] -> ({ k_obj = bytes_to_coq o; k_rel = bytes_to_coq r; k_user = bytes_to_coq u },
                        (bytes_to_coq n, bytes_to_coq c))
  | _ -> failwith "bad tuple"

let sort_t (l : string list list) = List.sort compare l

let rec drop n l = if n <= 0 then l else match l with [] -> [] | _ :: t -> drop (n - 1) t
let rec take n l = if n <= 0 then [] else match l with [] -> [] | x :: t -> x :: take (n - 1) t

let is_prefix (p : 'a list) (l : 'a list) = List.length p <= List.length l && take (List.length p) l = p

let has_type_prefix ty (c : string list) =
  match c with
  | _ :: o :: _ -> ty = "" || (String.length o > String.length ty && String.sub o 0 (String.length ty + 1) = ty ^ ":")
  | _ -> false

(* replay of a change list onto the empty store (independent of the Coq model) *)
let replay (l : string list list) : string list list =
  List.fold_left (fun acc c ->
    match c with
    | [op; o; r; u; n; x] ->
      let others = List.filter (fun t -> match t with [o'; r'; u'; _; _] -> not (o' = o && r' = r && u' = u) | _ -> true) acc in
      if op = "0" then others @ [[o; r; u; n; x]] else others
    | _ -> acc) [] l

(* verdict accumulation *)
type acc = { mutable diffs : string list; mutable props : string list; mutable knowns : (string * string) list }

let f _id vs =
  match vs with
  | [I "1"; L ops] ->
    let a = { diffs = []; props = []; knowns = [] } in
    let dbuf = Buffer.create 256 in
    let dnum x = Buffer.add_char dbuf ' '; Buffer.add_string dbuf (string_of_int x) in
    let diff fmt = Printf.ksprintf (fun m -> a.diffs <- m :: a.diffs) fmt in
    let ms = ref empty_state in
    let se = ref eng_empty in
    (* previous observations per backend: (tuples, asc) *)
    let pm = ref ([], []) and ps = ref ([], []) in
    (* (tick, asc after that op) per backend, newest first: for the horizon predicate *)
    let hm = ref [] and hs = ref [] in
    (* token-following readers through the command: model token, entries consumed, still in sync *)
    let tokm = ref O and toks = ref O and consm = ref 0 and conss = ref 0 in
    let syncm = ref false and syncs = ref false in
    List.iteri (fun i opv ->
      match as_list opv with
      | [I "0"; mode; od; om; tick; fault; dels; wrs; om_v; os_v; flav] ->
        let mode = as_int mode and fault = as_int fault and flav = as_int flav in
        (* flavours 4 / 5: the command layer over a datastore that answers ErrWriteConflictOnDelete /
           OnInsert without applying anything *)
        let lost_race st = ((if flav = 4 then WErr EConflictDelete else WErr EConflictInsert), st) in
        let ondup = opt_of (as_int od) and onmiss = opt_of (as_int om) in
        let now = as_n tick in
        let dels = List.map del_of (as_list dels) and wrs = List.map wr_of (as_list wrs) in
        let wkeys = List.map (fun w -> w.w_key) wrs in
        let in_contract =
          if mode = 0 then cmd_validate ondup onmiss dels wrs = None else wf_request dels wrs in
        let must_fail_cmd = mode = 0 && cmd_validate ondup onmiss dels wrs <> None in
        (* one backend *)
        let check name (o : obs) (mres : wres) (m_tuples : otuple list) (m_log : ((cop * key) * ocond) list)
            (m_bytype : string -> string list list) (prev : (string list list * string list list) ref)
            (hist : (int * string list list) list ref) (triggers : (bool * string * string list) list) =
          let where = Printf.sprintf "step %d %s" i name in
          (* --- implementation vs model --- *)
          if o.err <> errcode mres then diff "%s: error class impl=%d model=%d" where o.err (errcode mres);
          let mt = sort_t (List.map tup_of m_tuples) in
          if o.tuples <> mt then diff "%s: tuples impl=%s model=%s" where (show_l show_t o.tuples) (show_l show_t mt);
          let ml = List.map chg_of m_log in
          if o.asc <> ml then diff "%s: changelog impl=%s model=%s" where (show_l show_c o.asc) (show_l show_c ml);
          List.iteri (fun j ty ->
            match List.nth_opt o.bytype j with
            | Some l -> if l <> m_bytype ty then diff "%s: changelog of type %s impl=%s model=%s" where ty (show_l show_c l) (show_l show_c (m_bytype ty))
            | None -> ()) types;
          (* --- property predicates on the implementation's observations --- *)
          let fails = ref [] in
          (* every failing predicate carries its kind; a trigger only explains the kinds it can cause *)
          let pf kind fmt = Printf.ksprintf (fun m -> fails := (kind, m) :: !fails) fmt in
          let (pt, pl) = !prev in
          if prop_c12 then begin
            if o.err <> 0 && (o.tuples <> pt || o.asc <> pl) then
              pf "failed_but_changed" "%s: the request failed (class %d) but tuples or changelog changed" where o.err;
            if must_fail_cmd && o.err = 0 then pf "invalid_accepted" "%s: an invalid request was accepted" where;
            (* also for a request in which a statement was made to fail: it may fail (that is
               checked above to change nothing), but if it reports success everything must be there *)
            if in_contract && not must_fail_cmd then begin
              match spec_write ondup onmiss dels wrs (List.map otuple_of pt) with
              | None -> if o.err = 0 then pf "must_fail_succeeded" "%s: the request must fail (existing write / missing delete / other condition) but succeeded" where
              | Some ((ts', dlog), wlog) ->
                if o.err <> 0 then begin
                  if fault = 0 then pf (if o.err = 2 then "spurious_condition_conflict" else "must_succeed_failed") "%s: the request must succeed but failed with class %d" where o.err
                end
                else begin
                  if o.tuples <> sort_t (List.map tup_of ts') then
                    pf "effect_mismatch" "%s: tuples after the write are not (old - deletes) + writes: got %s want %s" where
                      (show_l show_t o.tuples) (show_l show_t (sort_t (List.map tup_of ts')));
                  let nd = List.length dlog and nw = List.length wlog in
                  if not (is_prefix pl o.asc) then pf "log_rewritten" "%s: the changelog was not extended (old entries changed)" where
                  else begin
                    let fresh = drop (List.length pl) o.asc in
                    let fd = take nd fresh and fw = drop nd fresh in
                    if List.length fresh <> nd + nw
                       || sort_t fd <> sort_t (List.map chg_of dlog) || fw <> List.map chg_of wlog then
                      pf "effect_mismatch" "%s: changelog extension is not exactly the applied items: got %s want deletes %s then writes %s" where
                        (show_l show_c fresh) (show_l show_c (List.map chg_of dlog)) (show_l show_c (List.map chg_of wlog))
                  end
                end
            end;
            (* crash points: every snapshot before COMMIT shows the old state, the last one the new *)
            let nc = List.length o.crash in
            List.iteri (fun j c ->
              if j < nc - 1 && not (c = 0 || c = 2) then pf "crash" "%s: crash before statement %d exposes a state that is not the old one (code %d)" where (j + 1) c;
              if j = nc - 1 && not (c = 1 || c = 2) then pf "crash" "%s: state after the call is not what a reopen sees (code %d)" where c) o.crash
          end;
          if prop_c15 then begin
            if sort_t (replay o.asc) <> o.tuples then
              pf "replay" "%s: replaying the changelog gives %s, the store holds %s" where (show_l show_t (sort_t (replay o.asc))) (show_l show_t o.tuples);
            if o.desc <> List.rev o.asc then pf "desc" "%s: descending changelog is not the reverse of ascending" where;
            List.iteri (fun j ty ->
              match List.nth_opt o.bytype j with
              | Some l -> if l <> List.filter (has_type_prefix ty) o.asc then pf "type_filter" "%s: changelog filtered by type %s is not the filter of the full changelog" where ty
              | None -> ()) types;
            if in_contract && o.err = 0 && is_prefix pl o.asc then begin
              let fresh = drop (List.length pl) o.asc in
              let dkeys = List.map (fun k -> [s k.k_obj; s k.k_rel; s k.k_user]) dels in
              let wks = List.map (fun k -> [s k.k_obj; s k.k_rel; s k.k_user]) wkeys in
              let keyof c = match c with [_; o; r; u; _; _] -> [o; r; u] | _ -> [] in
              let ok = List.for_all (fun c -> match c with
                  | "1" :: _ -> List.mem (keyof c) dkeys
                  | "0" :: _ -> List.mem (keyof c) wks
                  | _ -> false) fresh in
              let distinct = List.length (List.sort_uniq compare (List.map (fun c -> (List.hd c, keyof c)) fresh)) = List.length fresh in
              (* every store difference has its entry and every entry its difference *)
              let gone = List.filter (fun t -> not (List.mem t o.tuples)) pt
              and came = List.filter (fun t -> not (List.mem t pt)) o.tuples in
              let nD = List.length (List.filter (fun c -> List.hd c = "1") fresh)
              and nW = List.length (List.filter (fun c -> List.hd c = "0") fresh) in
              if not ok || not distinct || nD <> List.length gone || nW <> List.length came then
                pf "effect_mismatch" "%s: not one changelog entry per applied item: %d request deletes, %d request writes, entries %s, %d tuples gone, %d new" where
                  (List.length dels) (List.length wrs) (show_l show_c fresh) (List.length gone) (List.length came)
            end else if o.err = 0 && not (is_prefix pl o.asc) then pf "log_rewritten" "%s: old changelog entries changed" where
          end;
          List.iter (fun (kind, m) ->
            match List.filter (fun (on, _, kinds) -> on && List.mem kind kinds) triggers with
            | (_, flag, _) :: _ -> a.knowns <- (flag, m) :: a.knowns
            | [] -> a.props <- m :: a.props) (List.rev !fails);
          prev := (o.tuples, o.asc);
          hist := (as_int tick, o.asc) :: !hist
        in
        (* memory *)
        let mem_before = !ms in
        let (mres, ms') =
          if flav >= 4 then cmd_wrap (fun _ _ _ _ st -> lost_race st) ondup onmiss dels wrs !ms
          else if mode = 0 then mem_cmd_write ondup onmiss dels wrs now !ms else mem_write ondup onmiss dels wrs now !ms in
        (match parse_obs om_v with
         | Some o ->
           ms := ms';
           dnum (errcode mres); dnum (List.length (obs_tuples ms')); dnum (List.length (obs_log ms'));
           dnum (chk_state (obs_tuples ms') (obs_log ms'));
           let bt ty = List.map (fun c -> chg_of (obs_change c)) (read_changes (bytes_to_coq ty) far_future N0 false ms') in
           check "memory" o mres (obs_tuples ms') (obs_log ms') bt pm hm
             [ (trig_partial_match (dels @ wkeys) mem_before, "memory_partial_key_match",
                ["must_fail_succeeded"; "effect_mismatch"]);
               (trig_mem_ctx ondup wrs mem_before, "memory_ignore_nil_vs_empty_context", ["spurious_condition_conflict"]) ]
         | None -> ());
        (* sqlite *)
        let sql_before = !se in
        (match parse_obs os_v with
         | Some o ->
           let (sres, se', tr) =
             if flav >= 4 then (let (r, e) = cmd_wrap (fun _ _ _ _ st -> lost_race st) ondup onmiss dels wrs !se in (r, e, []))
             else if mode = 0 then (let (r, e) = sql_cmd_write_c ondup onmiss dels wrs now !se in (r, e, []))
             else (let ((r, e), t) = sql_write_c ondup onmiss dels wrs now (nat_of_int fault) !se in (r, e, t)) in
           se := se';
           let t' = se'.en_comm in
           dnum (errcode sres); dnum (List.length (sql_obs_tuples t')); dnum (List.length (sql_obs_log t'));
           dnum (chk_state (sql_obs_tuples t') (sql_obs_log t')); dnum (List.length tr);
           let bt ty = List.map (fun r -> chg_of (lrow_obs r)) (sql_read_changes (bytes_to_coq ty) far_future N0 false t') in
           (* a cancelled context stops the request before statement [fault] reaches the driver *)
           (* a cancelled context: database/sql may or may not let statement [fault] reach the driver *)
           let mtr = List.map kind_code tr in
           let tr_seen = if flav = 2 && List.length o.trace >= fault - 1 && is_prefix o.trace mtr then List.map (fun c -> List.nth tr c) (List.init (List.length o.trace) (fun j -> j)) else tr in
           if mode = 1 && o.trace <> List.map kind_code tr_seen then
             diff "step %d sqlite: statement trace impl=[%s] model=[%s]" i
               (String.concat "," (List.map string_of_int o.trace)) (String.concat "," (List.map (fun k -> string_of_int (kind_code k)) tr_seen));
           if o.crash <> [] && List.length o.crash <> List.length o.trace + 1 then
             diff "step %d sqlite: %d crash snapshots for %d statements" i (List.length o.crash) (List.length o.trace);
           check "sqlite" o sres (sql_obs_tuples t') (sql_obs_log t') bt ps hs
             [ (trig_sql_ctx ondup wrs sql_before.en_comm, "sqlite_ignore_nil_context_conflict", ["spurious_condition_conflict"]) ]
         | None -> ());
        (* both backends started this step from the same observable state, the request is outside
           the datastore contract (repeated key / malformed key below the command layer), and the
           backends answered differently *)
        (match parse_obs om_v, parse_obs os_v with
         | Some o1, Some o2 when prop_c12 && mode = 1 && not in_contract && fault = 0 ->
           let same_before = sort_t (List.map tup_of (obs_tuples mem_before)) = sort_t (List.map tup_of (sql_obs_tuples sql_before.en_comm)) in
           if same_before && ((o1.err = 0) <> (o2.err = 0) || o1.tuples <> o2.tuples) then
             a.knowns <- ("datastore_out_of_contract_backends_disagree",
                          Printf.sprintf "step %d: memory class %d, sqlite class %d" i o1.err o2.err) :: a.knowns
         | _ -> ())
      | [I "1"; now; h; ty; om_v; os_v] ->
        let nowi = as_int now and hi = as_int h in
        let ty = as_bytes ty in
        let expect hist =
          (* entries written by operations whose tick + h <= now *)
          let rec go l = match l with
            | [] -> []
            | (t, asc) :: rest -> if t + hi <= nowi then asc else go rest in
          List.filter (has_type_prefix ty) (go hist) in
        (let lm = List.map obs_change (read_changes (bytes_to_coq ty) (as_n now) (as_n h) false !ms)
         and ls = List.map lrow_obs (sql_read_changes (bytes_to_coq ty) (as_n now) (as_n h) false (!se).en_comm) in
         dnum (List.length lm); dnum (chk_state [] lm); dnum (List.length ls); dnum (chk_state [] ls));
        (match parse_obs om_v with
         | Some o ->
           let m = List.map (fun c -> chg_of (obs_change c)) (read_changes (bytes_to_coq ty) (as_n now) (as_n h) false !ms) in
           if o.asc <> m then diff "step %d memory: horizon read impl=%s model=%s" i (show_l show_c o.asc) (show_l show_c m);
           if prop_c15 && o.asc <> expect !hm then
             a.props <- Printf.sprintf "step %d memory: horizon read returned %s, entries older than the horizon are %s" i (show_l show_c o.asc) (show_l show_c (expect !hm)) :: a.props
         | None -> ());
        (match parse_obs os_v with
         | Some o ->
           let m = List.map (fun r -> chg_of (lrow_obs r)) (sql_read_changes (bytes_to_coq ty) (as_n now) (as_n h) false (!se).en_comm) in
           if o.asc <> m then diff "step %d sqlite: horizon read impl=%s model=%s" i (show_l show_c o.asc) (show_l show_c m);
           if prop_c15 && o.asc <> expect !hs then
             a.props <- Printf.sprintf "step %d sqlite: horizon read returned %s, entries older than the horizon are %s" i (show_l show_c o.asc) (show_l show_c (expect !hs)) :: a.props
         | None -> ())
      | [I "2"; now; h; ty; ps; poll; om_v; os_v] ->
        let nowi = as_int now and hi = as_int h and ps = as_int ps and poll = as_bool poll in
        let ty = as_bytes ty in
        let expect hist =
          let rec go l = match l with
            | [] -> []
            | (t, asc) :: rest -> if t + hi <= nowi then asc else go rest in
          List.filter (has_type_prefix ty) (go hist) in
        let one name (ov : obs option) (model_read : nat -> string list list * nat) (tok : nat ref)
            (cons : int ref) (sync : bool ref) hist =
          if poll && not !sync then ()   (* the read this poll continues was inconclusive *)
          else begin
            match ov with
            | None -> sync := false   (* absent or inconclusive: later polls of this reader are skipped *)
            | Some o ->
              let (m, tok') = model_read (if poll then !tok else O) in
              tok := tok';
              sync := true;
              if o.asc <> m then diff "step %d %s: token-following horizon read (page size %d%s) impl=%s model=%s" i name ps
                  (if poll then ", poll" else "") (show_l show_c o.asc) (show_l show_c m);
              let consumed = if poll then !cons else 0 in
              let want = drop consumed (expect hist) in
              if prop_c15 && o.asc <> want then
                a.props <- Printf.sprintf "step %d %s: following the continuation token through the ReadChanges command (page size %d%s) returned %s; the changes older than the horizon not yet delivered are %s" i name ps
                    (if poll then ", poll after further writes" else "") (show_l show_c o.asc) (show_l show_c want) :: a.props;
              cons := consumed + List.length o.asc
          end in
        let fuel n = List.init (n + 2) (fun _ -> as_n now) in
        one "memory" (parse_obs om_v)
          (fun t0 -> let (pages, t') = follow_tokens (bytes_to_coq ty) (as_n h) (nat_of_int ps) (fuel (List.length (!ms).changes)) t0 !ms in
                     (List.map (fun c -> chg_of (obs_change c)) (List.concat pages), t'))
          tokm consm syncm !hm;
        (* a real-minute read exists on sqlite only; the memory side is then absent and keeps its token *)
        one "sqlite" (parse_obs os_v)
          (fun t0 -> let tb = (!se).en_comm in
                     let (pages, t') = sql_follow_tokens (bytes_to_coq ty) (as_n h) (nat_of_int ps) (fuel (List.length tb.tl)) t0 tb in
                     (List.map (fun r -> chg_of (lrow_obs r)) (List.concat pages), t'))
          toks conss syncs !hs
      | [I "3"] -> ()
      | _ -> diff "step %d: malformed op" i) ops;
    (match dump_chan with
     | Some ch -> output_string ch (_id ^ Buffer.contents dbuf ^ "\n"); flush ch
     | None -> ());
    let cut m = if String.length m > 1500 then String.sub m 0 1500 ^ "..." else m in
    (match List.rev a.diffs, List.rev a.props, List.rev a.knowns with
     (* a failing property predicate (decided on the implementation's answers alone) is the
        stronger verdict; a model difference comes next *)
     | _, p :: _, _ -> "PROP " ^ cut p
     | d :: _, [], _ -> "DIFF " ^ cut d
     | [], [], ks ->
       (* one verdict per history: report the rarest listed finding present *)
       let prio = ["sqlite_ignore_nil_context_conflict"; "memory_partial_key_match";
                   "memory_ignore_nil_vs_empty_context"; "datastore_out_of_contract_backends_disagree"] in
       let pick = List.fold_left (fun acc p -> match acc with
           | Some _ -> acc
           | None -> List.find_opt (fun (f, _) -> f = p) ks) None prio in
       (match pick, ks with
        | Some (flag, m), _ -> "KNOWN " ^ flag ^ " " ^ cut m
        | None, (flag, m) :: _ -> "KNOWN " ^ flag ^ " " ^ cut m
        | None, [] -> "OK")
     )
  | [I "2"; backend; init; reqs; final; log] ->
    (* a race: k concurrent requests; linearisability against the sequential specification *)
    let strs l = List.map (fun x -> match x with B b -> b | I i -> i | _ -> "?") (as_list l) in
    let bname = if as_int backend = 0 then "memory" else "sqlite" in
    let init = List.map strs (as_list init) and final = sort_t (List.map strs (as_list final)) in
    let log = List.map strs (as_list log) in
    let reqs = List.mapi (fun i rv ->
      match as_list rv with
      | [mode; od; om; dels; wrs; err] ->
        (i, as_int mode, opt_of (as_int od), opt_of (as_int om), List.map del_of (as_list dels), List.map wr_of (as_list wrs), as_int err)
      | _ -> failwith "malformed race request") (as_list reqs) in
    if not prop_c12 then "OK" else begin
      (* what the specification says request r does in state cur: `Fail, or `Ok (tuples', deletes logged, writes logged) *)
      let effect (_, mode, od, om, dels, wrs, _) cur =
        if mode = 0 && cmd_validate od om dels wrs <> None then `Fail
        else match spec_write od om dels wrs cur with
          | None -> `Fail
          | Some ((ts', dl), wl) -> `Ok (ts', List.map chg_of dl, List.map chg_of wl) in
      let errof (_, _, _, _, _, _, e) = e in
      (* memory stamps the entries under its lock: the changelog order is the serial order and each
         request's entries are matched at the current position.  sqlite takes the ULID timestamp
         before BEGIN, so blocks of concurrent requests may be ordered differently from their
         commits: there the entries are matched as a multiset. *)
      let ordered = as_int backend = 0 in
      let rec remove_all xs l = match xs with
        | [] -> Some l
        | x :: xs' ->
          let rec rm l = match l with [] -> None | y :: l' -> if y = x then Some l' else (match rm l' with Some r -> Some (y :: r) | None -> None) in
          (match rm l with Some l' -> remove_all xs' l' | None -> None) in
      let rec solve remaining cur lg =
        (* a request that failed, and that the specification fails in this state, can be placed
           at once (it changes nothing); a successful request is a branching point even when it
           has nothing to do here - it may be the one that did something later *)
        let placeable r = match effect r cur with
          | `Fail -> errof r <> 0
          | `Ok _ -> false in
        (* a transient sqlite failure (busy / timeout, class 9) changes nothing wherever it is placed *)
        let transient r = as_int backend = 1 && errof r = 9 in
        let (now_, rest) = List.partition (fun r -> placeable r || transient r) remaining in
        if now_ <> [] then solve rest cur lg
        else if rest = [] then lg = [] && sort_t (List.map tup_of cur) = final
        else List.exists (fun r ->
            match effect r cur with
            | `Ok (ts', dl, wl) when errof r = 0 ->
              let nd = List.length dl and nw = List.length wl in
              let others = List.filter (fun x -> x != r) rest in
              if ordered then
                nd + nw <= List.length lg
                && sort_t (take nd lg) = sort_t dl && take nw (drop nd lg) = wl
                && solve others ts' (drop (nd + nw) lg)
              else (match remove_all (dl @ wl) lg with
                  | Some lg' -> solve others ts' lg'
                  | None -> false)
            | _ -> false) rest in
      if solve reqs (List.map otuple_of init) log then "OK"
      else "PROP " ^ (let cut m = if String.length m > 1500 then String.sub m 0 1500 ^ "..." else m in
        cut (Printf.sprintf "%s: no sequential order of the %d concurrent requests explains their results [%s], the final tuples %s and the new changelog entries %s (initial tuples %s)"
          bname (List.length reqs) (String.concat "," (List.map (fun r -> string_of_int (errof r)) reqs))
          (show_l show_t final) (show_l show_c log) (show_l show_t (sort_t init))))
    end
  | _ -> "DIFF malformed-record"

let () = run_oracle f
