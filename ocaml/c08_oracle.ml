(* C08 oracle.  Record (harness/cmd/c08/main.go):
     1 models worlds atoms subjects depth flags steps engines
     models   = ( (model conds) ... )                        model versions of the store
     worlds   = ( (modelidx tuples pathxs) ... )              tuples: contextual first, each with its
                                                               condition outcome under the world's context;
                                                               pathxs: one PathExists list per subject
     steps    = ( (0 item) | (1 (item ...)) | (2 item) ... )  Check | BatchCheck | ListObjects
     item     = (world subject ot oi rel)                     (ListObjects: ot = type, oi = 0)
     engines  = ( (engine (run ...) (run ...) (dump ...)) ... )   uncached runs, cached runs, cache read-backs
     run      = ( obs ... ) one per step;  obs = ( (class ...) ((ot oi) ...) )
     dump     = ( (world subject ot oi rel allowed cycle) ... )   (engine 0: entries found in the shared cache)
   A partition = (world, subject): the part of the cache key that is constant during a request.

   Verdicts.
     PROP  an answer of a cached run differs from the uncached answer (at API level: allowed /
           denied / error class) and no listed finding explains it; a cache entry carries
           CycleDetected; the default engine's answer contradicts the reference semantics.
     DIFF  engine 0 (default engine, command layer) left the model: an uncached outcome outside
           the outcome set of Check/V1.v, a cached outcome outside the outcome sets of
           Check/QueryCache.v (history-threaded cache, and the cache of ALL valid entries), or a
           cache entry that is not the path-independent value of its sub-problem.
     KNOWN v2_edge_cache_visited        only the weighted-graph engines differ, and the computed
                                        hazard predicate QueryCache.v2_visited_hazard holds for an
                                        earlier request of the same partition;
           v2_error_race                only the weighted-graph engines differ, one side is an error of the
                                        evaluation (condition error while a valid tuple of the partition has a
                                        condition that cannot be evaluated; "userset / wildcard request with
                                        exclusion" error), the other allowed / denied: the uncached engine itself
                                        returns either, depending on which branch reports first;
           (engine 4, ListObjects with enable-list-objects-optimizations: its candidate checks used to be cached
            with invariant key 0 -- C04/C08 lo_cache_key_without_ctx, fixed by 927fd35; a difference there is
            a PROP like any other)
           (a wrong cache entry -- in one run or in all -- is a DIFF: the reducers that used to invent a result for
            a cancelled sub-problem, C08 cancelled_reducer_result_cached, are fixed by 7d244e9)
           depth_error_masked_by_cache  default engine: uncached = resolution depth exceeded, cached
                                        = an answer (or error) the model gives without a depth limit;
           excl_sub_cycle / cond_err_swallowed   the C01 findings (V1 trigger flags), as in c01_oracle.ml. *)

let aout_s = function AT -> "T" | AFn -> "F" | AFc -> "Fcycle" | AEc -> "Econd" | AEd -> "Edepth" | AEo -> "Eother" | AFuel -> "FUEL"
let cls_s = function 0 -> "allowed" | 1 -> "denied" | 2 -> "denied_cycle" | 3 -> "err_cond" | 4 -> "err_depth" | 5 -> "err_other"
  | 6 -> "timeout" | 7 -> "invalid" | 8 -> "v2_shape" | 9 -> "v2_model" | 99 -> "skipped" | _ -> "?"
let cls_aout = function 0 -> Some AT | 1 -> Some AFn | 2 -> Some AFc | 3 -> Some AEc | 4 -> Some AEd | 5 -> Some AEo | _ -> None
let api c = if c = 2 then 1 else c
let api_of_aout = function AT -> 0 | AFn | AFc -> 1 | AEc -> 3 | AEd -> 4 | AEo -> 5 | AFuel -> 98
let set_s s = String.concat "," (List.map aout_s s)

(* Cross-check of extraction: with ORACLE_DUMP=<file> the values the EXTRACTED model computes for a case are
   appended to that file -- the outcome set (bit mask) of every request of the history threaded through
   resolve_top with one cache per partition (ListObjects steps: one request per atom of the type), then
   per partition (sorted) its id, the size and a checksum of its final cache, then the hazard predicate of
   the first few Check / BatchCheck items -- and bin/coqreplay_c08.py recomputes the same numbers inside
   Coq with run_history / v2_visited_hazard / reach under vm_compute. *)
let dump_chan = match Sys.getenv_opt "ORACLE_DUMP" with
  | Some p when p <> "" -> Some (open_out_gen [Open_append; Open_creat] 0o644 p)
  | _ -> None
let aout_bit = function AT -> 1 | AFn -> 2 | AFc -> 4 | AEc -> 8 | AEd -> 16 | AEo -> 32 | AFuel -> 64
let mask_of s = List.fold_left (fun acc a -> acc lor aout_bit a) 0 s
let dump_hazards = 6

type item = { w : int; s : int; o : obj; ot : int; rel : n }

let dec_item v =
  match as_list v with
  | [w; s; ot; oi; r] -> { w = as_int w; s = as_int s; o = mk_obj (as_int ot) (as_int oi); ot = as_int ot; rel = n_of_int (as_int r) }
  | _ -> failwith "item"

type step = SCheck of item | SBatch of item list | SList of item

let f _id vs =
  match vs with
  | [I "1"; models; worlds; atoms; subjects; depth; _flags; steps; engines] ->
    let models = List.map (fun mv -> match as_list mv with
      | [m; cs] -> (dec_model m, List.map (fun c -> n_of_int (as_int c)) (as_list cs))
      | _ -> failwith "model") (as_list models) in
    let worlds = List.map (fun wv -> match as_list wv with
      | [mi; tuples; pxs] ->
        (as_int mi, List.map dec_tuple (as_list tuples), List.map (fun px -> List.map dec_pair (as_list px)) (as_list pxs))
      | _ -> failwith "world") (as_list worlds) in
    let ats = List.map dec_atom (as_list atoms) in
    let subjs = List.map dec_subject (as_list subjects) in
    let md = nat_of_int (as_int depth) in
    let maxtuples = List.fold_left (fun a (_, ts, _) -> Stdlib.max a (List.length ts)) 0 worlds in
    let fuel_i = List.length ats + 3 in
    let fuel = nat_of_int fuel_i in
    let nolimit = nat_of_int (fuel_i + 2) in
    let gfuel = nat_of_int ((List.length ats + maxtuples) * 4 + 16) in
    let steps = List.map (fun sv -> match as_list sv with
      | [I "0"; it] -> SCheck (dec_item it)
      | [I "1"; its] -> SBatch (List.map dec_item (as_list its))
      | [I "2"; it] -> SList (dec_item it)
      | _ -> failwith "step") (as_list steps) in
    (* ---- partitions ---- *)
    let penv (w, s) =
      let (mi, store, pxs) = List.nth worlds w in
      let (m, cs) = List.nth models mi in
      (m, cs, store, List.nth subjs s, List.nth pxs s) in
    let memo tbl key f = match Hashtbl.find_opt tbl key with Some v -> v | None -> let v = f () in Hashtbl.add tbl key v; v in
    let sem_tbl = Hashtbl.create 8 in
    let sem p = memo sem_tbl p (fun () ->
      let (m, cs, store, subj, _) = penv p in
      let (v, conv) = lfp m cs store subj ats in
      let strat = stratified m in
      let has_e = List.exists (fun t -> t.t_ceval = E && valid_for_read m cs t) store in
      (v, conv, strat, has_e)) in
    let v1_tbl = Hashtbl.create 64 in
    let v1 p (o, r) = memo v1_tbl (p, o, r) (fun () ->
      let (m, cs, store, subj, px) = penv p in check_top m cs store subj px md fuel o r) in
    let v1u_tbl = Hashtbl.create 64 in
    let v1_nolimit p (o, r) = memo v1u_tbl (p, o, r) (fun () ->
      let (m, cs, store, subj, px) = penv p in fst (check_top m cs store subj px nolimit fuel o r)) in
    let rtop p c (o, r) =
      let (m, cs, store, subj, px) = penv p in resolve_top m cs store subj px md true fuel o r c in
    (* the cache of ALL valid entries of a partition: request every atom until nothing new is stored *)
    let cstar_tbl = Hashtbl.create 8 in
    let cstar p = memo cstar_tbl p (fun () ->
      let count c = List.length (List.sort_uniq compare (List.map fst c)) in
      let rec go c rounds =
        let c' = List.fold_left (fun c a -> snd (rtop p c a)) c ats in
        (* keep one entry per key *)
        let c' = List.fold_left (fun acc (k, b) -> if List.mem_assoc k acc then acc else (k, b) :: acc) [] (List.rev c') in
        if rounds = 0 || count c' = count c then c' else go c' (rounds - 1) in
      go [] (List.length ats + 1)) in
    let a2 p a = fst (rtop p (cstar p) a) in
    (* ---- the history through the cached model (engine 0) ---- *)
    let atoms_of_list (it : item) =
      List.filter (fun ((o : obj), r) -> int_of_n o.otype = it.ot && r = it.rel) ats in
    let caches : (int * int, (atom * bool) list) Hashtbl.t = Hashtbl.create 8 in
    let getc p = match Hashtbl.find_opt caches p with Some c -> c | None -> [] in
    let a1_tbl : (int * int, (oset * trig)) Hashtbl.t = Hashtbl.create 64 in   (* (step, item index) *)
    let dump_masks = ref [] in
    List.iteri (fun si st ->
      let run1 ii (it : item) a =
        let p = (it.w, it.s) in
        let (res, c') = rtop p (getc p) a in
        Hashtbl.replace caches p c';
        if dump_chan <> None then dump_masks := mask_of (fst res) :: !dump_masks;
        if ii >= 0 then Hashtbl.replace a1_tbl (si, ii) res in
      match st with
      | SCheck it -> run1 0 it (it.o, it.rel)
      | SBatch its -> List.iteri (fun ii it -> run1 ii it (it.o, it.rel)) its
      | SList it -> List.iter (fun a -> run1 (-1) it a) (atoms_of_list it)) steps;
    (* requests that precede (or run concurrently with) item ii of step si, per partition *)
    let earlier si =
      let acc = ref [] in
      List.iteri (fun sj st ->
        if sj <= si then
          match st with
          | SCheck it -> if sj < si then acc := ((it.w, it.s), (it.o, it.rel)) :: !acc
          | SBatch its -> List.iter (fun it -> acc := ((it.w, it.s), (it.o, it.rel)) :: !acc) its
          | SList _ -> ()) steps;
      !acc in
    (* ... and the sub-problems of the request itself: the branches of an intersection / exclusion and
       the regions behind non-cyclic edges run with visited sets of their own but share the edge cache *)
    let hazard p si a =
      let (m, _, store, _, _) = penv p in
      List.exists (fun (p', prev) -> p' = p && v2_visited_hazard m store gfuel prev a) (earlier si)
      || List.exists (fun prev -> v2_visited_hazard m store gfuel prev a) (reach m store gfuel a) in
    (match dump_chan with
     | Some ch ->
       let parts = List.sort compare (Hashtbl.fold (fun p c acc -> (p, c) :: acc) caches []) in
       let cks c = List.fold_left (fun acc (((o : obj), r), b) ->
         (acc * 31 + int_of_n o.otype * 10007 + int_of_n o.oid * 101 + int_of_n r * 3 + (if b then 1 else 0)) mod 1000003) 0 c in
       let pnums = List.concat_map (fun ((w, sx), c) -> [w * 100 + sx + 1; List.length c; cks c]) parts in
       let hz = ref [] and left = ref dump_hazards in
       List.iteri (fun si st ->
         let one (it : item) =
           if !left > 0 then begin
             decr left;
             hz := (if hazard (it.w, it.s) si (it.o, it.rel) then 1 else 0) :: !hz
           end in
         match st with SCheck it -> one it | SBatch its -> List.iter one its | SList _ -> ()) steps;
       output_string ch (String.concat " " (_id :: List.map string_of_int (List.rev !dump_masks @ pnums @ List.rev !hz)));
       output_char ch '\n'; flush ch
     | None -> ());
    (* The shared `visited` set exists only where the MODEL has a tuple cycle or a recursive relation: a
       weighted-graph mismatch on a request none of whose sub-problems lies on a type-level cycle is never
       finding F3.  (type, relation) nodes on a cycle of the model's dependency graph (Sem.deps): *)
    let cyc_tbl = Hashtbl.create 4 in
    let model_cyclic mi =
      memo cyc_tbl mi (fun () ->
        let (m, _) = List.nth models mi in
        let rels = all_rels m in
        let succ (t, r) =
          List.concat_map (fun (t', rd) ->
            if t' = t && rd.rd_rel = r then List.map (fun ((a, b), _) -> (a, b)) (deps m t rd false rd.rd_rw) else []) rels in
        let rec closure seen = function
          | [] -> seen
          | x :: todo -> if List.mem x seen then closure seen todo else closure (x :: seen) (succ x @ todo) in
        List.filter_map (fun (t, rd) ->
          let n = (t, rd.rd_rel) in
          if List.mem n (closure [] (succ n)) then Some n else None) rels) in
    let on_model_cycle p a =
      let (mi, _, _) = List.nth worlds (fst p) in
      let (m, _, store, _, _) = penv p in
      let cyc = model_cyclic mi in
      List.exists (fun ((o : obj), r) -> List.mem (o.otype, r) cyc) (reach m store gfuel a) in
    let hazard_raw = hazard in
    let hazard p si a = on_model_cycle p a && hazard_raw p si a in
    let props = ref [] and diffs = ref [] and knowns = ref [] in
    let prop s = props := s :: !props and diff s = diffs := s :: !diffs and known s = knowns := s :: !knowns in
    let where p ((o : obj), r) = Printf.sprintf "w%d %s#r%d@%s" (fst p) (obj_s o) (int_of_n r) (subj_s (List.nth subjs (snd p))) in
    (* decision-level agreement of a default-engine answer with the reference semantics (c01_oracle.ml) *)
    let sem_wrong p (o, r) cls oset =
      let (v, conv, strat, has_e) = sem p in
      let (_, _, _, subj, _) = penv p in
      if not (strat && conv) then None
      else
        let spec = atomval subj v o r in
        (match cls, spec with
         | 0, T -> None
         | 0, _ -> Some ("allowed although the reference semantics does not grant it (" ^ b3s spec ^ ")")
         | (1 | 2), F -> None
         | (1 | 2), T -> Some "denied although the reference semantics grants it"
         | (1 | 2), E -> Some "denied although a condition that decides the answer could not be evaluated"
         | 3, _ -> if has_e then None else Some "condition error although every condition can be evaluated"
         | 4, _ -> if List.mem AEd oset then None else Some "depth error within the depth limit"
         | _, _ -> Some "unexpected error") in
    let by_trigger (tr : trig) in_model txt =
      if in_model && tr.tr_excl_sub_cycle then known ("excl_sub_cycle " ^ txt)
      else if in_model && tr.tr_swallow then known ("cond_err_swallowed " ^ txt)
      else prop txt in
    (* one compared answer *)
    let compare_answer ?(flagless=false) eng si ii (it : item) a (us : int list) (cc : int) run =
      (* BatchCheck outcomes carry no CycleDetected flag: `denied` stands for both *)
      let mem_cls ?(swallow=false) x set =
        List.mem x set || (flagless && x = AFn && List.mem AFc set)
        (* Check/V1.v (and QueryCache.v on top of it) read all userset types of a relation through ONE condition
           filter; the code gives every weight-2-eligible userset type its own iterator and filter (also under
           the default strategy), so a condition error that the model sees swallowed -- trigger tr_swallow of
           THIS request's evaluation -- can surface as the answer.  Admitted exactly there (cf. c02_oracle.ml). *)
        || (swallow && x = AEc) in
      let p = (it.w, it.s) in
      let wh = Printf.sprintf "engine %d step %d %s" eng si (where p a) in
      if List.for_all (fun u -> u = 7) us && cc = 7 then ()
      else begin
        let same = List.exists (fun u -> api u = api cc) us in
        let u0 = List.hd us in
        let (set1, tr1) = v1 p a in
        let (setc, trc) = (match Hashtbl.find_opt a1_tbl (si, ii) with Some r -> r | None -> ([], tr1)) in
        let (set2, tr2) = a2 p a in
        let trall = { tr_excl_sub_cycle = tr1.tr_excl_sub_cycle || trc.tr_excl_sub_cycle || tr2.tr_excl_sub_cycle;
                      tr_swallow = tr1.tr_swallow || trc.tr_swallow || tr2.tr_swallow } in
        let in_cached_model = (match cls_aout cc with
          | Some x -> mem_cls ~swallow:trc.tr_swallow x setc || mem_cls ~swallow:tr2.tr_swallow x set2
          | None -> false) in
        (* the uncached engine itself may give the cached answer (which of several errors is reported, which
           branch of an intersection denies first: Check/V1.v returns the SET of possible outcomes) *)
        let same = same || (eng = 0 && List.exists (fun x -> api_of_aout x = api cc) set1) in
        if not same then begin
          let txt = Printf.sprintf "%s: uncached=%s cached(run %d)=%s" wh (String.concat "/" (List.map cls_s us)) run (cls_s cc) in
          if eng = 1 || eng = 3 then begin
            (* the default engine must be unaffected for the finding to be the edge cache's *)
            let (_, _, _, has_e) = sem p in
            if hazard p si a then known ("v2_edge_cache_visited " ^ txt)
            else if ((has_e && (cc = 3 || List.mem 3 us)) || cc = 8 || List.mem 8 us)
                    && List.for_all (fun x -> x = 3 || x = 8 || x = 0 || x = 1) (cc :: us)
            then known ("v2_error_race " ^ txt)
            else prop txt
          end else begin
            let nl = v1_nolimit p a in
            if List.mem 4 (List.map api us) && cc <> 4
               && List.exists (fun x -> api_of_aout x = api cc) nl
               && (eng <> 0 || in_cached_model)
            then known ("depth_error_masked_by_cache " ^ txt)
            else by_trigger trall (eng <> 0 || in_cached_model) txt
          end
        end;
        if eng = 0 then begin
          (* model ties *)
          List.iter (fun u ->
            match cls_aout u with
            | Some x when List.mem AFuel set1 -> diff (wh ^ " model out of fuel"); ignore x
            | Some x -> if not (mem_cls ~swallow:tr1.tr_swallow x set1) then
                diff (Printf.sprintf "%s: uncached impl=%s outside Check/V1 {%s}" wh (cls_s u) (set_s set1))
            | None -> if u <> 7 then diff (Printf.sprintf "%s: uncached impl=%s (unexpected class)" wh (cls_s u))) us;
          (match cls_aout cc with
           | Some _ -> if not in_cached_model then
               diff
                 (Printf.sprintf "%s: cached impl=%s outside Check/QueryCache history{%s} all-valid{%s}; uncached model {%s}"
                    wh (cls_s cc) (set_s setc) (set_s set2) (set_s set1))
           | None -> if cc <> 7 then diff (Printf.sprintf "%s: cached impl=%s (unexpected class)" wh (cls_s cc)));
          (* reference semantics *)
          (match sem_wrong p a u0 set1 with
           | Some why -> by_trigger tr1 (match cls_aout u0 with Some x -> mem_cls ~swallow:tr1.tr_swallow x set1 | None -> false)
                           (Printf.sprintf "%s uncached impl=%s: %s" wh (cls_s u0) why)
           | None -> ());
          (if same then match sem_wrong p a cc (setc @ set2) with
           | Some why ->
             (* the cached answer agrees with the uncached one: classified once, above, unless only the cached one is wrong *)
             if sem_wrong p a u0 set1 = None then
               by_trigger trall in_cached_model (Printf.sprintf "%s cached impl=%s: %s" wh (cls_s cc) why)
           | None -> ())
        end
      end in
    List.iter (fun ev ->
      match as_list ev with
      | [eng; uruns; cruns; dumps] ->
        let eng = as_int eng in
        let dec_run rv = List.map (fun ov -> match as_list ov with
          | [cls; objs] -> (List.map as_int (as_list cls),
                            List.map (fun x -> match as_list x with [t; i] -> (as_int t, as_int i) | _ -> failwith "obj") (as_list objs))
          | _ -> failwith "obs") (as_list rv) in
        let uruns = List.map dec_run (as_list uruns) and cruns = List.map dec_run (as_list cruns) in
        (* ---- cache read-backs (engine 0): every entry must be the path-independent value of its key ---- *)
        let wrong_entries = List.map (fun dv ->
          List.filter_map (fun e ->
            match as_list e with
            | [w; s; ot; oi; r; allowed; cycle] ->
              let p = (as_int w, as_int s) in
              let a = (mk_obj (as_int ot) (as_int oi), n_of_int (as_int r)) in
              let allowed = as_bool allowed in
              if as_bool cycle then prop (Printf.sprintf "cache entry %s carries CycleDetected" (where p a));
              (match clook (cstar p) a with
               | Some b -> if b <> allowed then
                   Some ((), Printf.sprintf "cache entry %s = %b, path-independent value %b" (where p a) allowed b)
                 else None
               | None ->
                 Some ((),
                       Printf.sprintf "cache entry %s = %b but the sub-problem has no path-independent value (uncached model {%s})"
                         (where p a) allowed (set_s (fst (v1 p a)))))
            | _ -> failwith "dump entry") (as_list dv)) (as_list dumps) in
        List.iter (fun l -> List.iter (fun (_, txt) -> diff txt) l) wrong_entries;
        List.iteri (fun run crun ->
          List.iteri (fun si st ->
            let (ccls, cobjs) = List.nth crun si in
            let us = List.map (fun ur -> List.nth ur si) uruns in
            match st with
            | SCheck it ->
              let cc = List.hd ccls in
              if cc <> 99 then compare_answer eng si 0 it (it.o, it.rel) (List.map (fun (c, _) -> List.hd c) us) cc run
            | SBatch its ->
              List.iteri (fun ii it ->
                let cc = List.nth ccls ii in
                if cc <> 99 then compare_answer ~flagless:true eng si ii it (it.o, it.rel) (List.map (fun (c, _) -> List.nth c ii) us) cc run) its
            | SList it ->
              let cc = List.hd ccls in
              if cc <> 99 then begin
                let ucls = List.map (fun (c, _) -> List.hd c) us in
                let uobjs = List.map snd us in
                let stable = List.for_all (fun x -> x = List.hd ucls) ucls && List.for_all (fun x -> x = List.hd uobjs) uobjs in
                if stable then begin
                  let u0 = List.hd ucls and uo = List.hd uobjs in
                  let p = (it.w, it.s) in
                  let wh = Printf.sprintf "engine %d step %d ListObjects w%d t%d#r%d@%s" eng si it.w it.ot (int_of_n it.rel) (subj_s (List.nth subjs it.s)) in
                  if u0 <> cc then begin
                    let txt = Printf.sprintf "%s: uncached=%s cached(run %d)=%s" wh (cls_s u0) run (cls_s cc) in
                    if (eng = 0 || eng = 2) && u0 = 4 && cc = 0 then known ("depth_error_masked_by_cache " ^ txt)
                    else prop txt
                  end else if u0 = 0 && uo <> cobjs then begin
                    let sym = List.filter (fun x -> not (List.mem x cobjs)) uo @ List.filter (fun x -> not (List.mem x uo)) cobjs in
                    List.iter (fun (t, i) ->
                      let a = (mk_obj t i, it.rel) in
                      let inu = List.mem (t, i) uo in
                      let txt = Printf.sprintf "%s: object %s %s" wh (obj_s (fst a))
                          (if inu then "listed without the cache, missing with it (run " ^ string_of_int run ^ ")"
                           else "listed only with the cache (run " ^ string_of_int run ^ ")") in
                      if eng = 1 || eng = 3 then (if hazard p si a then known ("v2_edge_cache_visited " ^ txt) else prop txt)
                      else begin
                        let (_, tr1) = v1 p a in
                        let (_, tr2) = a2 p a in
                        by_trigger { tr_excl_sub_cycle = tr1.tr_excl_sub_cycle || tr2.tr_excl_sub_cycle;
                                     tr_swallow = tr1.tr_swallow || tr2.tr_swallow } true txt
                      end) sym
                  end
                end
              end) steps) cruns
      | _ -> failwith "engine") (as_list engines);
    let uniq l = List.sort_uniq compare l in
    (match uniq !props, uniq !diffs, uniq !knowns with
     | p :: _, _, _ -> "PROP " ^ p ^ (match !diffs with d :: _ -> " || also model-diff: " ^ d | [] -> "")
     | [], d :: _, _ -> "DIFF " ^ d
     | [], [], k :: _ -> "KNOWN " ^ k
     | [], [], [] -> "OK")
  | _ -> "DIFF malformed-record"

let () = run_oracle f
