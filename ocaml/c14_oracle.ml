(* C14 oracle: compares paged responses of the four list commands (memory and sqlite) with
   Store/Paging.v.
   Record kinds (first value):
     1  traversal : api backend ps reqtype rows pages end
     2  one request with an arbitrary (mutated) token : api backend ps reqtype rows b64ok tok outcome
     3  tuple_key restriction of Read : has_tk object user rejected_as_validation
   api: 0 Read, 1 ReadChanges, 2 ListStores, 3 ReadAuthorizationModels; backend: 0 memory, 1 sqlite.
   rows: ( (key id) ... ) in backend iteration order (Read, ReadChanges) or creation order (stores,
   models: the model sorts).  Outcome codes: 0 page, 11 invalid token, 12 type mismatch,
   13 validation, 14 internal/other, 20 panic, 30 runaway/out of fuel. *)

(* Cross-check of extraction: with ORACLE_DUMP=<file> the values the extracted model computes for a
   case are appended to that file (before any comparison with the implementation);
   bin/coqreplay_c14.py recomputes the same numbers inside Coq with vm_compute.
   Encoding: outcome = code, #items, sum of item ids, token length, sum of token bytes;
   traversal = the same four numbers per page (without code), then the ending code. *)
let dump_chan = match Sys.getenv_opt "ORACLE_DUMP" with
  | Some p when p <> "" -> Some (open_out_gen [Open_append; Open_creat] 0o644 p)
  | _ -> None
let dump id (nums : int list) = match dump_chan with
  | Some ch -> output_string ch (id ^ " " ^ String.concat " " (List.map string_of_int nums) ^ "\n"); flush ch
  | None -> ()
let sum_n l = List.fold_left (fun a x -> a + int_of_n x) 0 l

let z_of_int (i : int) : z =
  if i = 0 then Z0 else if i > 0 then Zpos (pos_of_int i) else Zneg (pos_of_int (- i))

let cs l = hex_of_string (coq_to_bytes l)
let ids_str l = String.concat "," (List.map (fun x -> string_of_int (int_of_n x)) l)

let rows_of v =
  List.map (fun r -> match as_list r with
      | [k; id] -> (as_cbytes k, n_of_int (as_int id))
      | _ -> failwith "row") (as_list v)

let err_code = function EInvalidToken -> 11 | EMismatchType -> 12 | EValidation -> 13 | EInternal -> 14

let step api backend rows ps ty : bytes -> n outcome =
  match api, backend with
  | 0, 0 -> read_mem (List.map snd rows) ps
  | 0, 1 -> read_sql rows ps
  | 1, 0 -> changes_mem rows ps ty
  | 1, 1 -> changes_sql rows ps ty
  | 2, 0 -> stores_mem rows ps
  | 2, 1 -> stores_sql rows ps
  | 3, 0 -> models_mem rows ps
  | 3, 1 -> models_sql rows ps
  | _ -> failwith "api/backend"

let show_outcome = function
  | Page (items, t) -> Printf.sprintf "0/%s/%s" (ids_str items) (cs t)
  | Rejected e -> string_of_int (err_code e)
  | Panic -> "20"

let show_obs v = match as_list v with
  | [c; ids; t] ->
    let c = as_int c in
    if c = 0 then Printf.sprintf "0/%s/%s" (String.concat "," (List.map (fun x -> string_of_int (as_int x)) (as_list ids)))
        (hex_of_string (as_bytes t))
    else string_of_int c
  | _ -> "?"

let show_pages ps = String.concat " " (List.map (fun (items, t) -> Printf.sprintf "[%s]%s" (ids_str items) (cs t)) ps)

let end_code = function EndMarker -> 0 | Failed e -> err_code e | Panicked -> 20 | OutOfFuel -> 30

let enc_outcome = function
  | Page (items, t) -> [0; List.length items; sum_n items; List.length t; sum_n t]
  | Rejected e -> [err_code e; 0; 0; 0; 0]
  | Panic -> [20; 0; 0; 0; 0]
let enc_pages ps = List.concat (List.map (fun (items, t) -> [List.length items; sum_n items; List.length t; sum_n t]) ps)

(* hypotheses of the paging_exact theorems, re-checked on the data of every traversal *)
let precondition api backend rows =
  let keys = List.map fst rows in
  let nonempty = List.for_all (fun k -> k <> []) keys in
  let nopipe = List.for_all (fun k -> not (List.exists (fun c -> int_of_n c = 124) k)) keys in
  match api, backend with
  | 0, 0 | 2, 0 | 3, 0 -> None
  | 0, 1 | 1, 1 ->
    if strictly_sorted keys && nonempty && nopipe then None else Some "keys not strictly increasing in iteration order"
  | 1, 0 ->
    let parsed = List.map (fun k -> ulid_parse k) keys in
    if List.exists (fun p -> p = None) parsed then Some "stored ulid does not parse"
    else if strictly_sorted (List.map (norm_key ulid_parse) keys) && nonempty && nopipe then None
    else Some "ulids not strictly increasing in commit order"
  | _ -> if nodupb keys && nonempty then None else Some "ids not distinct"

let f _id vs =
  match vs with
  | I "1" :: api :: backend :: ps :: ty :: rows :: pages :: ending :: [] ->
    let api = as_int api and backend = as_int backend in
    let psi = as_int ps in
    if psi > 100000 then "DIFF page size outside the range the model is run on" else
    let rows = rows_of rows in
    let st = step api backend rows (z_of_int psi) (as_cbytes ty) in
    let fuel = nat_of_int (List.length rows + 3) in
    let (mp, me) = if api = 1 then follow_changes fuel st [] else follow fuel st [] in
    dump _id (enc_pages mp @ [end_code me]);
    (match precondition api backend rows with
     | Some why -> "DIFF precondition: " ^ why
     | None ->
       let model = Printf.sprintf "%s ;%d" (show_pages mp) (end_code me) in
       let obs_pages = List.map (fun p -> match as_list p with
           | [ids; t] -> Printf.sprintf "[%s]%s"
                           (String.concat "," (List.map (fun x -> string_of_int (as_int x)) (as_list ids)))
                           (hex_of_string (as_bytes t))
           | _ -> "?") (as_list pages) in
       let obs = Printf.sprintf "%s ;%d" (String.concat " " obs_pages) (as_int ending) in
       if model = obs then "OK"
       else if as_int ending = 20 then "PROP panic while following tokens: model=" ^ model ^ " impl=" ^ obs
       else "DIFF traversal model=" ^ model ^ " impl=" ^ obs)
  | I "2" :: api :: backend :: ps :: ty :: rows :: b64ok :: tok :: outcome :: [] ->
    let api = as_int api and backend = as_int backend in
    let psi = as_int ps in
    if psi > 100000 then "DIFF page size outside the range the model is run on" else
    let rows = rows_of rows in
    let tokc = as_cbytes tok in
    let dec = if as_bool b64ok then Some tokc else None in
    let m = with_b64 dec (step api backend rows (z_of_int psi) (as_cbytes ty)) in
    dump _id (enc_outcome m);
    let model = show_outcome m and obs = show_obs outcome in
    if model = obs then "OK"
    else if obs = "20" then "PROP panic on token " ^ hex_of_string (as_bytes tok) ^ " model=" ^ model
    else begin
      (* memory Read (offset tokens): the property predicate on the observation alone -- an accepted
         token must not bring back an item that lies before the offset it denotes *)
      let goes_back =
        api = 0 && backend = 0 && as_bool b64ok &&
        (match storage_from tokc with
         | Some (_ :: _ as u) ->
           (match atoi u, as_list outcome with
            | Some z, [c; ids; _] when as_int c = 0 ->
              let pos id =
                let rec go i = function [] -> max_int | (_, x) :: r -> if int_of_n x = id then i else go (i + 1) r in
                go 0 rows in
              let zi = match z with Z0 -> 0 | Zpos p -> (let d = dec_of_pos p in if String.length d > 15 then max_int else int_of_string d) | Zneg _ -> -1 in
              zi < 0 || List.exists (fun id -> pos (as_int id) < zi) (as_list ids)
            | _ -> false)
         | _ -> false) in
      if goes_back then "PROP offset token misread (negative offset accepted, or an item before the offset returned): token=" ^ hex_of_string (as_bytes tok) ^ " impl=" ^ obs ^ " model=" ^ model
      else "DIFF token=" ^ hex_of_string (as_bytes tok) ^ " model=" ^ model ^ " impl=" ^ obs
    end
  | I "4" :: api :: ps :: ty :: rows :: tok :: bad :: obsf :: obsc :: [] ->
    (* sqlite, one request repeated with a fault on the row whose key is [bad] *)
    let api = as_int api in
    let psz = z_of_int (as_int ps) in
    let rows = rows_of rows in
    let tokc = as_cbytes tok and badc = as_cbytes bad and tyc = as_cbytes ty in
    let stepf = match api with
      | 0 -> read_sql_f rows (Some badc) psz
      | 1 -> changes_sql_f rows (Some badc) psz tyc
      | 2 -> stores_sql_f rows (Some badc) psz
      | _ -> models_sql_f rows (Some badc) psz in
    let mfo = stepf tokc and mco = step api 1 rows psz tyc tokc in
    dump _id (enc_outcome mfo @ enc_outcome mco);
    let mf = show_outcome mfo and mc = show_outcome mco in
    let obf = show_obs obsf and oc = show_obs obsc in
    let is_err s = String.length s > 0 && s.[0] <> '0' && s <> "20" in
    let parts v = match as_list v with
      | [c; ids; t] -> (as_int c, List.map as_int (as_list ids), hex_of_string (as_bytes t))
      | _ -> (99, [], "") in
    (* ReadChanges may also answer with a non-empty prefix of the fault-free page whose token is the
       position of its last item: a correct prefix continuation *)
    let prefix_continuation =
      api = 1 &&
      (let (cf, idf, tf) = parts obsf and (cc, idc, _) = parts obsc in
       let rec is_prefix a b = match a, b with
         | [], _ -> true | x :: a', y :: b' -> x = y && is_prefix a' b' | _ -> false in
       cf = 0 && cc = 0 && idf <> [] && is_prefix idf idc &&
       (let last = List.nth idf (List.length idf - 1) in
        match List.filter (fun (_, id) -> int_of_n id = last) rows with
        | (k, _) :: _ -> tf = cs k ^ "7c" ^ hex_of_string (as_bytes ty)
        | [] -> false)) in
    (* property predicate, on the two observations alone: the request fails, or answers as without the
       fault, or (ReadChanges) is a correct prefix continuation *)
    if not (is_err obf || obf = oc || prefix_continuation) then
      "PROP storage fault mid-iteration answered without error by a page that loses items: fault-free=" ^ oc ^ " with-fault=" ^ obf ^ " model=" ^ mf
    else if oc <> mc then "DIFF fault-free answer model=" ^ mc ^ " impl=" ^ oc
    else if obf = mf then "OK"
    else begin
      (* an engine that materialises the ORDER BY before LIMIT may also fail on a faulty row beyond the page *)
      let from = if api = 0 then storage_from tokc else Some tokc in
      let le = if api = 3 then desc else ble in
      match from with
      | Some f when api <> 1 && is_err obf && keyset_fault_in_range le rows badc f -> "OK"
      | _ -> "DIFF answer under fault model=" ^ mf ^ " impl=" ^ obf
    end
  | I "3" :: has_tk :: obj :: user :: rejected :: [] ->
    let ok = read_tk_ok (as_bool has_tk) (as_cbytes obj) (as_cbytes user) in
    dump _id [if ok then 1 else 0];
    if ok = not (as_bool rejected) then "OK"
    else Printf.sprintf "DIFF tuple_key restriction model_ok=%b impl_rejected=%b" ok (as_bool rejected)
  | _ -> "DIFF malformed-record"

let () = run_oracle f
