(* Shared glue between the record files written by the Go drivers and the extracted Coq
   models.  This file is concatenated after `open <Model>` so that the constructors
   XI/XO/XH, N0/Npos, Z0/Zpos/Zneg, O/S refer to the extracted datatypes (numbers are never
   mapped to OCaml int by extraction).  Trusted: parsing and conversions only. *)

type value = I of string | B of string | L of value list

let rec pos_of_int (i : int) : positive =
  if i <= 1 then XH
  else if i land 1 = 1 then XI (pos_of_int (i lsr 1))
  else XO (pos_of_int (i lsr 1))

let n_of_int (i : int) : n = if i <= 0 then N0 else Npos (pos_of_int i)

let rec int_of_pos (p : positive) : int =
  match p with XH -> 1 | XO q -> 2 * int_of_pos q | XI q -> 2 * int_of_pos q + 1

let int_of_n (x : n) : int = match x with N0 -> 0 | Npos p -> int_of_pos p

let rec nat_of_int (i : int) : nat = if i <= 0 then O else S (nat_of_int (i - 1))
let rec int_of_nat (x : nat) : int = match x with O -> 0 | S y -> 1 + int_of_nat y

(* arbitrary-size decimal -> positive, by repeated halving of the digit string *)
let dec_is_zero (s : string) = String.for_all (fun c -> c = '0') s
let dec_half (s : string) : string * int =
  let b = Buffer.create (String.length s) in
  let carry = ref 0 in
  String.iter (fun c ->
    let d = !carry * 10 + (Char.code c - 48) in
    Buffer.add_char b (Char.chr (48 + d / 2)); carry := d mod 2) s;
  (Buffer.contents b, !carry)
let rec pos_of_dec (s : string) : positive =
  let (h, r) = dec_half s in
  if dec_is_zero h then XH
  else if r = 1 then XI (pos_of_dec h) else XO (pos_of_dec h)
let n_of_dec (s : string) : n = if dec_is_zero s then N0 else Npos (pos_of_dec s)

(* positive -> decimal string (schoolbook doubling) *)
let dec_double_add (s : string) (bit : int) : string =
  let n = String.length s in
  let b = Bytes.make (n + 1) '0' in
  let carry = ref bit in
  for i = n - 1 downto 0 do
    let d = (Char.code s.[i] - 48) * 2 + !carry in
    Bytes.set b (i + 1) (Char.chr (48 + d mod 10)); carry := d / 10
  done;
  Bytes.set b 0 (Char.chr (48 + !carry));
  let r = Bytes.to_string b in
  if r.[0] = '0' then String.sub r 1 n else r
let rec dec_of_pos (p : positive) : string =
  match p with
  | XH -> "1"
  | XO q -> dec_double_add (dec_of_pos q) 0
  | XI q -> dec_double_add (dec_of_pos q) 1
let dec_of_n (x : n) : string = match x with N0 -> "0" | Npos p -> dec_of_pos p

let bytes_to_coq (s : string) : n list =
  List.init (String.length s) (fun i -> n_of_int (Char.code s.[i]))
let coq_to_bytes (l : n list) : string =
  let b = Buffer.create 16 in
  List.iter (fun x -> Buffer.add_char b (Char.chr ((int_of_n x) land 255))) l;
  Buffer.contents b

let hex_of_string (s : string) : string =
  let b = Buffer.create (2 * String.length s) in
  String.iter (fun c -> Buffer.add_string b (Printf.sprintf "%02x" (Char.code c))) s;
  Buffer.contents b
let string_of_hex (h : string) : string =
  let n = String.length h / 2 in
  String.init n (fun i -> Char.chr (int_of_string ("0x" ^ String.sub h (2 * i) 2)))

(* tokenizer / parser of one record column *)
let parse_values (s : string) : value list =
  let toks = List.filter (fun t -> t <> "") (String.split_on_char ' ' s) in
  let rec go toks acc =
    match toks with
    | [] -> (List.rev acc, [])
    | ")" :: rest -> (List.rev acc, rest)
    | "(" :: rest -> let (l, rest') = go rest [] in go rest' (L l :: acc)
    | t :: rest ->
      if String.length t > 0 && t.[0] = 'x'
      then go rest (B (string_of_hex (String.sub t 1 (String.length t - 1))) :: acc)
      else go rest (I t :: acc)
  in
  fst (go toks [])

let as_int v = match v with I s -> int_of_string s | _ -> failwith "expected int"
let as_dec v = match v with I s -> s | _ -> failwith "expected int"
let as_bool v = as_int v <> 0
let as_bytes v = match v with B s -> s | _ -> failwith "expected bytes"
let as_list v = match v with L l -> l | _ -> failwith "expected list"
let as_cbytes v = bytes_to_coq (as_bytes v)
let as_n v = n_of_dec (as_dec v)
let as_nat v = nat_of_int (as_int v)

(* main loop: [f id values] returns a verdict string: "OK", "DIFF ...", "KNOWN <flag> ...", "PROP ..." *)
let run_oracle (f : string -> value list -> string) : unit =
  (try
    while true do
      let line = input_line stdin in
      if String.length line > 0 && line.[0] <> '!' then begin
        match String.split_on_char '\t' line with
        | id :: record :: _ ->
          let verdict =
            try f id (parse_values record)
            with e -> "DIFF oracle-exception " ^ Printexc.to_string e in
          print_string id; print_char '\t'; print_endline verdict
        | _ -> ()
      end
    done
  with End_of_file -> ())
