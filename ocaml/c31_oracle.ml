(* C31 oracle.  One case = one history with the implementation's observations.
   DIFF : the implementation's outputs differ from the replay on Store/Assertions.v
   PROP : the property predicate (d_trace_ok / s_trace_ok of the Coq model file, the same
          predicate the theorems are about) fails on the implementation's observations
   KNOWN memory_assertion_key_pipe_collision : PROP fails, the faithful model agrees with the
          implementation, and the model's trigger flag pipe_collision is raised *)

(* Cross-check of extraction: with ORACLE_DUMP=<file> one line per history is appended with what
   the EXTRACTED model computed: per operation the result class and a checksum of the returned
   list; bin/coqreplay_c31.py recomputes the same numbers inside Coq (vm_compute). *)
let dump_chan = match Sys.getenv_opt "ORACLE_DUMP" with
  | Some p when p <> "" -> Some (open_out_gen [Open_append; Open_creat] 0o644 p)
  | _ -> None
let chk_add acc x = (acc * 31 + x + 7) mod 1000003
let chk_bytes acc (b : n list) = List.fold_left (fun a x -> chk_add a (int_of_n x)) acc b
let chk_asrts l = List.fold_left (fun a x -> chk_add (chk_bytes a x.a_enc) 256) 0 l
let dump id nums =
  match dump_chan with
  | Some ch -> output_string ch (id ^ " " ^ String.concat " " (List.map string_of_int nums) ^ "\n"); flush ch
  | None -> ()

let mk_asrt v =
  match as_list v with
  | [enc; size; wf; valid] ->
    { a_enc = as_cbytes enc; a_size = as_n size; a_wf = as_bool wf; a_valid = as_bool valid }
  | _ -> failwith "asrt"

(* attributes are irrelevant for the property predicate: normalise them *)
let norm_of_enc (e : n list) = { a_enc = e; a_size = N0; a_wf = true; a_valid = true }
let norm a = norm_of_enc a.a_enc

let encs_of_asrts l = List.map (fun a -> hex_of_string (coq_to_bytes a.a_enc)) l
let show_encs l = "[" ^ String.concat "," (List.map (fun s -> if String.length s > 24 then String.sub s 0 24 ^ ".." else s) l) ^ "]"

type obs = { kind : int; s : n list; m : n list; sent : asrt list; cls : int; got : n list list }

let parse_op v =
  match as_list v with
  | [k; s; m] -> { kind = as_int k; s = as_cbytes s; m = as_cbytes m; sent = []; cls = 0; got = [] }
  | [k; s; m; sent; cls; got] ->
    { kind = as_int k; s = as_cbytes s; m = as_cbytes m; sent = List.map mk_asrt (as_list sent);
      cls = as_int cls; got = List.map as_cbytes (as_list got) }
  | _ -> failwith "op"

let serr_class e =
  match e with
  | EInvalidArgument -> 1 | EModelNotFound -> 2 | ETooLarge -> 4 | EValidation -> 5 | EInternal -> 7

let f id vs =
  match vs with
  | [layer; backend; ops] ->
    let layer = as_int layer and backend = as_int backend in
    let obs = List.map parse_op (as_list ops) in
    let hexl l = List.map (fun e -> hex_of_string (coq_to_bytes e)) l in
    if layer = 1 then begin
      let h = List.map (fun o ->
        match o.kind with
        | 0 -> SAddModel (o.s, o.m) | 1 -> SWrite (o.s, o.m, o.sent) | _ -> SRead (o.s, o.m)) obs in
      let tr = if backend = 0 then mem_s_trace h else sql_s_trace h in
      dump id (List.concat_map (fun (_, out) -> match out with
        | SOk -> [0; 0] | SList l -> [1; chk_asrts l]
        | SErr e -> [10 + (match e with EInvalidArgument -> 1 | EModelNotFound -> 2 | ETooLarge -> 4 | EValidation -> 5 | EInternal -> 7); 0]) tr);
      (* DIFF *)
      let rec cmp i tr obs =
        match tr, obs with
        | [], [] -> None
        | (_, out) :: tr', o :: obs' ->
          let bad =
            match out with
            | SOk -> if o.cls = 0 && o.kind <> 2 then None else Some (Printf.sprintf "model=ok impl=class %d" o.cls)
            | SErr e -> if o.cls = serr_class e then None else Some (Printf.sprintf "model=class %d impl=class %d" (serr_class e) o.cls)
            | SList l ->
              if o.cls <> 0 then Some (Printf.sprintf "model=list impl=class %d" o.cls)
              else if encs_of_asrts l = hexl o.got then None
              else Some (Printf.sprintf "model=%s impl=%s" (show_encs (encs_of_asrts l)) (show_encs (hexl o.got))) in
          (match bad with Some t -> Some (Printf.sprintf "op %d (kind %d): %s" i o.kind t) | None -> cmp (i + 1) tr' obs')
        | _ -> Some "length" in
      let diff = cmp 0 tr obs in
      (* PROP on the implementation's observations *)
      let otrace = List.map (fun o ->
        match o.kind with
        | 0 -> (SAddModel (o.s, o.m), SOk)
        | 1 -> (SWrite (o.s, o.m, List.map norm o.sent), if o.cls = 0 then SOk else SErr EInternal)
        | _ -> (SRead (o.s, o.m), if o.cls = 0 then SList (List.map norm_of_enc o.got) else SErr EInternal)) obs in
      let prop_ok = s_trace_ok otrace in
      if not prop_ok then "PROP a ReadAssertions answer is not the last accepted WriteAssertions of that (store, model)"
        ^ (match diff with Some t -> "; first model difference: " ^ t | None -> "")
      else match diff with Some t -> "DIFF " ^ t | None -> "OK"
    end else begin
      let h = List.map (fun o -> if o.kind = 1 then DWrite (o.s, o.m, o.sent) else DRead (o.s, o.m)) obs in
      let tr = if backend = 0 then mem_d_trace h else sql_d_trace h in
      dump id (List.concat_map (fun (_, out) -> match out with DOk -> [0; 0] | DList l -> [1; chk_asrts l] | DErr -> [2; 0]) tr);
      let rec cmp i tr obs =
        match tr, obs with
        | [], [] -> None
        | (_, out) :: tr', o :: obs' ->
          let bad =
            match out with
            | DOk -> if o.cls = 0 then None else Some (Printf.sprintf "model=ok impl=class %d" o.cls)
            | DErr -> if o.cls <> 0 then None else Some "model=error impl=ok"
            | DList l ->
              if o.cls <> 0 then Some (Printf.sprintf "model=list impl=class %d" o.cls)
              else if encs_of_asrts l = hexl o.got then None
              else Some (Printf.sprintf "model=%s impl=%s" (show_encs (encs_of_asrts l)) (show_encs (hexl o.got))) in
          (match bad with Some t -> Some (Printf.sprintf "op %d: %s" i t) | None -> cmp (i + 1) tr' obs')
        | _ -> Some "length" in
      let diff = cmp 0 tr obs in
      let otrace = List.map (fun o ->
        if o.kind = 1 then (DWrite (o.s, o.m, List.map norm o.sent), if o.cls = 0 then DOk else DErr)
        else (DRead (o.s, o.m), if o.cls = 0 then DList (List.map norm_of_enc o.got) else DErr)) obs in
      let prop_ok = d_trace_ok otrace in
      if not prop_ok then begin
        if diff = None && backend = 0 && pipe_collision h && not (dops_store_ok h) then
          "KNOWN memory_assertion_key_pipe_collision memory backend: (store, model) pairs with a '|' in the store id share the concatenated key store|model"
        else "PROP a datastore ReadAssertions result is not the last WriteAssertions of that (store, model)"
          ^ (match diff with Some t -> "; first model difference: " ^ t | None -> "")
      end else match diff with Some t -> "DIFF " ^ t | None -> "OK"
    end
  | _ -> "DIFF malformed-record"

let () = run_oracle f
