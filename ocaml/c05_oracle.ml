(* C05 oracle.  Record (harness/cmd/c05/main.go):
     1 model conds tuples atoms maxdepth ( request ... )
     request = ( subject pathx objtype rel ( run ... ) ( stream ... ) )
     run     = ( backend engine mode limit errclass ( objid ... ) )
     stream  = ( backend engine errclass ( ( objid status ) ... ) )
   backend 0 memory 1 sqlite; engine 0 classic 1 weighted 2 pipeline; mode 0 Execute 1 streamed;
   errclass 0 none 1 condition 2 too-complex 3 validation 4 other 5 deadline/slow 6 hang (no response:
   nothing to compare; the property speaks about responses).
   The pipeline engine serves plain-object subjects only; for wildcard and userset subjects the
   code falls back to the classic reverse expansion (effective engine).

   Per request the reference semantics gives  permitted = { o of the type | Sem.holds3 o rel = T }.
   PROP  (the property's own predicate fails on the implementation's output):
     an object is returned that is not permitted; an object is returned twice; more objects than
     the limit; a permitted object is missing although neither limit nor deadline cut the answer
     (|result| < limit or no limit); an error without cause; the recorded reverse-expansion
     stream violates its contract (nofurther_sound / complete / duplicate-free), evaluated with
     the extracted Coq predicates.
   (The former finding rswu_userset_leak — sqlite.ReadStartingWithUser matching usersets for an object
   filter, DESIGN.md F7 — is repaired in /repo by a279b76; an object returned on sqlite that the
   subject does not hold is a PROP like on any backend.)
   KNOWN <flag>: the deviation is explained by a listed finding whose trigger is computed here:
     excl_sub_cycle / cond_err_swallowed   trigger flags of the Check model V1 for the object (F1/F2
                             reach ListObjects through its internal Check calls; never for the pipeline)
     weighted_degenerate_rewrite           weighted engine fails with an internal error and a relation
                             reachable from the requested one contains an intersection / exclusion
                             together with an operator node that has the same `this` / TTU operand twice
     pipeline_strict_condition_filter      pipeline engine, and the object's value changes when the
                             tuples are dropped whose condition is not carried by a restriction of
                             exactly their user type AND kind (ValidateTupleForRead accepts them — F4 —
                             and so do Check and the other engines; the pipeline's storage filter
                             ObjectQuery.Conditions does not)
     limit0_error_swallowed  unary Execute with maxResults = 0 on the classic/weighted engine returned
                             without error, a permitted object is missing, and a condition-evaluation
                             error is reachable for this request (some run / candidate stream of the
                             request reported one, or the Check model can return one); the Coq model
                             reproduces it (Props/C05.v execute_complete_refuted)
     pipeline_streamed_error_failopen      pipeline engine, streamed call that ended with a condition error,
                             and the object returned before the error is permitted once every
                             exclusion `b but not s` is read as `b` (the Difference worker broadcasts
                             base minus an INCOMPLETE subtract set when the subtract side failed)
     limit_cancel_race       TRANSIENT unary answer (mode 2: shorter than the limit allowed, not repeated
                             by an immediate second call) of the classic/weighted engine with a limit,
                             the missing object is a RequiresFurtherEval candidate and there are more
                             candidates than the limit (trySendObject reserves a slot, then loses the
                             select against cancel(); Props/C05.v lo_limit_racy_refuted)
     eval_error_lost_on_cancel   TRANSIENT answer of the classic/weighted engine without error although a
                             condition-evaluation error is reachable for the request: the reverse
                             expansion signals reverseExpandDoneWithError before it returns its error,
                             the consumer cancels, and a Check goroutine's context.Canceled becomes the
                             pool's first error, which evaluate ignores
     A transient answer whose shortfall neither trigger explains is a PROP like any other.
   Fault runs (extra kind 1): one datastore read of the call failed with a plain error; the answer must
     be an error or exactly the permitted set — a successful answer that misses a permitted object is a
     PROP (KNOWN eval_error_lost_on_cancel only when it was transient: the same fault, repeated twice,
     gave an error or the complete set).  Barrier trials (extra kind 2): never more objects than the
     limit, no duplicates, only permitted objects; no listed finding allows MORE than the limit.
   DIFF: the extracted Coq [evaluate], run on the recorded candidate stream with check := Sem and
     the arrival order reconstructed from the observed result, differs (as a set) from the result
     although no PROP/KNOWN explains the run.
   Tolerance (as c01_oracle.ml): nothing is compared when the model is not stratified or the
   fixpoint did not converge; a condition error is acceptable when some valid tuple's condition
   cannot be evaluated. *)

let rec nat_list l = List.map nat_of_int l

let rec index_of x l = match l with [] -> 0 | y :: l' -> if x = y then 0 else 1 + index_of x l'
let rec remove_one x l = match l with [] -> [] | y :: l' -> if x = y then l' else y :: remove_one x l'

(* arrival parameter that makes [arrange arrival l] equal to [target] (a permutation of l) *)
let rec arrival_for (l : int list) (target : int list) : int list =
  match l with
  | [] -> []
  | x :: l' -> index_of x target :: arrival_for l' (remove_one x target)

let rec uniq l = match l with [] -> [] | x :: l' -> x :: uniq (List.filter (fun y -> y <> x) l')

let rec rw_equal a b =
  match a, b with
  | This, This -> true
  | Computed r, Computed s -> r = s
  | TTU (a1, a2), TTU (b1, b2) -> a1 = b1 && a2 = b2
  | Union l, Union k | Inter l, Inter k -> List.length l = List.length k && List.for_all2 rw_equal l k
  | Diff (a1, a2), Diff (b1, b2) -> rw_equal a1 b1 && rw_equal a2 b2
  | _, _ -> false

(* degenerate rewrites the weighted graph cannot traverse: an n-ary operator node with two
   syntactically equal `this` / tuple-to-userset operands (they collapse into ONE logical grouping
   edge) in a relation whose rewrite also contains an intersection or an exclusion — the
   intersection / exclusion handlers of reverse_expand_weighted.go then fail with
   "invalid edges for source type" / "no valid edges found for union" *)
let rec rw_dup_operand rw =
  match rw with
  | This | Computed _ | TTU _ -> false
  | Union l | Inter l ->
    let rec dup = function
      | [] -> false
      | x :: l' -> (match x with This | TTU _ -> List.exists (rw_equal x) l' | _ -> false) || dup l' in
    dup l || List.exists rw_dup_operand l
  | Diff (b, s) -> rw_dup_operand b || rw_dup_operand s
let rec rw_has_inter_or_diff rw =
  match rw with
  | This | Computed _ | TTU _ -> false
  | Union l -> List.exists rw_has_inter_or_diff l
  | Inter _ | Diff _ -> true
let rw_degenerate rw = rw_dup_operand rw && rw_has_inter_or_diff rw

(* relations reachable from (t, r) through computed usersets, tuple-to-usersets and userset restrictions *)
let reachable_rels (m : model) (t : n) (r : n) : (n * n) list =
  let rec go todo seen =
    match todo with
    | [] -> seen
    | (t, r) :: rest ->
      if List.mem (t, r) seen then go rest seen
      else
        let next = match get_relation m t r with
          | Some rd -> List.map (fun ((t', r'), _) -> (t', r')) (deps m t rd false rd.rd_rw)
          | None -> [] in
        go (next @ rest) ((t, r) :: seen) in
  go [(t, r)] []
let degenerate_inter_reachable (m : model) (t : n) (r : n) =
  List.exists (fun (t', r') ->
    match get_relation m t' r' with Some rd -> rw_degenerate rd.rd_rw | None -> false) (reachable_rels m t r)

(* the model with every exclusion replaced by its base *)
let rec rw_nodiff rw =
  match rw with
  | This | Computed _ | TTU _ -> rw
  | Union l -> Union (List.map rw_nodiff l)
  | Inter l -> Inter (List.map rw_nodiff l)
  | Diff (b, _) -> rw_nodiff b
let model_nodiff (m : model) : model =
  List.map (fun td -> { td with td_rels = List.map (fun rd -> { rd with rd_rw = rw_nodiff rd.rd_rw }) td.td_rels }) m

let eng_s = function 0 -> "classic" | 1 -> "weighted" | 2 -> "pipeline" | _ -> "?"
let be_s = function 0 -> "memory" | 1 -> "sqlite" | _ -> "?"

(* Cross-check of extraction: with ORACLE_DUMP=<file> the values the EXTRACTED model computes for a
   case are appended to that file as one line `<case id> <numbers>`, before any comparison with the
   implementation; bin/coqreplay_c05.py recomputes the same numbers inside Coq with vm_compute.
   Per request: stratified, converged, |universe|, |permitted|, sum of permitted ids, outcome-set
   mask and trigger bits of Check/V1.v for the first universe object; then per recorded candidate
   stream that ended without error: |candidates|, nofurther_sound, complete, nodupb, and
   (length, order-sensitive checksum) of evaluate (limit 0 and 2, arrival i mod 3), of execute
   (limit 0, error after 1 send; 999 = Failed) and of pipeline_recv (limit 0 and 2) on it. *)
let dump_chan = match Sys.getenv_opt "ORACLE_DUMP" with
  | Some p when p <> "" -> Some (open_out_gen [Open_append; Open_creat] 0o644 p)
  | _ -> None
let aout_bit = function AT -> 1 | AFn -> 2 | AFc -> 4 | AEc -> 8 | AEd -> 16 | AEo -> 32 | AFuel -> 64
let bint b = if b then 1 else 0
let len_cksum (l : nat list) =
  let ids = List.map int_of_nat l in
  [List.length ids; snd (List.fold_left (fun (i, acc) x -> (i + 1, acc + i * x)) (1, 0) ids)]

let dump_case id m cs store ats md fuel requests =
  match dump_chan with
  | None -> ()
  | Some ch ->
    let out = ref [] in
    let push l = out := List.rev_append l !out in
    let strat = stratified m in
    List.iter (fun rv ->
      match as_list rv with
      | s :: px :: otv :: relv :: _runs :: streams :: _ ->
        let subj = dec_subject s in
        let pathx = List.map dec_pair (as_list px) in
        let ot = n_of_int (as_int otv) in
        let rel = n_of_int (as_int relv) in
        let (v, conv) = lfp m cs store subj ats in
        let univ = uniq (List.map (fun (o : obj) -> int_of_n o.oid) (List.filter (fun (o : obj) -> o.otype = ot) (List.map fst ats))) in
        let objof i = { otype = ot; oid = n_of_int i } in
        let permitted = List.filter (fun i -> atomval subj v (objof i) rel = T) univ in
        push [bint strat; bint conv; List.length univ; List.length permitted; List.fold_left (+) 0 permitted];
        (match univ with
         | i :: _ ->
           let (oset, tr) = check_top m cs store subj pathx md fuel (objof i) rel in
           push [List.fold_left (fun a x -> a lor aout_bit x) 0 oset; bint tr.tr_excl_sub_cycle + 2 * bint tr.tr_swallow]
         | [] -> push [0; 0]);
        let chk n = List.mem (int_of_nat n) permitted in
        List.iter (fun sv ->
          match as_list sv with
          | [_; _; ecv; cvs] when as_int ecv = 0 ->
            let cands = List.map (fun c -> match as_list c with
              | [i; st] -> (nat_of_int (as_int i), (if as_int st = 1 then NoFurtherEval else RequiresFurtherEval))
              | _ -> failwith "candidate") (as_list cvs) in
            let arrival = List.mapi (fun i _ -> nat_of_int (i mod 3)) cands in
            let values = List.map fst cands in
            push [List.length cands; bint (nofurther_sound_nat chk cands); bint (complete_nat chk (nat_list univ) cands);
                  bint (nodupb_nat values)];
            push (len_cksum (evaluate_nat cands chk O arrival));
            push (len_cksum (evaluate_nat cands chk (nat_of_int 2) arrival));
            push (match execute_nat cands chk O arrival (Some (nat_of_int 1)) with Objects l -> len_cksum l | Failed -> [999; 0]);
            push (len_cksum (pipeline_recv_nat (values @ values) O));
            push (len_cksum (pipeline_recv_nat (values @ values) (nat_of_int 2)))
          | _ -> ()) (as_list streams)
      | _ -> failwith "request") (as_list requests);
    output_string ch (id ^ " " ^ String.concat " " (List.rev_map string_of_int !out) ^ "\n");
    flush ch

let f _id vs =
  match vs with
  | [I "1"; model; conds; tuples; atoms; maxdepth; requests] ->
    let m = dec_model model in
    let cs = List.map (fun c -> n_of_int (as_int c)) (as_list conds) in
    let store = List.map dec_tuple (as_list tuples) in
    let ats = List.map dec_atom (as_list atoms) in
    let md = nat_of_int (as_int maxdepth) in
    let fuel = nat_of_int (List.length ats + 3) in
    let strat = stratified m in
    let has_e = List.exists (fun t -> t.t_ceval = E && valid_for_read m cs t) store in
    dump_case _id m cs store ats md fuel requests;
    let props = ref [] and diffs = ref [] and knowns = ref [] in
    List.iter (fun rv ->
      match as_list rv with
      | s :: px :: otv :: relv :: runs :: streams :: extras_opt ->
        let subj = dec_subject s in
        let pathx = List.map dec_pair (as_list px) in
        let ot = n_of_int (as_int otv) in
        let rel = n_of_int (as_int relv) in
        let (v, conv) = lfp m cs store subj ats in
        let dup_inter = degenerate_inter_reachable m ot rel in
        if strat && conv then begin
          let univ_objs = List.filter (fun (o : obj) -> o.otype = ot) (List.map fst ats) in
          let univ = uniq (List.map (fun (o : obj) -> int_of_n o.oid) univ_objs) in
          let objof id = { otype = ot; oid = n_of_int id } in
          let spec id = atomval subj v (objof id) rel in
          let permitted = List.filter (fun id -> spec id = T) univ in
          let isperm id = List.mem id permitted in
          (* the pipeline's per-edge condition filter *)
          let strict_ok t =
            match get_relation m t.t_obj.otype t.t_rel with
            | Some rd -> List.exists (fun d -> d.r_type = subject_type t.t_sub && kind_eqb d.r_kind (subject_kind t.t_sub)
                                               && d.r_cond = t.t_cond) rd.rd_restr
            | None -> false in
          let lax = List.filter (fun t -> valid_for_read m cs t && not (strict_ok t)) store in
          let spec_strict =
            if lax = [] then spec
            else begin
              let (v3, conv3) = lfp m cs (List.filter (fun t -> not (List.memq t lax)) store) subj ats in
              if conv3 then (fun id -> atomval subj v3 (objof id) rel) else spec
            end in
          let strict_obj e id = e = 2 && lax <> [] && spec_strict id <> spec id in
          let spec_nodiff = lazy (
            let (v4, conv4) = lfp (model_nodiff m) cs store subj ats in
            if conv4 then (fun id -> atomval subj v4 (objof id) rel) else (fun _ -> F)) in
          let subj_valid =
            (match find_type m (subject_type subj) with Some _ -> true | None -> false) &&
            (match subj with SSet (o, r) -> rel_defined m o.otype r | _ -> true) in
          let v1 = Hashtbl.create 7 in
          let check_of id =
            match Hashtbl.find_opt v1 id with
            | Some x -> x
            | None -> let x = check_top m cs store subj pathx md fuel (objof id) rel in Hashtbl.add v1 id x; x in
          let ec_of l k = List.exists (fun x -> match as_list x with
            | l' -> (match List.nth_opt l' k with Some v -> as_int v = 1 | None -> false)) (as_list l) in
          let cond_seen = ec_of runs 4 || ec_of streams 2 in
          let err_evidence = lazy (has_e && (cond_seen || List.exists (fun id -> List.mem AEc (fst (check_of id))) univ)) in
          let stream_tbl : (int * int, (nat * status) list * bool) Hashtbl.t = Hashtbl.create 4 in
          let where b e = Printf.sprintf "%s/%s ListObjects(t%d#r%d@%s)" (be_s b) (eng_s e) (int_of_n ot) (int_of_n rel) (subj_s subj) in
          let known flag txt = knowns := (flag ^ " " ^ txt) :: !knowns in
          (* an object whose presence (returned = true) or absence deviates from the reference *)
          (* nocheck: no Check call is involved in this observation (classic reverse expansion's own
             NoFurtherEval / completeness contract), so the Check findings cannot explain it *)
          let deviation ?(l0 = false) ?(failopen = false) ?(nocheck = false) ?(transient = false) ?(limit = 0) b e returned id what =
            let txt = Printf.sprintf "%s: object %d %s (spec=%s)" (where b e) id what (b3s (spec id)) in
            if strict_obj e id then (known "pipeline_strict_condition_filter" txt; true)
            else if failopen && returned && e = 2 && has_e && (Lazy.force spec_nodiff) id = T then
              (known "pipeline_streamed_error_failopen" txt; true)
            else if l0 && not returned && e <> 2 && Lazy.force err_evidence then (known "limit0_error_swallowed" txt; true)
            else if transient && not returned && e <> 2 && Lazy.force err_evidence then (known "eval_error_lost_on_cancel" txt; true)
            else if transient && not returned && e <> 2 && limit > 0 &&
                    (match Hashtbl.find_opt stream_tbl (b, e) with
                     | Some (ccands, _) ->
                       List.length (distinct_objs_nat ccands) > limit &&
                       List.exists (fun (n, st) -> int_of_nat n = id && st = RequiresFurtherEval) ccands
                     | None -> false)
            then (known "limit_cancel_race" txt; true)
            else if e <> 2 && not nocheck then begin
              let (oset, tr) = check_of id in
              let consistent = if returned then List.mem AT oset else List.exists (fun a -> a <> AT) oset in
              if consistent && tr.tr_excl_sub_cycle then (known "excl_sub_cycle" txt; true)
              else if consistent && tr.tr_swallow then (known "cond_err_swallowed" txt; true)
              else (props := txt :: !props; false)
            end else (props := txt :: !props; false) in
          (* ---- candidate streams ---- *)
          List.iter (fun sv ->
            match as_list sv with
            | [bv; ev; ecv; cvs] ->
              let b = as_int bv and e = as_int ev and ec = as_int ecv in
              let cands = List.map (fun c -> match as_list c with
                | [i; st] -> (as_int i, as_int st)
                | _ -> failwith "candidate") (as_list cvs) in
              let ccands = List.map (fun (i, st) -> (nat_of_int i, (if st = 1 then NoFurtherEval else RequiresFurtherEval))) cands in
              let w = Printf.sprintf "%s candidate stream" (where b e) in
              let explained = ref false in
              if not subj_valid then ()
              else if ec = 5 then ()
              else if ec = 1 && not has_e then props := (w ^ ": condition error although every condition can be evaluated") :: !props
              else if ec = 2 then props := (w ^ ": depth error") :: !props
              else if ec = 3 then props := (w ^ ": validation error for a valid request") :: !props
              else if ec = 4 then begin
                if e = 1 && dup_inter then known "weighted_degenerate_rewrite" (w ^ ": internal error")
                else props := (w ^ ": internal error") :: !props
              end;
              if subj_valid && (ec = 0 || ec = 1) then begin
                if not (nodupb_nat (List.map fst ccands)) then
                  props := (w ^ ": an object is sent twice") :: !props;
                let permn n = isperm (int_of_nat n) in
                if not (nofurther_sound_nat permn ccands) then
                  List.iter (fun (i, st) ->
                    if st = 1 && not (isperm i) then
                      if deviation ~nocheck:(e = 0) b e true i "sent as NoFurtherEval candidate although not permitted" then explained := true)
                    cands;
                if ec = 0 && not (complete_nat permn (nat_list univ) ccands) then
                  List.iter (fun i ->
                    if isperm i && not (List.mem_assoc i cands) then
                      if deviation ~nocheck:(e = 0) b e false i "permitted but not among the candidates" then explained := true)
                    univ
              end;
              if ec = 0 then Hashtbl.replace stream_tbl (b, e) (ccands, !explained)
            | _ -> failwith "stream") (as_list streams);
          (* the values the pipeline delivered in the unlimited streamed call, per backend *)
          let pipe_values = Hashtbl.create 2 in
          List.iter (fun runv ->
            match as_list runv with
            | [bv; ev; modev; limv; ecv; ovs] when as_int ev = 2 && as_int modev = 1 && as_int limv = 0 && as_int ecv = 0 ->
              Hashtbl.replace pipe_values (as_int bv) (List.map as_int (as_list ovs))
            | _ -> ()) (as_list runs);
          (* ---- results ---- *)
          List.iter (fun runv ->
            match as_list runv with
            | [bv; ev; modev; limv; ecv; ovs] ->
              let b = as_int bv and e = as_int ev and mode = as_int modev and limit = as_int limv and ec = as_int ecv in
              let transient = mode >= 2 in
              let mode = if transient then mode - 2 else mode in
              let e = if e = 2 && (match subj with SObj _ -> false | _ -> true) then 0 else e in
              let objs = List.map as_int (as_list ovs) in
              let w = Printf.sprintf "%s %s%s limit=%d" (where b e) (if transient then "transient " else "") (if mode = 1 then "streamed" else "unary") limit in
              let bad = ref false in
              let flag_prop txt = props := txt :: !props; bad := true in
              if not subj_valid then begin
                if ec <> 3 then flag_prop (w ^ ": invalid subject accepted")
              end else if ec = 5 || ec = 6 then ()
              else begin
                (match ec with
                 | 1 -> if not has_e then flag_prop (w ^ ": condition error although every condition can be evaluated")
                 | 2 ->
                   if not (List.exists (fun id -> List.mem AEd (fst (check_of id))) univ) then flag_prop (w ^ ": depth error")
                 | 3 -> flag_prop (w ^ ": validation error for a valid request")
                 | 4 ->
                   if e = 1 && dup_inter then (known "weighted_degenerate_rewrite" (w ^ ": internal error"); bad := true)
                   else flag_prop (w ^ ": internal error")
                 | _ -> ());
                (* whatever was returned (also before an error / a deadline) must be permitted and duplicate-free *)
                if List.length (uniq objs) <> List.length objs then flag_prop (w ^ ": an object is returned twice");
                List.iter (fun id ->
                  if not (isperm id) then begin
                    bad := true;
                    let nfe_in_stream = match Hashtbl.find_opt stream_tbl (b, e) with
                      | Some (ccands, _) -> List.exists (fun (n, st) -> int_of_nat n = id && st = NoFurtherEval) ccands
                      | None -> false in
                    ignore (deviation ~failopen:(mode = 1 && ec = 1) ~nocheck:(e = 0 && nfe_in_stream) b e true id
                              (Printf.sprintf "returned (limit %d, %s%s) although not permitted" limit
                                 (if mode = 1 then "streamed" else "unary") (if ec = 1 then ", then a condition error" else "")))
                  end) (uniq objs);
                if ec = 0 then begin
                  if limit > 0 && List.length objs > limit then flag_prop (w ^ ": more objects than the limit");
                  if limit = 0 || List.length objs < limit then
                    List.iter (fun id ->
                      if not (List.mem id objs) then begin
                        bad := true;
                        ignore (deviation ~l0:(limit = 0 && mode = 0) ~transient:(transient && (mode = 1 || limit > 0)) ~limit b e false id
                                  (Printf.sprintf "permitted but missing (limit %d, %d returned, %s%s)" limit (List.length objs)
                                     (if mode = 1 then "streamed" else "unary") (if transient then ", transient: a repetition of the call was complete" else "")))
                      end) permitted
                end;
                (* ---- the Coq evaluate model on the recorded candidates ---- *)
                if ec = 0 && e <> 2 && not !bad && not transient then begin
                  match Hashtbl.find_opt stream_tbl (b, e) with
                  | Some (ccands, false) ->
                    let chk n = isperm (int_of_nat n) in
                    let att = List.map int_of_nat (attempts_nat chk ccands) in
                    let seen = List.filter (fun i -> List.mem i att) (uniq objs) in
                    let target = seen @ List.filter (fun i -> not (List.mem i seen)) att in
                    let arrival = nat_list (arrival_for att target) in
                    let out = evaluate_nat ccands chk (nat_of_int limit) arrival in
                    if not (same_set_nat out (nat_list objs)) then
                      diffs := (Printf.sprintf "%s: Coq evaluate on the recorded candidates gives {%s}, implementation {%s}" w
                                  (String.concat "," (List.map (fun n -> string_of_int (int_of_nat n)) out))
                                  (String.concat "," (List.map string_of_int objs))) :: !diffs
                  | _ -> ()
                end;
                (* ---- the Coq model of the pipeline's output stage (de-duplication + Recv loop) on
                        the values of the unlimited streamed call, delivery order reconstructed ---- *)
                if ec = 0 && e = 2 && mode = 0 && not !bad && not transient then begin
                  match Hashtbl.find_opt pipe_values b with
                  | Some values ->
                    let out = pipeline_recv_nat (nat_list (objs @ values)) (nat_of_int limit) in
                    if List.map int_of_nat out <> objs && not (same_set_nat out (nat_list objs) && limit = 0) then
                      diffs := (Printf.sprintf "%s: Coq pipeline_recv on the streamed values {%s} gives {%s}, implementation {%s}" w
                                  (String.concat "," (List.map string_of_int values))
                                  (String.concat "," (List.map (fun n -> string_of_int (int_of_nat n)) out))
                                  (String.concat "," (List.map string_of_int objs))) :: !diffs
                  | None -> ()
                end
              end
            | _ -> failwith "run") (as_list runs);
          (* ---- fault runs and barrier trials ---- *)
          let e_eff e = if e = 2 && (match subj with SObj _ -> false | _ -> true) then 0 else e in
          List.iter (fun xv ->
            match as_list xv with
            | [I "1"; bv; ev; kv; varv; trv; ecv; ovs] when subj_valid ->
              (* a datastore read of this call failed with a plain error: the answer must be an error or
                 the complete permitted set (unary, maxResults 1000 > |universe|) *)
              let b = as_int bv and e = e_eff (as_int ev) and ec = as_int ecv and transient = as_int trv = 1 in
              let objs = List.map as_int (as_list ovs) in
              let fdesc = Printf.sprintf "datastore read #%d of the call failed (%s)" (as_int kv)
                  (if as_int varv = 1 then "iterator error" else "call error") in
              if ec = 0 then begin
                if List.length (uniq objs) <> List.length objs then
                  props := (Printf.sprintf "%s: %s, success reported and an object is returned twice" (where b e) fdesc) :: !props;
                List.iter (fun id ->
                  if not (isperm id) then
                    ignore (deviation b e true id (Printf.sprintf "returned although not permitted; %s, success reported" fdesc))) (uniq objs);
                List.iter (fun id ->
                  if not (List.mem id objs) then begin
                    if transient && e <> 2 then
                      known "eval_error_lost_on_cancel"
                        (Printf.sprintf "%s: object %d permitted but missing; %s and success was reported once (two repetitions of the same fault did not show it again)" (where b e) id fdesc)
                    else
                      ignore (deviation b e false id
                                (Printf.sprintf "permitted but missing from a SUCCESSFUL answer although %s: a response without error must be the complete permitted set" fdesc))
                  end) permitted
              end
            | [I "2"; bv; ev; limv; parv; cntv; ecv; ovs] when subj_valid ->
              let b = as_int bv and e = as_int ev and limit = as_int limv and ec = as_int ecv in
              let objs = List.map as_int (as_list ovs) in
              let w = Printf.sprintf "%s limit=%d, %d confirming Checks released together (%d trial(s))" (where b e) limit (as_int parv) (as_int cntv) in
              if ec = 0 || ec = 1 then begin
                if limit > 0 && List.length objs > limit then
                  props := (Printf.sprintf "%s: %d objects returned, more than the limit" w (List.length objs)) :: !props;
                if List.length (uniq objs) <> List.length objs then props := (w ^ ": an object is returned twice") :: !props;
                List.iter (fun id ->
                  if not (isperm id) then ignore (deviation b e true id "returned (barrier trial) although not permitted")) (uniq objs)
              end
            | _ -> ()) (match extras_opt with x :: _ -> as_list x | [] -> [])
        end
      | _ -> failwith "request") (as_list requests);
    (match !props, !diffs, !knowns with
     | p :: _, _, _ -> "PROP " ^ p ^ (match !diffs with d :: _ -> " || also model-diff: " ^ d | [] -> "")
     | [], d :: _, _ -> "DIFF " ^ d
     | [], [], (_ :: _ as ks) ->
       (* one verdict per record: report the rarest flag present *)
       let prio = ["limit_cancel_race"; "eval_error_lost_on_cancel"; "pipeline_streamed_error_failopen";
                   "pipeline_strict_condition_filter"; "weighted_degenerate_rewrite"; "cond_err_swallowed"; "excl_sub_cycle";
                   "limit0_error_swallowed"] in
       let has f k = String.length k > String.length f && String.sub k 0 (String.length f + 1) = f ^ " " in
       let rec pick = function
         | [] -> List.hd (List.rev ks)
         | f :: fs -> (match List.filter (has f) (List.rev ks) with k :: _ -> k | [] -> pick fs) in
       "KNOWN " ^ pick prio
     | [], [], [] -> "OK")
  | _ -> "DIFF malformed-record"

let () = run_oracle f
