(* C29 oracle: compares pkg/tuple outputs with Codec/TupleStr.v.  Fields that the property
   itself constrains (validity predicates = grammar, by the *_iff theorems) are reported as
   PROP, auxiliary functions as DIFF. *)

let b2s b = if b then "1" else "0"
let cs l = hex_of_string (coq_to_bytes l)

let check_fields (fields : (string * bool * string * string) list) : string =
  (* (name, is_property_field, model, impl) *)
  let bad = List.filter (fun (_, _, m, i) -> m <> i) fields in
  match bad with
  | [] -> "OK"
  | _ ->
    let prop = List.exists (fun (_, p, _, _) -> p) bad in
    let txt = String.concat "; " (List.map (fun (n, _, m, i) -> Printf.sprintf "%s model=%s impl=%s" n m i) bad) in
    (if prop then "PROP " else "DIFF ") ^ txt

let proto_str u =
  match u with
  | UObject (t, id) -> Printf.sprintf "0/%s/%s/" (cs t) (cs id)
  | UWildcard t -> Printf.sprintf "1/%s//" (cs t)
  | UUserset (t, id, r) -> Printf.sprintf "2/%s/%s/%s" (cs t) (cs id) (cs r)

(* extraction cross-check (see bin/coqreplay_c29.py): with ORACLE_DUMP=<file> the numbers computed by
   the extracted model are appended to that file *)
let dump_chan = match Sys.getenv_opt "ORACLE_DUMP" with
  | Some p when p <> "" -> Some (open_out_gen [Open_append; Open_creat] 0o644 p)
  | _ -> None
let bi b = if b then 1 else 0
let sig_ l = (* length and byte sum of a Coq byte list *)
  let s = coq_to_bytes l in
  [String.length s; String.fold_left (fun a c -> a + Char.code c) 0 s]
let dump id nums = match dump_chan with
  | Some ch -> Printf.fprintf ch "%s %s\n" id (String.concat " " (List.map string_of_int nums))
  | None -> ()

let f _id vs =
  match vs with
  | I "1" :: s :: t :: id :: o :: r :: vo :: vr :: vuid :: vus :: vu :: wc :: twc :: ut
    :: pt :: pid :: pr :: proto :: parse :: gt :: gr :: isor :: [] ->
    let s = as_cbytes s in
    let h v = hex_of_string (as_bytes v) in
    let (mt, mid) = split_object s in
    let (mo, mr) = split_object_relation s in
    let ((mpt, mpid), mpr) = to_user_parts s in
    dump _id ([1; bi (is_valid_object s); bi (is_valid_relation s); bi (is_valid_userid s); bi (is_valid_userset s);
               bi (is_valid_user s); bi (is_wildcard s); bi (is_typed_wildcard s); bi (user_type_is_userset s);
               (match parse_tuple_string s with Inl _ -> 0 | Inr ENoHash -> 1 | Inr EBadObject -> 2 | Inr ENoAt -> 3
                                                | Inr EBadRelation -> 4 | Inr EBadUser -> 5)]
              @ sig_ mt @ sig_ mid @ sig_ mo @ sig_ mr @ sig_ mpt @ sig_ mpid @ sig_ mpr);
    let impl_proto = match as_list proto with
      | [k; a; b; c] -> Printf.sprintf "%d/%s/%s/%s" (as_int k) (h a) (h b) (h c)
      | _ -> "?" in
    let model_parse = match parse_tuple_string s with
      | Inl ((a, b), c) -> Printf.sprintf "0/%s/%s/%s" (cs a) (cs b) (cs c)
      | Inr ENoHash -> "1" | Inr EBadObject -> "2" | Inr ENoAt -> "3"
      | Inr EBadRelation -> "4" | Inr EBadUser -> "5" in
    let impl_parse = match as_list parse with
      | [k] -> string_of_int (as_int k)
      | [k; a; b; c] -> Printf.sprintf "%d/%s/%s/%s" (as_int k) (h a) (h b) (h c)
      | _ -> "?" in
    check_fields [
      ("SplitObject.type", false, cs mt, h t); ("SplitObject.id", false, cs mid, h id);
      ("SplitObjectRelation.object", false, cs mo, h o); ("SplitObjectRelation.relation", false, cs mr, h r);
      ("IsValidObject", true, b2s (is_valid_object s), b2s (as_bool vo));
      ("IsValidRelation", true, b2s (is_valid_relation s), b2s (as_bool vr));
      ("IsValidUserID", true, b2s (is_valid_userid s), b2s (as_bool vuid));
      ("IsValidUserset", true, b2s (is_valid_userset s), b2s (as_bool vus));
      ("IsValidUser", true, b2s (is_valid_user s), b2s (as_bool vu));
      ("IsWildcard", false, b2s (is_wildcard s), b2s (as_bool wc));
      ("IsTypedWildcard", false, b2s (is_typed_wildcard s), b2s (as_bool twc));
      ("GetUserTypeFromUser", false, b2s (user_type_is_userset s), b2s (as_bool ut));
      ("ToUserParts.type", false, cs mpt, h pt); ("ToUserParts.id", false, cs mpid, h pid);
      ("ToUserParts.relation", false, cs mpr, h pr);
      ("StringToUserProto", false, proto_str (string_to_user_proto s), impl_proto);
      ("ParseTupleString", true, model_parse, impl_parse);
      ("GetType", false, cs (get_type s), h gt); ("GetRelation", false, cs (get_relation s), h gr);
      ("IsObjectRelation", true, b2s (is_valid_userset s), b2s (as_bool isor));
    ]
  | I "2" :: a :: b :: c :: fup :: bo :: tors :: tks :: up0 :: up1 :: up2 :: sd :: um :: tpw :: [] ->
    let h v = hex_of_string (as_bytes v) in
    let a' = as_cbytes a and b' = as_cbytes b and c' = as_cbytes c in
    dump _id ([2] @ sig_ (from_user_parts a' b' c') @ sig_ (tuple_key_to_string a' b' c')
              @ sig_ (user_proto_to_string (UUserset (a', b', c')))
              @ [bi (is_self_defining a' b' c'); bi (userset_match_type_and_relation a' b' c')]);
    check_fields [
      ("FromUserParts", false, cs (from_user_parts a' b' c'), h fup);
      ("BuildObject", false, cs (build_object a' b'), h bo);
      ("ToObjectRelationString", false, cs (to_object_relation_string a' b'), h tors);
      ("TupleKeyToString", false, cs (tuple_key_to_string a' b' c'), h tks);
      ("UserProtoToString.object", false, cs (user_proto_to_string (UObject (a', b'))), h up0);
      ("UserProtoToString.wildcard", false, cs (user_proto_to_string (UWildcard a')), h up1);
      ("UserProtoToString.userset", false, cs (user_proto_to_string (UUserset (a', b', c'))), h up2);
      ("IsSelfDefining", false, b2s (is_self_defining a' b' c'), b2s (as_bool sd));
      ("UsersetMatchTypeAndRelation", false, b2s (userset_match_type_and_relation a' b' c'), b2s (as_bool um));
      ("TypedPublicWildcard", false, cs (typed_public_wildcard a'), h tpw);
    ]
  | _ -> "DIFF malformed-record"

let () = run_oracle f; (match dump_chan with Some ch -> close_out ch | None -> ())
