(* C09 oracle.  Record kinds (first value):
     1  direct scenario: every operation performed on the real CachedDatastore / CachedTupleReader with
        its observed result; replayed step by step on the extracted model (Cache/CachedIter.v).
        DIFF  = the implementation's observable behaviour differs from the model;
        PROP  = the property's own predicate fails on the implementation's output (an iterator handed
                out something that is not a prefix of the store's answer, or reported Done before the
                whole answer was delivered, or two different queries share a cache key), evaluated on
                the observed values only, for keys whose inner reader kept its contract.
     2  stacked scenario (shared iterator over cached datastore): predicate checks only.
     3  end-to-end scenario: decided by the driver (PropFail), nothing to do here. *)

(* Cross-check of extraction: with ORACLE_DUMP=<file> the values the EXTRACTED model computes for
   every direct scenario (per operation: result / status / event codes, a checksum of the returned
   tuple, which keys are cached and how long the entries are; at the end the number and total length
   of the cache writes) are appended to that file; bin/coqreplay_c09.py recomputes the same numbers
   inside Coq with vm_compute from the same record file. *)
let dump_chan = match Sys.getenv_opt "ORACLE_DUMP" with
  | Some p when p <> "" -> Some (open_out_gen [Open_append; Open_creat] 0o644 p)
  | _ -> None

let tuple_of (v : value) : tuple =
  match as_list v with
  | [o; r; u; cn; cc; ts] ->
    { t_obj = as_cbytes o; t_rel = as_cbytes r; t_user = as_cbytes u;
      t_cname = as_cbytes cn; t_cctx = as_cbytes cc; t_ts = as_n ts }
  | _ -> failwith "tuple"

let hx l = hex_of_string (coq_to_bytes l)
let show_tuple (t : tuple) =
  Printf.sprintf "%s#%s@%s[%s|%s]@%s" (coq_to_bytes t.t_obj) (coq_to_bytes t.t_rel) (coq_to_bytes t.t_user)
    (coq_to_bytes t.t_cname) (hx t.t_cctx) (dec_of_n t.t_ts)

type qrec = { kind : qkind; obj : bytes; rel : bytes; users : bytes list; key : int;
              markers : int list; items : tuple list }

let query_of (v : value) : qrec =
  match as_list v with
  | [k; o; r; us; key; ms; its] ->
    { kind = (match as_int k with 0 -> KRead | 1 -> KRut | _ -> KRswu);
      obj = as_cbytes o; rel = as_cbytes r; users = List.map as_cbytes (as_list us);
      key = as_int key; markers = List.map as_int (as_list ms); items = List.map tuple_of (as_list its) }
  | _ -> failwith "query"

let err_of_code c = match c with
  | 1 | 4 -> Some ECancel | 2 | 5 -> Some EDeadline | 3 -> Some EOther | _ -> None

(* 6-8: side effects of a call that succeeds *)
let sev_of_code c = match c with
  | 6 -> SFx (FxReq ECancel) | 7 -> SFx (FxReq EDeadline) | 8 -> SFx FxSrv
  | _ -> (match err_of_code c with Some e -> SFail e | None -> SPass)

let mk_q (var : variant) (max : int) (q : qrec) (higher : bool) (script : int list) (lossy : bool) (openerr : int) : qdesc =
  { q_var = var; q_kind = q.kind; q_higher = higher; q_object = q.obj; q_relation = q.rel; q_users = q.users;
    q_key = n_of_int q.key; q_markers = List.map n_of_int q.markers; q_max = nat_of_int max;
    q_items = q.items; q_script = List.map sev_of_code script; q_lossy = lossy; q_openerr = err_of_code openerr }

let ctx_of m = match m with 1 -> CCancelled | 2 -> CDeadline | _ -> CLive

(* observed result -> string ; model result -> string *)
let show_obs (v : value) : string =
  match as_list v with
  | [I "0"; t] -> "item " ^ show_tuple (tuple_of t)
  | [I "1"] -> "done" | [I "2"] -> "cancelled" | [I "3"] -> "deadline" | [I "4"] -> "error"
  | [I "9"] -> "TIMEOUT" | _ -> "?"
let show_res (r : res) : string =
  match r with
  | RItem t -> "item " ^ show_tuple t
  | RDone -> "done" | RErr ECancel -> "cancelled" | RErr EDeadline -> "deadline" | RErr EOther -> "error"

let show_trec (r : trec) =
  String.concat "/" (List.map coq_to_bytes [r.r_otype; r.r_oid; r.r_rel; r.r_utype; r.r_uid; r.r_urel; r.r_cname])
  ^ "/" ^ hx r.r_cctx ^ "/" ^ dec_of_n r.r_ts
let show_mrec (m : mrec) =
  String.concat "/" (List.map coq_to_bytes [m.m_oid; m.m_user; m.m_cname]) ^ "/" ^ hx m.m_cctx
let show_entry (e : centry) = match e with
  | CE1 (rs, _) -> "v1[" ^ String.concat "; " (List.map show_trec rs) ^ "]"
  | CE2 (ms, _) -> "v2[" ^ String.concat "; " (List.map show_mrec ms) ^ "]"
let show_obs_entry (v : value) : int * string =
  match as_list v with
  | [k; I "1"; rs] ->
    (as_int k, "v1[" ^ String.concat "; " (List.map (fun r -> match as_list r with
       | [a;b;c;d;e;f;g;h;ts] -> String.concat "/" (List.map as_bytes [a;b;c;d;e;f;g]) ^ "/" ^ hex_of_string (as_bytes h) ^ "/" ^ as_dec ts
       | _ -> "?") (as_list rs)) ^ "]")
  | [k; I "2"; rs] ->
    (as_int k, "v2[" ^ String.concat "; " (List.map (fun r -> match as_list r with
       | [a;b;c;d] -> String.concat "/" (List.map as_bytes [a;b;c]) ^ "/" ^ hex_of_string (as_bytes d)
       | _ -> "?") (as_list rs)) ^ "]")
  | [k; _; _] -> (as_int k, "unknown-entry-type")
  | _ -> (-1, "?")

let sumb (l : n list) = List.fold_left (fun a x -> a + int_of_n x) 0 l
let chk (t : tuple) =
  sumb t.t_obj + 3 * sumb t.t_rel + 5 * sumb t.t_user + 7 * sumb t.t_cname + 11 * sumb t.t_cctx + 13 * int_of_n t.t_ts + 1
let rcode (r : res) : int list = match r with
  | RItem t -> [0; chk t] | RDone -> [1; 0] | RErr ECancel -> [2; 0] | RErr EDeadline -> [3; 0] | RErr EOther -> [4; 0]
let elen (e : centry) = match e with CE1 (r, _) -> List.length r | CE2 (m, _) -> List.length m
let nn x = if x < 0 then 99 else x

let rec is_prefix (a : string list) (b : string list) = match a, b with
  | [], _ -> true
  | x :: a', y :: b' -> x = y && is_prefix a' b'
  | _, [] -> false

let nth_iter st i = nth_error (st_iters st) (nat_of_int i)

let direct (id : string) (_variant : int) (max : int) (qs : value list) (ops : value list) (writes : value list)
    (leftover : int) (hung : int) : string =
  let var_of v = if v = 2 then V2 else V1 in
  let queries = Array.of_list (List.map query_of qs) in
  let diffs = ref [] and props = ref [] in
  let diff s = diffs := s :: !diffs and prop s = props := s :: !props in
  let st = ref init_state in
  let all_keys = List.sort_uniq compare (Array.to_list (Array.map (fun q -> q.key) queries)) in
  let model_mask () =
    List.fold_left (fun m k -> match alist_get (n_of_int k) (st_cache !st) with Some _ -> m lor (1 lsl k) | None -> m) 0 all_keys in
  (* predicate bookkeeping, from observations only *)
  let it_query : (int, int) Hashtbl.t = Hashtbl.create 8 in      (* iterator -> query index *)
  let it_items : (int, string list) Hashtbl.t = Hashtbl.create 8 in  (* handed out by Next, in order *)
  let it_stopped : (int, bool) Hashtbl.t = Hashtbl.create 8 in
  let it_done : (int, bool) Hashtbl.t = Hashtbl.create 8 in
  let it_v2hit : (int, bool) Hashtbl.t = Hashtbl.create 8 in
  let lossy_keys = ref [] in
  let used : (int * int) list ref = ref [] in   (* (key, variant) pairs that were opened *)
  let niter = ref 0 in
  let opno = ref 0 in
  let dump : int list ref = ref [] in
  let emit l = dump := List.rev_append l !dump in
  let check_mask (m : value) =
    let mm = model_mask () in
    emit [mm; List.fold_left (fun a (_, e) -> a + elen e + 1) 0 (st_cache !st)];
    if mm <> as_int m then diff (Printf.sprintf "op %d: cache keys present model=%d impl=%d" !opno mm (as_int m)) in
  let finish_waiters (owner : int) : int list =
    (* every iterator that joined owner's singleflight call returns now *)
    let res = ref [] in
    List.iteri (fun j it -> match it with
      | IMiss m -> (match mi_phase m with
          | PBgWait o when int_of_nat o = owner ->
            let (st', _) = step !st (OBg (nat_of_int j)) in st := st'; res := j :: !res
          | _ -> ())
      | _ -> ()) (st_iters !st);
    List.rev !res in
  List.iter (fun opv ->
    incr opno;
    match as_list opv with
    | [I "0"; qi; higher; script; lossy; openerr; status; ovar; mask] ->
      let q = queries.(as_int qi) in
      let var = var_of (as_int ovar) in
      used := (q.key, as_int ovar) :: !used;
      let qd = mk_q var max q (as_bool higher) (List.map as_int (as_list script)) (as_bool lossy) (as_int openerr) in
      if as_bool lossy then lossy_keys := q.key :: !lossy_keys;
      let (st', o) = step !st (OOpen qd) in
      st := st';
      let expect = match o with
        | OOpened (true, _) -> 0 | OOpened (false, true) -> 2 | OOpened (false, false) -> 1
        | OOpenErr ECancel -> 3 | OOpenErr EDeadline -> 4 | OOpenErr EOther -> 5 | _ -> -1 in
      emit [nn expect];
      if expect <> as_int status then
        diff (Printf.sprintf "op %d: open status model=%d impl=%d (0 hit,1 miss,2 bypass,3-5 error)" !opno expect (as_int status));
      let id = !niter in
      incr niter;
      Hashtbl.replace it_query id (as_int qi);
      Hashtbl.replace it_items id [];
      Hashtbl.replace it_v2hit id (as_int ovar = 2 && as_int status = 0);
      check_mask mask
    | [I code; it; ctx; r; mask] when code = "1" || code = "2" ->
      let i = as_int it in
      let mop = if code = "1" then ONext (nat_of_int i, ctx_of (as_int ctx)) else OHead (nat_of_int i, ctx_of (as_int ctx)) in
      let (st', o) = step !st mop in
      st := st';
      emit (match o with ORes x -> rcode x | _ -> [9; 0]);
      let ms = match o with ORes x -> show_res x | _ -> "no-such-iterator" in
      let os = show_obs r in
      if ms <> os then diff (Printf.sprintf "op %d: %s(%d) model=%s impl=%s" !opno (if code = "1" then "Next" else "Head") i ms os);
      (* predicate bookkeeping *)
      let stopped = (try Hashtbl.find it_stopped i with Not_found -> false) in
      (match as_list r with
       | [I "0"; t] when code = "1" ->
         let t' = tuple_of t in
         let t' = if (try Hashtbl.find it_v2hit i with Not_found -> false) then strip_ts t' else t' in
         Hashtbl.replace it_items i ((try Hashtbl.find it_items i with Not_found -> []) @ [show_tuple t'])
       | [I "1"] when not stopped -> Hashtbl.replace it_done i true
       | _ -> ());
      check_mask mask
    | [I "3"; it; ev; mask] ->
      let i = as_int it in
      let before = nth_iter !st i in
      let (st', _) = step !st (OStop (nat_of_int i)) in
      st := st';
      let expect =
        match before with
        | Some (IMiss m) ->
          if m.mi_closing then 0 else begin
            (match nth_iter !st i with
             | Some (IMiss m') when mi_phase m' = PBgInit ->
               let (st'', _) = step !st (OBg (nat_of_int i)) in st := st''
             | _ -> ());
            match nth_iter !st i with
            | Some (IMiss m') -> (match mi_phase m' with PFin -> 1 | PBgHead -> 2 | _ -> -1)
            | _ -> -1
          end
        | Some (IHit _) -> 0
        | Some (IBypass (_, inn, _)) -> if inn.in_stopped then 0 else 1
        | _ -> -1 in
      emit [nn expect];
      if expect <> as_int ev then
        diff (Printf.sprintf "op %d: Stop(%d) event model=%d impl=%d (0 none,1 inner stopped,2 goroutine waits at Head,9 timeout)" !opno i expect (as_int ev));
      Hashtbl.replace it_stopped i true;
      check_mask mask
    | [I "4"; it; r; ev; waiters; mask] ->
      let i = as_int it in
      let (st', o) = step !st (OBg (nat_of_int i)) in
      st := st';
      (match o with
       | OBgRes (Some x, fin) ->
         let ms = show_res x and os = show_obs r in
         if ms <> os then diff (Printf.sprintf "op %d: background call of %d: inner returned model=%s impl=%s" !opno i ms os);
         (* Head did not say Done: the goroutine enters singleflight.Do before anything else happens
            (the driver waits until it has either reached its next call or is blocked in Do) *)
         (match nth_iter !st i with
          | Some (IMiss m') when mi_phase m' = PBgSf ->
            let (st'', _) = step !st (OBg (nat_of_int i)) in st := st''
          | _ -> ());
         let expect =
           if fin then 1
           else (match nth_iter !st i with
               | Some (IMiss m') -> (match mi_phase m' with PBgWait _ -> 0 | _ -> 2)
               | _ -> -1) in
         let mw = if fin then finish_waiters i else [] in
         emit (rcode x @ [nn expect; List.length mw]);
         if expect <> as_int ev then
           diff (Printf.sprintf "op %d: background step of %d: event model=%d impl=%d (0 joined another drain,1 finished,2 next call)" !opno i expect (as_int ev));
         let ow = List.sort compare (List.map as_int (as_list waiters)) in
         if mw <> ow then
           diff (Printf.sprintf "op %d: iterators released by the end of drain %d: model=[%s] impl=[%s]" !opno i
                   (String.concat "," (List.map string_of_int mw)) (String.concat "," (List.map string_of_int ow)))
       | _ -> emit [9; 0; 99; 0];
         diff (Printf.sprintf "op %d: the implementation made a background call on iterator %d (%s) where the model has none" !opno i (show_obs r)));
      check_mask mask
    | [I "5"; marker; whenv; key; mask] ->
      let now = st_clock !st in
      let nowi = int_of_n now + 1 in
      let ts = match as_int whenv with
        | 0 -> N0 | 1 -> n_of_int nowi | 2 -> n_of_int (nowi + 1000000000)
        | _ -> (match alist_get (n_of_int (as_int key)) (st_cache !st) with
            | Some (CE1 (_, t)) -> t | Some (CE2 (_, t)) -> t | None -> n_of_int nowi) in
      let (st', _) = step !st (OInval (n_of_int (as_int marker), ts)) in
      st := st'; emit [0]; check_mask mask
    | [I "6"; key; mask] ->
      let (st', _) = step !st (OEvict (n_of_int (as_int key))) in
      st := st'; emit [0]; check_mask mask
    | [I "7"; mask] ->
      let (st', _) = step !st OCancelServer in
      st := st'; emit [0]; check_mask mask
    | _ -> diff (Printf.sprintf "op %d: malformed operation record" !opno)) ops;
  emit [List.length (st_writes !st); List.fold_left (fun a ((_, e), _) -> a + elen e) 0 (st_writes !st)];
  (match dump_chan with
   | Some ch -> output_string ch (id ^ " " ^ String.concat " " (List.map string_of_int (List.rev !dump)) ^ "\n"); Stdlib.flush ch
   | None -> ());
  (* cache writes, in order *)
  let mws = List.map (fun ((k, e), _) -> (int_of_n k, show_entry e)) (st_writes !st) in
  let ows = List.map show_obs_entry writes in
  if mws <> ows then begin
    let f l = String.concat " | " (List.map (fun (k, s) -> Printf.sprintf "key%d=%s" k s) l) in
    diff (Printf.sprintf "cache writes model={%s} impl={%s}" (f mws) (f ows))
  end;
  if leftover <> 0 then diff (Printf.sprintf "%d unexpected inner-iterator events" leftover);
  if hung <> 0 then diff "an expected event of the implementation did not arrive (timeout)";
  (* ---- the property's own predicate, on observed values ---- *)
  let kf_for v (q : qrec) = kf_of (mk_q (var_of v) max q false [] false 0) in
  let byp_v v (q : qrec) = bypass (mk_q (var_of v) max q false [] false 0) in
  let vars_of k = List.sort_uniq compare (List.filter_map (fun (k', v) -> if k' = k then Some v else None) !used) in
  let byp (q : qrec) = List.for_all (fun v -> byp_v v q) (vars_of q.key) in
  let truth (q : qrec) = List.map show_tuple q.items in
  let truth_nots (q : qrec) = List.map (fun t -> show_tuple (strip_ts t)) q.items in
  let key_ok k =
    (* the inner reader kept its contract for every query stored under this key *)
    not (List.mem k !lossy_keys) &&
    Array.for_all (fun q -> q.key <> k ||
                            List.for_all (fun v -> byp_v v q ||
                              List.for_all (fun t -> if v = 2 then consistent2 (kf_for v q) t else consistent (kf_for v q) t) q.items)
                              (vars_of k)) queries in
  (* two different queries under one key *)
  Array.iteri (fun i q -> Array.iteri (fun j q' ->
      if i < j && q.key = q'.key && not (byp q) && not (byp q') && truth q <> truth q' then
        prop (Printf.sprintf "queries %d and %d have different answers but the same cache key" i j)) queries) queries;
  Hashtbl.iter (fun i qi ->
      let q = queries.(qi) in
      if key_ok q.key then begin
        let got = (try Hashtbl.find it_items i with Not_found -> []) in
        let v2hit = (try Hashtbl.find it_v2hit i with Not_found -> false) in
        let tr = if v2hit then truth_nots q else truth q in
        if not (is_prefix got tr) then
          prop (Printf.sprintf "iterator %d handed out [%s], not a prefix of the store's answer [%s]" i
                  (String.concat "; " got) (String.concat "; " tr))
        else if (try Hashtbl.find it_done i with Not_found -> false) && List.length got <> List.length tr then
          prop (Printf.sprintf "iterator %d reported Done after %d of %d tuples: a partial result served as complete" i
                  (List.length got) (List.length tr))
      end) it_query;
  match !props, !diffs with
  | p :: _, _ -> "PROP " ^ p
  | [], _ :: _ ->
    let ds = List.rev !diffs in
    "DIFF " ^ List.hd ds ^ (if List.length ds > 1 then Printf.sprintf " (+%d more)" (List.length ds - 1) else "")
  | [], [] -> "OK"

let stacked (max : int) (qv : value) (clients : value list) (second_done : bool) (second : value list)
    (writes : value list) (hung : int) : string =
  let q = query_of qv in
  let qd = mk_q V1 max q false [] false 0 in
  let kf = kf_of qd in
  let tr = List.map show_tuple q.items in
  let props = ref [] and diffs = ref [] in
  List.iteri (fun i c -> match as_list c with
    | [dn; _; ts] ->
      let got = List.map (fun t -> show_tuple (tuple_of t)) (as_list ts) in
      if not (is_prefix got tr) then props := Printf.sprintf "client %d got a sequence that is not a prefix of the answer" i :: !props
      else if as_bool dn && List.length got <> List.length tr then
        props := Printf.sprintf "client %d was told Done after %d of %d tuples" i (List.length got) (List.length tr) :: !props
    | _ -> diffs := "malformed client record" :: !diffs) clients;
  let got2 = List.map (fun t -> show_tuple (tuple_of t)) second in
  if not second_done then diffs := "the second read did not reach Done" :: !diffs
  else if got2 <> tr then
    props := Printf.sprintf "second read through the cache returned %d tuples [%s], the store's answer has %d [%s]"
        (List.length got2) (String.concat "; " got2) (List.length tr) (String.concat "; " tr) :: !props;
  List.iter (fun wv -> match as_list wv with
    | [_; I "1"; rs] ->
      let recs = List.map (fun r -> match as_list r with
        | [a;b;c;d;e;f;g;h;ts] -> { r_otype = as_cbytes a; r_oid = as_cbytes b; r_rel = as_cbytes c; r_utype = as_cbytes d;
                                    r_uid = as_cbytes e; r_urel = as_cbytes f; r_cname = as_cbytes g; r_cctx = as_cbytes h; r_ts = as_n ts }
        | _ -> failwith "rec") (as_list rs) in
      let dec = List.map (fun r -> show_tuple (reconstruct kf r)) recs in
      if dec <> tr then props := Printf.sprintf "a cache entry with %d of %d tuples was written" (List.length dec) (List.length tr) :: !props;
      if List.length recs >= max && recs <> [] then diffs := "an entry at or above the size limit was written" :: !diffs
    | _ -> diffs := "unexpected cache entry type" :: !diffs) writes;
  if hung <> 0 then diffs := "an inner iterator was never stopped (timeout)" :: !diffs;
  match !props, !diffs with
  | p :: _, _ -> "PROP " ^ p
  | [], d :: _ -> "DIFF " ^ d
  | [], [] -> "OK"

(* class D: admission into a shared iterator.  ( 4 nreq creatorDead openErr ( class* ) hung ) *)
let admission (nreq : int) (creator_dead : bool) (open_err : int) (outs : int list) (hung : int) : string =
  let k = n_of_int 7 in
  let arrive = List.init nreq (fun i -> AArrive (n_of_int i, k)) in
  let produce = AProduce (k, (if creator_dead then Some ECancel else None), err_of_code open_err) in
  let returns = List.init nreq (fun i -> AReturn (n_of_int i, (i > 0 || not creator_dead))) in
  let res = arun ainit (arrive @ [produce] @ returns) in
  let rets = List.filteri (fun i _ -> i > nreq) res in
  let cls x = match x with
    | ARes (AOk, _, _, _, _) -> 0 | ARes (AErr ECancel, _, _, _, _) -> 2
    | ARes (AErr EDeadline, _, _, _, _) -> 3 | ARes (AErr EOther, _, _, _, _) -> 4 | _ -> -1 in
  let model = List.map cls rets in
  if hung <> 0 then "DIFF a request did not return from the shared-iterator admission (timeout)"
  else if model <> outs then
    Printf.sprintf "DIFF admission results model=[%s] impl=[%s] (0 iterator, 2 cancelled, 3 deadline, 4 datastore error)"
      (String.concat "," (List.map string_of_int model)) (String.concat "," (List.map string_of_int outs))
  else if List.exists aout_leak rets then
    Printf.sprintf "KNOWN shared_admission_cancel_leak %d request(s) with a live context were given the creator's context error"
      (List.length (List.filter aout_leak rets))
  else if List.for_all aout_ok rets then "OK"
  else "PROP a request with a live context over a healthy datastore was refused its iterator"

(* class S: clones of one shared iterator.  ( 5 layer nitems ( op* ) ( client* ) hung )
   op = ( 0 ok innerStopped ) clone | ( 1 c innerStopped ) Stop of consumer c;
   client = ( done got prefixOK afterOK stops errs ).
   Predicate: every consumer received a prefix of the datastore's sequence, all of it if it was told
   Done, and nothing after its own Stop.  Model (layer 0, timers never fire): the reference count of
   Cache/CachedIterShared.v says the reader's iterator is still open after every operation. *)
let shared_clones (layer : int) (nitems : int) (ops : value list) (clients : value list) (hung : int) : string =
  let props = ref [] and diffs = ref [] in
  List.iteri (fun i c -> match as_list c with
    | [dn; got; pok; aok; _stops; _errs] ->
      if not (as_bool pok) then props := Printf.sprintf "consumer %d received something that is not a prefix of the datastore's sequence" i :: !props
      else if as_bool dn && as_int got <> nitems then
        props := Printf.sprintf "consumer %d was told Done after %d of %d tuples" i (as_int got) nitems :: !props
      else if not (as_bool aok) then
        props := Printf.sprintf "consumer %d received a tuple after its own Stop" i :: !props
    | _ -> diffs := "malformed consumer record" :: !diffs) clients;
  let st = ref sh_init in
  let nclones = ref 0 in
  List.iteri (fun n o -> match as_list o with
    | [I "0"; ok; inner] ->
      let (st', got) = sh_step !st SClone in
      st := st';
      if got <> as_bool ok then diffs := Printf.sprintf "op %d: clone obtained model=%b impl=%b" n got (as_bool ok) :: !diffs;
      if as_bool ok then incr nclones;
      if layer = 0 && sh_inner_stopped !st <> as_bool inner then
        diffs := Printf.sprintf "op %d (clone): underlying iterator stopped model=%b impl=%b" n (sh_inner_stopped !st) (as_bool inner) :: !diffs
    | [I "1"; c; inner] ->
      let (st', _) = sh_step !st (SStop (nat_of_int (as_int c))) in
      st := st';
      if layer = 0 && sh_inner_stopped !st <> as_bool inner then
        diffs := Printf.sprintf "op %d (Stop of consumer %d): underlying iterator stopped model=%b impl=%b" n (as_int c) (sh_inner_stopped !st) (as_bool inner) :: !diffs
    | _ -> diffs := "malformed operation record" :: !diffs) ops;
  if hung <> 0 then diffs := "the underlying iterator was never stopped after the timers (timeout)" :: !diffs;
  match !props, List.rev !diffs with
  | p :: _, _ -> "PROP " ^ p
  | [], d :: _ -> "DIFF " ^ d
  | [], [] -> "OK"

let f id vs =
  match vs with
  | [I "1"; variant; max; qs; ops; writes; leftover; hung] ->
    direct id (as_int variant) (as_int max) (as_list qs) (as_list ops) (as_list writes) (as_int leftover) (as_int hung)
  | [I "2"; max; q; _script; clients; sd; second; writes; hung] ->
    stacked (as_int max) q (as_list clients) (as_bool sd) (as_list second) (as_list writes) (as_int hung)
  | I "3" :: _ -> "OK"
  | [I "5"; layer; nitems; ops; clients; hung] ->
    shared_clones (as_int layer) (as_int nitems) (as_list ops) (as_list clients) (as_int hung)
  | [I "4"; nreq; cd; oe; outs; hung] ->
    admission (as_int nreq) (as_bool cd) (as_int oe) (List.map as_int (as_list outs)) (as_int hung)
  | _ -> "DIFF malformed-record"

let () = run_oracle f
