(* C22 oracle.
   kind 1 / 2: the real queue was driven call by call; the extracted atomic models (Conc/Mpmc.v,
     Conc/Mpsc.v) are run on the same call sequence (one model thread per call, run until it
     returns or parks) and every result, Size and Capacity are compared (DIFF); the results are
     also replayed on the sequential FIFO-channel specification (PROP).
   kind 3 / 4: free-running histories; checked for linearizability against the extracted
     [spec_step] (Wing-Gong search with memoisation), after cheap necessary conditions that give
     readable messages (duplicates, losses, per-producer order, sends after close).
   kind 5: the lost wake-up stress; an observation is reported as KNOWN mpmc_lost_wakeup only if
     the extracted model reproduces the witness state (flag computed by the model). *)

let fuel = nat_of_int 5000

(* extraction cross-check (bin/coqreplay_c22.py): with ORACLE_DUMP=<file> the numbers the EXTRACTED
   models compute for the sequential cases (kinds 1, 2, 6, 7: per call the model's result code,
   value, Size, Capacity / latch) are appended to that file; the script recomputes them inside
   Coq by vm_compute over the same step functions.  The linearizability search (kinds 3, 4) is
   OCaml only. *)
let dump_chan = match Sys.getenv_opt "ORACLE_DUMP" with
  | Some p when p <> "" -> Some (open_out_gen [Open_append; Open_creat] 0o644 p)
  | _ -> None
let dump_buf : int list ref = ref []
let dpush l = if dump_chan <> None then dump_buf := List.rev_append l !dump_buf

let rec nth_opt l i = match l with [] -> None | x :: r -> if i = 0 then Some x else nth_opt r (i - 1)
let rec last_opt l = match l with [] -> None | [x] -> Some x | _ :: r -> last_opt r
let is_pow2 n = n > 0 && n land (n - 1) = 0

let ev_str e = match e with
  | EEnq (_, v) -> Printf.sprintf "enq %d" (int_of_n v)
  | EEnqFail _ -> "enq-fail"
  | EDeq (_, v) -> Printf.sprintf "deq %d" (int_of_n v)
  | EDeqFail _ -> "deq-fail"
  | ETryFail _ -> "try-fail"
  | EClose _ -> "close"

(* ---------------------------------------------------------------------------------------- *)
(* kind 1: sequential MPMC *)

type seqop = { code : int; arg : int; res : int; value : int; size : int; capn : int; vals : int list }

let parse_seqop v = match as_list v with
  | [c; a; r; x; s; k; vs] ->
    { code = as_int c; arg = as_int a; res = as_int r; value = as_int x; size = as_int s;
      capn = as_int k; vals = List.map as_int (as_list vs) }
  | _ -> failwith "bad seq op"

let check_mpmc_seq cap exts valid ops =
  let expected_valid = cap >= 2 && is_pow2 cap in
  if valid = 0 then (if expected_valid then "DIFF NewQueue rejected a valid capacity" else "OK")
  else if not expected_valid then "DIFF NewQueue accepted an invalid capacity"
  else begin
    let ops = List.map parse_seqop ops in
    (* one model thread per call (SeqTake k: k receives and a close) *)
    let progs = List.concat_map (fun o ->
        match o.code with
        | 0 -> [[OSend (n_of_int o.arg)]]
        | 1 -> [[ORecv]]
        | 2 -> [[OClose]]
        | 3 -> if is_pow2 o.arg then [[OGrow (nat_of_int o.arg)]] else []
        | 5 -> List.init o.arg (fun _ -> [ORecv]) @ [[OClose]]
        | _ -> failwith "bad op code") ops in
    let e = if exts < 0 then None else Some (nat_of_int exts) in
    let s = ref (init (nat_of_int cap) e progs) in
    let spec = ref (Some chan0) in
    let t = ref 0 in
    let diffs = ref [] and props = ref [] in
    let diff i fmt = Printf.ksprintf (fun m -> diffs := Printf.sprintf "op %d: %s" i m :: !diffs) fmt in
    let prop i fmt = Printf.ksprintf (fun m -> props := Printf.sprintf "op %d: %s" i m :: !props) fmt in
    let feed i ev =
      match !spec with
      | None -> ()
      | Some c -> (match spec_step c ev with
          | Some c' -> spec := Some c'
          | None -> prop i "%s is illegal for a FIFO channel holding [%s]%s" (ev_str ev)
                      (String.concat "," (List.map (fun x -> string_of_int (int_of_n x)) c.c_buf))
                      (if c.c_closed then " (closed)" else ""); spec := None) in
    (* run model thread !t to completion or until it parks; returns its last result if it finished *)
    let run_one () =
      let tid = !t in
      incr t;
      s := run_thread fuel !s (nat_of_int tid);
      match nth_opt !s.thr tid with
      | Some th when thread_idle_done th -> last_opt th.res
      | _ -> None in
    List.iteri (fun i o ->
        (match o.code with
         | 0 ->
           let m = run_one () in
           let mres = (match m with Some (RSend (_, true)) -> 1 | Some (RSend (_, false)) -> 0 | None -> 2 | _ -> -1) in
           dpush [mres; 0];
           if mres <> o.res then diff i "Send(%d): model %d impl %d" o.arg mres o.res;
           if o.res = 1 then feed i (EEnq (O, n_of_int o.arg))
           else if o.res = 0 then feed i (EEnqFail O)
           else if o.res = 2 then
             (match !spec with Some c when c.c_closed -> prop i "Send blocked on a closed queue" | _ -> ())
           else prop i "Send did not return even after its context was cancelled"
         | 1 ->
           let m = run_one () in
           dpush (match m with Some (RRecv (Some v)) -> [1; int_of_n v] | Some (RRecv None) -> [0; 0] | None -> [2; 0] | _ -> [7; 0]);
           (match m, o.res with
            | Some (RRecv (Some v)), 1 when int_of_n v = o.value -> ()
            | Some (RRecv None), 0 -> ()
            | None, 2 -> ()
            | _ -> diff i "Recv: model %s impl res=%d val=%d"
                     (match m with Some (RRecv (Some v)) -> "value " ^ string_of_int (int_of_n v)
                                 | Some (RRecv None) -> "false" | None -> "blocked" | _ -> "?")
                     o.res o.value);
           if o.res = 1 then feed i (EDeq (O, n_of_int o.value))
           else if o.res = 0 then feed i (EDeqFail O)
           else if o.res = 2 then
             (match !spec with
              | Some c when c.c_buf <> [] -> prop i "Recv blocked although an item is available"
              | Some c when c.c_closed -> prop i "Recv blocked on a closed, drained queue"
              | _ -> ())
           else prop i "Recv did not return even after its context was cancelled"
         | 2 -> ignore (run_one ()); feed i (EClose O)
         | 3 ->
           if is_pow2 o.arg then begin
             ignore (run_one ());
             if o.res <> 0 then diff i "Grow(%d) returned an error" o.arg
           end else if o.res <> 1 then diff i "Grow(%d) accepted a non power of two" o.arg
         | 5 ->
           (* model of Seq: receive until k items or (zero,false), then Close *)
           let got = ref [] in
           let stop = ref false in
           for _ = 1 to o.arg do
             if not !stop then begin
               match run_one () with
               | Some (RRecv (Some v)) -> got := int_of_n v :: !got
               | Some (RRecv None) -> stop := true
               | _ -> stop := true
             end else incr t
           done;
           ignore (run_one ());
           let got = List.rev !got in
           dpush (List.length got :: got);
           if got <> o.vals then
             diff i "Seq take %d: model [%s] impl [%s]" o.arg
               (String.concat "," (List.map string_of_int got))
               (String.concat "," (List.map string_of_int o.vals));
           List.iter (fun v -> feed i (EDeq (O, n_of_int v))) o.vals;
           (* res = 2: the iterator blocked and was cancelled by the driver (no failing receive) *)
           if List.length o.vals < o.arg && o.res <> 2 then feed i (EDeqFail O);
           feed i (EClose O)
         | _ -> ());
        let msize = int_of_nat (size !s.g) and mcap = int_of_nat !s.g.cap in
        dpush [msize; mcap];
        if msize <> o.size then diff i "Size: model %d impl %d" msize o.size;
        if mcap <> o.capn then diff i "Capacity: model %d impl %d" mcap o.capn;
        if !s.g.panicked then diff i "model panicked") ops;
    match !props, !diffs with
    | p :: _, _ -> "PROP " ^ String.concat "; " (List.rev (p :: List.tl !props))
    | [], d :: _ -> "DIFF " ^ String.concat "; " (List.rev !diffs)
    | [], [] -> "OK"
  end

(* ---------------------------------------------------------------------------------------- *)
(* kind 2: sequential MPSC *)

let check_mpsc_seq nprod ops =
  let ops = List.map (fun v -> match as_list v with
      | [t; c; a; r; x] -> (as_int t, as_int c, as_int a, as_int r, as_int x)
      | _ -> failwith "bad op") ops in
  let cprog = List.filter_map (fun (t, c, _, _, _) ->
      if t = 0 then Some (if c = 1 then CRecv else CTryRecv) else None) ops in
  let pprogs = List.init nprod (fun k ->
      List.filter_map (fun (t, c, a, _, _) ->
          if t = k + 1 then Some (if c = 0 then PSend (n_of_int a) else PClose) else None) ops) in
  let s = ref (minit cprog pprogs) in
  (* run thread [tid] until its current call has returned ([nres] grew) or it cannot move *)
  let run_call tid (nres : mstate -> int) =
    let before = nres !s in
    let n = ref 5000 in
    let continue = ref true in
    while !continue && !n > 0 do
      decr n;
      (match mstep !s tid with
       | Some s' -> s := s'; if nres s' > before then continue := false
       | None -> continue := false)
    done in
  let spec = ref (Some chan0) in
  let diffs = ref [] and props = ref [] in
  let diff i fmt = Printf.ksprintf (fun m -> diffs := Printf.sprintf "op %d: %s" i m :: !diffs) fmt in
  let prop i fmt = Printf.ksprintf (fun m -> props := Printf.sprintf "op %d: %s" i m :: !props) fmt in
  let feed i ev =
    match !spec with
    | None -> ()
    | Some c -> (match spec_step c ev with
        | Some c' -> spec := Some c'
        | None -> prop i "%s is illegal for a FIFO channel holding %d item(s)%s" (ev_str ev)
                    (List.length c.c_buf) (if c.c_closed then " (closed)" else ""); spec := None) in
  List.iteri (fun i (t, c, a, r, x) ->
      if t = 0 then begin
        let before = List.length !s.cons.cres in
        run_call O (fun st -> List.length st.cons.cres);
        let finished = List.length !s.cons.cres > before in
        let m = if finished then last_opt !s.cons.cres else None in
        dpush (match m with
            | Some (CRRecv (Some v)) | Some (CRTry (Some v)) -> [1; int_of_n v]
            | Some _ -> [0; 0] | None -> [2; 0]);
        (match m, r with
         | Some (CRRecv (Some v)), 1 when c = 1 && int_of_n v = x -> ()
         | Some (CRTry (Some v)), 1 when c = 4 && int_of_n v = x -> ()
         | Some (CRRecv None), 0 when c = 1 -> ()
         | Some (CRTry None), 0 when c = 4 -> ()
         | None, 2 when c = 1 -> ()
         | _ -> diff i "consumer call %d: model %s impl res=%d val=%d" c
                  (match m with
                   | Some (CRRecv (Some v)) | Some (CRTry (Some v)) -> "value " ^ string_of_int (int_of_n v)
                   | Some _ -> "false" | None -> "blocked") r x);
        if r = 1 then feed i (EDeq (O, n_of_int x))
        else if r = 0 && c = 1 then feed i (EDeqFail O)
        else if r = 0 then
          (* TryRecv found nothing: sequentially that is only right when nothing is buffered *)
          (match !spec with Some ch when ch.c_buf <> [] -> prop i "TryRecv returned false although an item is buffered" | _ -> ())
        else if r = 2 then
          (match !spec with
           | Some ch when ch.c_buf <> [] -> prop i "Recv blocked although an item is available"
           | Some ch when ch.c_closed -> prop i "Recv blocked on a closed, drained accumulator"
           | _ -> ())
        else prop i "Recv did not return even after its context was cancelled"
      end else begin
        let k = t - 1 in
        let tid = nat_of_int (t + 1) in
        let nres st = (match nth_opt st.prods k with Some p -> List.length p.pres | None -> 0) in
        let before = nres !s in
        run_call tid nres;
        let m = (match nth_opt !s.prods k with
            | Some p when List.length p.pres > before -> last_opt p.pres | _ -> None) in
        dpush (match m with
            | Some (PRSend (_, true)) -> [1; 0] | Some (PRSend (_, false)) -> [0; 0]
            | Some PRClose -> [3; 0] | Some PRCloseNoop -> [4; 0] | None -> [2; 0]);
        if c = 0 then begin
          (match m, r with
           | Some (PRSend (_, true)), 1 | Some (PRSend (_, false)), 0 -> ()
           | _ -> diff i "Send(%d): model/impl disagree (impl %d)" a r);
          if r = 1 then feed i (EEnq (O, n_of_int a)) else feed i (EEnqFail O)
        end else begin
          (match m with Some PRClose | Some PRCloseNoop -> () | _ -> diff i "Close did not complete in the model");
          feed i (EClose O)
        end
      end;
      if !s.mpanicked then diff i "model panicked") ops;
  match !props, !diffs with
  | _ :: _, _ -> "PROP " ^ String.concat "; " (List.rev !props)
  | [], _ :: _ -> "DIFF " ^ String.concat "; " (List.rev !diffs)
  | [], [] -> "OK"

(* ---------------------------------------------------------------------------------------- *)
(* kinds 3, 4: histories *)

type hop = { th : int; hc : int; ha : int; hr : int; hv : int; inv : int; resp : int }

let parse_hop v = match as_list v with
  | [t; c; a; r; x; i; p] ->
    { th = as_int t; hc = as_int c; ha = as_int a; hr = as_int r; hv = as_int x; inv = as_int i; resp = as_int p }
  | _ -> failwith "bad history op"

exception Budget

(* Wing & Gong: repeatedly pick an operation that no other pending operation precedes in real
   time, apply it to the specification, backtrack on failure; memoise (linearised set, state) *)
let linearizable (ops : (int * int * event) array) : bool option =
  let n = Array.length ops in
  let isdone = Bytes.make n '0' in
  let visited = Hashtbl.create 4096 in
  let budget = ref 3_000_000 in
  let rec go remaining (c : chan) =
    if remaining = 0 then true
    else begin
      decr budget; if !budget < 0 then raise Budget;
      let key = (Bytes.to_string isdone, c.c_closed, List.map int_of_n c.c_buf) in
      if Hashtbl.mem visited key then false
      else begin
        Hashtbl.add visited key ();
        let minresp = ref max_int in
        for i = 0 to n - 1 do
          if Bytes.get isdone i = '0' then (let (_, r, _) = ops.(i) in if r < !minresp then minresp := r)
        done;
        let found = ref false in
        let i = ref 0 in
        while not !found && !i < n do
          (if Bytes.get isdone !i = '0' then
             let (iv, _, ev) = ops.(!i) in
             if iv < !minresp then
               match spec_step c ev with
               | Some c' ->
                 Bytes.set isdone !i '1';
                 if go (remaining - 1) c' then found := true;
                 Bytes.set isdone !i '0'
               | None -> ());
          incr i
        done;
        !found
      end
    end in
  try Some (go n chan0) with Budget -> None

let check_history what (hops : hop list) =
  let props = ref [] in
  let prop fmt = Printf.ksprintf (fun m -> props := m :: !props) fmt in
  let hops = List.filter (fun o -> o.hr <> 3) hops in   (* cancelled by the driver: no effect *)
  if List.exists (fun o -> o.hr = 9) hops then prop "a call did not return even after cancellation";
  let sends = List.filter (fun o -> o.hc = 0) hops in
  let recvs = List.filter (fun o -> (o.hc = 1 || o.hc = 4) && o.hr = 1) hops in
  let closes = List.filter (fun o -> o.hc = 2) hops in
  let sent_ok = List.filter (fun o -> o.hr = 1) sends in
  let module IS = Set.Make (Int) in
  let okset = List.fold_left (fun s o -> IS.add o.ha s) IS.empty sent_ok in
  let allsent = List.fold_left (fun s o -> IS.add o.ha s) IS.empty sends in
  (* no duplication, no invention *)
  let seen = ref IS.empty in
  List.iter (fun o ->
      if IS.mem o.hv !seen then prop "item %d received twice" o.hv;
      seen := IS.add o.hv !seen;
      if not (IS.mem o.hv okset) then
        (if IS.mem o.hv allsent then prop "item %d received although its Send returned false" o.hv
         else prop "item %d received but never sent" o.hv)) recvs;
  (* no loss: every history ends with the driver closing and draining *)
  IS.iter (fun v -> if not (IS.mem v !seen) then prop "item %d was sent successfully but never received (lost)" v) okset;
  (* per receiving thread, the items of one producer arrive in the order they were sent *)
  let by_thread = Hashtbl.create 8 in
  List.iter (fun o ->
      let key = (o.th, o.hv / 1000) in
      let prev = try Hashtbl.find by_thread key with Not_found -> 0 in
      if o.hv mod 1000 < prev && o.resp > 0 then
        prop "thread %d received item %d after item %d of the same producer" o.th o.hv (o.hv / 1000 * 1000 + prev);
      Hashtbl.replace by_thread key (max prev (o.hv mod 1000)))
    (List.sort (fun a b -> compare a.inv b.inv) recvs);
  (* sends after close fail *)
  List.iter (fun c ->
      List.iter (fun s -> if s.inv > c.resp then prop "Send(%d) invoked after Close had returned succeeded" s.ha) sent_ok)
    closes;
  (* a failed send needs a close that was at least invoked before the send returned *)
  List.iter (fun s ->
      if s.hr = 0 && not (List.exists (fun c -> c.inv < s.resp) closes) then
        prop "Send(%d) returned false although no Close had been invoked" s.ha) sends;
  (* linearizability against the specification *)
  let lops = List.filter_map (fun o ->
      let t = nat_of_int o.th in
      match o.hc, o.hr with
      | 0, 1 -> Some (o.inv, o.resp, EEnq (t, n_of_int o.ha))
      | 0, 0 -> Some (o.inv, o.resp, EEnqFail t)
      | 1, 1 | 4, 1 -> Some (o.inv, o.resp, EDeq (t, n_of_int o.hv))
      | 1, 0 -> Some (o.inv, o.resp, EDeqFail t)
      | 2, _ -> Some (o.inv, o.resp, EClose t)
      | _ -> None) hops in
  (match linearizable (Array.of_list lops) with
   | Some true -> ()
   | Some false -> prop "the %s history is not linearizable w.r.t. the FIFO channel specification" what
   | None -> prerr_endline "c22 oracle: linearizability search budget exceeded (necessary conditions only)");
  match !props with
  | [] -> "OK"
  | l -> "PROP " ^ String.concat "; " (List.rev l)

(* ---------------------------------------------------------------------------------------- *)
(* kind 5: lost wake-up stress *)

let model_reproduces_lost_wakeup () =
  multi_receiver lw_progs &&
  (match run_strict (init (nat_of_int 2) (Some O) lw_progs) lw_sched with
   | Some s -> lost_wakeup_state s (nat_of_int 1)
   | None -> false)

let check_stress rounds observed buffered r =
  if observed = 0 then "OK"
  else if r >= 2 && model_reproduces_lost_wakeup () then
    Printf.sprintf "KNOWN mpmc_lost_wakeup receiver parked for > 3 s with %d item(s) buffered after all %d senders returned (round %d); the model reaches the same state by schedule lw_sched"
      buffered r rounds
  else "PROP a receiver stayed parked although items were buffered and the model does not allow it"

(* ---------------------------------------------------------------------------------------- *)
(* kind 6: deterministic wake-up probes (calls placed in the check-then-park window) *)

let rec step_until (stepf : 'a -> 'a option) (stop : 'a -> bool) (s : 'a) (n : int) : 'a =
  if n = 0 || stop s then s else match stepf s with Some s' -> step_until stepf stop s' (n - 1) | None -> s

let check_probe variant (obs : (int * int) list) =
  let show l = String.concat " " (List.map (fun (r, v) -> Printf.sprintf "(%d,%d)" r v) l) in
  (* what the driver records: results up to and including the first one that is not "true" *)
  let truncate ncalls (l : (int * int) list) =
    let rec go l = match l with [] -> [] | (1, v) :: r -> (1, v) :: go r | x :: _ -> [x] in
    let t = go l in
    if List.length t < ncalls && List.for_all (fun (r, _) -> r = 1) t then t @ [(2, 0)] else t in
  let verdict expected =
    dpush (List.concat_map (fun (r, v) -> [r; v]) expected);
    if expected = obs then "OK"
    else if List.exists (fun (r, _) -> r = 2 || r = 9) obs && not (List.exists (fun (r, _) -> r = 2) expected)
    then Printf.sprintf "PROP lost wake-up: a call placed between the empty/full check and the park left the parked side asleep although it could proceed (variant %d: model %s, implementation %s)" variant (show expected) (show obs)
    else Printf.sprintf "DIFF probe %d: model %s implementation %s" variant (show expected) (show obs) in
  match variant with
  | 1 | 2 | 3 | 4 ->
    let n = (match variant with 2 | 4 -> 2 | _ -> 1) in
    let hook = (match variant with
        | 1 -> [PSend (n_of_int 1)] | 2 -> [PSend (n_of_int 1); PSend (n_of_int 2)]
        | 3 -> [PClose] | _ -> [PSend (n_of_int 1); PClose]) in
    let s = minit (List.init n (fun _ -> CRecv)) [hook] in
    let s = step_until (fun s -> mstep s O) (fun s -> s.cons.c_pc = V_park) s 20 in
    if s.cons.c_pc <> V_park then "DIFF probe: the model consumer did not reach its park" else
    let s = mrun_thread fuel s (nat_of_int 2) in
    let s = mrun_thread fuel s O in
    let res = List.map (fun r -> match r with
        | CRRecv (Some v) | CRTry (Some v) -> (1, int_of_n v) | _ -> (0, 0)) s.cons.cres in
    verdict (truncate n res)
  | 5 | 6 | 7 ->
    let n = (if variant = 7 then 2 else 1) in
    let hook = (match variant with
        | 5 -> [OSend (n_of_int 1)] | 6 -> [OClose] | _ -> [OSend (n_of_int 1); OSend (n_of_int 2)]) in
    let s = init (nat_of_int 2) (Some O) [List.init n (fun _ -> ORecv); hook] in
    let at_park s = (match nth_opt s.thr 0 with Some th -> th.tpc = R_park | None -> true) in
    let s = step_until (fun s -> step s O) at_park s 50 in
    if not (at_park s) then "DIFF probe: the model receiver did not reach its park" else
    let s = run_thread fuel s (nat_of_int 1) in
    let s = run_thread fuel s O in
    let res = (match nth_opt s.thr 0 with
        | Some th -> List.map (fun r -> match r with RRecv (Some v) -> (1, int_of_n v) | _ -> (0, 0)) th.res
        | None -> []) in
    verdict (truncate n res)
  | 8 ->
    let s = init (nat_of_int 2) (Some O)
        [[OSend (n_of_int 1); OSend (n_of_int 2); OSend (n_of_int 3)]; [ORecv]] in
    let at_park s = (match nth_opt s.thr 0 with Some th -> th.tpc = S_park | None -> true) in
    let s = step_until (fun s -> step s O) at_park s 200 in
    if not (at_park s) then "DIFF probe: the model sender did not reach its park" else
    let s = run_thread fuel s (nat_of_int 1) in
    let s = run_thread fuel s O in
    let sent = (match nth_opt s.thr 0 with
        | Some th -> (match last_opt th.res with Some (RSend (_, true)) when List.length th.res = 3 -> 1
                                               | Some (RSend (_, false)) when List.length th.res = 3 -> 0 | _ -> 2)
        | None -> -1) in
    let got = (match nth_opt s.thr 1 with
        | Some th -> (match last_opt th.res with Some (RRecv (Some v)) -> int_of_n v | _ -> 0) | None -> -1) in
    verdict [(sent, got); (int_of_nat (size s.g), 0)]
  | 9 ->
    dpush [if model_reproduces_lost_wakeup () then 1 else 0];
    (match obs with
     | [(values, parked); (buffered, _)] ->
       if values = 78 || values = 87 then "OK"   (* both receivers returned: nothing lost *)
       else if (values = 7 || values = 8) && parked >= 1 && buffered >= 1 && model_reproduces_lost_wakeup () then
         Printf.sprintf "KNOWN mpmc_lost_wakeup deterministic: both receivers stood before `select { case <-p.empty` when Send(7), Send(8) signalled; one took the token and item %d, the other stayed parked with %d item(s) buffered; the model reaches the same state by schedule lw_sched" values buffered
       else Printf.sprintf "PROP two-receiver probe: values=%d parked=%d buffered=%d is neither a clean run nor the modelled lost wake-up" values parked buffered
     | _ -> "DIFF malformed probe record")
  | _ -> "DIFF unknown probe"

(* ---------------------------------------------------------------------------------------- *)
(* kind 7: the media of worker/medium.go *)

let check_medium kind capn ops =
  let k = (match kind with 0 -> MQueue | 1 -> MAcc | _ -> MChan (nat_of_int capn)) in
  let s = ref (minit_medium k) in
  let spec = ref (Some chan0) in
  let diffs = ref [] and props = ref [] in
  let diff i fmt = Printf.ksprintf (fun m -> diffs := Printf.sprintf "op %d: %s" i m :: !diffs) fmt in
  let prop i fmt = Printf.ksprintf (fun m -> props := Printf.sprintf "op %d: %s" i m :: !props) fmt in
  let buf () = (match !spec with Some c -> c.c_buf | None -> []) in
  let closed () = (match !spec with Some c -> c.c_closed | None -> false) in
  let feed i ev =
    match !spec with
    | None -> ()
    | Some c -> (match spec_step c ev with
        | Some c' -> spec := Some c'
        | None -> prop i "%s is illegal for a channel holding %d item(s)%s" (ev_str ev)
                    (List.length c.c_buf) (if c.c_closed then " (closed)" else ""); spec := None) in
  List.iteri (fun i v ->
      match as_list v with
      | [c; l; a; r; x; lat] ->
        let code = as_int c and live = as_int l = 1 and arg = as_int a and res = as_int r
        and value = as_int x and latch_obs = as_int lat = 1 in
        if res = 9 && code = 0 then () (* not executed by the driver *) else begin
          let op = (match code with
              | 0 -> MSend (live, n_of_int arg)
              | 1 -> MRecv (live, res = 1)      (* the random select choice is read off the observation *)
              | _ -> MClose) in
          let (s1, r1) =
            (match (if code = 0 && not live && res = 1 then med_step_alt !s op else None) with
             | Some x -> x | None -> med_step !s op) in
          let mres = (match r1 with
              | MRSend true -> (1, 0) | MRSend false -> (0, 0)
              | MRRecv (Some v) -> (1, int_of_n v) | MRRecv None -> (0, 0)
              | MRBlock -> (2, 0) | MRClose -> (0, 0) | MRPanic -> (7, 0)) in
          dpush [fst mres; snd mres; if s1.latch then 1 else 0];
          if mres <> (res, value) then
            diff i "%s: model (%d,%d) implementation (%d,%d)"
              (match code with 0 -> "Send" | 1 -> "Recv" | _ -> "Close") (fst mres) (snd mres) res value;
          (* the property itself, on the implementation's results *)
          (match code, res with
           | 0, 1 -> feed i (EEnq (O, n_of_int arg))
           | 0, 0 -> if live && kind <> 2 then feed i (EEnqFail O)
           | 1, 1 -> feed i (EDeq (O, n_of_int value))
           | 1, 0 ->
             if live then begin
               if buf () <> [] then
                 prop i "Recv with a live context returned (nil,false) although %d accepted item(s) are still queued (lost)" (List.length (buf ()))
               else if not (closed ()) then prop i "Recv with a live context returned (nil,false) on an open medium"
             end
           | 1, 2 -> if buf () <> [] then prop i "Recv blocked although an item is queued"
                     else if closed () then prop i "Recv blocked on a closed, drained medium"
           | 2, _ -> feed i (EClose O)
           | _ -> ());
          s := s1;
          if !s.latch <> latch_obs then
            diff i "closed latch: model %b implementation %b" !s.latch latch_obs
        end
      | _ -> diff i "malformed op") ops;
  match !props, !diffs with
  | _ :: _, _ -> "PROP " ^ String.concat "; " (List.rev !props)
  | [], _ :: _ -> "DIFF " ^ String.concat "; " (List.rev !diffs)
  | [], [] -> "OK"

(* ---------------------------------------------------------------------------------------- *)
(* kind 9: a cancellation that lands during the call (context flips after its n-th consultation) *)

let check_sweep target op scenario n res value delivered latch_obs =
  let k = (match target with 1 -> MAcc | 2 -> MChan (nat_of_int 4) | _ -> MQueue) in
  let nn = nat_of_int n in
  let s0 = minit_medium k in
  let item = n_of_int 7 in
  let code r = (match r with
      | MRSend true -> (1, 0) | MRSend false -> (0, 0)
      | MRRecv (Some v) -> (1, int_of_n v) | MRRecv None -> (0, 0)
      | MRBlock -> (2, 0) | MRClose -> (0, 0) | MRPanic -> (7, 0)) in
  if op = 0 then begin
    let s0 = if scenario = 1 then fst (med_step s0 MClose) else s0 in
    let live = if target = 3 then queue_send_live nn else send_live k nn in
    let o = MSend (live, item) in
    let (s1, r1) = (match (if res = 1 && not live then med_step_alt s0 o else None) with
        | Some x -> x | None -> med_step s0 o) in
    dpush [fst (code r1); List.length s1.mch.c_buf];
    (* the property: delivered <=> Send returned true *)
    if (res = 1) <> (delivered = 1) || delivered > 1 then
      Printf.sprintf "PROP Send with a context cancelled after %d consultation(s) returned %s but the item was delivered %d time(s): hand-over is not exactly-once (the caller keeps ownership on false and releases the message)"
        n (if res = 1 then "true" else "false") delivered
    else if res = 2 || res = 9 then "PROP Send blocked on a medium with room"
    else if code r1 <> (res, 0) then
      Printf.sprintf "DIFF Send, cancellation after %d consultation(s): model %d implementation %d" n (fst (code r1)) res
    else "OK"
  end else begin
    let s0 = (match scenario with
        | 0 -> fst (med_step s0 (MSend (true, item)))
        | 2 -> fst (med_step s0 MClose)
        | _ -> s0) in
    let live = recv_live k (scenario = 2) nn in
    let (s1, r1) = med_step s0 (MRecv (live, res = 1)) in
    dpush [fst (code r1); snd (code r1); if s1.latch then 1 else 0];
    let expected_left = (if scenario = 0 && res <> 1 then 1 else 0) in
    if delivered <> expected_left then
      Printf.sprintf "PROP Recv with a context cancelled after %d consultation(s): %d item(s) drained afterwards, expected %d (lost or duplicated)" n delivered expected_left
    else if res = 1 && value <> 7 then "PROP Recv returned an item that was never sent"
    else if code r1 <> (res, value) then
      Printf.sprintf "DIFF Recv (scenario %d), cancellation after %d consultation(s): model (%d,%d) implementation (%d,%d)"
        scenario n (fst (code r1)) (snd (code r1)) res value
    else if target < 2 && s1.latch <> latch_obs then
      Printf.sprintf "DIFF closed latch after Recv (scenario %d, n=%d): model %b implementation %b" scenario n s1.latch latch_obs
    else "OK"
  end

let f0 _id vs =
  match vs with
  | [I "1"; cap; exts; valid; ops] -> check_mpmc_seq (as_int cap) (as_int exts) (as_int valid) (as_list ops)
  | [I "2"; nprod; ops] -> check_mpsc_seq (as_int nprod) (as_list ops)
  | [I "3"; _cap; _exts; _n; ops] -> check_history "MPMC" (List.map parse_hop (as_list ops))
  | [I "4"; _n; ops] -> check_history "MPSC" (List.map parse_hop (as_list ops))
  | [I "5"; rounds; observed; buffered; r] ->
    check_stress (as_int rounds) (as_int observed) (as_int buffered) (as_int r)
  | [I "6"; variant; obs] ->
    check_probe (as_int variant)
      (List.map (fun v -> match as_list v with [a; b] -> (as_int a, as_int b) | _ -> (-1, -1)) (as_list obs))
  | [I "7"; kind; capn; ops] -> check_medium (as_int kind) (as_int capn) (as_list ops)
  | [I "9"; target; op; scenario; n; res; value; delivered; latch] ->
    check_sweep (as_int target) (as_int op) (as_int scenario) (as_int n) (as_int res) (as_int value)
      (as_int delivered) (as_int latch = 1)
  | [I "8"; _rounds; _observed] -> "OK"   (* an observation is reported by the driver as !PROP *)
  | _ -> "DIFF malformed-record"

let f id vs =
  dump_buf := [];
  let v = f0 id vs in
  (match dump_chan with
   | Some oc when !dump_buf <> [] ->
     output_string oc (id ^ " " ^ String.concat " " (List.map string_of_int (List.rev !dump_buf)) ^ "\n"); flush oc
   | _ -> ());
  v

let () = run_oracle f
