(* C25 oracle: compares eval.EvaluateTupleCondition / EvaluableCondition.Evaluate /
   ParameterType.ConvertValue with Sem/Cond.v.

   Verdicts
     DIFF   the implementation differs from the as-coded model (convert, evaluate, ...)
     PROP   the implementation's result contradicts the property predicate
            (spec_convert: exact value or error; stored context wins; every declared parameter
            present; met <=> the expression is true)
     KNOWN  implementation == as-coded model, the result contradicts the property, and the model
            computed the trigger int_fraction_rounded (a non-integral decimal string rounded to
            an integer by the 64-bit parse).  The former trigger int_clamp (finding F8) is gone
            with the repair fd0d452: a clamped conversion differs from the model AND from the
            property, i.e. it is a PROP again. *)

let z_of (neg : bool) (mag : string) : z =
  if dec_is_zero mag then Z0 else if neg then Zneg (pos_of_dec mag) else Zpos (pos_of_dec mag)
let z_of_int (i : int) : z = if i = 0 then Z0 else if i < 0 then Zneg (pos_of_int (-i)) else Zpos (pos_of_int i)
let dec_of_z (x : z) : string =
  match x with Z0 -> "0" | Zpos p -> dec_of_pos p | Zneg p -> "-" ^ dec_of_pos p

let tag v = match v with L (I t :: rest) -> (int_of_string t, rest) | _ -> failwith "expected tagged list"

let rec ptype_of v : ptype =
  match tag v with
  | (0, []) -> TBool | (1, []) -> TString | (2, []) -> TInt | (3, []) -> TUint | (4, []) -> TDouble
  | (5, [t]) -> TList (ptype_of t) | (6, [t]) -> TMap (ptype_of t)
  | (7, []) -> TTimestamp | (8, []) -> TDuration | (9, []) -> TIpaddr | (10, []) -> TAny
  | (11, []) -> TBad
  | _ -> failwith "bad ptype"

let fnum_of rest : fnum =
  match rest with
  | [neg; mant; ex] -> FFin (z_of (as_bool neg) (as_dec mant), z_of_int (as_int ex))
  | _ -> failwith "bad number"

let rec jval_of v : jval =
  match tag v with
  | (0, []) -> JNull
  | (1, [b]) -> JBool (as_bool b)
  | (2, rest) -> JNum (fnum_of rest)
  | (3, []) -> JNum FNaN
  | (4, [neg]) -> JNum (FInf (as_bool neg))
  | (5, [s]) -> JStr (as_cbytes s)
  | (6, items) -> JList (List.map jval_of items)
  | (7, kvs) -> JMap (List.map kv_of kvs)
  | _ -> failwith "bad jval"
and kv_of v = match v with L [k; x] -> (as_cbytes k, jval_of x) | _ -> failwith "bad kv"

let ctx_of v : (bytes * jval) list = List.map kv_of (as_list v)

let lit_of v : cval =
  match tag v with
  | (0, [b]) -> VBool (as_bool b)
  | (1, [s]) -> VStr (as_cbytes s)
  | (2, [neg; mag]) -> VInt (z_of (as_bool neg) (as_dec mag))
  | (3, [mag]) -> VUint (z_of false (as_dec mag))
  | (4, rest) -> VDouble (fnum_of rest)
  | _ -> failwith "bad literal"

let cmpop_of i = match i with 0 -> OEq | 1 -> ONe | 2 -> OLt | 3 -> OLe | 4 -> OGt | 5 -> OGe | _ -> failwith "bad op"

let rec expr_of v : expr =
  match tag v with
  | (0, [b]) -> EBool (as_bool b)
  | (1, [s]) -> EStr (as_cbytes s)
  | (2, [neg; mag]) -> EInt (z_of (as_bool neg) (as_dec mag))
  | (3, [mag]) -> EUint (z_of false (as_dec mag))
  | (4, rest) -> EDouble (fnum_of rest)
  | (5, [n]) -> EParam (as_cbytes n)
  | (6, [op; a; b]) -> ECmp (cmpop_of (as_int op), expr_of a, expr_of b)
  | (7, [a; b]) -> EAnd (expr_of a, expr_of b)
  | (8, [a; b]) -> EOr (expr_of a, expr_of b)
  | (9, [a]) -> ENot (expr_of a)
  | (10, [a; b]) -> EIn (expr_of a, expr_of b)
  | (11, items) -> EListLit (List.map lit_of items)
  | (12, [m; k]) -> EIdx (expr_of m, expr_of k)
  | _ -> failwith "bad expr"

let params_of v : (bytes * ptype) list =
  List.map (fun p -> match p with L [n; t] -> (as_cbytes n, ptype_of t) | _ -> failwith "bad param") (as_list v)

(* external parsers' verdicts, recorded by the driver: (kind, string, ok) *)
let ext_of v : n -> bytes -> bool =
  let tbl = List.map (fun e -> match e with
      | L [k; s; ok] -> ((as_int k, as_bytes s), as_bool ok)
      | _ -> failwith "bad ext") (as_list v) in
  fun k s -> match List.assoc_opt (int_of_n k, coq_to_bytes s) tbl with Some b -> b | None -> false

(* ---- printing of results ---- *)
let errc_str e = match e with
  | ENotFound -> "notfound" | ECompile -> "compile" | EType -> "type" | EMissing -> "missing" | ERuntime -> "runtime"
let tres_str r = match r with
  | TMet -> "met" | TNotMet -> "notmet" | TErr e -> "err:" ^ errc_str e | TPanic -> "panic" | TOut -> "OUT"
let eres_str r = match r with
  | EvOk (met, missing) ->
    Printf.sprintf "ok:%b:[%s]" met (String.concat "," (List.sort compare (List.map (fun b -> hex_of_string (coq_to_bytes b)) missing)))
  | EvErr e -> "err:" ^ errc_str e | EvPanic -> "panic" | EvOut -> "OUT"
let class3 s = if s = "met" then "met" else if s = "notmet" then "notmet" else "fail"

let impl_errc i = match i with
  | 2 -> "err:notfound" | 3 -> "err:type" | 4 -> "err:missing" | 5 -> "err:runtime" | 6 -> "err:compile"
  | 7 -> "panic" | _ -> "err:other"
let impl_tres v = match as_int v with 0 -> "met" | 1 -> "notmet" | i -> impl_errc i
let impl_eres v = match as_list v with
  | [I "0"; met; L missing] ->
    Printf.sprintf "ok:%b:[%s]" (as_bool met) (String.concat "," (List.sort compare (List.map (fun b -> hex_of_string (as_bytes b)) missing)))
  | [I "1"; c] -> impl_errc (as_int c)
  | [I "2"] -> "panic"
  | [I "3"] -> "none"
  | _ -> "?"

(* ---- converted values ---- *)
let fnum_str f = match f with
  | FNaN -> "nan" | FInf neg -> if neg then "-inf" else "+inf"
  | FFin (m, e) -> "" (* compared numerically, see cval_eq *)
let rec cval_eq (a : cval) (b : cval) : bool =
  match a, b with
  | VBool x, VBool y -> x = y
  | VStr x, VStr y -> x = y
  | VInt x, VInt y -> x = y
  | VUint x, VUint y -> x = y
  | VDouble x, VDouble y -> (match fcompare x y with Some Eq -> true | Some _ -> false | None -> x = FNaN && y = FNaN)
  | VList x, VList y -> List.length x = List.length y && List.for_all2 cval_eq x y
  | VMap x, VMap y ->
    let s l = List.sort (fun (k1, _) (k2, _) -> compare (coq_to_bytes k1) (coq_to_bytes k2)) l in
    List.length x = List.length y &&
    List.for_all2 (fun (k1, v1) (k2, v2) -> k1 = k2 && cval_eq v1 v2) (s x) (s y)
  | VOpaque, VOpaque -> true
  | VAny, VAny -> true
  | _ -> false
let rec cval_str (a : cval) : string =
  match a with
  | VBool b -> string_of_bool b
  | VStr s -> "\"" ^ hex_of_string (coq_to_bytes s) ^ "\""
  | VInt z -> dec_of_z z
  | VUint z -> dec_of_z z ^ "u"
  | VDouble FNaN -> "nan" | VDouble (FInf n) -> if n then "-inf" else "+inf"
  | VDouble (FFin (m, e)) -> dec_of_z m ^ "*2^" ^ dec_of_z e
  | VList l -> "[" ^ String.concat "," (List.map cval_str l) ^ "]"
  | VMap l -> "{" ^ String.concat "," (List.map (fun (k, v) -> hex_of_string (coq_to_bytes k) ^ ":" ^ cval_str v) l) ^ "}"
  | VOpaque -> "opaque" | VAny -> "any"
let rec obs_cval v : cval =
  match tag v with
  | (0, [b]) -> VBool (as_bool b)
  | (1, [s]) -> VStr (as_cbytes s)
  | (2, [neg; mag]) -> VInt (z_of (as_bool neg) (as_dec mag))
  | (3, [mag]) -> VUint (z_of false (as_dec mag))
  | (4, rest) -> VDouble (fnum_of rest)
  | (14, [neg]) -> VDouble (FInf (as_bool neg))
  | (15, []) -> VDouble FNaN
  | (6, items) -> VList (List.map obs_cval items)
  | (7, kvs) -> VMap (List.map (fun kv -> match kv with L [k; x] -> (as_cbytes k, obs_cval x) | _ -> failwith "kv") kvs)
  | (8, []) -> VOpaque
  | (9, []) -> VAny
  | _ -> failwith "bad observed value"
let cres_str r = match r with COk v -> "ok " ^ cval_str v | CErr -> "err" | CPanic -> "panic" | COut -> "OUT"
let cres_eq a b = match a, b with
  | COk x, COk y -> cval_eq x y | CErr, CErr -> true | CPanic, CPanic -> true | _ -> false

let known_flag rounded =
  if rounded then Some "int_fraction_rounded" else None

(* Cross-check of extraction: with ORACLE_DUMP=<file> every value the extracted model computes for a
   case is appended to that file as natural numbers, before any comparison with the implementation;
   bin/coqreplay_c25.py recomputes the same numbers inside Coq with vm_compute.
   Encoding: Z as (sign, magnitude); bytes as (length, bytes...); see enc_* (mirrored in the script). *)
let dump_chan = match Sys.getenv_opt "ORACLE_DUMP" with
  | Some p when p <> "" -> Some (open_out_gen [Open_append; Open_creat] 0o644 p)
  | _ -> None
let enc_z (x : z) : string list = match x with
  | Z0 -> ["0"; "0"] | Zpos p -> ["0"; dec_of_pos p] | Zneg p -> ["1"; dec_of_pos p]
let enc_b b = [if b then "1" else "0"]
let enc_bytes (b : n list) : string list =
  string_of_int (List.length b) :: List.map (fun c -> string_of_int (int_of_n c)) b
let rec enc_cval (v : cval) : string list = match v with
  | VBool b -> "0" :: enc_b b
  | VStr s -> "1" :: enc_bytes s
  | VInt x -> "2" :: enc_z x
  | VUint x -> "3" :: enc_z x
  | VDouble FNaN -> ["4"; "0"]
  | VDouble (FInf n) -> "4" :: "1" :: enc_b n
  | VDouble (FFin (m, e)) -> "4" :: "2" :: (enc_z m @ enc_z e)
  | VList l -> "5" :: string_of_int (List.length l) :: List.concat_map enc_cval l
  | VMap l -> "6" :: string_of_int (List.length l) :: List.concat_map (fun (k, x) -> enc_bytes k @ enc_cval x) l
  | VOpaque -> ["7"] | VAny -> ["8"]
let enc_cres r = match r with COk v -> "0" :: enc_cval v | CErr -> ["1"] | CPanic -> ["2"] | COut -> ["3"]
let enc_errc e = match e with ENotFound -> 0 | ECompile -> 1 | EType -> 2 | EMissing -> 3 | ERuntime -> 4
let enc_tres r = match r with
  | TMet -> ["0"] | TNotMet -> ["1"] | TErr e -> [string_of_int (2 + enc_errc e)] | TPanic -> ["7"] | TOut -> ["8"]
let enc_eres r = match r with
  | EvOk (met, missing) -> "0" :: (enc_b met @ (string_of_int (List.length missing) :: List.concat_map enc_bytes missing))
  | EvErr e -> ["1"; string_of_int (enc_errc e)] | EvPanic -> ["2"] | EvOut -> ["3"]
let dump id (nums : string list) = match dump_chan with
  | Some ch -> output_string ch (id ^ " " ^ String.concat " " nums ^ "\n")
  | None -> ()

let f _id vs =
  match vs with
  | [I "1"; tname; ecp; cname; ps; ex; req; stored; extv; it; ie] ->
    let ext = ext_of extv in
    let c = { c_name = as_cbytes cname; c_params = params_of ps; c_expr = expr_of ex } in
    let ec = if as_bool ecp then Some c else None in
    let tn = as_cbytes tname and rq = ctx_of req and st = ctx_of stored in
    let mt = evaluate_tuple_condition (convert ext) tn st ec rq in
    let spt = evaluate_tuple_condition (spec_convert ext) tn st ec rq in
    let me = evaluate (convert ext) c rq st in
    dump _id ("1" :: (enc_tres mt @ enc_tres spt @ enc_eres me @ enc_b (eval_flag num_rounded c rq st)));
    let model_t = tres_str mt in
    let spec_t = tres_str spt in
    let model_e = eres_str me in
    let impl_t = impl_tres it and impl_e = impl_eres ie in
    if model_t = "OUT" then "DIFF model: input outside the modelled range" else
    let same = model_t = impl_t && (impl_e = "none" || model_e = impl_e) in
    let contradicts = class3 impl_t <> class3 spec_t in
    let txt = Printf.sprintf "EvaluateTupleCondition impl=%s model=%s spec=%s; Evaluate impl=%s model=%s"
        impl_t model_t spec_t impl_e model_e in
    if same then begin
      if not contradicts then "OK"
      else
        let involved = as_bool ecp && tn <> [] && tn = c.c_name in
        let rounded = involved && eval_flag num_rounded c rq st in
        match known_flag rounded with
        | Some fl -> "KNOWN " ^ fl ^ " " ^ txt
        | None -> "PROP " ^ txt
    end else if contradicts then "PROP " ^ txt
    else "DIFF " ^ txt
  | [I "2"; t; v; extv; obs] ->
    let ext = ext_of extv in
    let ty = ptype_of t and jv = as_interface (jval_of v) in
    let model = convert ext ty jv and spec = spec_convert ext ty jv in
    dump _id ("2" :: (enc_cres model @ enc_cres spec @ enc_b (conv_flag num_rounded ty jv)));
    let impl = match as_list obs with
      | [I "0"; x] -> COk (obs_cval x) | [I "1"] -> CErr | _ -> CPanic in
    if model = COut then "DIFF model: input outside the modelled range" else
    let txt = Printf.sprintf "ConvertValue impl=%s model=%s spec=%s" (cres_str impl) (cres_str model) (cres_str spec) in
    let same = cres_eq impl model and contradicts = not (cres_eq impl spec) in
    if same then begin
      if not contradicts then "OK"
      else match known_flag (conv_flag num_rounded ty jv) with
        | Some fl -> "KNOWN " ^ fl ^ " " ^ txt
        | None -> "PROP " ^ txt
    end else if contradicts then "PROP " ^ txt
    else "DIFF " ^ txt
  | _ -> "DIFF malformed-record"

let () = run_oracle f
