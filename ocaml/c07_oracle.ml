(* C07 oracle.  Record (one batch):
     2 mode maxn fieldsbad cache items observed v1data
   items    = ( (id key class out dupctx mset deep (ref ...) v1item) ... )   in request order
              key   = index of the de-duplication key the implementation's key functions give the item
              class = index of the item's equivalence class (tuple, context as a map, contextual
                      tuples as a multiset that keeps the order of same-(object,relation,user) tuples)
              out   = outcome class of the item's standalone CheckQuery
              mset  = index of the item's class when the order of the contextual tuples is forgotten entirely
              deep  = standalone outcome with the default depth limit (= out unless out is the depth error
                      under a smaller limit)
              ref   = (api mode) standalone outcomes under the other two planner strategies
   observed = cmd: (0 rejectclass dupid) | (1 ((id out) ...) dupcount) | (2 text)
              api: (0 0 -1 "") InvalidArgument | (0 1 rejectclass dupid) | (1 ((id apiitem) ...)) | (2 text)
   v1data   = (model conds tuples (cevalvector ...) (pathx ...) maxdepth fuel);
   v1item   = () | (ot oi rel subject pathxindex (ctxtuple ...) cevalindex)

   The Coq model Query/Batch.v is run on the recorded items (key, class, standalone outcome) under
   several schedules and compared with the observed response:
     DIFF  observed response <> model response (reject class, id set, DuplicateCheckCount, outcome of an id)
     PROP  an id missing / unexpected, outcome(id) <> standalone(id), a key shared by inequivalent items
     KNOWN ctx_tuple_dup_order: the model itself answers an item from an inequivalent one because the
           implementation's key is shared by items whose contextual tuples repeat an (object, relation,
           user) in different orders
     KNOWN cache_masks_depth_limit: with the check query cache on, an item whose standalone Check exceeds
           the resolution depth limit is answered (with the answer it has under the default limit)
   An outcome mismatch is tolerated (not reported) only when Check/V1.v admits BOTH outcomes for the
   item (scheduler-dependent reducers: which error / which of error and denial is reported). *)

let out_of_int = function
  | 0 -> Allowed true | 1 -> Allowed false
  | 2 -> ItemError EInvalidRelation | 3 -> ItemError EInvalidTuple | 4 -> ItemError EDepth
  | 5 -> ItemError ECondEval | 6 -> ItemError EInvalidContext | 7 -> ItemError EThrottled
  | 8 -> ItemError EDeadline | _ -> ItemError EOther

let int_of_out = function
  | Allowed true -> 0 | Allowed false -> 1
  | ItemError EInvalidRelation -> 2 | ItemError EInvalidTuple -> 3 | ItemError EDepth -> 4
  | ItemError ECondEval -> 5 | ItemError EInvalidContext -> 6 | ItemError EThrottled -> 7
  | ItemError EDeadline -> 8 | ItemError EOther -> 9

let out_s i = match i with
  | 0 -> "allowed" | 1 -> "denied" | 2 -> "invalid_relation" | 3 -> "invalid_tuple" | 4 -> "depth"
  | 5 -> "cond_eval" | 6 -> "invalid_context" | 7 -> "throttled" | 8 -> "deadline" | 9 -> "other"
  | _ -> "?" ^ string_of_int i

(* api item codes of the driver: 0 allowed, 1 denied, 10.. error codes *)
let int_of_api_item = function
  | AAllowed true -> 0 | AAllowed false -> 1
  | AError CValidationError -> 10 | AError CInvalidTuple -> 11 | AError CTooComplex -> 12
  | AError CDeadline -> 13 | AError CInternal -> 14
let api_of_out i = int_of_api_item (match out_of_int i with Allowed b -> AAllowed b | ItemError c -> AError (api_code c))
let api_s i = match i with
  | 0 -> "allowed" | 1 -> "denied" | 10 -> "validation_error" | 11 -> "invalid_tuple" | 12 -> "too_complex"
  | 13 -> "deadline_exceeded" | 14 -> "internal_error" | _ -> "code" ^ string_of_int i

let reject_s = function
  | RTooMany -> "too_many" | REmptyBatch -> "empty_batch"
  | REmptyId i -> Printf.sprintf "empty_id@%d" (int_of_nat i)
  | RDupId id -> "dup_id:" ^ coq_to_bytes id
let reject_class = function RTooMany -> 0 | REmptyBatch -> 1 | REmptyId _ -> 2 | RDupId _ -> 3

(* V1 outcome -> item outcome class *)
let class_of_aout = function AT -> Some 0 | AFn | AFc -> Some 1 | AEc -> Some 5 | AEd -> Some 4 | AEo -> Some 9 | AFuel -> None

(* Cross-check of extraction: with ORACLE_DUMP=<file> the values the EXTRACTED model computes for a
   case (validation verdict, number of groups, DuplicateCheckCount, outcome code per correlation id in
   the model's response order, under the request-order schedule and under the reversed one; the two
   boolean hypotheses; in api mode the API response) are appended to that file before any comparison
   with the implementation, and bin/coqreplay_c07.py recomputes the same numbers inside Coq. *)
let dump_chan = match Sys.getenv_opt "ORACLE_DUMP" with
  | Some p when p <> "" -> Some (open_out_gen [Open_append; Open_creat] 0o644 p)
  | _ -> None
let d_bytes (b : n list) = List.length b :: List.map int_of_n b
let d_reject = function
  | RTooMany -> [1] | REmptyBatch -> [2] | REmptyId i -> [3; int_of_nat i] | RDupId id -> 4 :: d_bytes id
let d_resp n = function
  | Rejected r -> d_reject r
  | Results (rs, d) ->
    [0; n - int_of_nat d; int_of_nat d; List.length rs] @
    List.concat_map (fun (id, o) -> d_bytes id @ [int_of_out o]) rs
  | Panic -> [5]
let d_api = function
  | ApiInvalidArgument -> [10]
  | ApiValidationError r -> 11 :: d_reject r
  | ApiResults rs -> 12 :: List.length rs :: List.concat_map (fun (id, a) -> d_bytes id @ [int_of_api_item a]) rs
  | ApiPanic -> [13]

type item = { id : string; key : int; cls : int; out : int; dupctx : bool; mset : int; deep : int; refs : int list; v1 : value }

let f _id vs =
  match vs with
  | [I "2"; mode; maxn; fieldsbad; cache; items; observed; v1data] ->
    let cache = as_bool cache in
    let api = as_int mode = 1 in
    let maxn = n_of_int (as_int maxn) in
    let fieldsbad = as_bool fieldsbad in
    let its = List.map (fun v ->
      match as_list v with
      | [id; k; c; o; d; ms; deep; refs; v1] ->
        { id = as_bytes id; key = as_int k; cls = as_int c; out = as_int o; dupctx = as_bool d; mset = as_int ms; deep = as_int deep;
          refs = List.map as_int (as_list refs); v1 = v1 }
      | _ -> failwith "item") (as_list items) in
    let citems = List.map (fun it ->
      (bytes_to_coq it.id, { rp_key = n_of_int it.key; rp_class = n_of_int it.cls; rp_out = out_of_int it.out })) its in
    let n = List.length its in
    (* schedules: request order, reverse, two pseudo-random ones *)
    let lcg s k = List.init k (fun i -> (((s + i * 7919) * 2654435761 + 12345) land 0xffff) mod (k + 1)) in
    let scheds = [ []; List.init n (fun i -> n - 1 - i); lcg 17 n; lcg (n * 31 + 5) n ] in
    let scheds = List.map (List.map nat_of_int) scheds in
    (match dump_chan with
     | Some ch ->
       let rev = List.map nat_of_int (List.init n (fun i -> n - 1 - i)) in
       let nums = d_resp n (rec_batch maxn [] citems) @ d_resp n (rec_batch maxn rev citems) @
                  [ (if rec_no_key_collision citems then 1 else 0); (if rec_check_respects citems then 1 else 0) ] @
                  (if api then d_api (rec_api_batch maxn [] citems) else []) in
       output_string ch (_id ^ " " ^ String.concat " " (List.map string_of_int nums) ^ "\n"); flush ch
     | None -> ());
    (* V1 tolerance, lazily *)
    let v1set : (int, int list option) Hashtbl.t = Hashtbl.create 8 in
    let v1_of (idx : int) (it : item) : int list option =
      match Hashtbl.find_opt v1set idx with
      | Some r -> r
      | None ->
        let r =
          (match as_list it.v1, as_list v1data with
           | [ot; oi; rel; subj; pxi; cts; cvi], [model; conds; tuples; cevs; pxs; maxdepth; fuel] ->
             let m = dec_model model in
             let cs = List.map (fun c -> n_of_int (as_int c)) (as_list conds) in
             let cev = List.map as_int (as_list (List.nth (as_list cevs) (as_int cvi))) in
             let store = List.map2 (fun tv ce -> let t = dec_tuple tv in { t with t_ceval = dec_b3 (I (string_of_int ce)) })
                           (as_list tuples) cev in
             let ctx_tuples = List.map dec_tuple (as_list cts) in
             let pathx = List.map dec_pair (as_list (List.nth (as_list pxs) (as_int pxi))) in
             let (oset, _) = check_top m cs (ctx_tuples @ store) (dec_subject subj) pathx
                               (nat_of_int (as_int maxdepth)) (nat_of_int (as_int fuel))
                               (mk_obj (as_int ot) (as_int oi)) (n_of_int (as_int rel)) in
             let cls = List.map class_of_aout oset in
             if List.mem None cls then None
             else Some (List.sort_uniq compare (List.filter_map (fun x -> x) cls))
           | _ -> None) in
        Hashtbl.add v1set idx r; r in
    let indexed = List.mapi (fun i it -> (i, it)) its in
    let find_idx id = List.find_opt (fun (_, it) -> it.id = id) indexed in
    (* the outcomes that may legitimately be observed for an item: its standalone outcome, (api mode)
       its standalone outcomes under the other planner strategies, and what V1 admits next to it *)
    let cands idx it =
      (it.out :: it.refs) @ (match v1_of idx it with Some s when List.mem it.out s -> s | _ -> []) in
    let tolerated idx it a b =
      a = b || (let c = cands idx it in List.mem a c && List.mem b c) in
    let props = ref [] and diffs = ref [] and knowns = ref [] in
    let prop s = props := s :: !props and diff s = diffs := s :: !diffs and known s = knowns := s :: !knowns in
    (* the model, under every schedule *)
    let resps = List.map (fun s -> rec_batch maxn s citems) scheds in
    let model = List.hd resps in
    if List.exists (fun r -> r <> model) resps then diff "the model's response depends on the schedule";
    (* hypotheses of batch_eq_individual on this batch *)
    let nocoll = rec_no_key_collision citems in
    (* pairs of items with one key and two classes *)
    let collisions = List.concat_map (fun (i, a) ->
      List.filter_map (fun (j, b) -> if i < j && a.key = b.key && a.cls <> b.cls then Some ((i, a), (j, b)) else None) indexed) indexed in
    if nocoll <> (collisions = []) then diff "no_key_collision disagrees with the collision list";
    (* the listed defect: same contextual tuples, only the order of repeated (object, relation, user) differs *)
    let known_pair a b = a.dupctx && b.dupctx && a.mset = b.mset in
    List.iter (fun ((_, a), (_, b)) ->
      if not (known_pair a b) then
        prop (Printf.sprintf "items %s and %s are different requests but share one de-duplication key" a.id b.id)) collisions;
    (* check respects the equivalence (same class => same standalone outcome, up to tolerance) *)
    List.iter (fun (i, a) -> List.iter (fun (j, b) ->
      if i < j && a.cls = b.cls && not (tolerated i a a.out b.out) then
        diff (Printf.sprintf "equivalent items %s and %s have standalone outcomes %s and %s" a.id b.id (out_s a.out) (out_s b.out)))
      indexed) indexed;
    let in_collision it = List.exists (fun ((_, a), (_, b)) -> (a.id = it.id || b.id = it.id) && known_pair a b) collisions in
    (* comparison of one id's observed outcome [r] (item classes) with the model's [m] and the standalone outcome *)
    let judge id r m =
      match find_idx id with
      | None -> prop (Printf.sprintf "the response holds an id that is not in the request: %S" id)
      | Some (idx, it) ->
        (* the representative that the model used answers for the group: tolerance of its item *)
        let rep = List.find (fun (_, x) -> x.key = it.key) indexed in
        let masked (x : item) = cache && x.out = 4 && x.deep <> 4 && r = x.deep in
        (match m with
         | Some m when not (tolerated (fst rep) (snd rep) r m) && not (masked (snd rep)) ->
           diff (Printf.sprintf "id %s: observed %s, model %s" id (out_s r) (out_s m))
         | None -> diff (Printf.sprintf "id %s: not in the model's response" id)
         | _ -> ());
        if not (tolerated idx it r it.out) then begin
          let txt = Printf.sprintf "id %s: batch outcome %s, standalone outcome %s" id (out_s r) (out_s it.out) in
          if masked it then known ("cache_masks_depth_limit " ^ txt)
          else if in_collision it && it.dupctx && (match m with Some m -> tolerated (fst rep) (snd rep) r m | None -> false)
          then known ("ctx_tuple_dup_order " ^ txt)
          else prop txt
        end in
    let check_ids (obs_ids : string list) =
      List.iter (fun it -> if not (List.mem it.id obs_ids) then prop (Printf.sprintf "id %s has no outcome in the response" it.id)) its;
      let sorted = List.sort compare obs_ids in
      let rec dups = function a :: (b :: _ as t) -> if a = b then prop ("id twice in the response: " ^ a); dups t | _ -> () in
      dups sorted in
    (if not api then begin
      match as_list observed, model with
      | [I "0"; c; dupid], Rejected r ->
        if as_int c <> reject_class r then diff (Printf.sprintf "rejected with class %d, model %s" (as_int c) (reject_s r))
        else (match r with RDupId id when coq_to_bytes id <> as_bytes dupid ->
                diff (Printf.sprintf "duplicate id reported %S, model %S" (as_bytes dupid) (coq_to_bytes id)) | _ -> ())
      | [I "0"; c; _], Results _ -> prop (Printf.sprintf "a valid batch was rejected (class %d)" (as_int c))
      | [I "1"; _; _], Rejected r -> prop ("a malformed batch was evaluated; model: rejected " ^ reject_s r)
      | [I "1"; rs; dupcount], Results (mrs, mdups) ->
        let obs = List.map (fun v -> match as_list v with [id; o] -> (as_bytes id, as_int o) | _ -> failwith "result") (as_list rs) in
        check_ids (List.map fst obs);
        if as_int dupcount <> int_of_nat mdups then
          diff (Printf.sprintf "DuplicateCheckCount %d, model %d" (as_int dupcount) (int_of_nat mdups));
        List.iter (fun (id, r) ->
          let m = List.find_map (fun (mid, mo) -> if coq_to_bytes mid = id then Some (int_of_out mo) else None) mrs in
          judge id r m) obs
      | [I "2"; t], _ -> diff ("unexpected error: " ^ as_bytes t)
      | _, Panic -> diff "model: panic"
      | _, _ -> diff "malformed observation"
    end else begin
      let amodel = if fieldsbad then ApiInvalidArgument else rec_api_batch maxn [] citems in
      match as_list observed, amodel with
      | [I "0"; I "0"; _; _], ApiInvalidArgument -> ()
      | [I "0"; I "0"; _; _], ApiValidationError r -> diff ("InvalidArgument, model: validation error " ^ reject_s r)
      | [I "0"; I "0"; _; _], ApiResults _ -> prop "a valid batch was rejected by the proto rules"
      | [I "0"; I "1"; c; dupid], ApiValidationError r ->
        if as_int c <> reject_class r then diff (Printf.sprintf "rejected with class %d, model %s" (as_int c) (reject_s r))
        else (match r with RDupId id when coq_to_bytes id <> as_bytes dupid ->
                diff (Printf.sprintf "duplicate id reported %S, model %S" (as_bytes dupid) (coq_to_bytes id)) | _ -> ())
      | [I "0"; I "1"; c; _], ApiInvalidArgument -> diff (Printf.sprintf "validation error class %d, model: InvalidArgument" (as_int c))
      | [I "0"; I "1"; c; _], ApiResults _ -> prop (Printf.sprintf "a valid batch was rejected (class %d)" (as_int c))
      | [I "1"; _], (ApiInvalidArgument | ApiValidationError _) -> prop "a malformed batch was evaluated"
      | [I "1"; rs], ApiResults mrs ->
        let obs = List.map (fun v -> match as_list v with [id; o] -> (as_bytes id, as_int o) | _ -> failwith "result") (as_list rs) in
        check_ids (List.map fst obs);
        List.iter (fun (id, r) ->
          match find_idx id with
          | None -> prop (Printf.sprintf "the response holds an id that is not in the request: %S" id)
          | Some (idx, it) ->
            let m = List.find_map (fun (mid, mo) -> if coq_to_bytes mid = id then Some (int_of_api_item mo) else None) mrs in
            let rep = List.find (fun (_, x) -> x.key = it.key) indexed in
            (* api codes are coarser than outcome classes *)
            let admits (i, x) code = List.exists (fun o -> api_of_out o = code) (cands i x) in
            let masked (x : item) = cache && x.out = 4 && x.deep <> 4 && r = api_of_out x.deep in
            (match m with
             | Some m -> if m <> r && not (admits rep r) && not (masked (snd rep)) then
                 diff (Printf.sprintf "id %s: observed %s, model %s" id (api_s r) (api_s m))
             | None -> diff (Printf.sprintf "id %s: not in the model's response" id));
            if not (admits (idx, it) r) then begin
              let txt = Printf.sprintf "id %s: batch item %s, standalone outcome %s (= %s)" id (api_s r) (out_s it.out) (api_s (api_of_out it.out)) in
              if masked it then known ("cache_masks_depth_limit " ^ txt)
              else if in_collision it && it.dupctx && admits rep r then known ("ctx_tuple_dup_order " ^ txt) else prop txt
            end) obs
      | [I "2"; t], _ -> diff ("unexpected error: " ^ as_bytes t)
      | _, ApiPanic -> diff "model: panic"
      | _, _ -> diff "malformed observation"
    end);
    (match !props, !diffs, !knowns with
     | p :: _, _, _ -> "PROP " ^ p ^ (match !diffs with d :: _ -> " || also model-diff: " ^ d | [] -> "")
     | [], d :: _, _ -> "DIFF " ^ d
     | [], [], k :: _ -> "KNOWN " ^ k
     | [], [], [] -> "OK")
  | _ -> "DIFF malformed-record"

let () = run_oracle f
