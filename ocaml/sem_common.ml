(* Shared by the query oracles: decoding of scenario records (harness/lib/scen) into the Coq
   vocabulary of Sem/Vocab.v.  Requires the extracted module to contain the Vocab types. *)

let mk_obj t i = { otype = n_of_int t; oid = n_of_int i }

let dec_subject v =
  match as_list v with
  | [I "0"; t; i] -> SObj (mk_obj (as_int t) (as_int i))
  | [I "1"; t] -> SWild (n_of_int (as_int t))
  | [I "2"; t; i; r] -> SSet (mk_obj (as_int t) (as_int i), n_of_int (as_int r))
  | _ -> failwith "subject"

let rec dec_rw v =
  match as_list v with
  | [I "0"] -> This
  | [I "1"; r] -> Computed (n_of_int (as_int r))
  | [I "2"; ts; c] -> TTU (n_of_int (as_int ts), n_of_int (as_int c))
  | I "3" :: ks -> Union (List.map dec_rw ks)
  | I "4" :: ks -> Inter (List.map dec_rw ks)
  | [I "5"; b; s] -> Diff (dec_rw b, dec_rw s)
  | _ -> failwith "rewrite"

let dec_restr v =
  match as_list v with
  | [t; k; r; c] ->
    let kind = match as_int k with 0 -> RObj | 1 -> RWild | _ -> RSet (n_of_int (as_int r)) in
    { r_type = n_of_int (as_int t); r_kind = kind; r_cond = n_of_int (as_int c) }
  | _ -> failwith "restriction"

let dec_model v =
  List.map (fun td ->
    match as_list td with
    | [t; rds] ->
      { td_type = n_of_int (as_int t);
        td_rels = List.map (fun rd ->
          match as_list rd with
          | [r; rw; rs] -> { rd_rel = n_of_int (as_int r); rd_rw = dec_rw rw; rd_restr = List.map dec_restr (as_list rs) }
          | _ -> failwith "reldef") (as_list rds) }
    | _ -> failwith "typedef") (as_list v)

let dec_b3 v = match as_int v with 0 -> T | 1 -> F | _ -> E

let dec_tuple v =
  match as_list v with
  | [ot; oi; r; s; c; ce] ->
    { t_obj = mk_obj (as_int ot) (as_int oi); t_rel = n_of_int (as_int r); t_sub = dec_subject s;
      t_cond = n_of_int (as_int c); t_ceval = dec_b3 ce }
  | _ -> failwith "tuple"

let dec_atom v =
  match as_list v with
  | [ot; oi; r] -> (mk_obj (as_int ot) (as_int oi), n_of_int (as_int r))
  | _ -> failwith "atom"

let dec_pair v =
  match as_list v with
  | [a; b] -> (n_of_int (as_int a), n_of_int (as_int b))
  | _ -> failwith "pair"

let b3s = function T -> "T" | F -> "F" | E -> "E"
let subj_s s = match s with
  | SObj o -> Printf.sprintf "t%d:%d" (int_of_n o.otype) (int_of_n o.oid)
  | SWild t -> Printf.sprintf "t%d:*" (int_of_n t)
  | SSet (o, r) -> Printf.sprintf "t%d:%d#r%d" (int_of_n o.otype) (int_of_n o.oid) (int_of_n r)
let obj_s (o : obj) = Printf.sprintf "t%d:%d" (int_of_n o.otype) (int_of_n o.oid)
