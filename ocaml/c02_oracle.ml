(* C02 oracle.  Record kinds (first value), see harness/cmd/c02:
   1 model conds tuples atoms maxdepth subjects
       subjects = ((subject pathx ((ot oi r base ((outcome...) per planner)) ...)) ...)
       planners: 0 default 1 weight2 2 recursive 3 seeded per key 4 seeded per call
     Every outcome of every planner/tuning/repetition must agree with the reference semantics
     Sem.holds3 (PROP otherwise; KNOWN when the default-engine model raises a listed trigger and
     reproduces the outcome); all decisions of one request must be equal (PROP "answer depends on
     strategy/tuning"); the default planner's outcomes must be outcomes of Check/V1.v (DIFF).
   2 n edges direct start depth outcomes     recursive strategy vs Check/V1Recursive.rec_check
   3 op streams values failed                fast paths vs Check/V1Weight2.fp_*_c
   4 left right outcomes                     weight2 vs Check/V1Weight2.weight2 (all schedules)
   5 model conds tuples atoms maxdepth subjects   ListObjects engines vs {o | holds3 = T}
   6 ctxt stored objs failed                 sorted ReadStartingWithUser producer vs V1FastPathSource.source_impl *)

let aout_s = function AT -> "T" | AFn -> "F" | AFc -> "Fcycle" | AEc -> "Econd" | AEd -> "Edepth" | AEo -> "Eother" | AFuel -> "FUEL"
let impl_s = function 0 -> "T" | 1 -> "F" | 2 -> "Fcycle" | 3 -> "Econd" | 4 -> "Edepth" | 5 -> "Eother" | 6 -> "timeout" | 7 -> "invalid" | _ -> "?"
let impl_aout = function 0 -> Some AT | 1 -> Some AFn | 2 -> Some AFc | 3 -> Some AEc | 4 -> Some AEd | 5 -> Some AEo | _ -> None
let planner_s = function 0 -> "default" | 1 -> "weight2" | 2 -> "recursive" | 3 -> "perkey" | 4 -> "percall" | _ -> "?"
(* decision class: 0 allowed, 1 denied, 2 error *)
let dclass = function 0 -> 0 | 1 | 2 -> 1 | _ -> 2

(* Cross-check of extraction: with ORACLE_DUMP=<file> the values the EXTRACTED strategy models compute
   for the direct-feed cases (kinds 2, 3, 4, 6) are appended to that file, one line per case, before
   any comparison with the implementation; bin/coqreplay_c02.py recomputes them inside Coq. *)
let dump_chan = match Sys.getenv_opt "ORACLE_DUMP" with
  | Some p when p <> "" -> Some (open_out_gen [Open_append; Open_creat] 0o644 p)
  | _ -> None
let dump id (nums : int list) =
  match dump_chan with
  | Some ch -> output_string ch (id ^ " " ^ String.concat " " (List.map string_of_int nums) ^ "\n")
  | None -> ()
let alt_sched = [false; true; false; true; false; true; false; true; false; true; false; true]

let ints v = List.map as_int (as_list v)
let nl l = List.map n_of_int l
let il l = List.map int_of_n l
let show l = "[" ^ String.concat "," (List.map string_of_int l) ^ "]"

(* some read that a strategy may issue returns both a tuple whose condition is met and one whose
   condition cannot be evaluated: same (object, relation), or same (object type, relation) with
   the request's user / its type's wildcard as subject (ReadStartingWithUser) *)
let swallow_possible m cs store subj =
  let valid = List.filter (fun t -> valid_for_read m cs t) store in
  let same_or t u = t.t_obj = u.t_obj && t.t_rel = u.t_rel in
  let by_user t = (t.t_sub = subj) || (match t.t_sub, subj with SWild ty, SObj o -> ty = o.otype | _ -> false) in
  let same_rsu t u = t.t_obj.otype = u.t_obj.otype && t.t_rel = u.t_rel && by_user t && by_user u in
  List.exists (fun t -> t.t_ceval = E &&
    List.exists (fun u -> u.t_ceval = T && (same_or t u || same_rsu t u)) valid) valid

(* the user side of the fast paths reads ReadStartingWithUser(type, relation, {user, user:*}) sorted
   by object; the request storage wrapper (CombinedTupleReader) drops the second tuple of the same
   object BEFORE the condition filter runs: trigger = two valid tuples of one (object, relation),
   both matching the user filter, one with its condition met and one not *)
let dedup_possible m cs store subj =
  let valid = List.filter (fun t -> valid_for_read m cs t) store in
  let by_user t = (t.t_sub = subj) || (match t.t_sub, subj with SWild ty, SObj o -> ty = o.otype | _ -> false) in
  List.exists (fun t -> by_user t && t.t_ceval = T &&
    List.exists (fun u -> by_user u && u.t_ceval <> T && u.t_sub <> t.t_sub && u.t_obj = t.t_obj && u.t_rel = t.t_rel) valid) valid

let scenario_common model conds tuples atoms =
  let m = dec_model model in
  let cs = List.map (fun c -> n_of_int (as_int c)) (as_list conds) in
  let store = List.map dec_tuple (as_list tuples) in
  let ats = List.map dec_atom (as_list atoms) in
  let has_e = List.exists (fun t -> t.t_ceval = E && valid_for_read m cs t) store in
  (m, cs, store, ats, has_e)

let kind1 model conds tuples atoms maxdepth subjects =
  let (m, cs, store, ats, has_e) = scenario_common model conds tuples atoms in
  let md = nat_of_int (as_int maxdepth) in
  let fuel = nat_of_int (List.length ats + 3) in
  let strat = stratified m in
  let props = ref [] and diffs = ref [] and knowns = ref [] in
  List.iter (fun sv ->
    match as_list sv with
    | [s; px; results] ->
      let subj = dec_subject s in
      let pathx = List.map dec_pair (as_list px) in
      let (v, conv) = lfp m cs store subj ats in
      let sw_any = lazy (swallow_possible m cs store subj) in
      let dd_any = lazy (dedup_possible m cs store subj) in
      List.iter (fun rv ->
        match as_list rv with
        | [ot; oi; r; base; pouts] ->
          let o = mk_obj (as_int ot) (as_int oi) in
          let rel = n_of_int (as_int r) in
          let base = as_int base in
          let pouts = List.map ints (as_list pouts) in
          if base <> 7 then begin
            let spec = atomval subj v o rel in
            let (oset, tr) = check_top m cs store subj pathx md fuel o rel in
            let where = Printf.sprintf "%s#r%d@%s" (obj_s o) (int_of_n rel) (subj_s subj) in
            let defined = strat && conv in
            if List.mem AFuel oset then diffs := (where ^ " model out of fuel") :: !diffs
            else begin
              (* the default planner's outcomes are outcomes of the default-engine model *)
              List.iter (fun impl ->
                let in_model = match impl_aout impl with Some a -> List.mem a oset | None -> false in
                (* Check/V1.v reads all userset types of a relation with ONE condition filter; the code
                   gives every weight-2-eligible userset type its own iterator and filter (also when the
                   default strategy is chosen), so an evaluation error that V1 sees swallowed can surface:
                   an evaluation error is accepted here whenever one exists (has_e) *)
                if not in_model && not (impl = 3 && has_e) then
                  diffs := (Printf.sprintf "%s default-strategy impl=%s model={%s} spec=%s" where (impl_s impl)
                              (String.concat "," (List.map aout_s oset)) (b3s spec)) :: !diffs)
                (match pouts with d :: _ -> d | [] -> []);
              (* every outcome against the reference semantics *)
              let all = List.concat (List.mapi (fun p outs -> List.map (fun x -> (p, x)) outs) pouts) in
              let all_ok = ref true in
              List.iter (fun (p, impl) ->
                let in_model = match impl_aout impl with Some a -> List.mem a oset | None -> false in
                let wrong =
                  if not defined then None
                  else match impl, spec with
                    | 0, T -> None
                    | 0, _ -> Some "allowed although the reference semantics does not grant it"
                    | (1 | 2), F -> None
                    | (1 | 2), T -> Some "denied although the reference semantics grants it"
                    | (1 | 2), E -> Some "denied although a condition that decides the answer could not be evaluated"
                    | 3, _ -> if has_e then None else Some "condition error although every condition can be evaluated"
                    | 4, _ -> if List.mem AEd oset then None else Some "depth error within the depth limit"
                    | _, _ -> Some "unexpected error"
                in
                match wrong with
                | None -> ()
                | Some why ->
                  all_ok := false;
                  let txt = Printf.sprintf "%s planner=%s impl=%s spec=%s: %s" where (planner_s p) (impl_s impl) (b3s spec) why in
                  if in_model && tr.tr_excl_sub_cycle then knowns := ("excl_sub_cycle " ^ txt) :: !knowns
                  else if spec = E && impl <= 2 && (if p = 0 then in_model && tr.tr_swallow else (in_model && tr.tr_swallow) || Lazy.force sw_any)
                  then knowns := ("cond_err_swallowed " ^ txt) :: !knowns
                  else if p <> 0 && impl <= 2 && Lazy.force dd_any
                  then knowns := ("fastpath_dedup_before_condition " ^ txt) :: !knowns
                  else props := txt :: !props) all;
              (* the answer must not depend on strategy / tuning / repetition *)
              let classes = List.sort_uniq compare (List.map (fun (_, x) -> dclass x) all) in
              if List.length classes > 1 then begin
                let txt = Printf.sprintf "%s answer depends on strategy/tuning: %s (spec=%s)" where
                    (String.concat " " (List.mapi (fun p outs -> planner_s p ^ "={" ^ String.concat "," (List.map impl_s outs) ^ "}") pouts)) (b3s spec) in
                if not !all_ok then ()   (* the wrong outcomes were reported above (PROP or KNOWN) *)
                else if (not defined) && tr.tr_excl_sub_cycle then knowns := ("excl_sub_cycle " ^ txt) :: !knowns
                else if has_e && List.for_all (fun (_, x) -> x <= 3) all
                then knowns := ("cond_err_outcome_varies " ^ txt) :: !knowns   (* only "evaluation error" vs decision is left *)
                else props := txt :: !props
              end
            end
          end
        | _ -> failwith "result") (as_list results)
    | _ -> failwith "subject entry") (as_list subjects);
  (match !props, !diffs, !knowns with
   | p :: _, _, _ -> "PROP " ^ p ^ (match !diffs with d :: _ -> " || also model-diff: " ^ d | [] -> "")
   | [], d :: _, _ -> "DIFF " ^ d
   | [], [], (_ :: _ as ks) ->
     (* one flag per record: prefer the rarer ones so that each gets reported *)
     let pick f = List.find_opt (fun k -> String.length k >= String.length f && String.sub k 0 (String.length f) = f) ks in
     (match pick "fastpath_dedup_before_condition", pick "cond_err_outcome_varies", pick "cond_err_swallowed" with
      | Some k, _, _ -> "KNOWN " ^ k
      | None, Some k, _ -> "KNOWN " ^ k
      | None, None, Some k -> "KNOWN " ^ k
      | None, None, None -> "KNOWN " ^ List.hd ks)
   | [], [], [] -> "OK")

(* ---- kind 2 ---- *)
let bres_impl = function BTrue -> 0 | BFalse -> 1 | BErr -> 3 | BDepth -> 4 | BFuel -> 99
let kind2 id edges direct start depth outs =
  let es = List.map (fun e -> match ints e with [a; b] -> (n_of_int a, n_of_int b) | _ -> failwith "edge") (as_list edges) in
  let r = rec_check es (nl (ints direct)) (nat_of_int (as_int depth)) (n_of_int (as_int start)) in
  let exp = bres_impl r in
  dump id [2; exp];
  let outs = ints outs in
  if exp = 99 then "DIFF BFS model out of fuel"
  else if outs = [exp] then "OK"
  else Printf.sprintf "DIFF recursive strategy: impl=%s model=%s" (String.concat "," (List.map impl_s outs)) (impl_s exp)

(* ---- kind 3 ---- *)
let dec_chunk v =
  match ints v with
  | 0 :: l -> Ch (nl l, false)
  | 1 :: l -> Ch (nl l, true)
  | [2] -> ChErr
  | 3 :: l -> cond_chunk (List.map (fun e -> (n_of_int (e / 4), n_of_int (e mod 4))) l)
  | _ -> failwith "chunk"
let kind3 id op streams vals failed =
  let css = List.map (fun s -> List.map dec_chunk (as_list s)) (as_list streams) in
  let r = match as_int op, css with
    | 0, _ -> fp_union_c css
    | 1, _ -> fp_inter_c css
    | _, [a; b] -> fp_diff_c a b
    | _ -> failwith "difference needs two streams" in
  let vals = ints vals and failed = as_int failed in
  (match r with
   | FPDone l -> dump id (3 :: 0 :: List.length l :: il l)
   | FPFail l -> dump id (3 :: 1 :: List.length l :: il l)
   | FPFuel -> dump id [3; 2; 0]);
  (* the property's own predicate (c02_fp_*_chunked): failure-free strictly sorted operands give
     exactly the sorted set union / intersection / difference *)
  let flat cs = List.concat_map (function Ch (l, _) -> il l | ChErr -> []) cs in
  let clean = List.for_all (List.for_all (function Ch (_, false) -> true | _ -> false)) css in
  let rec ssorted = function a :: (b :: _ as t) -> a < b && ssorted t | _ -> true in
  let flats = List.map flat css in
  let spec_violation =
    if not (clean && List.for_all ssorted flats) || flats = [] then None
    else begin
      let expected = match as_int op, flats with
        | 0, _ -> List.sort_uniq compare (List.concat flats)
        | 1, f0 :: rest -> List.filter (fun x -> List.for_all (List.mem x) rest) f0
        | _, [a; b] -> List.filter (fun x -> not (List.mem x b)) a
        | _ -> [] in
      if failed = 0 && vals = expected then None
      else Some (Printf.sprintf "PROP fast path %s of failure-free sorted streams: implementation sent %s (failed=%d), the set result is %s"
                   (match as_int op with 0 -> "union" | 1 -> "intersection" | _ -> "difference") (show vals) failed (show expected))
    end in
  match spec_violation with Some p -> p | None ->
  match r with
  | FPFuel -> if failed = 2 then "OK" else "DIFF model does not terminate, implementation does"
  | FPDone l -> if failed = 0 && il l = vals then "OK"
    else Printf.sprintf "DIFF fast path op=%d impl=%s failed=%d model=done %s" (as_int op) (show vals) failed (show (il l))
  | FPFail l -> if failed = 1 && il l = vals then "OK"
    else Printf.sprintf "DIFF fast path op=%d impl=%s failed=%d model=failed after %s" (as_int op) (show vals) failed (show (il l))

(* ---- kind 4 ---- *)
let dec_item x = if x = 0 then IFail else IVal (n_of_int (x - 1))
let dec_lmsg v = match ints v with 0 :: l -> LIter (List.map dec_item l) | [2] -> LErr | _ -> failwith "lmsg"
let rec interleavings (chs : 'a list list) : 'a list list =
  let chs = List.filter (fun c -> c <> []) chs in
  if chs = [] then [[]]
  else List.concat (List.mapi (fun i c ->
      match c with
      | x :: rest ->
        let others = List.mapi (fun j d -> if i = j then rest else d) chs in
        List.map (fun l -> x :: l) (interleavings others)
      | [] -> []) chs)
let rec schedules n = if n = 0 then [[]] else List.concat_map (fun s -> [true :: s; false :: s]) (schedules (n - 1))
let w2_out = function None -> 99 | Some r -> if r.w_err then 2 else if r.w_allowed then 0 else 1
let kind4 id left right outs =
  let chans = List.map (fun c -> List.map dec_lmsg (as_list c)) (as_list left) in
  let right = List.map (fun x -> if x = 0 then RErr else RVal (n_of_int (x - 1))) (ints right) in
  let outs = ints outs in
  let clean = List.for_all (fun c -> left_ok c) chans && right_ok right in
  let nmsgs = List.fold_left (fun a c -> a + List.length c) 0 chans in
  dump id [4; w2_out (weight2 [] (List.concat chans) right); w2_out (weight2 alt_sched (List.concat chans) right)];
  let possible =
    if clean then [w2_out (weight2 [] (List.concat chans) right)]
    else begin
      let scheds = schedules (min 12 (nmsgs + List.length right + 2)) in
      List.sort_uniq compare (List.concat_map (fun l -> List.map (fun s -> w2_out (weight2 s l right)) scheds) (interleavings chans))
    end in
  let spec_ok =
    (* the proved set-level statement, checked on the implementation's outcome directly *)
    let inter = intersects (lvals (List.concat chans)) (rvals right) in
    List.for_all (fun o -> (o <> 0 || inter) && (not clean || (o = 0) = inter)) outs in
  if List.mem 99 possible then "DIFF weight2 model out of fuel"
  else if not spec_ok then Printf.sprintf "PROP weight2 outcome %s contradicts the set intersection" (show outs)
  else if List.for_all (fun o -> List.mem o possible) outs then "OK"
  else Printf.sprintf "DIFF weight2 impl=%s model=%s" (show outs) (show possible)

(* ---- kind 5 ---- *)
let engine_s = function 0 -> "classic" | 1 -> "optimised" | 2 -> "pipeline(100,128,3)" | 3 -> "pipeline(1,0,1)" | 4 -> "pipeline(2,1,2)" | 5 -> "pipeline(3,7,8)" | _ -> "?"
let engine_family = function 0 -> 0 | 1 -> 1 | _ -> 2

let rec count_this = function
  | This -> 1 | Computed _ | TTU (_, _) -> 0
  | Union l | Inter l -> List.fold_left (fun a x -> a + count_this x) 0 l
  | Diff (b, s) -> count_this b + count_this s
let rec has_inter_diff = function
  | This | Computed _ | TTU (_, _) -> false
  | Union l -> List.exists has_inter_diff l
  | Inter _ | Diff (_, _) -> true
let all_reldefs m = List.concat_map (fun td -> td.td_rels) m
(* model-wide features (the engines walk the whole graph reachable from the query; reachability is
   not re-derived here) *)
let dup_this m = List.exists (fun rd -> count_this rd.rd_rw > 1) (all_reldefs m)
let model_inter_diff m = List.exists (fun rd -> has_inter_diff rd.rd_rw) (all_reldefs m)
let model_conditions m = List.exists (fun rd -> List.exists (fun d -> d.r_cond <> N0) rd.rd_restr) (all_reldefs m)

(* a stored tuple that validation accepts only because ANOTHER restriction of the same user type
   carries its condition (DESIGN.md F4): strict = some restriction matches type, kind and condition *)
let strictly_valid m t =
  match List.find_opt (fun td -> td.td_type = t.t_obj.otype) m with
  | None -> false
  | Some td ->
    (match List.find_opt (fun rd -> rd.rd_rel = t.t_rel) td.td_rels with
     | None -> false
     | Some rd ->
       List.exists (fun d ->
         d.r_type = (match t.t_sub with SObj o -> o.otype | SWild ty -> ty | SSet (o, _) -> o.otype) &&
         d.r_cond = t.t_cond &&
         (match d.r_kind, t.t_sub with
          | RObj, SObj _ -> true | RWild, SWild _ -> true | RSet r, SSet (_, r') -> r = r' | _ -> false)) rd.rd_restr)

let kind5 model conds tuples atoms maxdepth subjects =
  let (m, cs, store, ats, has_e) = scenario_common model conds tuples atoms in
  let md = nat_of_int (as_int maxdepth) in
  let fuel = nat_of_int (List.length ats + 3) in
  let strat = stratified m in
  let strict_store = List.filter (fun t -> not (valid_for_read m cs t) || strictly_valid m t) store in
  let loose_tuples = List.length strict_store <> List.length store in
  let props = ref [] and knowns = ref [] in
  if has_e || not strat then "OK"
  else begin
  List.iter (fun sv ->
    match as_list sv with
    | [s; px; queries] ->
      let subj = dec_subject s in
      let pathx = List.map dec_pair (as_list px) in
      let (v, conv) = lfp m cs store subj ats in
      let vstrict = lazy (fst (lfp m cs strict_store subj ats)) in
      if conv then
      List.iter (fun qv ->
        match as_list qv with
        | [t; r; engines] ->
          let ty = n_of_int (as_int t) and rel = n_of_int (as_int r) in
          let objs = List.sort_uniq compare (List.filter_map (fun (o, _) -> if o.otype = ty then Some o else None) ats) in
          let set_of vv = List.sort compare (List.filter_map (fun o ->
              if atomval subj vv o rel = T then Some (int_of_n o.otype, int_of_n o.oid) else None) objs) in
          let expected = set_of v in
          let show_set l = "{" ^ String.concat "," (List.map (fun (a, b) -> Printf.sprintf "t%d:%d" a b) l) ^ "}" in
          let res = List.map (fun ev ->
              match as_list ev with
              | [ei; ec; os] ->
                (as_int ei, as_int ec,
                 List.sort compare (List.map (fun p -> match ints p with [a; b] -> (a, b) | _ -> failwith "obj") (as_list os)))
              | _ -> failwith "engine") (as_list engines) in
          if List.for_all (fun (_, ec, _) -> ec = 7) res then ()   (* request rejected by validation, by every engine *)
          else begin
            (* 6 = not run, 4 = cut short by the deadline (inconclusive: not a complete set) *)
            let bad = List.filter (fun (_, ec, got) -> ec <> 6 && ec <> 4 && (ec <> 0 || got <> expected)) res in
            if bad <> [] then begin
              let trig = lazy (List.fold_left (fun (a, b, c) o ->
                  let (oset, tr) = check_top m cs store subj pathx md fuel o rel in
                  (a || tr.tr_excl_sub_cycle, b || tr.tr_swallow, c || List.mem AFuel oset || List.mem AEd oset)) (false, false, false) objs) in
              List.iter (fun (ei, ec, got) ->
                let where = Printf.sprintf "ListObjects(t%d#r%d@%s) engine=%s" (as_int t) (as_int r) (subj_s subj) (engine_s ei) in
                let txt = if ec <> 0 then Printf.sprintf "%s error class %d, reference set %s" where ec (show_set expected)
                  else Printf.sprintf "%s returned %s, reference set %s" where (show_set got) (show_set expected) in
                let subset = ec = 0 && List.for_all (fun x -> List.mem x expected) got in
                let (t_excl, t_sw, t_depth) = Lazy.force trig in
                let fam = engine_family ei in
                if t_excl then knowns := ("excl_sub_cycle " ^ txt) :: !knowns
                else if t_sw then knowns := ("cond_err_swallowed " ^ txt) :: !knowns
                else if t_depth then ()
                else if fam = 2 && ec = 5 && dup_this m then knowns := ("lo_pipeline_hang_dup_this " ^ txt) :: !knowns
                else if fam = 1 && ec = 3 && dup_this m then knowns := ("lo_optimised_error_dup_this " ^ txt) :: !knowns
                else if fam = 2 && ec = 0 && loose_tuples && got = set_of (Lazy.force vstrict)
                then knowns := ("lo_pipeline_strict_condition " ^ txt) :: !knowns
                else if fam = 1 && subset && model_inter_diff m &&
                        List.for_all (fun (ej, ec', got') -> engine_family ej = 1 || ec' = 6 || ec' = 4 || (ec' = 0 && got' = expected)) res
                then knowns := ("lo_optimised_misses_objects " ^ txt) :: !knowns
                else props := (Printf.sprintf "%s [subset=%b dup_this=%b inter_diff=%b conds=%b loose=%b]" txt subset (dup_this m)
                                 (model_inter_diff m) (model_conditions m) loose_tuples) :: !props) bad
            end
          end
        | _ -> failwith "query") (as_list queries)
    | _ -> failwith "subject entry") (as_list subjects);
  match List.rev !props, !knowns with
  | [], [] -> "OK"
  | [], k :: _ -> "KNOWN " ^ k
  | ps, _ -> "PROP " ^ String.concat " || " (List.filteri (fun i _ -> i < 6) ps)
  end

(* ---- kind 6 ---- *)
let kind6 id ctxt stored objs failed =
  let dec l = List.map (fun p -> match ints p with [o; c] -> (n_of_int o, n_of_int c) | _ -> failwith "stup") (as_list l) in
  let (mo, me) = source_impl (dec ctxt) (dec stored) in
  dump id (6 :: (if me then 1 else 0) :: List.length mo :: il mo);
  let objs = ints objs and failed = as_int failed <> 0 in
  if il mo = objs && me = failed then "OK"
  else Printf.sprintf "DIFF sorted producer impl=%s failed=%b model=%s failed=%b" (show objs) failed (show (il mo)) me

let f _id vs =
  match vs with
  | [I "1"; model; conds; tuples; atoms; maxdepth; subjects] -> kind1 model conds tuples atoms maxdepth subjects
  | [I "2"; _n; edges; direct; start; depth; outs] -> kind2 _id edges direct start depth outs
  | [I "3"; op; streams; vals; failed] -> kind3 _id op streams vals failed
  | [I "4"; left; right; outs] -> kind4 _id left right outs
  | [I "6"; ctxt; stored; objs; failed] -> kind6 _id ctxt stored objs failed
  | [I "5"; model; conds; tuples; atoms; maxdepth; subjects] -> kind5 model conds tuples atoms maxdepth subjects
  | _ -> "DIFF malformed-record"

let () = run_oracle f; (match dump_chan with Some ch -> close_out ch | None -> ())
