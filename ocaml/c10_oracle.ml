(* C10 oracle: replays one recorded history (one server configuration) on the request-level model
   of Cache/Consistency.v (`replay` / `predictions`).

   record = cfg ops
     cfg = ( query iter lo_iter shared ctrl v2 )
     op  = ( 0 )                                            a Write / delete through the API
         | ( 1 api hi key ref obs unstable ( clobber* ) fault )   one request (BatchCheck: one per item);
                                                            fault = 1: the datastore reads of the server under test were made
                                                            to fail during the request
   api: 0 Check, 1 BatchCheck item, 2 ListObjects, 3 ListUsers; answers are opaque codes interned by
   the driver (0 denied, 1 allowed, 2 = Request Cancelled, 3..99 other error classes, 100.. result sets); `ref` is the answer of a
   cache-less server with the same engine on the same store state.
   unstable = 1: two reference evaluations on the same store state disagreed (engine
   non-determinism that has nothing to do with caching): the case is not judged.

   verdict of the model per request: 0 ok; 1 = the answer of a cached request is not one the model
   allows (DIFF: model and implementation differ); 2 = the answer of a HIGHER_CONSISTENCY request,
   or of a request that passes through no cache, is not the reference answer (PROP). *)

let cfg_of v =
  match List.map as_bool (as_list v) with
  | [q; i; l; s; c; v2] -> { r_query = q; r_iter = i; r_lo_iter = l; r_shared = s; r_ctrl = c; r_v2 = v2 }
  | _ -> failwith "cfg"

let op_of v =
  match as_list v with
  | [I "0"] -> (RWrite, false)
  | [I "1"; api; hi; key; rf; obs; unst; cl; fault] ->
    (RReq { rq_api = as_n api; rq_hi = as_bool hi; rq_key = as_n key; rq_ref = as_n rf; rq_obs = as_n obs;
            rq_clobber = List.map as_n (as_list cl); rq_fault = as_bool fault }, as_bool unst)
  | _ -> failwith "op"

let api_name a = match int_of_n a with 0 -> "Check" | 1 -> "BatchCheck" | 2 -> "ListObjects" | _ -> "ListUsers"

let show_pred = function
  | PExact a -> "exactly " ^ dec_of_n a
  | PExactOrCancelled a -> "exactly " ^ dec_of_n a ^ " (or 2 = Request Cancelled, shared iterator)"
  | PExactOrError a -> "exactly " ^ dec_of_n a ^ " or an error (injected datastore fault), never another decision"
  | PAnyAnswer -> "any"

(* Cross-check of extraction: with ORACLE_DUMP=<file> one line per case is appended with what the
   EXTRACTED model computed for the history: per request the verdict of `replay` and the prediction
   of `predictions` (kind 0 exact / 1 exact-or-cancelled / 2 exact-or-error / 3 any, and its answer);
   bin/coqreplay_c10.py recomputes the same numbers inside Coq (vm_compute). *)
let dump_chan = match Sys.getenv_opt "ORACLE_DUMP" with
  | Some p when p <> "" -> Some (open_out_gen [Open_append; Open_creat] 0o644 p)
  | _ -> None
let pred_code = function
  | PExact a -> [0; int_of_n a] | PExactOrCancelled a -> [1; int_of_n a]
  | PExactOrError a -> [2; int_of_n a] | PAnyAnswer -> [3; 0]
let dump id c h =
  match dump_chan with
  | None -> ()
  | Some ch ->
    let vs = List.map int_of_n (replay c rs0 h) in
    let ps = List.map (fun (_, p) -> pred_code p) (predictions c rs0 h) in
    let nums = (try List.concat (List.map2 (fun v p -> v :: p) vs ps) with Invalid_argument _ -> [-1]) in
    output_string ch (id ^ " " ^ String.concat " " (List.map string_of_int nums) ^ "\n"); flush ch

let f id vs =
  match vs with
  | [cfgv; opsv] ->
    let c = cfg_of cfgv in
    let ops = List.map op_of (as_list opsv) in
    dump id c (List.map fst ops);
    if List.exists snd ops then "OK"
    else begin
      let h = List.map fst ops in
      let verdicts = replay c rs0 h in
      let preds = predictions c rs0 h in
      (* first PROP, else first DIFF *)
      let rec find want i vl pl =
        match vl, pl with
        | v :: vl', (r, p) :: pl' ->
          if int_of_n v = want then
            Some (Printf.sprintf "request #%d %s %s key=%s: observed=%s reference=%s model predicts %s"
                    i (api_name r.rq_api) ((if r.rq_hi then "HIGHER_CONSISTENCY" else "cached") ^ (if r.rq_fault then " under an injected datastore fault" else ""))
                    (dec_of_n r.rq_key) (dec_of_n r.rq_obs) (dec_of_n r.rq_ref) (show_pred p))
          else find want (i + 1) vl' pl'
        | _ -> None
      in
      if Sys.getenv_opt "C10_ORACLE_STATS" <> None then
        List.iter (fun (r, p) ->
            let k = match p with
              | PExact a when r.rq_hi -> "higher_exact"
              | PExact a when a <> r.rq_ref -> "cached_exact_STALE_top_level_hit"
              | PExact _ -> "cached_exact_reference"
              | PExactOrCancelled _ -> "cached_exact_or_cancelled"
              | PExactOrError _ -> "exact_or_error_under_fault"
              | PAnyAnswer -> if r.rq_obs = r.rq_ref then "cached_any_observed_fresh" else "cached_any_observed_stale" in
            prerr_endline k) preds;
      if List.length verdicts <> List.length preds then "DIFF model verdict count"
      else
        match find 2 0 verdicts preds with
        | Some s -> "PROP stale or wrong answer: " ^ s
        | None ->
          (match find 1 0 verdicts preds with
           | Some s -> "DIFF " ^ s
           | None -> "OK")
    end
  | _ -> "DIFF malformed record"

let () = run_oracle f
