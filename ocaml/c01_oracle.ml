(* C01 oracle.  Record: 1 model conds tuples atoms maxdepth subjects
   subjects = ( (subject pathx ((ot oi r impl) ...)) ... ), impl = outcome class of the real Check.
   For every request: impl must be one of the outcomes of the algorithm model Check/V1.v (else
   DIFF); impl's decision must agree with the reference semantics Sem.holds3 (else PROP, or KNOWN
   <trigger> when the algorithm model reproduces it and raises a listed trigger). *)

let aout_s = function AT -> "T" | AFn -> "F" | AFc -> "Fcycle" | AEc -> "Econd" | AEd -> "Edepth" | AEo -> "Eother" | AFuel -> "FUEL"
let impl_s = function 0 -> "T" | 1 -> "F" | 2 -> "Fcycle" | 3 -> "Econd" | 4 -> "Edepth" | 5 -> "Eother" | 6 -> "timeout" | 7 -> "invalid" | _ -> "?"
let impl_aout = function 0 -> Some AT | 1 -> Some AFn | 2 -> Some AFc | 3 -> Some AEc | 4 -> Some AEd | 5 -> Some AEo | _ -> None

(* Cross-check of extraction (thorough tier): with ORACLE_DUMP=<file> every model value computed here
   (reference value, outcome set as a bit mask, trigger flags, stratified, converged) is appended to
   that file, and bin/coqreplay_c01.py recomputes the same numbers inside Coq with vm_compute. *)
let dump_chan = match Sys.getenv_opt "ORACLE_DUMP" with
  | Some p when p <> "" -> Some (open_out_gen [Open_append; Open_creat] 0o644 p)
  | _ -> None
let aout_bit = function AT -> 1 | AFn -> 2 | AFc -> 4 | AEc -> 8 | AEd -> 16 | AEo -> 32 | AFuel -> 64
let b3_code = function T -> 0 | F -> 1 | E -> 2

let f _id vs =
  match vs with
  | [I "1"; model; conds; tuples; atoms; maxdepth; subjects] ->
    let m = dec_model model in
    let cs = List.map (fun c -> n_of_int (as_int c)) (as_list conds) in
    let store = List.map dec_tuple (as_list tuples) in
    let ats = List.map dec_atom (as_list atoms) in
    let md = nat_of_int (as_int maxdepth) in
    let fuel = nat_of_int (List.length ats + 3) in
    let strat = stratified m in
    let has_e = List.exists (fun t -> t.t_ceval = E && valid_for_read m cs t) store in
    let props = ref [] and diffs = ref [] and knowns = ref [] in
    List.iter (fun sv ->
      match as_list sv with
      | [s; px; results] ->
        let subj = dec_subject s in
        let pathx = List.map dec_pair (as_list px) in
        let (v, conv) = lfp m cs store subj ats in
        List.iter (fun rv ->
          match as_list rv with
          | [ot; oi; r; impl] ->
            let o = mk_obj (as_int ot) (as_int oi) in
            let rel = n_of_int (as_int r) in
            let impl = as_int impl in
            if impl <> 7 then begin
              let spec = atomval subj v o rel in
              let (oset, tr) = check_top m cs store subj pathx md fuel o rel in
              (match dump_chan with
               | Some ch ->
                 Printf.fprintf ch "%s %d %d %d %d %d %d\n" _id (b3_code spec)
                   (List.fold_left (fun acc a -> acc lor aout_bit a) 0 oset)
                   ((if tr.tr_excl_sub_cycle then 1 else 0) + (if tr.tr_swallow then 2 else 0))
                   (if strat then 1 else 0) (if conv then 1 else 0) impl
               | None -> ());
              let where = Printf.sprintf "%s#r%d@%s" (obj_s o) (int_of_n rel) (subj_s subj) in
              let in_model = match impl_aout impl with Some a -> List.mem a oset | None -> false in
              (* Check/V1.v reads all userset restrictions of a relation through ONE condition filter;
                 checkDirectUsersetTuples gives every weight-2-eligible userset type its own iterator and
                 filter.  The two differ only in whether an evaluation error that the single filter swallows
                 (a valid tuple of ANOTHER userset type passed) surfaces: a condition error is therefore an
                 outcome of the code exactly when the model's own swallow trigger fired on this request. *)
              let in_model = in_model || (impl = 3 && tr.tr_swallow) in
              let fuel_out = List.mem AFuel oset in
              (* decision-level agreement with the reference semantics *)
              let wrong =
                if not (strat && conv) then None
                else match impl, spec with
                  | 0, T -> None
                  | 0, _ -> Some "allowed although the reference semantics does not grant it"
                  | (1 | 2), F -> None
                  | (1 | 2), T -> Some "denied although the reference semantics grants it"
                  | (1 | 2), E -> Some "denied although a condition that decides the answer could not be evaluated"
                  | 3, _ -> if has_e then None else Some "condition error although every condition can be evaluated"
                  | 4, _ -> if List.mem AEd oset then None else Some "depth error within the depth limit"
                  | _, _ -> Some "unexpected error"
              in
              if fuel_out then diffs := (where ^ " model out of fuel") :: !diffs
              else begin
                if not in_model then
                  diffs := (Printf.sprintf "%s impl=%s model={%s} spec=%s" where (impl_s impl)
                              (String.concat "," (List.map aout_s oset)) (b3s spec)) :: !diffs;
                match wrong with
                | None -> ()
                | Some why ->
                  let txt = Printf.sprintf "%s impl=%s spec=%s: %s" where (impl_s impl) (b3s spec) why in
                  if in_model && tr.tr_excl_sub_cycle then knowns := ("excl_sub_cycle " ^ txt) :: !knowns
                  else if in_model && tr.tr_swallow then knowns := ("cond_err_swallowed " ^ txt) :: !knowns
                  else props := txt :: !props
              end
            end
          | _ -> failwith "result") (as_list results)
      | _ -> failwith "subject entry") (as_list subjects);
    (match !props, !diffs, !knowns with
     | p :: _, _, _ -> "PROP " ^ p ^ (match !diffs with d :: _ -> " || also model-diff: " ^ d | [] -> "")
     | [], d :: _, _ -> "DIFF " ^ d
     | [], [], k :: _ -> "KNOWN " ^ k
     | [], [], [] -> "OK")
  | _ -> "DIFF malformed-record"

let () = run_oracle f; (match dump_chan with Some ch -> close_out ch | None -> ())
