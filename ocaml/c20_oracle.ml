(* C20 oracle.
   Record: 1 with_model model conds tuples atoms maxdepth subjects calls slack_us leaked opens stops live watchdog_us
     subjects = ( (subject pathx ((ot oi r impl) ...)) ... )  as in the C01 record: impl = outcome
                class of the real Check (default strategy, no deadline) on Targets x relations;
     calls    = ( (api effective_deadline_us elapsed_us confirmed) ... )  the deadline / cancellation runs;
                confirmed = 1: the overrun repeated when the request was re-executed alone;
     leaked   = goroutines (not in the baseline, not allow-listed) still alive after the grace period;
     opens/stops/live = iterators handed out by the datastore / stopped / never stopped.

   Model side (with_model = 1), for every recorded request:
     - universe_closed must hold for the harness universe (else DIFF: the hypothesis of
       check_top_terminates is not met by the universe the harness builds);
     - check_top with fuel (maxdepth+1)*(max_rels+2)  [check_terminates_depth]  and with fuel
       |atoms|+1 [check_top_terminates] must not contain AFuel (else DIFF) and must agree with each
       other (check_fuel_irrelevant);
     - the implementation's outcome must be one of the model's outcomes (else DIFF);
     - a real Check (no deadline, small finite data) that did not return within the watchdog while
       the model decides within its fuel violates the property itself: queries terminate (PROP).
   Runtime side (the property's own predicate on the implementation's behaviour):
     - every call returned within effective deadline + slack            (else PROP)
     - no goroutine left after the grace period                          (else PROP)
     - every iterator was stopped                                        (else PROP). *)

let aout_s = function AT -> "T" | AFn -> "F" | AFc -> "Fcycle" | AEc -> "Econd" | AEd -> "Edepth" | AEo -> "Eother" | AFuel -> "FUEL"
let impl_s = function 0 -> "T" | 1 -> "F" | 2 -> "Fcycle" | 3 -> "Econd" | 4 -> "Edepth" | 5 -> "Eother" | 6 -> "timeout" | 7 -> "invalid" | _ -> "?"
let impl_aout = function 0 -> Some AT | 1 -> Some AFn | 2 -> Some AFc | 3 -> Some AEc | 4 -> Some AEd | 5 -> Some AEo | _ -> None
let api_s = function 0 -> "Check" | 1 -> "BatchCheck" | 2 -> "ListObjects" | 3 -> "StreamedListObjects" | 4 -> "ListUsers" | 5 -> "Expand" | _ -> "?"

(* Cross-check of extraction: with ORACLE_DUMP=<file> the values the extracted model computed
   (universe_closed, max_rels, outcome sets under both fuel bounds as bit masks) are appended, one
   line per request, and bin/coqreplay_c20.py recomputes them inside Coq with vm_compute. *)
let dump_chan = match Sys.getenv_opt "ORACLE_DUMP" with
  | Some p when p <> "" -> Some (open_out_gen [Open_append; Open_creat] 0o644 p)
  | _ -> None
let aout_bit = function AT -> 1 | AFn -> 2 | AFc -> 4 | AEc -> 8 | AEd -> 16 | AEo -> 32 | AFuel -> 64
let mask s = List.fold_left (fun acc a -> acc lor (aout_bit a)) 0 s

let same_set a b = List.for_all (fun x -> List.mem x b) a && List.for_all (fun x -> List.mem x a) b

let model_side id watchdog model conds tuples atoms maxdepth subjects =
  let m = dec_model model in
  let cs = List.map (fun c -> n_of_int (as_int c)) (as_list conds) in
  let store = List.map dec_tuple (as_list tuples) in
  let ats = List.map dec_atom (as_list atoms) in
  let mdi = as_int maxdepth in
  let md = nat_of_int mdi in
  let fuel_d = nat_of_int ((mdi + 1) * (int_of_nat (max_rels m) + 2)) in
  let fuel_a = nat_of_int (List.length ats + 1) in
  let diffs = ref [] and props = ref [] in
  let closed = universe_closed m cs store ats in
  if not closed then diffs := "the harness universe of atoms is not closed under sub-problems (universe_closed = false)" :: !diffs;
  List.iter (fun sv ->
    match as_list sv with
    | [s; px; results] ->
      let subj = dec_subject s in
      let pathx = List.map dec_pair (as_list px) in
      List.iter (fun rv ->
        match as_list rv with
        | [ot; oi; r; impl] ->
          let o = mk_obj (as_int ot) (as_int oi) in
          let rel = n_of_int (as_int r) in
          let impl = as_int impl in
          let where = Printf.sprintf "%s#r%d@%s" (obj_s o) (int_of_n rel) (subj_s subj) in
          let (set_d, _) = check_top m cs store subj pathx md fuel_d o rel in
          if List.mem AFuel set_d then
            diffs := (where ^ ": model out of fuel with the depth bound (maxdepth+1)*(max_rels+2)") :: !diffs;
          let set_a_opt = if closed && amem (o, rel) ats then Some (fst (check_top m cs store subj pathx md fuel_a o rel)) else None in
          (match dump_chan with
           | Some ch -> Printf.fprintf ch "%s %d %d %d %d\n" id (if closed then 1 else 0) (int_of_nat (max_rels m)) (mask set_d)
                          (match set_a_opt with Some sa -> mask sa | None -> 0)
           | None -> ());
          (match set_a_opt with None -> () | Some set_a ->
            if List.mem AFuel set_a then
              diffs := (where ^ ": model out of fuel with the universe bound |atoms|+1") :: !diffs
            else if not (same_set set_a set_d) then
              diffs := (Printf.sprintf "%s: outcome depends on the fuel: {%s} vs {%s}" where
                          (String.concat "," (List.map aout_s set_a)) (String.concat "," (List.map aout_s set_d))) :: !diffs);
          (match impl_aout impl with
           | Some a ->
             if not (List.mem a set_d) then
               diffs := (Printf.sprintf "%s impl=%s model={%s}" where (impl_s impl)
                           (String.concat "," (List.map aout_s set_d))) :: !diffs
           | None ->
             if impl = 6 then begin
               if List.mem AFuel set_d then diffs := (where ^ ": the real Check hit the watchdog and the model is out of fuel") :: !diffs
               else props := (Printf.sprintf "%s: the real Check (no deadline, finite data) did not return within the %d s watchdog; the terminating model decides {%s} within its fuel"
                                where (watchdog / 1000000) (String.concat "," (List.map aout_s set_d))) :: !props
             end)
        | _ -> failwith "result") (as_list results)
    | _ -> failwith "subject entry") (as_list subjects);
  (match dump_chan with Some ch -> flush ch | None -> ());
  (!diffs, !props)

let f id vs =
  match vs with
  | [I "1"; with_model; model; conds; tuples; atoms; maxdepth; subjects; calls; slack; leaked; opens; stops; live; watchdog] ->
    let (diffs, mprops) = if as_int with_model = 1 then model_side id (as_int watchdog) model conds tuples atoms maxdepth subjects else ([], []) in
    let slack = as_int slack in
    let props = ref mprops in
    List.iter (fun c ->
      match as_list c with
      | [api; eff; el; confirmed] ->
        let eff = as_int eff and el = as_int el in
        (* an overrun is a violation when it was confirmed by re-executing the same request alone *)
        if el > eff + slack && as_int confirmed = 1 then
          props := (Printf.sprintf "%s returned after %d us, effective deadline %d us (+%d us slack), confirmed by re-execution" (api_s (as_int api)) el eff slack) :: !props
      | _ -> failwith "call") (as_list calls);
    if as_int leaked > 0 then
      props := (Printf.sprintf "%d goroutine(s) started for a request still running after the grace period" (as_int leaked)) :: !props;
    if as_int live > 0 || as_int opens <> as_int stops + as_int live then
      props := (Printf.sprintf "iterators: %d opened, %d stopped, %d never stopped" (as_int opens) (as_int stops) (as_int live)) :: !props;
    (match !props, diffs with
     | _ :: _, _ ->
       let ps = List.rev !props in
       let shown = List.filteri (fun i _ -> i < 3) ps in
       "PROP " ^ String.concat " | " shown ^ (if List.length ps > 3 then Printf.sprintf " | ... %d more" (List.length ps - 3) else "")
       ^ (match diffs with d :: _ -> " || also model-diff: " ^ d | [] -> "")
     | [], d :: _ -> "DIFF " ^ d
     | [], [] -> "OK")
  | _ -> "DIFF malformed-record"

let () = run_oracle f
