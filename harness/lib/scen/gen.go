//go:build verif

package scen

import (
	"fmt"

	"github.com/openfga/openfga/internal/verifharness/lib/rec"
)

type GenOpts struct {
	Conds      bool // allow conditions
	Exclusion  bool // allow `but not`
	Inter      bool // allow `and`
	Invalid    bool // add tuples that are invalid for the model
	MaxTuples  int
	MaxObjects int // objects per type
}

func DefaultOpts() GenOpts {
	return GenOpts{Conds: true, Exclusion: true, Inter: true, Invalid: true, MaxTuples: 36, MaxObjects: 3}
}

var relPool = []string{"member", "owner", "editor", "viewer", "blocked", "allowed"}
var objTypes = []string{"group", "folder", "doc", "team"}

type gen struct {
	r    *rec.Rand
	o    GenOpts
	s    *Scenario
	cond []string
}

// Generate returns a scenario; the model is NOT guaranteed to pass model validation (the caller
// filters with the real validator and counts rejections).
func Generate(r *rec.Rand, o GenOpts) *Scenario {
	g := &gen{r: r, o: o, s: &Scenario{}}
	if o.Conds && r.Chance(2, 5) {
		g.cond = []string{"c1"}
		if r.Chance(1, 3) {
			g.cond = append(g.cond, "c2")
		}
	}
	g.s.Conds = g.cond
	if r.Chance(1, 2) {
		g.template()
	} else {
		g.grammar()
	}
	g.dropUnusedConds()
	g.tuples()
	g.reqctx()
	return g.s
}

func (g *gen) dropUnusedConds() {
	used := map[string]bool{}
	for _, td := range g.s.Types {
		for _, rd := range td.Rels {
			for _, r := range rd.Restr {
				if r.Cond != "" {
					used[r.Cond] = true
				}
			}
		}
	}
	var cs []string
	for _, c := range g.s.Conds {
		if used[c] {
			cs = append(cs, c)
		}
	}
	// occasionally keep an unused condition: the validator must still accept the model
	g.s.Conds = cs
	g.cond = cs
}

func (g *gen) maybeCond(x Restr) Restr {
	if len(g.cond) > 0 && g.r.Chance(1, 3) {
		return x.With(rec.Pick(g.r, g.cond))
	}
	return x
}

// ---- templates: shapes that force the interesting regions -------------------------------------

func (g *gen) template() {
	r := g.r
	user := TypeDef{Name: "user"}
	switch r.Intn(9) {
	case 0: // same-type recursion + exclusion over usersets
		g.s.Shape = "recursion+exclusion"
		g.s.Types = []TypeDef{user,
			{Name: "group", Rels: []RelDef{{Name: "member", RW: This(), Restr: []Restr{g.maybeCond(RObj("user")), g.maybeCond(RSet("group", "member"))}}}},
			{Name: "doc", Rels: []RelDef{
				{Name: "viewer", RW: This(), Restr: []Restr{RObj("user"), g.maybeCond(RSet("group", "member"))}},
				{Name: "blocked", RW: This(), Restr: []Restr{g.maybeCond(RObj("user")), RSet("group", "member")}},
				{Name: "allowed", RW: g.notOr(Comp("viewer"), Comp("blocked"))},
			}}}
	case 1: // tuple cycle across two types under the subtract of an exclusion (F1 region)
		g.s.Shape = "cross-type-cycle+exclusion"
		g.s.Types = []TypeDef{user,
			{Name: "team", Rels: []RelDef{{Name: "member", RW: This(), Restr: []Restr{RObj("user"), RSet("group", "member")}}}},
			{Name: "group", Rels: []RelDef{{Name: "member", RW: This(), Restr: []Restr{RObj("user"), RSet("team", "member")}}}},
			{Name: "doc", Rels: []RelDef{
				{Name: "owner", RW: This(), Restr: []Restr{RObj("user")}},
				{Name: "blocked", RW: This(), Restr: []Restr{RSet("group", "member"), RSet("team", "member")}},
				{Name: "viewer", RW: g.notOr(Comp("owner"), Comp("blocked"))},
			}}}
	case 2: // TTU recursion
		g.s.Shape = "ttu-recursion"
		g.s.Types = []TypeDef{user,
			{Name: "folder", Rels: []RelDef{
				{Name: "parent", RW: This(), Restr: []Restr{g.maybeCond(RObj("folder"))}},
				{Name: "viewer", RW: Union(This(), TTU("parent", "viewer")), Restr: []Restr{g.maybeCond(RObj("user")), RWild("user")}},
			}},
			{Name: "doc", Rels: []RelDef{
				{Name: "parent", RW: This(), Restr: []Restr{RObj("folder")}},
				{Name: "blocked", RW: This(), Restr: []Restr{RObj("user")}},
				{Name: "viewer", RW: g.notOr(TTU("parent", "viewer"), Comp("blocked"))},
			}}}
	case 3: // intersections with wildcards and usersets
		g.s.Shape = "intersection"
		g.s.Types = []TypeDef{user,
			{Name: "group", Rels: []RelDef{{Name: "member", RW: This(), Restr: []Restr{RObj("user"), RWild("user")}}}},
			{Name: "doc", Rels: []RelDef{
				{Name: "editor", RW: This(), Restr: []Restr{RObj("user"), RSet("group", "member")}},
				{Name: "allowed", RW: This(), Restr: []Restr{g.maybeCond(RObj("user")), g.maybeCond(RWild("user"))}},
				{Name: "viewer", RW: Inter(Comp("editor"), Comp("allowed"))},
				{Name: "owner", RW: Inter(This(), Comp("viewer")), Restr: []Restr{RObj("user")}},
			}}}
	case 4: // conditions everywhere, exclusion with a conditioned subtract (F2 region)
		g.s.Shape = "conditions+exclusion"
		if len(g.cond) == 0 {
			g.cond = []string{"c1"}
			g.s.Conds = g.cond
		}
		c := g.cond[0]
		g.s.Types = []TypeDef{user,
			{Name: "group", Rels: []RelDef{{Name: "member", RW: This(), Restr: []Restr{RObj("user"), RObj("user").With(c)}}}},
			{Name: "doc", Rels: []RelDef{
				{Name: "viewer", RW: This(), Restr: []Restr{RObj("user").With(c), RSet("group", "member").With(c), RSet("group", "member")}},
				{Name: "blocked", RW: This(), Restr: []Restr{RSet("group", "member").With(c), RObj("user").With(c)}},
				{Name: "allowed", RW: g.notOr(Comp("viewer"), Comp("blocked"))},
			}}}
	case 5: // wildcard base, exclusion, nested exclusion (fail-open amplifier)
		g.s.Shape = "nested-exclusion"
		g.s.Types = []TypeDef{user,
			{Name: "group", Rels: []RelDef{{Name: "member", RW: This(), Restr: []Restr{RObj("user"), RSet("group", "member")}}}},
			{Name: "doc", Rels: []RelDef{
				{Name: "owner", RW: This(), Restr: []Restr{RWild("user"), RObj("user")}},
				{Name: "editor", RW: This(), Restr: []Restr{RObj("user"), RSet("group", "member")}},
				{Name: "blocked", RW: This(), Restr: []Restr{RObj("user"), RSet("group", "member")}},
				{Name: "viewer", RW: Diff(Comp("owner"), Diff(Comp("editor"), Comp("blocked")))},
			}}}
	case 6: // weight-2 shapes: usersets of a relation that is itself directly assignable only
		g.s.Shape = "weight2"
		g.s.Types = []TypeDef{user,
			{Name: "group", Rels: []RelDef{
				{Name: "member", RW: This(), Restr: []Restr{g.maybeCond(RObj("user")), RWild("user")}},
				{Name: "owner", RW: This(), Restr: []Restr{RObj("user")}},
			}},
			{Name: "folder", Rels: []RelDef{
				{Name: "viewer", RW: This(), Restr: []Restr{RObj("user"), g.maybeCond(RSet("group", "member"))}},
			}},
			{Name: "doc", Rels: []RelDef{
				{Name: "parent", RW: This(), Restr: []Restr{g.maybeCond(RObj("folder"))}},
				{Name: "editor", RW: This(), Restr: []Restr{RSet("group", "member"), RSet("group", "owner")}},
				{Name: "viewer", RW: Union(Comp("editor"), TTU("parent", "viewer"))},
				{Name: "allowed", RW: g.and2(Comp("editor"), TTU("parent", "viewer"))},
			}}}
	case 7: // plain object restrictions ([group]) next to usersets, userset subjects
		g.s.Shape = "object-and-userset"
		g.s.Types = []TypeDef{user,
			{Name: "group", Rels: []RelDef{{Name: "member", RW: This(), Restr: []Restr{RObj("user"), RObj("group"), RSet("group", "member")}}}},
			{Name: "doc", Rels: []RelDef{
				{Name: "viewer", RW: This(), Restr: []Restr{RObj("user"), RObj("group"), g.maybeCond(RSet("group", "member"))}},
				{Name: "editor", RW: Union(This(), Comp("viewer")), Restr: []Restr{RSet("doc", "viewer"), RObj("user")}},
			}}}
	default: // computed chains and cycles through computed usersets over two relations
		g.s.Shape = "computed-chain"
		g.s.Types = []TypeDef{user,
			{Name: "group", Rels: []RelDef{{Name: "member", RW: This(), Restr: []Restr{RObj("user"), RSet("group", "member")}}}},
			{Name: "doc", Rels: []RelDef{
				{Name: "owner", RW: This(), Restr: []Restr{RObj("user"), RSet("group", "member")}},
				{Name: "editor", RW: Union(This(), Comp("owner")), Restr: []Restr{RObj("user"), RSet("doc", "viewer")}},
				{Name: "viewer", RW: Union(This(), Comp("editor")), Restr: []Restr{RObj("user"), RSet("doc", "editor"), RWild("user")}},
			}}}
	}
}

func (g *gen) notOr(a, b *Rewrite) *Rewrite {
	if g.o.Exclusion {
		return Diff(a, b)
	}
	return Union(a, b)
}

func (g *gen) and2(a, b *Rewrite) *Rewrite {
	if g.o.Inter {
		return Inter(a, b)
	}
	return Union(a, b)
}

// ---- random grammar ---------------------------------------------------------------------------

func (g *gen) grammar() {
	r := g.r
	g.s.Shape = "grammar"
	nt := r.Range(1, 3)
	tnames := append([]string{}, objTypes...)
	rec.Shuffle(r, tnames)
	tnames = tnames[:nt]
	// choose relation names per type first (rewrites refer to them)
	rels := map[string][]string{}
	hasParent := map[string]bool{}
	for _, t := range tnames {
		n := r.Range(1, 4)
		pool := append([]string{}, relPool...)
		rec.Shuffle(r, pool)
		rels[t] = pool[:n]
		if r.Chance(1, 2) {
			hasParent[t] = true
		}
	}
	g.s.Types = []TypeDef{{Name: "user"}}
	for _, t := range tnames {
		td := TypeDef{Name: t}
		var parentTargets []string
		if hasParent[t] {
			k := r.Range(1, 2)
			for i := 0; i < k; i++ {
				parentTargets = append(parentTargets, rec.Pick(r, tnames))
			}
			var rs []Restr
			seen := map[string]bool{}
			for _, pt := range parentTargets {
				if !seen[pt] {
					rs = append(rs, g.maybeCond(RObj(pt)))
					seen[pt] = true
				}
			}
			td.Rels = append(td.Rels, RelDef{Name: "parent", RW: This(), Restr: rs})
		}
		for _, rn := range rels[t] {
			rw := g.genRW(t, rn, rels, parentTargets, 0)
			rd := RelDef{Name: rn, RW: rw}
			if rw.HasThis() {
				rd.Restr = g.genRestr(t, rn, tnames, rels)
			}
			td.Rels = append(td.Rels, rd)
		}
		g.s.Types = append(g.s.Types, td)
	}
}

func (g *gen) genRW(t, self string, rels map[string][]string, parentTargets []string, depth int) *Rewrite {
	r := g.r
	leaf := depth >= 2 || r.Chance(2+depth*2, 6)
	if leaf {
		x := r.Intn(20)
		switch {
		case x < 9:
			return This()
		case x < 15 || len(parentTargets) == 0:
			others := rels[t]
			o := rec.Pick(r, others)
			if o == self && len(others) > 1 {
				o = rec.Pick(r, others)
			}
			if o == self {
				return This()
			}
			return Comp(o)
		default:
			pt := rec.Pick(r, parentTargets)
			return TTU("parent", rec.Pick(r, rels[pt]))
		}
	}
	x := r.Intn(10)
	a := g.genRW(t, self, rels, parentTargets, depth+1)
	b := g.genRW(t, self, rels, parentTargets, depth+1)
	switch {
	case x < 4 || (!g.o.Inter && !g.o.Exclusion):
		if r.Chance(1, 4) {
			return Union(a, b, g.genRW(t, self, rels, parentTargets, depth+1))
		}
		return Union(a, b)
	case (x < 7 && g.o.Inter) || !g.o.Exclusion:
		return Inter(a, b)
	default:
		return Diff(a, b)
	}
}

func (g *gen) genRestr(t, self string, tnames []string, rels map[string][]string) []Restr {
	r := g.r
	var rs []Restr
	add := func(x Restr) {
		for _, y := range rs {
			if y == x {
				return
			}
		}
		rs = append(rs, x)
	}
	if r.Chance(4, 5) {
		add(g.maybeCond(RObj("user")))
	}
	if r.Chance(1, 4) {
		add(g.maybeCond(RWild("user")))
	}
	for _, t2 := range tnames {
		for _, r2 := range rels[t2] {
			p := 1
			if t2 == t && r2 == self {
				p = 3 // same-relation recursion
			}
			if r.Chance(p, 8) {
				add(g.maybeCond(RSet(t2, r2)))
			}
		}
		if r.Chance(1, 10) {
			add(RObj(t2))
		}
	}
	if len(rs) == 0 {
		add(RObj("user"))
	}
	// a restriction both with and without the condition
	if len(g.cond) > 0 && r.Chance(1, 4) {
		x := rec.Pick(r, rs)
		if x.Cond == "" {
			add(x.With(g.cond[0]))
		} else {
			y := x
			y.Cond = ""
			add(y)
		}
	}
	return rs
}

// ---- tuples -----------------------------------------------------------------------------------

var userIDs = []string{"a", "b", "c"}

func (g *gen) ids(t string) []string {
	if t == "user" {
		return userIDs
	}
	n := g.o.MaxObjects
	out := make([]string, n)
	for i := range out {
		out[i] = fmt.Sprint(i + 1)
	}
	return out
}

func (g *gen) ctxFor(cond string) map[string]any {
	if cond == "" {
		return nil
	}
	switch g.r.Intn(5) {
	case 0, 1:
		return map[string]any{"x": 1}
	case 2:
		return map[string]any{"x": -1}
	default:
		return nil // parameter comes from the request context, or is missing
	}
}

func (g *gen) tuples() {
	r := g.r
	type cand struct{ t Tuple }
	var cands []Tuple
	for _, td := range g.s.Types {
		for _, rd := range td.Rels {
			if !rd.RW.HasThis() {
				continue
			}
			for _, oid := range g.ids(td.Name) {
				obj := td.Name + ":" + oid
				for _, rs := range rd.Restr {
					switch rs.Kind {
					case KObj:
						for _, uid := range g.ids(rs.Type) {
							cands = append(cands, Tuple{Obj: obj, Rel: rd.Name, User: rs.Type + ":" + uid, Cond: rs.Cond})
						}
					case KWild:
						cands = append(cands, Tuple{Obj: obj, Rel: rd.Name, User: rs.Type + ":*", Cond: rs.Cond})
					case KSet:
						for _, uid := range g.ids(rs.Type) {
							cands = append(cands, Tuple{Obj: obj, Rel: rd.Name, User: rs.Type + ":" + uid + "#" + rs.Rel, Cond: rs.Cond})
						}
					}
				}
			}
		}
	}
	rec.Shuffle(r, cands)
	want := r.Range(0, g.o.MaxTuples)
	if r.Chance(1, 20) {
		want = 0
	}
	seen := map[string]bool{}
	for _, c := range cands {
		if len(g.s.Tuples) >= want {
			break
		}
		if seen[c.Key()] {
			continue // one tuple per (object, relation, user)
		}
		seen[c.Key()] = true
		c.Ctx = g.ctxFor(c.Cond)
		g.s.Tuples = append(g.s.Tuples, c)
	}
	if g.o.Invalid && len(cands) > 0 {
		// leftovers that the model in use does not allow: they must be ignored by every query
		n := r.Intn(4)
		for i := 0; i < n; i++ {
			c := rec.Pick(r, cands)
			switch r.Intn(5) {
			case 0: // user of a type the relation does not allow
				c.User = "ghost:" + rec.Pick(r, userIDs)
			case 1: // condition flipped
				if c.Cond == "" {
					if len(g.cond) > 0 {
						c.Cond = g.cond[0]
					} else {
						c.Cond = "nocond"
					}
				} else {
					c.Cond = ""
				}
			case 2: // wildcard where (perhaps) not allowed
				t, _, _ := SplitUser(c.User)
				c.User = t + ":*"
			case 3: // userset where (perhaps) not allowed
				t, id, rel := SplitUser(c.User)
				if rel == "" && id != "*" {
					c.User = t + ":" + id + "#member"
				} else {
					c.User = t + ":" + rec.Pick(r, userIDs) + "#ghost"
				}
			default: // undefined condition name
				c.Cond = "zz"
			}
			if seen[c.Key()] {
				continue
			}
			seen[c.Key()] = true
			c.Ctx = g.ctxFor(c.Cond)
			g.s.Tuples = append(g.s.Tuples, c)
		}
		rec.Shuffle(r, g.s.Tuples)
	}
}

func (g *gen) reqctx() {
	if len(g.s.Conds) == 0 && g.r.Chance(4, 5) {
		return
	}
	switch g.r.Intn(5) {
	case 0, 1:
		g.s.ReqCtx = map[string]any{"x": 1}
	case 2:
		g.s.ReqCtx = map[string]any{"x": -1}
	}
}

// Subjects to ask about: every user, the user wildcard, a few usersets and plain objects.
func (s *Scenario) Subjects(r *rec.Rand, maxExtra int) []string {
	out := []string{"user:a", "user:b", "user:c", "user:*"}
	var extra []string
	seen := map[string]bool{}
	for _, t := range s.Tuples {
		ut, uid, rel := SplitUser(t.User)
		var c string
		switch {
		case rel != "":
			c = t.User
		case ut != "user" && uid != "*":
			c = t.User
		default:
			continue
		}
		if !seen[c] {
			seen[c] = true
			extra = append(extra, c)
		}
	}
	// usersets of objects that have tuples (object#relation for directly assignable relations)
	for _, t := range s.Tuples {
		c := t.Obj + "#" + t.Rel
		if !seen[c] {
			seen[c] = true
			extra = append(extra, c)
		}
	}
	rec.Shuffle(r, extra)
	if len(extra) > maxExtra {
		extra = extra[:maxExtra]
	}
	return append(out, extra...)
}
