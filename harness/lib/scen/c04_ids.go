//go:build verif

package scen

import (
	"sort"
	"strings"

	"github.com/openfga/openfga/internal/verifharness/lib/rec"
)

// C04: object / user ids from the whole range the API accepts (anything without ':' '#'
// whitespace and control characters), in particular ids that sort BEFORE the wildcard "*"
// (! " $ % & ' ( )), between it and the digits (+ , - . /), upper case, '_', lower case, '~' and
// non-ASCII.  Code that orders tuples by user or object string (the weighted-graph engine's
// per-request indexes, the sorted merge of the combined reader) must not assume that "type:*"
// comes first.
var C04IDPool = []string{"!x", "$x", "(x", "&", "'q", "-x", ".x", "+1", "0", "9z", "A", "Zed", "_", "a", "b@c.d", "z", "~x", "é", "中"}

// RenameIDs returns a copy of s in which every object / user id (the typed wildcard "*" excepted)
// is replaced, consistently, by an id drawn from C04IDPool.  Types, relations, conditions and the
// request context are unchanged, so validity of tuples and all answers carry over up to renaming.
func (s *Scenario) RenameIDs(r *rec.Rand) *Scenario {
	ids := map[string]bool{}
	add := func(x string) {
		_, id := SplitObj(x)
		if id != "" && id != "*" {
			ids[id] = true
		}
	}
	for _, t := range s.Tuples {
		add(t.Obj)
		ut, uid, _ := SplitUser(t.User)
		add(ut + ":" + uid)
	}
	for _, u := range []string{"a", "b", "c"} { // the generator's user ids, also when they hold no tuple
		ids[u] = true
	}
	old := make([]string, 0, len(ids))
	for id := range ids {
		old = append(old, id)
	}
	sort.Strings(old)
	pool := append([]string{}, C04IDPool...)
	rec.Shuffle(r, pool)
	m := map[string]string{}
	for i, id := range old {
		if i < len(pool) {
			m[id] = pool[i]
		} else {
			m[id] = id + "~" // more ids than pool entries: keep them apart from the pool
		}
	}
	ren := func(x string) string { // "type:id" or "type:id#rel"
		rel := ""
		if i := strings.LastIndexByte(x, '#'); i >= 0 {
			rel, x = x[i:], x[:i]
		}
		t, id := SplitObj(x)
		if n, ok := m[id]; ok && id != "*" {
			id = n
		}
		return t + ":" + id + rel
	}
	cp := *s
	cp.Tuples = make([]Tuple, len(s.Tuples))
	for i, t := range s.Tuples {
		t.Obj, t.User = ren(t.Obj), ren(t.User)
		cp.Tuples[i] = t
	}
	return &cp
}

// SubjectsAnyIDs is Subjects for scenarios whose user ids are arbitrary: up to three users that
// hold tuples, one user that holds none (only reachable through a wildcard), the user wildcard, and
// a few usersets / plain objects.
func (s *Scenario) SubjectsAnyIDs(r *rec.Rand, maxExtra int) []string {
	var users []string
	seenU := map[string]bool{}
	for _, t := range s.Tuples {
		ut, uid, rel := SplitUser(t.User)
		if ut == "user" && rel == "" && uid != "*" && !seenU[t.User] {
			seenU[t.User] = true
			users = append(users, t.User)
		}
	}
	sort.Strings(users)
	rec.Shuffle(r, users)
	if len(users) > 3 {
		users = users[:3]
	}
	for _, id := range []string{"nobody~", "a", "b", "c"} {
		if len(users) >= 4 {
			break
		}
		if u := "user:" + id; !seenU[u] {
			seenU[u] = true
			users = append(users, u)
		}
	}
	out := append(users, "user:*")
	var extra []string
	seen := map[string]bool{}
	for _, t := range s.Tuples {
		ut, uid, rel := SplitUser(t.User)
		var c string
		switch {
		case rel != "":
			c = t.User
		case ut != "user" && uid != "*":
			c = t.User
		default:
			continue
		}
		if !seen[c] {
			seen[c] = true
			extra = append(extra, c)
		}
	}
	for _, t := range s.Tuples {
		c := t.Obj + "#" + t.Rel
		if !seen[c] {
			seen[c] = true
			extra = append(extra, c)
		}
	}
	rec.Shuffle(r, extra)
	if len(extra) > maxExtra {
		extra = extra[:maxExtra]
	}
	return append(out, extra...)
}
