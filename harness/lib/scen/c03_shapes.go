//go:build verif

package scen

// Scenario shapes for C03 (weighted-graph Check vs default engine): every shape that
// pkg/server/commands/v2breaking documents as a v1 -> v2 divergence, the near misses next to
// them (the negative cases of TestBreakingChangeReason), models the weighted-graph builder
// rejects (fallback of the whole engine), and the request subjects that exercise them
// (usersets of non-assignable relations, self-referential usersets, wildcards, malformed users).

import (
	"fmt"
	"strings"

	"github.com/openfga/openfga/internal/verifharness/lib/rec"
)

// C03ShapeCount is the number of distinct shape families of C03Shape.
const C03ShapeCount = 14

// C03Shape returns a scenario built around one documented breaking shape (k in
// [0, C03ShapeCount); any other k picks at random).  Tuples and request context are generated
// like in Generate.
func C03Shape(r *rec.Rand, k int) *Scenario {
	g := &gen{r: r, o: DefaultOpts(), s: &Scenario{}}
	if r.Chance(1, 3) {
		g.cond = []string{"c1"}
	}
	g.s.Conds = g.cond
	if k < 0 || k >= C03ShapeCount {
		k = r.Intn(C03ShapeCount)
	}
	user := TypeDef{Name: "user"}
	group := TypeDef{Name: "group", Rels: []RelDef{{Name: "member", RW: This(), Restr: []Restr{g.maybeCond(RObj("user")), RSet("group", "member")}}}}
	switch k {
	case 0: // self_referential_userset + alias_userset (+ the alias made moot by a direct restriction)
		g.s.Shape = "c03-alias"
		viewer := []Restr{RObj("user"), g.maybeCond(RSet("doc", "allowed"))}
		if r.Chance(1, 3) {
			viewer = append(viewer, RSet("doc", "reader")) // T#R directly assignable: alias must NOT fire
		}
		g.s.Types = []TypeDef{user, {Name: "doc", Rels: []RelDef{
			{Name: "reader", RW: This(), Restr: []Restr{g.maybeCond(RObj("user"))}},
			{Name: "allowed", RW: Comp("reader")},
			{Name: "viewer", RW: This(), Restr: viewer},
			{Name: "editor", RW: Union(This(), Comp("viewer")), Restr: []Restr{RObj("user"), RSet("doc", "viewer")}},
		}}}
	case 1: // computed_userset_self_object
		g.s.Shape = "c03-computed-self"
		g.s.Types = []TypeDef{user, group, {Name: "doc", Rels: []RelDef{
			{Name: "editor", RW: This(), Restr: []Restr{g.maybeCond(RObj("user"))}},
			{Name: "owner", RW: This(), Restr: []Restr{RObj("user"), g.maybeCond(RSet("group", "member"))}},
			{Name: "blocked", RW: This(), Restr: []Restr{RObj("user")}},
			{Name: "viewer", RW: Union(Comp("editor"), Comp("owner"))},
			{Name: "allowed", RW: g.and2(Comp("editor"), Comp("owner"))},
		}}}
	case 2: // ttu_userset (plain and recursive)
		g.s.Shape = "c03-ttu"
		fviewer := RelDef{Name: "viewer", RW: This(), Restr: []Restr{g.maybeCond(RObj("user"))}}
		fparent := []Restr{}
		if r.Chance(1, 2) {
			fviewer = RelDef{Name: "viewer", RW: Union(This(), TTU("parent", "viewer")), Restr: []Restr{RObj("user"), RWild("user")}}
			fparent = []Restr{RObj("folder")}
		}
		ft := TypeDef{Name: "folder", Rels: []RelDef{fviewer, {Name: "editor", RW: This(), Restr: []Restr{RObj("user")}}}}
		if len(fparent) > 0 {
			ft.Rels = append([]RelDef{{Name: "parent", RW: This(), Restr: fparent}}, ft.Rels...)
		}
		dparent := []Restr{g.maybeCond(RObj("folder"))}
		if r.Chance(1, 3) {
			dparent = append(dparent, RObj("group")) // a tupleset type without the computed relation
		}
		g.s.Types = []TypeDef{user, group, ft, {Name: "doc", Rels: []RelDef{
			{Name: "parent", RW: This(), Restr: dparent},
			{Name: "owner", RW: This(), Restr: []Restr{RObj("user")}},
			{Name: "viewer", RW: Union(Comp("owner"), TTU("parent", "viewer"))},
			{Name: "editor", RW: TTU("parent", "editor")},
		}}}
	case 3: // userset_with_exclusion (difference at the root, nested, and only in the subtract)
		g.s.Shape = "c03-userset-exclusion"
		var allowed *Rewrite
		switch r.Intn(3) {
		case 0:
			allowed = Diff(Comp("viewer"), Comp("blocked"))
		case 1:
			allowed = Union(Comp("owner"), Diff(Comp("viewer"), Comp("blocked")))
		default:
			allowed = Diff(Comp("viewer"), Diff(Comp("blocked"), Comp("owner")))
		}
		g.s.Types = []TypeDef{user, group, {Name: "doc", Rels: []RelDef{
			{Name: "owner", RW: This(), Restr: []Restr{RObj("user")}},
			{Name: "viewer", RW: This(), Restr: []Restr{RObj("user"), g.maybeCond(RSet("group", "member"))}},
			{Name: "blocked", RW: This(), Restr: []Restr{g.maybeCond(RObj("user")), RSet("group", "member")}},
			{Name: "allowed", RW: allowed},
			{Name: "editor", RW: Union(This(), Comp("allowed")), Restr: []Restr{RObj("user")}},
		}}}
	case 4: // wildcard_with_exclusion, difference directly on the target
		g.s.Shape = "c03-wildcard-exclusion"
		g.s.Types = []TypeDef{user, {Name: "doc", Rels: []RelDef{
			{Name: "public", RW: This(), Restr: []Restr{g.maybeCond(RWild("user"))}},
			{Name: "member", RW: This(), Restr: []Restr{RObj("user")}},
			{Name: "blocked", RW: This(), Restr: []Restr{RObj("user"), RWild("user")}},
			{Name: "viewer", RW: Diff(Comp("public"), Comp("blocked"))},
			{Name: "editor", RW: Diff(Comp("member"), Comp("blocked"))}, // wildcard only in the subtract
			{Name: "owner", RW: Diff(This(), Comp("blocked")), Restr: []Restr{RObj("user"), RWild("user")}},
			{Name: "allowed", RW: Union(Comp("viewer"), Comp("member"))}, // difference one computed hop away
		}}}
	case 5: // wildcard_with_exclusion one TTU hop away
		g.s.Shape = "c03-wildcard-exclusion-ttu"
		g.s.Types = []TypeDef{user,
			{Name: "folder", Rels: []RelDef{
				{Name: "blocked", RW: This(), Restr: []Restr{RObj("user")}},
				{Name: "viewer", RW: Diff(This(), Comp("blocked")), Restr: []Restr{RObj("user"), g.maybeCond(RWild("user"))}},
				{Name: "editor", RW: This(), Restr: []Restr{RObj("user"), RWild("user")}},
			}},
			{Name: "doc", Rels: []RelDef{
				{Name: "parent", RW: This(), Restr: []Restr{RObj("folder")}},
				{Name: "viewer", RW: TTU("parent", "viewer")},
				{Name: "editor", RW: TTU("parent", "editor")},
				{Name: "allowed", RW: Inter(Comp("viewer"), Comp("editor"))},
			}}}
	case 6: // models the weighted-graph builder rejects: the whole engine falls back
		g.s.Shape = "c03-graph-invalid"
		viewer := Inter(Comp("owner"), Comp("editor"))
		if r.Chance(1, 2) {
			viewer = Inter(Diff(Comp("public"), Comp("blocked")), Comp("editor"))
		}
		g.s.Types = []TypeDef{user, {Name: "team"}, {Name: "doc", Rels: []RelDef{
			{Name: "owner", RW: This(), Restr: []Restr{RObj("user")}},
			{Name: "public", RW: This(), Restr: []Restr{RWild("user")}},
			{Name: "blocked", RW: This(), Restr: []Restr{RObj("user")}},
			{Name: "editor", RW: This(), Restr: []Restr{RObj("team")}},
			{Name: "viewer", RW: viewer},
		}}}
	case 7: // alias chains: R'' -> R' -> R
		g.s.Shape = "c03-alias-chain"
		g.s.Types = []TypeDef{user,
			{Name: "group", Rels: []RelDef{
				{Name: "member", RW: This(), Restr: []Restr{g.maybeCond(RObj("user"))}},
				{Name: "owner", RW: Comp("member")},
				{Name: "editor", RW: Comp("owner")},
				{Name: "viewer", RW: Union(This(), Comp("member")), Restr: []Restr{RObj("user")}}, // not a pure alias
			}},
			{Name: "doc", Rels: []RelDef{
				{Name: "viewer", RW: This(), Restr: []Restr{RObj("user"), RSet("group", "editor")}},
				{Name: "editor", RW: This(), Restr: []Restr{RSet("group", "viewer"), g.maybeCond(RSet("group", "owner"))}},
				{Name: "allowed", RW: Union(Comp("viewer"), Comp("editor"))},
			}}}
	case 8: // wildcards under intersections (no exclusion): v2 decides these itself
		g.s.Shape = "c03-wildcard-intersection"
		g.s.Types = []TypeDef{user, group, {Name: "doc", Rels: []RelDef{
			{Name: "public", RW: This(), Restr: []Restr{RWild("user"), g.maybeCond(RObj("user"))}},
			{Name: "member", RW: This(), Restr: []Restr{RObj("user"), RSet("group", "member")}},
			{Name: "allowed", RW: This(), Restr: []Restr{g.maybeCond(RWild("user"))}},
			{Name: "viewer", RW: Inter(Comp("public"), Comp("member"))},
			{Name: "editor", RW: Inter(Comp("public"), Comp("allowed"))},
			{Name: "owner", RW: Union(Comp("viewer"), Comp("editor"))},
		}}}
	case 9: // tuple cycle across two types reached from a third (IsPartOfTupleCycle paths of v2)
		g.s.Shape = "c03-tuple-cycle"
		g.s.Types = []TypeDef{user,
			{Name: "team", Rels: []RelDef{{Name: "member", RW: This(), Restr: []Restr{g.maybeCond(RObj("user")), RSet("group", "member")}}}},
			{Name: "group", Rels: []RelDef{{Name: "member", RW: This(), Restr: []Restr{RObj("user"), RSet("team", "member")}}}},
			{Name: "doc", Rels: []RelDef{
				{Name: "viewer", RW: This(), Restr: []Restr{RSet("group", "member"), RSet("team", "member")}},
				{Name: "owner", RW: This(), Restr: []Restr{RObj("user")}},
				{Name: "editor", RW: Union(Comp("owner"), Comp("viewer"))},
			}}}
	case 10: // recursive userset + recursive TTU in one relation, userset subjects of the recursive relation
		g.s.Shape = "c03-recursive"
		g.s.Types = []TypeDef{user,
			{Name: "folder", Rels: []RelDef{
				{Name: "parent", RW: This(), Restr: []Restr{g.maybeCond(RObj("folder"))}},
				{Name: "owner", RW: This(), Restr: []Restr{RObj("user")}},
				{Name: "viewer", RW: Union(This(), Comp("owner"), TTU("parent", "viewer")), Restr: []Restr{RObj("user"), g.maybeCond(RSet("folder", "viewer"))}},
			}},
			{Name: "doc", Rels: []RelDef{
				{Name: "parent", RW: This(), Restr: []Restr{RObj("folder")}},
				{Name: "viewer", RW: Union(This(), TTU("parent", "viewer")), Restr: []Restr{RSet("folder", "viewer")}},
			}}}
	case 11: // exclusion whose subtract has no path to the user's userset type; object restriction next to usersets
		g.s.Shape = "c03-exclusion-subtract-unreachable"
		g.s.Types = []TypeDef{user, group, {Name: "doc", Rels: []RelDef{
			{Name: "viewer", RW: This(), Restr: []Restr{RObj("user"), RObj("group"), RSet("group", "member")}},
			{Name: "blocked", RW: This(), Restr: []Restr{RObj("user")}},
			{Name: "allowed", RW: Diff(Comp("viewer"), Comp("blocked"))},
			{Name: "owner", RW: Inter(This(), Comp("allowed")), Restr: []Restr{RObj("user"), RSet("group", "member")}},
		}}}
	case 12: // recursive relation whose recursive edge is accepted BOTH unconditioned and conditioned
		// (edge conditions [none, c1] in either order), chains of depth 2-4 with the condition met /
		// not met / not evaluable at every level; userset recursion or TTU recursion
		g.s.Shape = "c03-recursive-cond"
		g.cond = []string{"c1"}
		g.s.Conds = g.cond
		g.o.MaxObjects = 4
		chainUser := func(i int) string { return fmt.Sprintf("group:%d#member", i) }
		chainRel := "member"
		if r.Chance(1, 3) {
			g.s.Shape = "c03-recursive-cond-ttu"
			ps := []Restr{RObj("folder"), RObj("folder").With("c1")}
			if r.Bool() {
				ps[0], ps[1] = ps[1], ps[0]
			}
			g.s.Types = []TypeDef{user,
				{Name: "folder", Rels: []RelDef{
					{Name: "parent", RW: This(), Restr: ps},
					{Name: "viewer", RW: Union(This(), TTU("parent", "viewer")), Restr: []Restr{RObj("user")}},
				}},
				{Name: "doc", Rels: []RelDef{
					{Name: "parent", RW: This(), Restr: []Restr{RObj("folder")}},
					{Name: "viewer", RW: TTU("parent", "viewer")},
				}}}
			chainUser = func(i int) string { return fmt.Sprintf("folder:%d", i) }
			chainRel = "parent"
		} else {
			ms := []Restr{RObj("user"), RSet("group", "member"), RSet("group", "member").With("c1")}
			rec.Shuffle(r, ms)
			g.s.Types = []TypeDef{user,
				{Name: "group", Rels: []RelDef{{Name: "member", RW: This(), Restr: ms}}},
				{Name: "doc", Rels: []RelDef{{Name: "viewer", RW: This(), Restr: []Restr{RSet("group", "member"), RObj("user")}}}}}
		}
		g.tuples()
		// force a chain 1 -> 2 -> 3 -> 4 (each link with a random condition state) and users at its end
		have := map[string]bool{}
		for _, t := range g.s.Tuples {
			have[t.Key()] = true
		}
		add := func(t Tuple) {
			if !have[t.Key()] {
				have[t.Key()] = true
				g.s.Tuples = append(g.s.Tuples, t)
			}
		}
		ot := "group"
		if chainRel == "parent" {
			ot = "folder"
		}
		depth := r.Range(2, 4)
		for i := 1; i < depth; i++ {
			t := Tuple{Obj: fmt.Sprintf("%s:%d", ot, i), Rel: chainRel, User: chainUser(i + 1)}
			if r.Chance(2, 3) {
				t.Cond = "c1"
				t.Ctx = g.ctxFor("c1")
			}
			add(t)
		}
		leafRel := "member"
		if chainRel == "parent" {
			leafRel = "viewer"
		}
		add(Tuple{Obj: fmt.Sprintf("%s:%d", ot, depth), Rel: leafRel, User: "user:" + rec.Pick(r, userIDs)})
		g.reqctx()
		return g.s
	default: // alias_userset next to directly related usersets of OTHER types that share relation names
		// with the subject's relation (every order of the restriction list)
		g.s.Shape = "c03-alias-multi"
		vs := []Restr{RObj("user"), RSet("team", "member"), g.maybeCond(RSet("group", "alias"))}
		if r.Chance(1, 3) {
			vs = append(vs, RSet("team", "alias"))
		}
		rec.Shuffle(r, vs)
		es := []Restr{RSet("group", "alias"), RSet("team", "owner")}
		rec.Shuffle(r, es)
		g.s.Types = []TypeDef{user,
			{Name: "team", Rels: []RelDef{
				{Name: "member", RW: This(), Restr: []Restr{RObj("user")}},
				{Name: "owner", RW: This(), Restr: []Restr{RObj("user")}},
				{Name: "alias", RW: Comp("owner")},
			}},
			{Name: "group", Rels: []RelDef{
				{Name: "member", RW: This(), Restr: []Restr{g.maybeCond(RObj("user"))}},
				{Name: "owner", RW: Comp("member")},
				{Name: "alias", RW: Comp("member")},
			}},
			{Name: "doc", Rels: []RelDef{
				{Name: "viewer", RW: This(), Restr: vs},
				{Name: "editor", RW: This(), Restr: es},
			}}}
	}
	g.dropUnusedConds()
	g.tuples()
	g.reqctx()
	return g.s
}

// C03Subjects: the users, the user wildcard, plain objects used as users, and usersets — those
// occurring in tuples, object#relation of tuples, and type:id#relation for ANY relation of the
// object's type (computed, TTU, difference relations included: the breaking shapes need them) —
// plus, rarely, malformed or undefined users (request-validation paths).
func (s *Scenario) C03Subjects(r *rec.Rand, maxUsersets int) []string {
	out := []string{"user:a", "user:b", "user:c", "user:*"}
	seen := map[string]bool{}
	for _, x := range out {
		seen[x] = true
	}
	var pri, sec []string
	add := func(l *[]string, c string) {
		if !seen[c] {
			seen[c] = true
			*l = append(*l, c)
		}
	}
	for _, t := range s.Tuples {
		ut, uid, rel := SplitUser(t.User)
		if ut == "ghost" || rel == "ghost" {
			continue
		}
		if rel != "" || (ut != "user" && uid != "*") {
			add(&pri, t.User)
		}
		if ut != "user" && uid == "*" {
			add(&sec, t.User)
		}
	}
	for _, o := range s.Objects() {
		ot, _ := SplitObj(o)
		td := s.Type(ot)
		if td == nil {
			continue
		}
		for _, rd := range td.Rels {
			add(&sec, o+"#"+rd.Name)
		}
	}
	rec.Shuffle(r, pri)
	rec.Shuffle(r, sec)
	np := maxUsersets / 2
	if len(pri) > np {
		pri = pri[:np]
	}
	if len(sec) > maxUsersets-len(pri) {
		sec = sec[:maxUsersets-len(pri)]
	}
	out = append(out, pri...)
	out = append(out, sec...)
	// subjects a shape is about are always asked
	if strings.HasPrefix(s.Shape, "c03-alias-multi") {
		for _, c := range []string{"group:1#member", "group:2#member", "team:1#owner", "team:1#member", "group:1#owner"} {
			if !seen[c] {
				seen[c] = true
				out = append(out, c)
			}
		}
	}
	if r.Chance(1, 6) {
		bad := []string{"ghost:a", "doc:1#nosuch", "user:a#member", "*", "nocolon", "group:*#member", "group:1#"}
		out = append(out, rec.Pick(r, bad))
	}
	return out
}
