//go:build verif

package scen

import (
	"fmt"

	"github.com/openfga/openfga/internal/verifharness/lib/rec"
)

// C20: big shapes for "queries terminate and release their resources": long chains straddling
// the resolution-depth limit (25), dense cycles, wide fan-out (1000+ tuples), and cyclic data
// under intersection / exclusion.  Every shape is a valid schema 1.1 model.

// C20Shape is a scenario plus the requests that stress it.
type C20Shape struct {
	S        *Scenario
	Users    []string // users to ask about (plain objects, wildcard, usersets)
	Targets  []string // objects to Check / Expand / ListUsers on
	ObjTypes []string // object types for ListObjects
	// Small: the algorithm model (path enumeration, no memoisation) can be run on it by the oracle
	// within the time budget; false for dense cycles and very wide data.
	Small bool
	Size  int // the shape's size parameter (chain length, cycle size, fan-out)
}

func c20user(i int) string { return fmt.Sprintf("user:u%d", i) }

// crossTypes: two types that refer to each other, so that the planner cannot use the same-type
// recursive strategy and every hop is a real dispatch with a depth increment.
func c20base(selfRecursive bool) []TypeDef {
	user := TypeDef{Name: "user"}
	if selfRecursive {
		return []TypeDef{user,
			{Name: "group", Rels: []RelDef{{Name: "member", RW: This(), Restr: []Restr{RObj("user"), RSet("group", "member")}}}},
			{Name: "team", Rels: []RelDef{{Name: "member", RW: This(), Restr: []Restr{RObj("user"), RSet("team", "member")}}}},
		}
	}
	return []TypeDef{user,
		{Name: "group", Rels: []RelDef{{Name: "member", RW: This(), Restr: []Restr{RObj("user"), RSet("team", "member"), RSet("group", "member")}}}},
		{Name: "team", Rels: []RelDef{{Name: "member", RW: This(), Restr: []Restr{RObj("user"), RSet("group", "member"), RSet("team", "member")}}}},
	}
}

func c20node(i int, alternate bool) string {
	if alternate && i%2 == 1 {
		return fmt.Sprintf("team:n%d", i)
	}
	return fmt.Sprintf("group:n%d", i)
}

// C20Chain: doc:1#viewer <- n0#member <- n1#member <- ... <- n(k-1)#member <- user:u0, k hops;
// k ranges over 18..34 so that the chain ends before, at and after the depth limit 25.
// Variants: userset chain over one type (recursive strategy eligible) or two alternating types,
// or a tuple-to-userset chain of folders; optionally closed into a cycle at the far end.
func C20Chain(r *rec.Rand, k int) *C20Shape {
	variant := r.Intn(3)
	closeCycle := r.Chance(1, 3)
	s := &Scenario{}
	sh := &C20Shape{S: s, Small: true, Size: k}
	switch variant {
	case 0, 1:
		alt := variant == 1
		s.Shape = "c20-chain-userset"
		if alt {
			s.Shape = "c20-chain-userset-2types"
		}
		s.Types = append(c20base(!alt),
			TypeDef{Name: "doc", Rels: []RelDef{
				{Name: "viewer", RW: This(), Restr: []Restr{RObj("user"), RSet("group", "member"), RSet("team", "member")}},
				{Name: "blocked", RW: This(), Restr: []Restr{RObj("user"), RSet("group", "member")}},
				{Name: "allowed", RW: Diff(Comp("viewer"), Comp("blocked"))},
			}})
		s.Tuples = append(s.Tuples, tup("doc:1", "viewer", c20node(0, alt)+"#member"))
		for i := 0; i+1 < k; i++ {
			s.Tuples = append(s.Tuples, tup(c20node(i, alt), "member", c20node(i+1, alt)+"#member"))
		}
		s.Tuples = append(s.Tuples, tup(c20node(k-1, alt), "member", c20user(0)))
		// a second user half way, a user nowhere
		s.Tuples = append(s.Tuples, tup(c20node(k/2, alt), "member", c20user(1)))
		if closeCycle {
			s.Shape += "+cycle"
			s.Tuples = append(s.Tuples, tup(c20node(k-1, alt), "member", c20node(k/3, alt)+"#member"))
		}
		sh.Users = []string{c20user(0), c20user(1), c20user(2), "user:*", c20node(k-1, alt) + "#member", c20node(1, alt) + "#member"}
		sh.Targets = []string{"doc:1", c20node(0, alt), c20node(k/2, alt), c20node(k-1, alt)}
		sh.ObjTypes = []string{"doc", "group", "team"}
	default:
		s.Shape = "c20-chain-ttu"
		s.Types = []TypeDef{{Name: "user"},
			{Name: "folder", Rels: []RelDef{
				{Name: "parent", RW: This(), Restr: []Restr{RObj("folder")}},
				{Name: "owner", RW: This(), Restr: []Restr{RObj("user")}},
				{Name: "viewer", RW: Union(This(), Comp("owner"), TTU("parent", "viewer")), Restr: []Restr{RObj("user"), RWild("user")}},
			}},
			{Name: "doc", Rels: []RelDef{
				{Name: "parent", RW: This(), Restr: []Restr{RObj("folder")}},
				{Name: "blocked", RW: This(), Restr: []Restr{RObj("user")}},
				{Name: "viewer", RW: Diff(TTU("parent", "viewer"), Comp("blocked"))},
			}}}
		s.Tuples = append(s.Tuples, tup("doc:1", "parent", "folder:n0"))
		for i := 0; i+1 < k; i++ {
			s.Tuples = append(s.Tuples, tup(fmt.Sprintf("folder:n%d", i), "parent", fmt.Sprintf("folder:n%d", i+1)))
		}
		s.Tuples = append(s.Tuples, tup(fmt.Sprintf("folder:n%d", k-1), "owner", c20user(0)))
		s.Tuples = append(s.Tuples, tup(fmt.Sprintf("folder:n%d", k/2), "viewer", c20user(1)))
		s.Tuples = append(s.Tuples, tup("doc:1", "blocked", c20user(3)))
		if closeCycle {
			s.Shape += "+cycle"
			s.Tuples = append(s.Tuples, tup(fmt.Sprintf("folder:n%d", k-1), "parent", fmt.Sprintf("folder:n%d", k/3)))
		}
		sh.Users = []string{c20user(0), c20user(1), c20user(2), c20user(3), "user:*"}
		sh.Targets = []string{"doc:1", "folder:n0", fmt.Sprintf("folder:n%d", k/2), fmt.Sprintf("folder:n%d", k-1)}
		sh.ObjTypes = []string{"doc", "folder"}
	}
	return sh
}

// C20DenseCycle: k nodes over two alternating types with `density` percent of all ordered pairs
// connected (member of each other), a document on top.  The number of simple paths grows like
// k!, so an exhaustive resolution cannot finish for k >= 9: the calls must end by deadline.
func C20DenseCycle(r *rec.Rand, k int, density int) *C20Shape {
	s := &Scenario{Shape: "c20-dense-cycle"}
	alt := r.Chance(2, 3)
	s.Types = append(c20base(!alt),
		TypeDef{Name: "doc", Rels: []RelDef{
			{Name: "viewer", RW: This(), Restr: []Restr{RObj("user"), RSet("group", "member"), RSet("team", "member")}},
			{Name: "editor", RW: This(), Restr: []Restr{RObj("user"), RSet("group", "member"), RSet("team", "member")}},
			{Name: "blocked", RW: This(), Restr: []Restr{RObj("user"), RSet("group", "member"), RSet("team", "member")}},
			{Name: "both", RW: Inter(Comp("viewer"), Comp("editor"))},
			{Name: "allowed", RW: Diff(Comp("viewer"), Comp("blocked"))},
		}})
	for i := 0; i < k; i++ {
		for j := 0; j < k; j++ {
			if i != j && r.Intn(100) < density {
				s.Tuples = append(s.Tuples, tup(c20node(i, alt), "member", c20node(j, alt)+"#member"))
			}
		}
	}
	s.Tuples = append(s.Tuples,
		tup("doc:1", "viewer", c20node(0, alt)+"#member"),
		tup("doc:1", "editor", c20node(k-1, alt)+"#member"),
		tup("doc:1", "blocked", c20node(k/2, alt)+"#member"))
	if r.Bool() {
		s.Tuples = append(s.Tuples, tup(c20node(k-1, alt), "member", c20user(0)))
	}
	sh := &C20Shape{S: s, Small: k <= 6, Size: k}
	sh.Users = []string{c20user(0), c20user(2), "user:*", c20node(1, alt) + "#member"}
	sh.Targets = []string{"doc:1", c20node(0, alt), c20node(k-1, alt)}
	sh.ObjTypes = []string{"doc", "group", "team"}
	return sh
}

// C20Wide: fan-out of n: doc:1#viewer has n usersets group:gI#member (each with a few members),
// n direct users, a folder with n parents (tuple-to-userset fan-out), and user:u0 is viewer of n
// documents (ListObjects fan-in).
func C20Wide(r *rec.Rand, n int) *C20Shape {
	s := &Scenario{Shape: "c20-wide"}
	s.Types = []TypeDef{{Name: "user"},
		{Name: "group", Rels: []RelDef{{Name: "member", RW: This(), Restr: []Restr{RObj("user"), RSet("group", "member")}}}},
		{Name: "folder", Rels: []RelDef{
			{Name: "viewer", RW: This(), Restr: []Restr{RObj("user"), RSet("group", "member")}},
		}},
		{Name: "doc", Rels: []RelDef{
			{Name: "parent", RW: This(), Restr: []Restr{RObj("folder")}},
			{Name: "viewer", RW: This(), Restr: []Restr{RObj("user"), RWild("user"), RSet("group", "member")}},
			{Name: "blocked", RW: This(), Restr: []Restr{RObj("user")}},
			{Name: "inherited", RW: TTU("parent", "viewer")},
			{Name: "can_view", RW: Diff(Union(Comp("viewer"), Comp("inherited")), Comp("blocked"))},
		}}}
	part := r.Intn(4) // which fan-out carries the bulk
	bulk := func(p int) int {
		if p == part {
			return n
		}
		return n / 8
	}
	for i := 0; i < bulk(0); i++ { // userset fan-out
		s.Tuples = append(s.Tuples, tup("doc:1", "viewer", fmt.Sprintf("group:g%d#member", i)))
		s.Tuples = append(s.Tuples, tup(fmt.Sprintf("group:g%d", i), "member", c20user(10+i%7)))
	}
	for i := 0; i < bulk(1); i++ { // direct users
		s.Tuples = append(s.Tuples, tup("doc:1", "viewer", fmt.Sprintf("user:w%d", i)))
	}
	for i := 0; i < bulk(2); i++ { // tuple-to-userset fan-out
		s.Tuples = append(s.Tuples, tup("doc:1", "parent", fmt.Sprintf("folder:f%d", i)))
		if i%3 == 0 {
			s.Tuples = append(s.Tuples, tup(fmt.Sprintf("folder:f%d", i), "viewer", fmt.Sprintf("group:g%d#member", i%17)))
		}
	}
	for i := 0; i < bulk(3); i++ { // fan-in for ListObjects
		s.Tuples = append(s.Tuples, tup(fmt.Sprintf("doc:d%d", i), "viewer", c20user(0)))
	}
	// the needle: u0 is a member of the LAST group only; u1 is blocked
	last := bulk(0) - 1
	if last < 0 {
		last = 0
	}
	s.Tuples = append(s.Tuples, tup(fmt.Sprintf("group:g%d", last), "member", c20user(0)))
	s.Tuples = append(s.Tuples, tup("doc:1", "viewer", fmt.Sprintf("group:g%d#member", last)))
	s.Tuples = append(s.Tuples, tup("doc:1", "blocked", c20user(1)))
	s.Tuples = dedupTuples(s.Tuples)
	sh := &C20Shape{S: s, Small: n <= 300, Size: n}
	sh.Users = []string{c20user(0), c20user(1), c20user(2), c20user(11), "user:*", "group:g0#member"}
	sh.Targets = []string{"doc:1", "doc:d0", "folder:f0", "group:g0"}
	sh.ObjTypes = []string{"doc", "folder", "group"}
	return sh
}

// C20CyclicOps: cycles under intersection and exclusion, through userset AND tuple-to-userset
// edges: parent cycles between folders, member cycles between groups and teams, and relations
// that combine them.
func C20CyclicOps(r *rec.Rand, k int) *C20Shape {
	s := &Scenario{Shape: "c20-cyclic-ops"}
	s.Types = append(c20base(false),
		TypeDef{Name: "folder", Rels: []RelDef{
			{Name: "parent", RW: This(), Restr: []Restr{RObj("folder")}},
			{Name: "owner", RW: This(), Restr: []Restr{RObj("user"), RSet("group", "member")}},
			{Name: "banned", RW: This(), Restr: []Restr{RObj("user"), RSet("team", "member")}},
			{Name: "viewer", RW: Union(Comp("owner"), TTU("parent", "viewer")), Restr: nil},
			{Name: "strict", RW: Inter(Comp("viewer"), TTU("parent", "owner"))},
			{Name: "safe", RW: Diff(Comp("viewer"), Union(Comp("banned"), TTU("parent", "banned")))},
		}})
	f := func(i int) string { return fmt.Sprintf("folder:f%d", ((i%k)+k)%k) }
	for i := 0; i < k; i++ {
		s.Tuples = append(s.Tuples, tup(f(i), "parent", f(i+1))) // a ring of folders
		if r.Chance(1, 2) {
			s.Tuples = append(s.Tuples, tup(f(i), "parent", f(i+2+r.Intn(3))))
		}
		if r.Chance(1, 2) {
			s.Tuples = append(s.Tuples, tup(f(i), "owner", c20node(i%4, true)+"#member"))
		}
		if r.Chance(1, 3) {
			s.Tuples = append(s.Tuples, tup(f(i), "banned", fmt.Sprintf("team:n%d#member", 1+2*(i%2))))
		}
	}
	for i := 0; i < 4; i++ {
		s.Tuples = append(s.Tuples, tup(c20node(i, true), "member", c20node((i+1)%4, true)+"#member"))
	}
	s.Tuples = append(s.Tuples, tup(c20node(2, true), "member", c20user(0)), tup(f(0), "owner", c20user(1)), tup(f(1), "banned", c20user(0)))
	s.Tuples = dedupTuples(s.Tuples)
	sh := &C20Shape{S: s, Small: k <= 6, Size: k}
	sh.Users = []string{c20user(0), c20user(1), c20user(2), "group:n0#member", "team:n1#member"}
	sh.Targets = []string{f(0), f(1), f(k / 2), c20node(0, true)}
	sh.ObjTypes = []string{"folder", "group", "team"}
	return sh
}

func dedupTuples(ts []Tuple) []Tuple {
	seen := map[string]bool{}
	out := ts[:0:0]
	for _, t := range ts {
		if t.Obj == "" || seen[t.Key()] {
			continue
		}
		// a self-parent / self-member tuple is legal, keep it
		seen[t.Key()] = true
		out = append(out, t)
	}
	return out
}

// C20FromGenerated wraps a scen.Generate scenario (the C01 input space) as a C20 shape.
func C20FromGenerated(r *rec.Rand, s *Scenario) *C20Shape {
	sh := &C20Shape{S: s, Small: true, Size: len(s.Tuples)}
	sh.Users = s.Subjects(r, 3)
	objs := s.Objects()
	rec.Shuffle(r, objs)
	for _, o := range objs {
		t, _ := SplitObj(o)
		if td := s.Type(t); td != nil && len(td.Rels) > 0 {
			sh.Targets = append(sh.Targets, o)
			if len(sh.Targets) >= 4 {
				break
			}
		}
	}
	for _, td := range s.Types {
		if len(td.Rels) > 0 {
			sh.ObjTypes = append(sh.ObjTypes, td.Name)
		}
	}
	return sh
}
