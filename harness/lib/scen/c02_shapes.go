//go:build verif

// C02 (answers do not depend on strategy or tuning): scenario templates that force the shapes on
// which the adaptive planner has a choice (weight-2 usersets / TTUs whose left-hand side is a
// union / intersection / difference of weight-1 relations, recursive usersets and recursive TTUs),
// measurement of strategy eligibility with the real typesystem predicates, and planners that
// choose pseudo-randomly among the eligible strategies.
package scen

import (
	"hash/fnv"
	"sort"
	"strings"
	"sync"
	"time"

	openfgav1 "github.com/openfga/api/proto/openfga/v1"

	"github.com/openfga/openfga/internal/planner"
	"github.com/openfga/openfga/internal/verifharness/lib/rec"
	"github.com/openfga/openfga/pkg/storage/cache/keys"
	"github.com/openfga/openfga/pkg/typesystem"
)

// GenerateC02 returns a scenario: one in five from the shared generator, the others from the
// C02 templates.  noCondErrors makes every condition evaluable (tuple contexts always carry x).
func GenerateC02(r *rec.Rand, o GenOpts, noCondErrors bool) *Scenario {
	if r.Chance(1, 5) {
		s := Generate(r, o)
		if noCondErrors {
			fixContexts(r, s)
		}
		return s
	}
	g := &gen{r: r, o: o, s: &Scenario{}}
	if o.Conds && r.Chance(2, 5) {
		g.cond = []string{"c1"}
	}
	g.s.Conds = g.cond
	g.o.MaxObjects = r.Range(3, 6)
	g.o.MaxTuples = 30 + 8*g.o.MaxObjects
	g.c02template()
	g.dropUnusedConds()
	g.tuples()
	g.reqctx()
	if noCondErrors {
		fixContexts(r, g.s)
	}
	renameIDs(r, g.s)
	return g.s
}

// fixContexts gives every conditioned tuple its own x, so that no condition evaluation fails.
func fixContexts(r *rec.Rand, s *Scenario) {
	for i := range s.Tuples {
		if s.Tuples[i].Cond != "" && s.Tuples[i].Ctx == nil {
			if r.Chance(2, 3) {
				s.Tuples[i].Ctx = map[string]any{"x": 1}
			} else {
				s.Tuples[i].Ctx = map[string]any{"x": -1}
			}
		}
	}
}

// renameIDs replaces the object ids 1..6 of non-user types by ids whose string order differs from
// their numeric order (the fast paths compare object strings).
func renameIDs(r *rec.Rand, s *Scenario) {
	pool := []string{"1", "10", "2", "21", "3", "a", "B", "a1", "9", "100"}
	rec.Shuffle(r, pool)
	m := map[string]string{}
	for i := 1; i <= 6; i++ {
		m[string(rune('0'+i))] = pool[i-1]
	}
	ren := func(o string) string {
		t, id := SplitObj(o)
		if t == "user" || t == "" || id == "*" {
			return o
		}
		if n, ok := m[id]; ok {
			return t + ":" + n
		}
		return o
	}
	for i := range s.Tuples {
		s.Tuples[i].Obj = ren(s.Tuples[i].Obj)
		ut, uid, rel := SplitUser(s.Tuples[i].User)
		u := ren(ut + ":" + uid)
		if rel != "" {
			u += "#" + rel
		}
		s.Tuples[i].User = u
	}
}

// w1 returns a rewrite over weight-1 operands (computed relations of the same type that are
// themselves directly assignable to [user] / [user:*]) — what fastPathRewrite evaluates with
// fastPathUnion / fastPathIntersection / fastPathDifference.
func (g *gen) w1(ops []string, withThis bool, depth int) *Rewrite {
	rw := g.w1raw(ops, withThis, depth)
	if depth == 0 {
		// at most one direct assignment per relation (as the DSL allows): later ones become operands
		seen := false
		rw.Walk(func(x *Rewrite) {
			if x.Op == "this" {
				if seen {
					x.Op, x.Rel = "computed", rec.Pick(g.r, ops)
				}
				seen = true
			}
		})
	}
	return rw
}

func (g *gen) w1raw(ops []string, withThis bool, depth int) *Rewrite {
	r := g.r
	if depth >= 2 || r.Chance(1+depth*2, 5) {
		if withThis && r.Chance(1, 3) {
			return This()
		}
		return Comp(rec.Pick(r, ops))
	}
	a := g.w1raw(ops, withThis, depth+1)
	b := g.w1raw(ops, withThis, depth+1)
	switch x := r.Intn(10); {
	case x < 4:
		if r.Chance(1, 3) {
			return Union(a, b, g.w1raw(ops, withThis, depth+1))
		}
		return Union(a, b)
	case x < 7 && g.o.Inter:
		if r.Chance(1, 4) {
			return Inter(a, b, g.w1raw(ops, withThis, depth+1))
		}
		return Inter(a, b)
	case g.o.Exclusion:
		return Diff(a, b)
	default:
		return Union(a, b)
	}
}

func (g *gen) userRestr() []Restr {
	rs := []Restr{g.maybeCond(RObj("user"))}
	if g.r.Chance(1, 3) {
		rs = append(rs, g.maybeCond(RWild("user")))
	}
	if len(g.cond) > 0 && g.r.Chance(1, 5) {
		rs = append(rs, RObj("user").With(g.cond[0]))
		rs = dedupRestr(rs)
	}
	return rs
}

func dedupRestr(rs []Restr) []Restr {
	var out []Restr
	for _, x := range rs {
		dup := false
		for _, y := range out {
			if x == y {
				dup = true
			}
		}
		if !dup {
			out = append(out, x)
		}
	}
	return out
}

// w1rels: three directly assignable weight-1 relations a, b, c and `name` = a set expression.
func (g *gen) w1rels(name string) []RelDef {
	ops := []string{"a", "b", "c"}
	rds := []RelDef{
		{Name: "a", RW: This(), Restr: g.userRestr()},
		{Name: "b", RW: This(), Restr: g.userRestr()},
		{Name: "c", RW: This(), Restr: g.userRestr()},
	}
	rw := g.w1(ops, true, 0)
	rd := RelDef{Name: name, RW: rw}
	if rw.HasThis() {
		rd.Restr = g.userRestr()
	}
	return append(rds, rd)
}

// condMix: the userset / TTU target relation is a set operation with a CONDITIONED direct leaf, and
// the user's tuples on it mix "condition met", "not met" and "cannot be evaluated" across groups
// (tuple-level contexts; the request context is usually absent).
func GenerateC02CondMix(r *rec.Rand) *Scenario {
	s := &Scenario{Conds: []string{"c1"}, Shape: "c02-w2-cond-mix"}
	var mrw *Rewrite
	switch r.Intn(4) {
	case 0, 1:
		mrw = Union(This(), Comp("owner"))
	case 2:
		mrw = Inter(This(), Comp("owner"))
	default:
		mrw = Diff(This(), Comp("owner"))
	}
	group := TypeDef{Name: "group", Rels: []RelDef{
		{Name: "owner", RW: This(), Restr: []Restr{RObj("user")}},
		{Name: "member", RW: mrw, Restr: []Restr{RObj("user").With("c1")}}}}
	ttu := r.Chance(1, 3)
	if ttu {
		s.Types = []TypeDef{{Name: "user"}, group,
			{Name: "doc", Rels: []RelDef{
				{Name: "parent", RW: This(), Restr: []Restr{RObj("group")}},
				{Name: "viewer", RW: TTU("parent", "member")},
				{Name: "blocked", RW: This(), Restr: []Restr{RObj("user")}},
				{Name: "allowed", RW: Diff(Comp("viewer"), Comp("blocked"))}}}}
	} else {
		s.Types = []TypeDef{{Name: "user"}, group,
			{Name: "doc", Rels: []RelDef{
				{Name: "viewer", RW: This(), Restr: []Restr{RSet("group", "member")}},
				{Name: "blocked", RW: This(), Restr: []Restr{RObj("user")}},
				{Name: "allowed", RW: Diff(Comp("viewer"), Comp("blocked"))}}}}
	}
	groups := []string{"g1", "g2", "g3", "g4"}
	rec.Shuffle(r, groups)
	// per user: a profile of outcomes over the groups; E = no own context, F = x:-1, T = x:1
	profiles := [][]string{{"E", "F"}, {"F", "E"}, {"E", "F", "F"}, {"E"}, {"F"}, {"E", "T"}, {"T", "F"}, {"E", "E", "F"}, {"F", "E", "T"}}
	for ui, u := range []string{"user:a", "user:b"} {
		prof := profiles[r.Intn(len(profiles))]
		if ui == 0 && r.Chance(2, 3) {
			prof = profiles[r.Intn(3)] // E and F, no T
		}
		for gi, o := range prof {
			t := Tuple{Obj: "group:" + groups[gi], Rel: "member", User: u, Cond: "c1"}
			switch o {
			case "F":
				t.Ctx = map[string]any{"x": -1}
			case "T":
				t.Ctx = map[string]any{"x": 1}
			}
			s.Tuples = append(s.Tuples, t)
		}
		if r.Chance(1, 3) {
			s.Tuples = append(s.Tuples, Tuple{Obj: "group:" + groups[r.Intn(4)], Rel: "owner", User: u})
		}
	}
	for _, d := range []string{"1", "2"} {
		n := r.Range(1, 2)
		for i := 0; i < n; i++ {
			gname := groups[r.Intn(3)]
			if ttu {
				s.Tuples = append(s.Tuples, Tuple{Obj: "doc:" + d, Rel: "parent", User: "group:" + gname})
			} else {
				s.Tuples = append(s.Tuples, Tuple{Obj: "doc:" + d, Rel: "viewer", User: "group:" + gname + "#member"})
			}
		}
	}
	if r.Chance(1, 3) {
		s.Tuples = append(s.Tuples, Tuple{Obj: "doc:1", Rel: "blocked", User: "user:b"})
	}
	seen := map[string]bool{}
	var ts []Tuple
	for _, t := range s.Tuples {
		if !seen[t.Key()] {
			seen[t.Key()] = true
			ts = append(ts, t)
		}
	}
	s.Tuples = ts
	rec.Shuffle(r, s.Tuples)
	if r.Chance(1, 5) {
		s.ReqCtx = map[string]any{"x": 1}
	}
	return s
}

func (g *gen) c02template() {
	r := g.r
	user := TypeDef{Name: "user"}
	switch r.Intn(6) {
	case 0: // weight-2 usersets whose userset relation is a set expression over weight-1 relations
		g.s.Shape = "c02-w2-userset"
		viewer := []Restr{RObj("user"), g.maybeCond(RSet("group", "member"))}
		if r.Chance(1, 2) {
			viewer = append(viewer, g.maybeCond(RSet("group", "a")))
		}
		if r.Chance(1, 2) {
			viewer = append(viewer, RSet("team", "member"))
		}
		g.s.Types = []TypeDef{user,
			{Name: "group", Rels: g.w1rels("member")},
			{Name: "team", Rels: []RelDef{{Name: "member", RW: This(), Restr: g.userRestr()}}},
			{Name: "doc", Rels: []RelDef{
				{Name: "viewer", RW: This(), Restr: viewer},
				{Name: "editor", RW: This(), Restr: []Restr{g.maybeCond(RSet("group", "member")), RSet("group", "b")}},
				{Name: "allowed", RW: g.notOr(Comp("viewer"), Comp("editor"))},
				{Name: "owner", RW: g.and2(Comp("viewer"), Comp("editor"))},
			}}}
	case 1: // weight-2 TTUs, one or two parent types
		g.s.Shape = "c02-w2-ttu"
		parent := []Restr{g.maybeCond(RObj("folder"))}
		types := []TypeDef{user, {Name: "folder", Rels: g.w1rels("viewer")}}
		if r.Chance(1, 2) {
			parent = append(parent, RObj("team"))
			types = append(types, TypeDef{Name: "team", Rels: []RelDef{{Name: "viewer", RW: This(), Restr: g.userRestr()}}})
		}
		types = append(types, TypeDef{Name: "doc", Rels: []RelDef{
			{Name: "parent", RW: This(), Restr: parent},
			{Name: "viewer", RW: TTU("parent", "viewer")},
			{Name: "editor", RW: Union(This(), TTU("parent", "viewer")), Restr: []Restr{RObj("user")}},
			{Name: "blocked", RW: TTU("parent", "a")},
			{Name: "allowed", RW: g.notOr(Comp("editor"), Comp("blocked"))},
			{Name: "owner", RW: g.and2(TTU("parent", "viewer"), TTU("parent", "b"))},
		}})
		g.s.Types = types
	case 2: // recursive userset with further weight-1 operands
		g.s.Shape = "c02-rec-userset"
		member := []Restr{g.maybeCond(RObj("user")), g.maybeCond(RSet("group", "member"))}
		if r.Chance(1, 3) {
			member = append(member, RWild("user"))
		}
		var mrw *Rewrite
		switch r.Intn(3) {
		case 0:
			mrw = This()
		case 1:
			mrw = Union(This(), Comp("owner"))
		default:
			mrw = Union(This(), g.notOr(Comp("owner"), Comp("banned")))
		}
		g.s.Types = []TypeDef{user,
			{Name: "group", Rels: []RelDef{
				{Name: "owner", RW: This(), Restr: g.userRestr()},
				{Name: "banned", RW: This(), Restr: []Restr{RObj("user")}},
				{Name: "member", RW: mrw, Restr: member},
			}},
			{Name: "doc", Rels: []RelDef{
				{Name: "viewer", RW: This(), Restr: []Restr{RObj("user"), g.maybeCond(RSet("group", "member"))}},
				{Name: "blocked", RW: This(), Restr: []Restr{RSet("group", "member")}},
				{Name: "allowed", RW: g.notOr(Comp("viewer"), Comp("blocked"))},
			}}}
	case 3: // recursive TTU with further weight-1 operands
		g.s.Shape = "c02-rec-ttu"
		var vrw *Rewrite
		switch r.Intn(3) {
		case 0:
			vrw = Union(This(), TTU("parent", "viewer"))
		case 1:
			vrw = Union(This(), Comp("owner"), TTU("parent", "viewer"))
		default:
			vrw = Union(g.notOr(This(), Comp("banned")), TTU("parent", "viewer"))
		}
		g.s.Types = []TypeDef{user,
			{Name: "folder", Rels: []RelDef{
				{Name: "parent", RW: This(), Restr: []Restr{g.maybeCond(RObj("folder"))}},
				{Name: "owner", RW: This(), Restr: g.userRestr()},
				{Name: "banned", RW: This(), Restr: []Restr{RObj("user")}},
				{Name: "viewer", RW: vrw, Restr: g.userRestr()},
			}},
			{Name: "doc", Rels: []RelDef{
				{Name: "parent", RW: This(), Restr: []Restr{RObj("folder")}},
				{Name: "blocked", RW: This(), Restr: []Restr{RObj("user")}},
				{Name: "viewer", RW: TTU("parent", "viewer")},
				{Name: "allowed", RW: g.notOr(TTU("parent", "viewer"), Comp("blocked"))},
			}}}
	case 4: // recursive userset and weight-2 userset side by side, TTU to a recursive folder tree
		g.s.Shape = "c02-mixed"
		g.s.Types = []TypeDef{user,
			{Name: "team", Rels: g.w1rels("member")},
			{Name: "group", Rels: []RelDef{
				{Name: "member", RW: This(), Restr: []Restr{RObj("user"), g.maybeCond(RSet("group", "member"))}},
			}},
			{Name: "folder", Rels: []RelDef{
				{Name: "parent", RW: This(), Restr: []Restr{RObj("folder")}},
				{Name: "viewer", RW: Union(This(), TTU("parent", "viewer")), Restr: []Restr{RObj("user"), RSet("team", "member")}},
			}},
			{Name: "doc", Rels: []RelDef{
				{Name: "parent", RW: This(), Restr: []Restr{RObj("folder")}},
				{Name: "viewer", RW: Union(This(), TTU("parent", "viewer")), Restr: []Restr{g.maybeCond(RSet("group", "member")), RSet("team", "member"), RSet("team", "a")}},
				{Name: "blocked", RW: This(), Restr: []Restr{RSet("team", "b"), RObj("user")}},
				{Name: "allowed", RW: g.notOr(Comp("viewer"), Comp("blocked"))},
			}}}
	default: // two weight-2 levels: nested set expressions on both sides
		g.s.Shape = "c02-w2-nested"
		g.s.Types = []TypeDef{user,
			{Name: "group", Rels: g.w1rels("member")},
			{Name: "folder", Rels: append(g.w1rels("viewer"),
				RelDef{Name: "editor", RW: This(), Restr: []Restr{g.maybeCond(RSet("group", "member")), RSet("group", "c")}})},
			{Name: "doc", Rels: []RelDef{
				{Name: "parent", RW: This(), Restr: []Restr{g.maybeCond(RObj("folder"))}},
				{Name: "viewer", RW: g.w1top()},
				{Name: "editor", RW: This(), Restr: []Restr{RSet("group", "member"), RSet("folder", "viewer")}},
				{Name: "allowed", RW: g.notOr(Comp("viewer"), Comp("editor"))},
			}}}
	}
}

func (g *gen) w1top() *Rewrite {
	a := TTU("parent", "viewer")
	b := Comp("editor")
	switch g.r.Intn(3) {
	case 0:
		return Union(a, b)
	case 1:
		return g.and2(a, b)
	default:
		return g.notOr(a, b)
	}
}

// ---------------------------------------------------------------------------------------------
// eligibility, measured with the real typesystem predicates

type Eligibility struct {
	UsersetW2, UsersetRec, TTUW2, TTURec int // number of (relation, user type[, operand]) keys
	UsersetKeys, TTUKeys                  int
}

func (e *Env) Eligibility() Eligibility {
	var el Eligibility
	var userTypes []string
	for _, td := range e.S.Types {
		userTypes = append(userTypes, td.Name)
	}
	for _, td := range e.S.Types {
		for _, rd := range td.Rels {
			usersets, _ := e.TS.DirectlyRelatedUsersets(td.Name, rd.Name)
			var ttus []*openfgav1.TupleToUserset
			rd.RW.Walk(func(rw *Rewrite) {
				if rw.Op == "ttu" {
					ttus = append(ttus, rw.Proto().GetTupleToUserset())
				}
			})
			for _, ut := range userTypes {
				if len(usersets) > 0 && rd.RW.HasThis() {
					el.UsersetKeys++
					if e.TS.UsersetUseRecursiveResolver(td.Name, rd.Name, ut) {
						el.UsersetRec++
					} else {
						for _, us := range usersets {
							if e.TS.UsersetUseWeight2Resolver(td.Name, rd.Name, ut, us) {
								el.UsersetW2++
							}
						}
					}
				}
				for _, ttu := range ttus {
					el.TTUKeys++
					if e.TS.TTUUseWeight2Resolver(td.Name, rd.Name, ut, ttu) {
						el.TTUW2++
					} else if e.TS.TTUUseRecursiveResolver(td.Name, rd.Name, ut, ttu) {
						el.TTURec++
					}
				}
			}
		}
	}
	return el
}

var _ = typesystem.DirectRelationReference

// DupThis: some relation's rewrite mentions the direct assignment (`this`) more than once — a
// shape the model validator accepts (JSON API) although the DSL cannot express it.
func (s *Scenario) DupThis() bool {
	for _, td := range s.Types {
		for _, rd := range td.Rels {
			n := 0
			rd.RW.Walk(func(x *Rewrite) {
				if x.Op == "this" {
					n++
				}
			})
			if n > 1 {
				return true
			}
		}
	}
	return false
}

// ---------------------------------------------------------------------------------------------
// planners

// SeededPlanner chooses among the eligible strategies pseudo-randomly: per plan key (the same
// key always gets the same choice; store and model ids are stripped from the key so that the
// choice depends on the seed and on the sub-problem only) or, with PerCall, anew at every call
// (what Thompson sampling may do).
type SeededPlanner struct {
	Seed    uint64
	PerCall bool
	mu      sync.Mutex
	strip   []string
	calls   uint64
	Seen    map[string]int
}

func NewSeededPlanner(seed uint64, perCall bool) *SeededPlanner {
	return &SeededPlanner{Seed: seed, PerCall: perCall, Seen: map[string]int{}}
}

// Strip sets the strings (store id, model id) removed from plan keys before hashing.
func (p *SeededPlanner) Strip(ids ...string) {
	p.mu.Lock()
	p.strip = ids
	p.mu.Unlock()
}

type seededSelector struct {
	p   *SeededPlanner
	key string
}

func (s seededSelector) Select(options map[string]*planner.PlanConfig) *planner.PlanConfig {
	names := make([]string, 0, len(options))
	for n := range options {
		names = append(names, n)
	}
	sort.Strings(names)
	s.p.mu.Lock()
	defer s.p.mu.Unlock()
	h := fnv.New64a()
	var b [8]byte
	x := s.p.Seed
	if s.p.PerCall {
		s.p.calls++
		x += s.p.calls * 0x9e3779b97f4a7c15
	}
	for i := 0; i < 8; i++ {
		b[i] = byte(x >> (8 * i))
	}
	h.Write(b[:])
	if !s.p.PerCall {
		h.Write([]byte(s.key))
	}
	o := options[names[int(h.Sum64()>>7)%len(names)]]
	s.p.Seen[o.Name]++
	return o
}

func (s seededSelector) UpdateStats(*planner.PlanConfig, time.Duration) {}

func (p *SeededPlanner) GetPlanSelector(k keys.Key) planner.Selector {
	key := string(k.Bytes())
	p.mu.Lock()
	for _, id := range p.strip {
		if id != "" {
			key = strings.ReplaceAll(key, id, "")
		}
	}
	p.mu.Unlock()
	return seededSelector{p, key}
}

func (p *SeededPlanner) Stop() {}

// SeenCounts returns a copy of the selection counters.
func (p *SeededPlanner) SeenCounts() map[string]int {
	p.mu.Lock()
	defer p.mu.Unlock()
	out := map[string]int{}
	for k, v := range p.Seen {
		out[k] = v
	}
	return out
}

// SeenCounts returns a copy of the forced planner's selection counters.
func (fp *ForcedPlanner) SeenCounts() map[string]int {
	fp.mu <- struct{}{}
	defer func() { <-fp.mu }()
	out := map[string]int{}
	for k, v := range fp.Seen {
		out[k] = v
	}
	return out
}

// ResetSeen clears the selection counters.
func (p *SeededPlanner) ResetSeen() {
	p.mu.Lock()
	p.Seen = map[string]int{}
	p.mu.Unlock()
}

// ResetSeen clears the forced planner's selection counters.
func (fp *ForcedPlanner) ResetSeen() {
	fp.mu <- struct{}{}
	fp.Seen = map[string]int{}
	<-fp.mu
}

var _ planner.Manager = (*SeededPlanner)(nil)

// ---------------------------------------------------------------------------------------------
// first level of the recursive strategy: an object with 2-4 first-level usersets (nested groups /
// parent folders); the user is a direct member of one of them (often not the first), of a deeper
// one, or of none.  Returns the scenario and the request (object, relation) on the top object.

func GenerateC02FirstLevel(r *rec.Rand) (*Scenario, string, string, []string) {
	s := &Scenario{}
	k := r.Range(2, 4)
	names := []string{"p1", "p2", "p3", "p4", "q1", "q2"}
	rec.Shuffle(r, names)
	parents := names[:k]
	deeper := names[k:]
	var typ, rel string
	edge := func(from, to string) Tuple {
		if typ == "group" {
			return Tuple{Obj: "group:" + from, Rel: "member", User: "group:" + to + "#member"}
		}
		return Tuple{Obj: "folder:" + from, Rel: "parent", User: "folder:" + to}
	}
	direct := func(o, u string) Tuple {
		if typ == "group" {
			return Tuple{Obj: "group:" + o, Rel: "member", User: u}
		}
		return Tuple{Obj: "folder:" + o, Rel: "viewer", User: u}
	}
	subjects := []string{"user:a"}
	flavour := r.Intn(5)
	if flavour < 2 {
		typ, rel = "group", "member"
		s.Shape = "c02-first-level-userset"
		subjects = append(subjects, "group:"+parents[k-1]+"#member")
		s.Types = []TypeDef{{Name: "user"},
			{Name: "group", Rels: []RelDef{{Name: "member", RW: This(), Restr: []Restr{RObj("user"), RSet("group", "member")}}}}}
	} else if flavour == 4 {
		// recursive TTU whose relation is also assignable to plain groups and to team#member:
		// recursive-eligible for subjects of type group; asked with a USERSET subject of that
		// type (group:eng#member), related only through a nested userset up the parent chain
		typ, rel = "folder", "viewer"
		s.Shape = "c02-first-level-ttu-userset-subject"
		s.Types = []TypeDef{{Name: "user"},
			{Name: "group", Rels: []RelDef{{Name: "member", RW: This(), Restr: []Restr{RObj("user")}}}},
			{Name: "team", Rels: []RelDef{{Name: "member", RW: This(), Restr: []Restr{RObj("user"), RSet("group", "member")}}}},
			{Name: "folder", Rels: []RelDef{
				{Name: "parent", RW: This(), Restr: []Restr{RObj("folder")}},
				{Name: "viewer", RW: Union(This(), TTU("parent", "viewer")), Restr: []Restr{RObj("user"), RObj("group"), RSet("team", "member")}}}}}
		subjects = []string{"group:eng#member", "group:eng", "user:a", "team:t#member"}
		for _, p := range parents {
			s.Tuples = append(s.Tuples, edge("top", p))
		}
		for i, d := range deeper {
			if r.Chance(2, 3) {
				s.Tuples = append(s.Tuples, edge(parents[i%k], d))
			}
		}
		holder := parents[r.Intn(k)]
		if r.Chance(1, 2) {
			holder = deeper[0]
			s.Tuples = append(s.Tuples, edge(parents[k-1], deeper[0]))
		}
		s.Tuples = append(s.Tuples,
			Tuple{Obj: "folder:" + holder, Rel: "viewer", User: "team:t#member"},
			Tuple{Obj: "group:eng", Rel: "member", User: "user:a"})
		if r.Chance(4, 5) {
			s.Tuples = append(s.Tuples, Tuple{Obj: "team:t", Rel: "member", User: "group:eng#member"})
		}
		if r.Chance(1, 4) {
			s.Tuples = append(s.Tuples, Tuple{Obj: "folder:" + parents[0], Rel: "viewer", User: "group:eng"})
		}
		if r.Chance(1, 4) {
			s.Tuples = append(s.Tuples, Tuple{Obj: "folder:" + parents[0], Rel: "viewer", User: "group:other"})
		}
		if r.Chance(1, 2) {
			rec.Shuffle(r, s.Tuples)
		}
		return s, "folder:top", "viewer", subjects
	} else {
		typ, rel = "folder", "viewer"
		s.Shape = "c02-first-level-ttu"
		s.Types = []TypeDef{{Name: "user"},
			{Name: "folder", Rels: []RelDef{
				{Name: "parent", RW: This(), Restr: []Restr{RObj("folder")}},
				{Name: "viewer", RW: Union(This(), TTU("parent", "viewer")), Restr: []Restr{RObj("user")}}}}}
	}
	for _, p := range parents {
		s.Tuples = append(s.Tuples, edge("top", p))
	}
	// a second level below some parents
	for i, d := range deeper {
		if r.Chance(1, 2) {
			s.Tuples = append(s.Tuples, edge(parents[i%k], d))
		}
	}
	switch x := r.Intn(10); {
	case x < 6: // direct member of one first-level userset, preferably not the first
		j := r.Intn(k)
		if k > 1 && r.Chance(2, 3) {
			j = 1 + r.Intn(k-1)
		}
		s.Tuples = append(s.Tuples, direct(parents[j], "user:a"))
	case x < 8: // member of a deeper one only
		s.Tuples = append(s.Tuples, direct(deeper[0], "user:a"))
		if r.Chance(1, 2) {
			s.Tuples = append(s.Tuples, edge(parents[k-1], deeper[0]))
		}
	case x < 9: // several first-level memberships
		s.Tuples = append(s.Tuples, direct(parents[k-1], "user:a"), direct(parents[0], "user:a"))
	default: // none (other users only)
	}
	s.Tuples = append(s.Tuples, direct(parents[0], "user:b"))
	if r.Chance(1, 2) {
		rec.Shuffle(r, s.Tuples)
	}
	return s, typ + ":top", rel, subjects
}
