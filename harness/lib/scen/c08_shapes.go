//go:build verif

package scen

// Scenario shapes for C08 (the Check query cache never changes answers): graphs whose
// sub-problems are reached along several paths, so that a result computed on one path (under
// one VisitedPaths / one shared `visited` filter) is looked up on another.
//
//   - the F3 shape (DESIGN.md section 8): group:a -> team:x -> group:z -> ... -> user and
//     group:a -> team:y_k -> group:z (a diamond over a model-level tuple cycle group#member <->
//     team#member); the weighted-graph engine evaluates team:y_k under a `visited` set that
//     already holds group:z and caches "false" for it;
//   - the same with a data cycle, with same-type recursion (recursive relation), with TTU
//     recursion, with a cross-type TTU cycle;
//   - the default engine's own path dependence: cycles under the subtract of an exclusion,
//     cycles reached through computed usersets (the node is on the path without having been
//     dispatched), cycle flags hidden under an intersection.
//
// Tuples of the template come on top of generator tuples (same pools as Generate), so the
// diamond / cycle is always present and the rest of the graph varies.

import (
	"fmt"

	"github.com/openfga/openfga/internal/verifharness/lib/rec"
)

// C08ShapeCount is the number of shape families of C08Shape.
const C08ShapeCount = 9

func (g *gen) addTuples(ts ...Tuple) {
	seen := map[string]bool{}
	for _, t := range g.s.Tuples {
		seen[t.Key()] = true
	}
	for _, t := range ts {
		if !seen[t.Key()] {
			seen[t.Key()] = true
			g.s.Tuples = append(g.s.Tuples, t)
		}
	}
}

func tup(obj, rel, user string) Tuple { return Tuple{Obj: obj, Rel: rel, User: user} }

// C08Shape returns a scenario of family k (any k outside [0, C08ShapeCount) picks at random).
func C08Shape(r *rec.Rand, k int) *Scenario {
	o := DefaultOpts()
	o.MaxTuples = 14
	o.Invalid = r.Chance(1, 4)
	g := &gen{r: r, o: o, s: &Scenario{}}
	if r.Chance(1, 2) {
		g.cond = []string{"c1"}
	}
	g.s.Conds = g.cond
	if k < 0 || k >= C08ShapeCount {
		k = r.Intn(C08ShapeCount)
	}
	user := TypeDef{Name: "user"}
	u := "user:" + rec.Pick(r, userIDs)
	var tmpl []Tuple
	cross := []TypeDef{
		{Name: "group", Rels: []RelDef{{Name: "member", RW: This(), Restr: []Restr{g.maybeCond(RObj("user")), RSet("team", "member")}}}},
		{Name: "team", Rels: []RelDef{{Name: "member", RW: This(), Restr: []Restr{RObj("user"), g.maybeCond(RSet("group", "member"))}}}},
	}
	// diamond over group/team: a -> x -> z -> (chain) -> u ; a -> y_k -> z
	diamond := func(a, z string) {
		nY := r.Range(1, 3)
		tmpl = append(tmpl, tup("group:"+a, "member", "team:x#member"), tup("team:x", "member", "group:"+z+"#member"))
		for i := 1; i <= nY; i++ {
			y := fmt.Sprintf("team:y%d", i)
			tmpl = append(tmpl, tup("group:"+a, "member", y+"#member"), tup(y, "member", "group:"+z+"#member"))
		}
		// z reaches the user directly or through a short chain
		last := "group:" + z
		for i := 0; i < r.Intn(3); i++ {
			t := fmt.Sprintf("team:c%d", i)
			gq := fmt.Sprintf("group:c%d", i)
			tmpl = append(tmpl, tup(last, "member", t+"#member"), tup(t, "member", gq+"#member"))
			last = gq
		}
		if r.Chance(5, 6) {
			tmpl = append(tmpl, tup(last, "member", u))
		}
	}
	switch k {
	case 0: // F3: diamond over a cross-type tuple cycle
		g.s.Shape = "c08-f3-diamond"
		g.s.Types = append([]TypeDef{user}, cross...)
		diamond("a", "z")
	case 1: // data cycle across two types, the user hangs on one node of the cycle
		g.s.Shape = "c08-cross-cycle"
		g.s.Types = append([]TypeDef{user}, cross...)
		n := r.Range(1, 3)
		for i := 1; i <= n; i++ {
			nx := i%n + 1
			tmpl = append(tmpl, tup(fmt.Sprintf("group:%d", i), "member", fmt.Sprintf("team:%d#member", i)),
				tup(fmt.Sprintf("team:%d", i), "member", fmt.Sprintf("group:%d#member", nx)))
		}
		if r.Chance(4, 5) {
			if r.Bool() {
				tmpl = append(tmpl, tup(fmt.Sprintf("group:%d", r.Range(1, n)), "member", u))
			} else {
				tmpl = append(tmpl, tup(fmt.Sprintf("team:%d", r.Range(1, n)), "member", u))
			}
		}
	case 2: // same-type recursion (recursive relation): diamond and cycle
		g.s.Shape = "c08-recursive-diamond"
		g.s.Types = []TypeDef{user,
			{Name: "group", Rels: []RelDef{{Name: "member", RW: This(), Restr: []Restr{g.maybeCond(RObj("user")), RSet("group", "member")}}}},
			{Name: "doc", Rels: []RelDef{{Name: "viewer", RW: This(), Restr: []Restr{RObj("user"), RSet("group", "member")}}}}}
		tmpl = append(tmpl, tup("group:1", "member", "group:2#member"), tup("group:1", "member", "group:3#member"),
			tup("group:2", "member", "group:4#member"), tup("group:3", "member", "group:4#member"),
			tup("doc:1", "viewer", "group:1#member"), tup("doc:2", "viewer", "group:3#member"))
		if r.Bool() {
			tmpl = append(tmpl, tup("group:4", "member", "group:1#member"))
		}
		if r.Chance(5, 6) {
			tmpl = append(tmpl, tup("group:4", "member", u))
		}
	case 3: // TTU recursion with a diamond in the parent edges
		g.s.Shape = "c08-ttu-diamond"
		g.s.Types = []TypeDef{user,
			{Name: "folder", Rels: []RelDef{
				{Name: "parent", RW: This(), Restr: []Restr{RObj("folder")}},
				{Name: "viewer", RW: Union(This(), TTU("parent", "viewer")), Restr: []Restr{g.maybeCond(RObj("user"))}},
			}},
			{Name: "doc", Rels: []RelDef{
				{Name: "parent", RW: This(), Restr: []Restr{RObj("folder")}},
				{Name: "viewer", RW: TTU("parent", "viewer")},
			}}}
		tmpl = append(tmpl, tup("folder:1", "parent", "folder:2"), tup("folder:1", "parent", "folder:3"),
			tup("folder:2", "parent", "folder:4"), tup("folder:3", "parent", "folder:4"),
			tup("doc:1", "parent", "folder:1"), tup("doc:2", "parent", "folder:3"))
		if r.Bool() {
			tmpl = append(tmpl, tup("folder:4", "parent", "folder:1"))
		}
		if r.Chance(5, 6) {
			tmpl = append(tmpl, tup("folder:4", "viewer", u))
		}
	case 4: // cross-type TTU cycle: folder.viewer from parent (folder or doc), doc.viewer from parent
		g.s.Shape = "c08-ttu-cross-cycle"
		g.s.Types = []TypeDef{user,
			{Name: "folder", Rels: []RelDef{
				{Name: "parent", RW: This(), Restr: []Restr{RObj("doc")}},
				{Name: "viewer", RW: Union(This(), TTU("parent", "viewer")), Restr: []Restr{RObj("user")}},
			}},
			{Name: "doc", Rels: []RelDef{
				{Name: "parent", RW: This(), Restr: []Restr{RObj("folder")}},
				{Name: "viewer", RW: Union(This(), TTU("parent", "viewer")), Restr: []Restr{g.maybeCond(RObj("user"))}},
			}}}
		tmpl = append(tmpl, tup("doc:1", "parent", "folder:1"), tup("doc:1", "parent", "folder:2"),
			tup("folder:1", "parent", "doc:2"), tup("folder:2", "parent", "doc:2"), tup("doc:2", "parent", "folder:3"))
		if r.Bool() {
			tmpl = append(tmpl, tup("folder:3", "parent", "doc:1"))
		}
		if r.Chance(5, 6) {
			tmpl = append(tmpl, tup("folder:3", "viewer", u))
		}
	case 5: // exclusion over cyclic usersets (F1 region) with the diamond below it
		g.s.Shape = "c08-exclusion-over-cycle"
		g.s.Types = append([]TypeDef{user}, append(cross, TypeDef{Name: "doc", Rels: []RelDef{
			{Name: "owner", RW: This(), Restr: []Restr{RObj("user"), RSet("group", "member")}},
			{Name: "blocked", RW: This(), Restr: []Restr{RSet("group", "member"), RSet("team", "member")}},
			{Name: "viewer", RW: Diff(Comp("owner"), Comp("blocked"))},
			{Name: "editor", RW: Union(Comp("viewer"), Comp("owner"))},
		}})...)
		diamond("a", "z")
		tmpl = append(tmpl, tup("doc:1", "owner", u), tup("doc:1", "blocked", "team:y1#member"),
			tup("doc:2", "owner", "group:a#member"), tup("doc:2", "blocked", "group:z#member"))
		if r.Bool() {
			tmpl = append(tmpl, tup("group:z", "member", "team:x#member"))
		}
	case 6: // cycles reached through computed usersets: the node is on the path, never dispatched
		g.s.Shape = "c08-computed-cycle"
		g.s.Types = []TypeDef{user,
			{Name: "group", Rels: []RelDef{{Name: "member", RW: This(), Restr: []Restr{RObj("user"), RSet("doc", "viewer"), RSet("group", "member")}}}},
			{Name: "doc", Rels: []RelDef{
				{Name: "owner", RW: This(), Restr: []Restr{g.maybeCond(RObj("user")), RSet("group", "member")}},
				{Name: "editor", RW: Union(This(), Comp("owner")), Restr: []Restr{RObj("user"), RSet("doc", "viewer")}},
				{Name: "viewer", RW: Union(This(), Comp("editor")), Restr: []Restr{RObj("user"), RSet("doc", "editor"), RSet("group", "member")}},
			}}}
		tmpl = append(tmpl, tup("doc:1", "owner", "group:1#member"), tup("group:1", "member", "doc:1#viewer"),
			tup("group:1", "member", "group:2#member"), tup("doc:2", "editor", "doc:1#viewer"),
			tup("doc:1", "viewer", "doc:2#editor"), tup("doc:2", "viewer", "group:2#member"))
		if r.Chance(5, 6) {
			p := rec.Pick(r, [][2]string{{"group:2", "member"}, {"doc:2", "owner"}, {"doc:1", "owner"}})
			tmpl = append(tmpl, tup(p[0], p[1], u))
		}
	case 7: // intersection with a cyclic branch: the cycle flag may be hidden
		g.s.Shape = "c08-intersection-cycle"
		g.s.Types = append([]TypeDef{user}, append(cross, TypeDef{Name: "doc", Rels: []RelDef{
			{Name: "editor", RW: This(), Restr: []Restr{RObj("user"), RSet("group", "member")}},
			{Name: "allowed", RW: This(), Restr: []Restr{g.maybeCond(RObj("user")), RSet("team", "member")}},
			{Name: "viewer", RW: Inter(Comp("editor"), Comp("allowed"))},
			{Name: "owner", RW: Union(This(), Comp("viewer")), Restr: []Restr{RSet("doc", "viewer")}},
		}})...)
		diamond("a", "z")
		tmpl = append(tmpl, tup("doc:1", "editor", "group:a#member"), tup("doc:1", "allowed", "team:y1#member"),
			tup("doc:2", "editor", "group:z#member"), tup("doc:2", "allowed", u), tup("doc:3", "owner", "doc:1#viewer"))
		if r.Bool() {
			tmpl = append(tmpl, tup("group:z", "member", "team:y1#member"))
		}
	default: // long chain (depth limit region) with a shortcut
		g.s.Shape = "c08-chain"
		g.s.Types = []TypeDef{user,
			{Name: "group", Rels: []RelDef{{Name: "member", RW: This(), Restr: []Restr{RObj("user"), RSet("group", "member")}}}},
			{Name: "doc", Rels: []RelDef{{Name: "viewer", RW: This(), Restr: []Restr{RObj("user"), RSet("group", "member")}}}}}
		n := r.Range(3, 7)
		for i := 1; i < n; i++ {
			tmpl = append(tmpl, tup(fmt.Sprintf("group:%d", i), "member", fmt.Sprintf("group:%d#member", i+1)))
		}
		tmpl = append(tmpl, tup("doc:1", "viewer", "group:1#member"), tup("doc:2", "viewer", fmt.Sprintf("group:%d#member", n/2+1)))
		if r.Chance(5, 6) {
			tmpl = append(tmpl, tup(fmt.Sprintf("group:%d", n), "member", u))
		}
	}
	g.dropUnusedConds()
	if r.Chance(2, 3) {
		g.tuples()
	}
	// template tuples take the condition of the first matching restriction with a condition, sometimes
	for i := range tmpl {
		t := &tmpl[i]
		ot, _ := SplitObj(t.Obj)
		rd := g.s.Rel(ot, t.Rel)
		if rd == nil {
			continue
		}
		ut, uid, urel := SplitUser(t.User)
		plain := false
		var conds []string
		for _, rs := range rd.Restr {
			if rs.Type != ut {
				continue
			}
			match := (rs.Kind == KObj && urel == "" && uid != "*") || (rs.Kind == KSet && urel == rs.Rel) || (rs.Kind == KWild && uid == "*")
			if !match {
				continue
			}
			if rs.Cond == "" {
				plain = true
			} else {
				conds = append(conds, rs.Cond)
			}
		}
		if len(conds) > 0 && (!plain || r.Chance(1, 3)) {
			t.Cond = rec.Pick(r, conds)
			t.Ctx = g.ctxFor(t.Cond)
		}
	}
	g.addTuples(tmpl...)
	g.reqctx()
	return g.s
}

// DepGraph returns, for every (object, relation) node "type:id#rel" of the scenario's universe,
// the nodes its evaluation may ask about (computed usersets, userset tuples, tuple-to-userset
// hops), over the stored tuples plus extra.  Used to order request histories.
func (s *Scenario) DepGraph(extra []Tuple) map[string][]string {
	all := append(append([]Tuple{}, extra...), s.Tuples...)
	byKey := map[string][]Tuple{}
	for _, t := range all {
		byKey[t.Obj+"#"+t.Rel] = append(byKey[t.Obj+"#"+t.Rel], t)
	}
	var objs []string
	for _, t := range all {
		objs = append(objs, t.Obj, t.User)
	}
	g := map[string][]string{}
	for _, o := range s.Objects(objs...) {
		ot, _ := SplitObj(o)
		td := s.Type(ot)
		if td == nil {
			continue
		}
		for _, rd := range td.Rels {
			node := o + "#" + rd.Name
			var out []string
			rd.RW.Walk(func(rw *Rewrite) {
				switch rw.Op {
				case "this":
					for _, t := range byKey[node] {
						if _, _, urel := SplitUser(t.User); urel != "" {
							out = append(out, t.User)
						}
					}
				case "computed":
					out = append(out, o+"#"+rw.Rel)
				case "ttu":
					for _, t := range byKey[o+"#"+rw.Tupleset] {
						if _, uid, urel := SplitUser(t.User); urel == "" && uid != "*" {
							out = append(out, t.User+"#"+rw.Rel)
						}
					}
				}
			})
			g[node] = out
		}
	}
	return g
}
