//go:build verif

// Package scen generates authorization-model scenarios (model, conditions, tuples, request
// context) for the query properties (C01–C08, C30, C32), builds the real protobuf model, and
// encodes scenarios as records for the Coq oracle (Sem/*.v, Check/V1.v).
//
// Every random choice derives from the rec.Rand passed in.
package scen

import (
	"fmt"
	"sort"
	"strings"

	openfgav1 "github.com/openfga/api/proto/openfga/v1"
	"google.golang.org/protobuf/types/known/structpb"

	"github.com/openfga/openfga/internal/verifharness/lib/rec"
)

// Restriction kinds.
const (
	KObj  = 0
	KWild = 1
	KSet  = 2
)

type Restr struct {
	Type string `json:"type"`
	Kind int    `json:"kind"`
	Rel  string `json:"rel,omitempty"`
	Cond string `json:"cond,omitempty"`
}

type Rewrite struct {
	Op       string     `json:"op"` // this | computed | ttu | union | inter | diff
	Rel      string     `json:"rel,omitempty"`
	Tupleset string     `json:"tupleset,omitempty"`
	Kids     []*Rewrite `json:"kids,omitempty"`
}

type RelDef struct {
	Name  string   `json:"name"`
	RW    *Rewrite `json:"rw"`
	Restr []Restr  `json:"restr,omitempty"`
}

type TypeDef struct {
	Name string   `json:"name"`
	Rels []RelDef `json:"rels,omitempty"`
}

type Tuple struct {
	Obj  string         `json:"obj"`
	Rel  string         `json:"rel"`
	User string         `json:"user"`
	Cond string         `json:"cond,omitempty"`
	Ctx  map[string]any `json:"ctx,omitempty"`
}

func (t Tuple) Key() string { return t.Obj + "#" + t.Rel + "@" + t.User }

type Scenario struct {
	Types  []TypeDef      `json:"types"`
	Conds  []string       `json:"conds,omitempty"` // condition names; each is  name(x: int) { x > 0 }
	Tuples []Tuple        `json:"tuples"`
	ReqCtx map[string]any `json:"req_ctx,omitempty"`
	Shape  string         `json:"shape,omitempty"`
}

// ---------------------------------------------------------------------------------------------
// rewrite helpers

func This() *Rewrite                     { return &Rewrite{Op: "this"} }
func Comp(r string) *Rewrite             { return &Rewrite{Op: "computed", Rel: r} }
func TTU(ts, c string) *Rewrite          { return &Rewrite{Op: "ttu", Tupleset: ts, Rel: c} }
func Union(k ...*Rewrite) *Rewrite       { return &Rewrite{Op: "union", Kids: k} }
func Inter(k ...*Rewrite) *Rewrite       { return &Rewrite{Op: "inter", Kids: k} }
func Diff(b, s *Rewrite) *Rewrite        { return &Rewrite{Op: "diff", Kids: []*Rewrite{b, s}} }
func RObj(t string) Restr                { return Restr{Type: t, Kind: KObj} }
func RWild(t string) Restr               { return Restr{Type: t, Kind: KWild} }
func RSet(t, r string) Restr             { return Restr{Type: t, Kind: KSet, Rel: r} }
func (r Restr) With(c string) Restr      { r.Cond = c; return r }
func (rw *Rewrite) HasThis() bool {
	if rw.Op == "this" {
		return true
	}
	for _, k := range rw.Kids {
		if k.HasThis() {
			return true
		}
	}
	return false
}

func (rw *Rewrite) Walk(f func(*Rewrite)) {
	f(rw)
	for _, k := range rw.Kids {
		k.Walk(f)
	}
}

func (rw *Rewrite) String() string {
	switch rw.Op {
	case "this":
		return "this"
	case "computed":
		return rw.Rel
	case "ttu":
		return rw.Rel + " from " + rw.Tupleset
	case "union", "inter":
		sep := " or "
		if rw.Op == "inter" {
			sep = " and "
		}
		p := make([]string, len(rw.Kids))
		for i, k := range rw.Kids {
			p[i] = k.String()
		}
		return "(" + strings.Join(p, sep) + ")"
	default:
		return "(" + rw.Kids[0].String() + " but not " + rw.Kids[1].String() + ")"
	}
}

// ---------------------------------------------------------------------------------------------
// protobuf model

func (rw *Rewrite) Proto() *openfgav1.Userset {
	switch rw.Op {
	case "this":
		return &openfgav1.Userset{Userset: &openfgav1.Userset_This{This: &openfgav1.DirectUserset{}}}
	case "computed":
		return &openfgav1.Userset{Userset: &openfgav1.Userset_ComputedUserset{ComputedUserset: &openfgav1.ObjectRelation{Relation: rw.Rel}}}
	case "ttu":
		return &openfgav1.Userset{Userset: &openfgav1.Userset_TupleToUserset{TupleToUserset: &openfgav1.TupleToUserset{
			Tupleset:        &openfgav1.ObjectRelation{Relation: rw.Tupleset},
			ComputedUserset: &openfgav1.ObjectRelation{Relation: rw.Rel},
		}}}
	case "union":
		ks := make([]*openfgav1.Userset, len(rw.Kids))
		for i, k := range rw.Kids {
			ks[i] = k.Proto()
		}
		return &openfgav1.Userset{Userset: &openfgav1.Userset_Union{Union: &openfgav1.Usersets{Child: ks}}}
	case "inter":
		ks := make([]*openfgav1.Userset, len(rw.Kids))
		for i, k := range rw.Kids {
			ks[i] = k.Proto()
		}
		return &openfgav1.Userset{Userset: &openfgav1.Userset_Intersection{Intersection: &openfgav1.Usersets{Child: ks}}}
	default:
		return &openfgav1.Userset{Userset: &openfgav1.Userset_Difference{Difference: &openfgav1.Difference{
			Base: rw.Kids[0].Proto(), Subtract: rw.Kids[1].Proto()}}}
	}
}

func (r Restr) Proto() *openfgav1.RelationReference {
	ref := &openfgav1.RelationReference{Type: r.Type, Condition: r.Cond}
	switch r.Kind {
	case KWild:
		ref.RelationOrWildcard = &openfgav1.RelationReference_Wildcard{Wildcard: &openfgav1.Wildcard{}}
	case KSet:
		ref.RelationOrWildcard = &openfgav1.RelationReference_Relation{Relation: r.Rel}
	}
	return ref
}

// CondProto: every generated condition is  name(x: int) { x > 0 }.
func CondProto(name string) *openfgav1.Condition {
	return &openfgav1.Condition{
		Name:       name,
		Expression: "x > 0",
		Parameters: map[string]*openfgav1.ConditionParamTypeRef{
			"x": {TypeName: openfgav1.ConditionParamTypeRef_TYPE_NAME_INT},
		},
	}
}

func (s *Scenario) ModelProto() *openfgav1.AuthorizationModel {
	m := &openfgav1.AuthorizationModel{SchemaVersion: "1.1"}
	for _, td := range s.Types {
		t := &openfgav1.TypeDefinition{Type: td.Name}
		if len(td.Rels) > 0 {
			t.Relations = map[string]*openfgav1.Userset{}
			t.Metadata = &openfgav1.Metadata{Relations: map[string]*openfgav1.RelationMetadata{}}
			for _, rd := range td.Rels {
				t.Relations[rd.Name] = rd.RW.Proto()
				md := &openfgav1.RelationMetadata{}
				for _, r := range rd.Restr {
					md.DirectlyRelatedUserTypes = append(md.DirectlyRelatedUserTypes, r.Proto())
				}
				t.Metadata.Relations[rd.Name] = md
			}
		}
		m.TypeDefinitions = append(m.TypeDefinitions, t)
	}
	if len(s.Conds) > 0 {
		m.Conditions = map[string]*openfgav1.Condition{}
		for _, c := range s.Conds {
			m.Conditions[c] = CondProto(c)
		}
	}
	return m
}

func Struct(m map[string]any) *structpb.Struct {
	if m == nil {
		return nil
	}
	s, err := structpb.NewStruct(m)
	if err != nil {
		panic(err)
	}
	return s
}

func (t Tuple) Proto() *openfgav1.TupleKey {
	tk := &openfgav1.TupleKey{Object: t.Obj, Relation: t.Rel, User: t.User}
	if t.Cond != "" {
		ctx := Struct(t.Ctx)
		if ctx == nil {
			ctx = &structpb.Struct{}
		}
		tk.Condition = &openfgav1.RelationshipCondition{Name: t.Cond, Context: ctx}
	}
	return tk
}

// ---------------------------------------------------------------------------------------------
// lookups

func (s *Scenario) Type(name string) *TypeDef {
	for i := range s.Types {
		if s.Types[i].Name == name {
			return &s.Types[i]
		}
	}
	return nil
}

func (s *Scenario) Rel(typ, rel string) *RelDef {
	td := s.Type(typ)
	if td == nil {
		return nil
	}
	for i := range td.Rels {
		if td.Rels[i].Name == rel {
			return &td.Rels[i]
		}
	}
	return nil
}

func SplitObj(o string) (string, string) {
	i := strings.IndexByte(o, ':')
	if i < 0 {
		return "", o
	}
	return o[:i], o[i+1:]
}

// SplitUser returns (type, id, relation); id "*" = typed wildcard.
func SplitUser(u string) (string, string, string) {
	rel := ""
	if i := strings.LastIndexByte(u, '#'); i >= 0 {
		rel = u[i+1:]
		u = u[:i]
	}
	t, id := SplitObj(u)
	return t, id, rel
}

// Objects returns every object (type:id) mentioned anywhere in the tuples, sorted.
func (s *Scenario) Objects(extra ...string) []string {
	set := map[string]bool{}
	add := func(o string) {
		t, id := SplitObj(o)
		if t != "" && id != "" && id != "*" {
			set[o] = true
		}
	}
	for _, t := range s.Tuples {
		add(t.Obj)
		ut, uid, _ := SplitUser(t.User)
		add(ut + ":" + uid)
	}
	for _, e := range extra {
		ut, uid, _ := SplitUser(e)
		add(ut + ":" + uid)
	}
	out := make([]string, 0, len(set))
	for o := range set {
		out = append(out, o)
	}
	sort.Strings(out)
	return out
}

// ---------------------------------------------------------------------------------------------
// interning and record encoding (the oracle sees numbers only)

type Intern struct {
	types, rels, conds, ids map[string]int
	TypeNames, RelNames     []string
	IDNames                 []string
}

func NewIntern() *Intern {
	return &Intern{types: map[string]int{}, rels: map[string]int{}, conds: map[string]int{}, ids: map[string]int{}}
}

func get(m map[string]int, names *[]string, k string) int {
	if v, ok := m[k]; ok {
		return v
	}
	v := len(m) + 1
	m[k] = v
	if names != nil {
		*names = append(*names, k)
	}
	return v
}

func (in *Intern) T(s string) int { return get(in.types, &in.TypeNames, s) }
func (in *Intern) R(s string) int { return get(in.rels, &in.RelNames, s) }
func (in *Intern) ID(s string) int { return get(in.ids, &in.IDNames, s) }
func (in *Intern) C(s string) int {
	if s == "" {
		return 0
	}
	return get(in.conds, nil, s)
}

func (in *Intern) Obj(o string) (rec.V, rec.V) {
	t, id := SplitObj(o)
	return rec.I(in.T(t)), rec.I(in.ID(id))
}

func (in *Intern) ObjV(o string) rec.V {
	a, b := in.Obj(o)
	return rec.L(a, b)
}

// Subject: (0 t id) object | (1 t) wildcard | (2 t id r) userset.
func (in *Intern) Subject(u string) rec.V {
	t, id, rel := SplitUser(u)
	switch {
	case rel != "":
		return rec.L(rec.I(2), rec.I(in.T(t)), rec.I(in.ID(id)), rec.I(in.R(rel)))
	case id == "*":
		return rec.L(rec.I(1), rec.I(in.T(t)))
	default:
		return rec.L(rec.I(0), rec.I(in.T(t)), rec.I(in.ID(id)))
	}
}

func (in *Intern) Rewrite(rw *Rewrite) rec.V {
	switch rw.Op {
	case "this":
		return rec.L(rec.I(0))
	case "computed":
		return rec.L(rec.I(1), rec.I(in.R(rw.Rel)))
	case "ttu":
		return rec.L(rec.I(2), rec.I(in.R(rw.Tupleset)), rec.I(in.R(rw.Rel)))
	case "union", "inter":
		vs := []rec.V{rec.I(3)}
		if rw.Op == "inter" {
			vs[0] = rec.I(4)
		}
		for _, k := range rw.Kids {
			vs = append(vs, in.Rewrite(k))
		}
		return rec.L(vs...)
	default:
		return rec.L(rec.I(5), in.Rewrite(rw.Kids[0]), in.Rewrite(rw.Kids[1]))
	}
}

func (in *Intern) Model(s *Scenario) rec.V {
	var tds []rec.V
	for _, td := range s.Types {
		var rds []rec.V
		for _, rd := range td.Rels {
			var rs []rec.V
			for _, r := range rd.Restr {
				rel := 0
				if r.Kind == KSet {
					rel = in.R(r.Rel)
				}
				rs = append(rs, rec.L(rec.I(in.T(r.Type)), rec.I(r.Kind), rec.I(rel), rec.I(in.C(r.Cond))))
			}
			rds = append(rds, rec.L(rec.I(in.R(rd.Name)), in.Rewrite(rd.RW), rec.L(rs...)))
		}
		tds = append(tds, rec.L(rec.I(in.T(td.Name)), rec.L(rds...)))
	}
	return rec.L(tds...)
}

func (in *Intern) Conds(s *Scenario) rec.V {
	var cs []rec.V
	for _, c := range s.Conds {
		cs = append(cs, rec.I(in.C(c)))
	}
	return rec.L(cs...)
}

// Tuple with its condition outcome under the request context: 0 = met, 1 = not met, 2 = error.
func (in *Intern) Tuple(t Tuple, ceval int) rec.V {
	ot, oid := in.Obj(t.Obj)
	return rec.L(ot, oid, rec.I(in.R(t.Rel)), in.Subject(t.User), rec.I(in.C(t.Cond)), rec.I(ceval))
}

// Atoms: every (object, relation defined on its type) — the universe of the fixpoint.
func (in *Intern) Atoms(s *Scenario, objects []string) rec.V {
	var as []rec.V
	for _, o := range objects {
		t, _ := SplitObj(o)
		td := s.Type(t)
		if td == nil {
			continue
		}
		for _, rd := range td.Rels {
			ot, oid := in.Obj(o)
			as = append(as, rec.L(ot, oid, rec.I(in.R(rd.Name))))
		}
	}
	return rec.L(as...)
}

func (s *Scenario) String() string {
	var sb strings.Builder
	for _, td := range s.Types {
		fmt.Fprintf(&sb, "type %s\n", td.Name)
		for _, rd := range td.Rels {
			var rs []string
			for _, r := range rd.Restr {
				x := r.Type
				if r.Kind == KWild {
					x += ":*"
				} else if r.Kind == KSet {
					x += "#" + r.Rel
				}
				if r.Cond != "" {
					x += " with " + r.Cond
				}
				rs = append(rs, x)
			}
			fmt.Fprintf(&sb, "  define %s: %s  [%s]\n", rd.Name, rd.RW.String(), strings.Join(rs, ", "))
		}
	}
	for _, t := range s.Tuples {
		fmt.Fprintf(&sb, "%s", t.Key())
		if t.Cond != "" {
			fmt.Fprintf(&sb, " (%s %v)", t.Cond, t.Ctx)
		}
		sb.WriteString("\n")
	}
	return sb.String()
}
