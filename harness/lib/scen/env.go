//go:build verif

package scen

import (
	"context"
	"errors"
	"fmt"
	"sort"
	"time"

	"github.com/oklog/ulid/v2"
	openfgav1 "github.com/openfga/api/proto/openfga/v1"

	"github.com/openfga/openfga/internal/condition"
	"github.com/openfga/openfga/internal/condition/eval"
	"github.com/openfga/openfga/internal/graph"
	"github.com/openfga/openfga/internal/planner"
	"github.com/openfga/openfga/pkg/server/commands"
	"github.com/openfga/openfga/pkg/storage"
	"github.com/openfga/openfga/pkg/storage/cache/keys"
	"github.com/openfga/openfga/pkg/storage/memory"
	"github.com/openfga/openfga/pkg/typesystem"
)

// Outcome classes of a Check as observed on the implementation.
const (
	OutAllowed  = 0
	OutDenied   = 1 // CycleDetected = false
	OutDeniedCy = 2 // CycleDetected = true
	OutErrCond  = 3
	OutErrDepth = 4
	OutErrOther = 5
	OutTimeout  = 6
	OutInvalid  = 7 // request rejected by validation
)

// Env is a real datastore holding one scenario.
type Env struct {
	S       *Scenario
	DS      storage.OpenFGADatastore
	StoreID string
	Model   *openfgav1.AuthorizationModel
	TS      *typesystem.TypeSystem
}

var ErrModelRejected = errors.New("model rejected by the validator")

// NewEnvOn validates the model with the real validator, creates a store on ds, writes the model
// and writes the tuples DIRECTLY to the datastore (no tuple validation: leftovers stay possible).
func NewEnvOn(ctx context.Context, ds storage.OpenFGADatastore, s *Scenario) (*Env, error) {
	m := s.ModelProto()
	m.Id = ulid.Make().String()
	ts, err := typesystem.NewAndValidate(ctx, m)
	if err != nil {
		return nil, fmt.Errorf("%w: %v", ErrModelRejected, err)
	}
	storeID := ulid.Make().String()
	if _, err := ds.CreateStore(ctx, &openfgav1.Store{Id: storeID, Name: "verif"}); err != nil {
		return nil, err
	}
	if err := ds.WriteAuthorizationModel(ctx, storeID, m); err != nil {
		return nil, err
	}
	e := &Env{S: s, DS: ds, StoreID: storeID, Model: m, TS: ts}
	if err := e.WriteTuples(ctx, s.Tuples); err != nil {
		return nil, err
	}
	return e, nil
}

func NewEnv(ctx context.Context, s *Scenario) (*Env, error) {
	return NewEnvOn(ctx, memory.New(), s)
}

func (e *Env) WriteTuples(ctx context.Context, ts []Tuple) error {
	for i := 0; i < len(ts); i += 20 {
		j := i + 20
		if j > len(ts) {
			j = len(ts)
		}
		var ws storage.Writes
		for _, t := range ts[i:j] {
			ws = append(ws, t.Proto())
		}
		if err := e.DS.Write(ctx, e.StoreID, nil, ws); err != nil {
			return err
		}
	}
	return nil
}

func (e *Env) Close() { e.DS.Close() }

// CEval evaluates the tuple's condition with the REAL evaluator under the scenario's request
// context: 0 met, 1 not met, 2 cannot be evaluated.
func (e *Env) CEval(ctx context.Context, t Tuple) int {
	if t.Cond == "" {
		return 0
	}
	cond, _ := e.TS.GetCondition(t.Cond)
	ok, err := eval.EvaluateTupleCondition(ctx, t.Proto(), cond, Struct(e.S.ReqCtx))
	if err != nil {
		return 2
	}
	if ok {
		return 0
	}
	return 1
}

// PathX lists the (object type, relation) pairs for which the real typesys.PathExists holds
// for this user.
func (e *Env) PathX(user string) [][2]string {
	var out [][2]string
	for _, td := range e.S.Types {
		for _, rd := range td.Rels {
			ok, err := e.TS.PathExists(user, rd.Name, td.Name)
			if err == nil && ok {
				out = append(out, [2]string{td.Name, rd.Name})
			}
		}
	}
	sort.Slice(out, func(i, j int) bool { return out[i][0]+"#"+out[i][1] < out[j][0]+"#"+out[j][1] })
	return out
}

// ForcedPlanner makes the adaptive planner deterministic: Pick chooses among the eligible
// strategies of a plan key.
type ForcedPlanner struct {
	Pick func(options map[string]*planner.PlanConfig) *planner.PlanConfig
	Seen map[string]int // strategy name -> times selected (not goroutine safe: guarded by mu)
	mu   chan struct{}
}

func NewForcedPlanner(prefer ...string) *ForcedPlanner {
	fp := &ForcedPlanner{Seen: map[string]int{}, mu: make(chan struct{}, 1)}
	fp.Pick = func(options map[string]*planner.PlanConfig) *planner.PlanConfig {
		for _, p := range prefer {
			if o, ok := options[p]; ok {
				return o
			}
		}
		if o, ok := options["default"]; ok {
			return o
		}
		names := make([]string, 0, len(options))
		for n := range options {
			names = append(names, n)
		}
		sort.Strings(names)
		return options[names[0]]
	}
	return fp
}

type forcedSelector struct{ fp *ForcedPlanner }

func (s forcedSelector) Select(options map[string]*planner.PlanConfig) *planner.PlanConfig {
	o := s.fp.Pick(options)
	s.fp.mu <- struct{}{}
	s.fp.Seen[o.Name]++
	<-s.fp.mu
	return o
}
func (s forcedSelector) UpdateStats(*planner.PlanConfig, time.Duration) {}

func (fp *ForcedPlanner) GetPlanSelector(keys.Key) planner.Selector { return forcedSelector{fp} }
func (fp *ForcedPlanner) Stop()                                     {}

var _ planner.Manager = (*ForcedPlanner)(nil)

// Resolver builds a v1 check resolver chain (no caches, no throttling) with the given planner.
func Resolver(pl planner.Manager, maxDepth uint32, extra ...graph.LocalCheckerOption) (graph.CheckResolver, func()) {
	opts := []graph.LocalCheckerOption{graph.WithPlanner(pl), graph.WithMaxResolutionDepth(maxDepth), graph.WithOptimizations(true)}
	opts = append(opts, extra...)
	r, closer, err := graph.NewOrderedCheckResolvers(graph.WithLocalCheckerOpts(opts...)).Build()
	if err != nil {
		panic(err)
	}
	return r, closer
}

// Classify maps a Check result to an outcome class.
func Classify(res *commands.CheckResult, err error) (int, string) {
	if err != nil {
		var ire *commands.InvalidRelationError
		var ite *commands.InvalidTupleError
		var ice *commands.InvalidContextError
		switch {
		case errors.As(err, &ire), errors.As(err, &ite), errors.As(err, &ice):
			return OutInvalid, err.Error()
		case errors.Is(err, condition.ErrEvaluationFailed):
			return OutErrCond, err.Error()
		case errors.Is(err, graph.ErrResolutionDepthExceeded):
			return OutErrDepth, err.Error()
		case errors.Is(err, context.DeadlineExceeded), errors.Is(err, context.Canceled):
			return OutTimeout, err.Error()
		}
		return OutErrOther, err.Error()
	}
	if res.Allowed {
		return OutAllowed, ""
	}
	if res.CycleDetected {
		return OutDeniedCy, ""
	}
	return OutDenied, ""
}

// Check runs the real CheckQuery command (validation, request storage wrapper, resolver chain).
func (e *Env) Check(ctx context.Context, resolver graph.CheckResolver, obj, rel, user string, ctxTuples []Tuple, opts ...commands.CheckQueryOption) (int, string) {
	cmd := commands.NewCheckCommand(e.DS, resolver, e.TS, opts...)
	var ct *openfgav1.ContextualTupleKeys
	if len(ctxTuples) > 0 {
		ct = &openfgav1.ContextualTupleKeys{}
		for _, t := range ctxTuples {
			ct.TupleKeys = append(ct.TupleKeys, t.Proto())
		}
	}
	cctx, cancel := context.WithTimeout(ctx, 20*time.Second)
	defer cancel()
	res, err := cmd.Execute(cctx, &commands.CheckCommandParams{
		StoreID:          e.StoreID,
		TupleKey:         &openfgav1.CheckRequestTupleKey{Object: obj, Relation: rel, User: user},
		ContextualTuples: ct,
		Context:          Struct(e.S.ReqCtx),
	})
	return Classify(res, err)
}
