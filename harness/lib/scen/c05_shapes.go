//go:build verif

package scen

import (
	"fmt"

	"github.com/openfga/openfga/internal/verifharness/lib/rec"
)

// GenerateC05 produces scenarios for the ListObjects property whose models reach ONE userset
// type#relation from the target relation along >= 2 different paths of EQUAL depth (userset +
// tuple-to-userset, two tuple-to-usersets through different tuplesets, two usersets through
// different intermediate relations), where that userset itself is assigned through a further
// userset (team#member: [group#member]) — so the weighted reverse expansion arrives at the same
// weighted-graph edge with different relation stacks of equal length — and each path contributes
// different objects.  A further family has 3-operand (and nested) intersections whose operands
// have differing sizes (designed small / medium / large operand sets per user, see wideIntersection),
// for the pipeline's Intersection worker.
// Tuples, conditions and request context come from the shared generator.
func GenerateC05(r *rec.Rand, o GenOpts) *Scenario {
	g := &gen{r: r, o: o, s: &Scenario{}}
	if o.Conds && r.Chance(1, 4) {
		g.cond = []string{"c1"}
	}
	g.s.Conds = g.cond
	user := TypeDef{Name: "user"}
	// the shared lower part: group.member, team.member assigned through group#member
	groupMember := RelDef{Name: "member", RW: This(), Restr: []Restr{g.maybeCond(RObj("user"))}}
	if r.Chance(1, 3) {
		groupMember.Restr = append(groupMember.Restr, RWild("user"))
	}
	if r.Chance(1, 3) {
		groupMember.Restr = append(groupMember.Restr, RSet("group", "member"))
	}
	teamRestr := []Restr{g.maybeCond(RSet("group", "member"))}
	if r.Chance(1, 2) {
		teamRestr = append(teamRestr, RObj("user"))
	}
	teamRels := []RelDef{{Name: "member", RW: This(), Restr: teamRestr}}
	if r.Chance(1, 3) {
		// a second relation of team reached the same way
		teamRels = append(teamRels, RelDef{Name: "owner", RW: This(), Restr: []Restr{RSet("group", "member"), RObj("user")}})
	}
	group := TypeDef{Name: "group", Rels: []RelDef{groupMember}}
	team := TypeDef{Name: "team", Rels: teamRels}
	wrap := func(rw *Rewrite) *Rewrite { // sometimes put the two paths under an exclusion / intersection
		switch r.Intn(6) {
		case 0:
			if o.Exclusion {
				return Diff(rw, Comp("blocked"))
			}
		case 1:
			if o.Inter {
				return Inter(rw, Comp("allowed"))
			}
		}
		return rw
	}
	extra := []RelDef{
		{Name: "blocked", RW: This(), Restr: []Restr{RObj("user"), RSet("team", "member")}},
		{Name: "allowed", RW: This(), Restr: []Restr{RObj("user"), RWild("user"), RSet("group", "member")}},
	}
	switch r.Intn(8) {
	case 6, 7:
		return g.prefixTypes()
	case 0: // userset + TTU
		g.s.Shape = "c05-userset+ttu"
		g.s.Types = []TypeDef{user, group, team, {Name: "doc", Rels: append([]RelDef{
			{Name: "parent", RW: This(), Restr: []Restr{g.maybeCond(RObj("team"))}},
			{Name: "viewer", RW: wrap(Union(This(), TTU("parent", "member"))), Restr: []Restr{g.maybeCond(RSet("team", "member")), RObj("user")}},
		}, extra...)}}
	case 1: // two TTUs through different tuplesets
		g.s.Shape = "c05-two-ttus"
		g.s.Types = []TypeDef{user, group, team, {Name: "doc", Rels: append([]RelDef{
			{Name: "parent", RW: This(), Restr: []Restr{RObj("team")}},
			{Name: "owner", RW: This(), Restr: []Restr{g.maybeCond(RObj("team"))}},
			{Name: "viewer", RW: wrap(Union(TTU("parent", "member"), TTU("owner", "member")))},
		}, extra...)}}
	case 2: // two usersets through different intermediate relations
		g.s.Shape = "c05-two-usersets"
		g.s.Types = []TypeDef{user, group, team, {Name: "doc", Rels: append([]RelDef{
			{Name: "editor", RW: This(), Restr: []Restr{RSet("team", "member"), RObj("user")}},
			{Name: "owner", RW: This(), Restr: []Restr{g.maybeCond(RSet("team", "member"))}},
			{Name: "viewer", RW: wrap(Union(Comp("editor"), Comp("owner")))},
		}, extra...)}}
	case 3: // three paths, one more level: folder in between on one of them
		g.s.Shape = "c05-three-paths"
		g.s.Types = []TypeDef{user, group, team,
			{Name: "folder", Rels: []RelDef{
				{Name: "parent", RW: This(), Restr: []Restr{RObj("team")}},
				{Name: "viewer", RW: Union(This(), TTU("parent", "member")), Restr: []Restr{RSet("team", "member")}},
			}},
			{Name: "doc", Rels: append([]RelDef{
				{Name: "parent", RW: This(), Restr: []Restr{RObj("folder"), RObj("team")}},
				{Name: "editor", RW: This(), Restr: []Restr{RSet("team", "member"), RSet("folder", "viewer")}},
				{Name: "viewer", RW: wrap(Union(Comp("editor"), TTU("parent", "member"), TTU("parent", "viewer")))},
			}, extra...)}}
	default: // n-ary intersections with operands of differing sizes
		return g.wideIntersection()
	}
	if g.o.MaxTuples < 45 {
		g.o.MaxTuples = 45
	}
	g.dropUnusedConds()
	g.tuples()
	g.backbone()
	g.reqctx()
	return g.s
}

// backbone makes sure that the equal-depth paths of the shapes above are populated with DIFFERENT
// objects for the same subject: user:a and user:b are members of group:1, group:1#member is a
// member of team:1, and every relation of doc that admits team:1#member or (as a tupleset) team:1
// links its own document to it.  Conditioned restrictions get a context that satisfies them.
func (g *gen) backbone() {
	put := func(t Tuple) {
		if t.Cond != "" {
			t.Ctx = map[string]any{"x": 1}
		}
		for i := range g.s.Tuples {
			if g.s.Tuples[i].Key() == t.Key() {
				g.s.Tuples[i] = t
				return
			}
		}
		g.s.Tuples = append(g.s.Tuples, t)
	}
	restrCond := func(typ, rel string, want Restr) (string, bool) {
		rd := g.s.Rel(typ, rel)
		if rd == nil {
			return "", false
		}
		for _, x := range rd.Restr {
			if x.Type == want.Type && x.Kind == want.Kind && x.Rel == want.Rel {
				return x.Cond, true
			}
		}
		return "", false
	}
	if c, ok := restrCond("group", "member", RObj("user")); ok {
		put(Tuple{Obj: "group:1", Rel: "member", User: "user:a", Cond: c})
		put(Tuple{Obj: "group:1", Rel: "member", User: "user:b", Cond: c})
	}
	if c, ok := restrCond("team", "member", RSet("group", "member")); ok {
		put(Tuple{Obj: "team:1", Rel: "member", User: "group:1#member", Cond: c})
	}
	doc := g.s.Type("doc")
	if doc == nil {
		return
	}
	k := 0
	for _, rd := range doc.Rels {
		if !rd.RW.HasThis() || rd.Name == "blocked" || rd.Name == "allowed" {
			continue
		}
		for _, x := range rd.Restr {
			var user string
			switch {
			case x.Type == "team" && x.Kind == KSet && x.Rel == "member":
				user = "team:1#member"
			case x.Type == "team" && x.Kind == KObj:
				user = "team:1"
			default:
				continue
			}
			k++
			put(Tuple{Obj: fmt.Sprintf("doc:%d", (k-1)%3+1), Rel: rd.Name, User: user, Cond: x.Cond})
			break
		}
	}
	rec.Shuffle(g.r, g.s.Tuples)
}

func allowedRel(rw *Rewrite) RelDef {
	rd := RelDef{Name: "allowed", RW: rw}
	if rw.HasThis() {
		rd.Restr = []Restr{RObj("user")}
	}
	return rd
}

// wideIntersection: three directly assignable relations owner / editor / viewer of doc and three
// 3-operand intersections over them with independent random operand orders (plus a 4-operand and a
// nested one).  For every user the three operand relations get, in a random assignment, a SMALL
// set {all, two}, a MEDIUM set {all, m1, m2} and a LARGE set {all, two, l1, l2}: the sets have
// pairwise different sizes, `all` is in every one, and `two` is in the small and the large set
// only.  So each intersection holds exactly {all} for each user, whatever the order in which an
// engine visits the operands, picks the smallest one or filters by the others.  A few random
// tuples (other subjects, conditions) are added on top.
func (g *gen) wideIntersection() *Scenario {
	r := g.r
	g.s.Shape = "c05-wide-intersection"
	ops := []string{"owner", "editor", "viewer"}
	order := func() []*Rewrite {
		o := append([]string{}, ops...)
		rec.Shuffle(r, o)
		return []*Rewrite{Comp(o[0]), Comp(o[1]), Comp(o[2])}
	}
	o4 := order()
	o5 := order()
	g.s.Types = []TypeDef{{Name: "user"},
		{Name: "group", Rels: []RelDef{{Name: "member", RW: This(), Restr: []Restr{RObj("user")}}}},
		{Name: "doc", Rels: []RelDef{
			{Name: "owner", RW: This(), Restr: []Restr{RObj("user")}},
			{Name: "editor", RW: This(), Restr: []Restr{RObj("user"), g.maybeCond(RSet("group", "member"))}},
			{Name: "viewer", RW: This(), Restr: []Restr{RObj("user"), RWild("user")}},
			{Name: "allowed", RW: Inter(order()...)},
			{Name: "member", RW: Inter(order()...)},
			{Name: "blocked", RW: Inter(order()...)},
			{Name: "wide", RW: Inter(This(), o4[0], o4[1], o4[2]), Restr: []Restr{RObj("user")}},
			{Name: "nested", RW: Inter(o5[0], Inter(o5[1], o5[2]))},
		}}}
	ids := []string{"1", "2", "3", "4", "5", "6"}
	rec.Shuffle(r, ids)
	all, two, m1, m2, l1, l2 := ids[0], ids[1], ids[2], ids[3], ids[4], ids[5]
	sets := [][]string{{all, two}, {all, m1, m2}, {all, two, l1, l2}}
	seen := map[string]bool{}
	add := func(t Tuple) {
		if !seen[t.Key()] {
			seen[t.Key()] = true
			g.s.Tuples = append(g.s.Tuples, t)
		}
	}
	for _, u := range userIDs {
		assign := []int{0, 1, 2}
		rec.Shuffle(r, assign)
		for i, rel := range ops {
			for _, id := range sets[assign[i]] {
				add(Tuple{Obj: "doc:" + id, Rel: rel, User: "user:" + u})
			}
		}
		for _, id := range ids {
			if r.Chance(1, 2) {
				add(Tuple{Obj: "doc:" + id, Rel: "wide", User: "user:" + u})
			}
		}
	}
	// noise: group memberships, userset and wildcard assignments
	for i, n := 0, r.Intn(5); i < n; i++ {
		gid := rec.Pick(r, []string{"1", "2"})
		switch r.Intn(3) {
		case 0:
			add(Tuple{Obj: "group:" + gid, Rel: "member", User: "user:" + rec.Pick(r, userIDs)})
		case 1:
			rs := g.s.Rel("doc", "editor").Restr[1]
			t := Tuple{Obj: "doc:" + rec.Pick(r, ids), Rel: "editor", User: "group:" + gid + "#member", Cond: rs.Cond}
			t.Ctx = g.ctxFor(t.Cond)
			add(t)
		default:
			add(Tuple{Obj: "doc:" + rec.Pick(r, ids), Rel: "viewer", User: "user:*"})
		}
	}
	rec.Shuffle(r, g.s.Tuples)
	g.dropUnusedConds()
	g.reqctx()
	return g.s
}

// prefixTypes: a tuple-to-userset whose tupleset relation admits parent types whose NAMES are
// prefixes of one another (folder / folderx / fold) with DIFFERENT conditions on the type
// restrictions, so an engine that pushes per-restriction condition lists down to the datastore
// (the pipeline's ObjectQuery.Conditions) must pick the restriction by the exact type.
func (g *gen) prefixTypes() *Scenario {
	r := g.r
	g.s.Shape = "c05-prefix-types"
	g.cond = []string{"c1"}
	if r.Chance(1, 2) {
		g.cond = append(g.cond, "c2")
	}
	g.s.Conds = g.cond
	names := []string{"folder", "folderx"}
	if r.Chance(1, 2) {
		names = append(names, "fold")
	}
	rec.Shuffle(r, names) // declaration order matters for a first-match search
	// every parent restriction gets its own condition list: none, c1, c2 (or both with and without)
	choices := []string{"", "c1"}
	if len(g.cond) > 1 {
		choices = append(choices, "c2")
	}
	rec.Shuffle(r, choices)
	var parent []Restr
	types := []TypeDef{{Name: "user"}}
	for i, n := range names {
		c := choices[i%len(choices)]
		x := RObj(n)
		if c != "" {
			x = x.With(c)
		}
		parent = append(parent, x)
		if r.Chance(1, 5) { // the same type also with the other kind of restriction
			if c == "" {
				parent = append(parent, RObj(n).With("c1"))
			} else {
				parent = append(parent, RObj(n))
			}
		}
		types = append(types, TypeDef{Name: n, Rels: []RelDef{{Name: "viewer", RW: This(), Restr: []Restr{RObj("user"), g.maybeCond(RWild("user"))}}}})
	}
	viewer := RelDef{Name: "viewer", RW: TTU("parent", "viewer")}
	if r.Chance(1, 3) {
		viewer = RelDef{Name: "viewer", RW: Union(This(), TTU("parent", "viewer")), Restr: []Restr{RObj("user")}}
	}
	types = append(types, TypeDef{Name: "doc", Rels: []RelDef{
		{Name: "parent", RW: This(), Restr: parent},
		viewer,
		{Name: "blocked", RW: This(), Restr: []Restr{RObj("user")}},
		{Name: "allowed", RW: Diff(Comp("viewer"), Comp("blocked"))},
	}})
	g.s.Types = types
	if g.o.MaxTuples < 45 {
		g.o.MaxTuples = 45
	}
	g.dropUnusedConds()
	g.tuples()
	// conditions must mostly hold for the objects to be visible: give the request context x = 1
	g.s.ReqCtx = map[string]any{"x": 1}
	if r.Chance(1, 4) {
		g.reqctx()
	}
	return g.s
}
