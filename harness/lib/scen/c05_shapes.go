//go:build verif

package scen

import (
	"github.com/openfga/openfga/internal/verifharness/lib/rec"
)

// GenerateC05 produces scenarios for the ListObjects property whose models reach ONE userset
// type#relation from the target relation along >= 2 different paths of EQUAL depth (userset +
// tuple-to-userset, two tuple-to-usersets through different tuplesets, two usersets through
// different intermediate relations), where that userset itself is assigned through a further
// userset (team#member: [group#member]) — so the weighted reverse expansion arrives at the same
// weighted-graph edge with different relation stacks of equal length — and each path contributes
// different objects.  A further family has 3-operand (and nested) intersections whose operands
// have differing sizes (more objects per type), for the pipeline's Intersection worker.
// Tuples, conditions and request context come from the shared generator.
func GenerateC05(r *rec.Rand, o GenOpts) *Scenario {
	g := &gen{r: r, o: o, s: &Scenario{}}
	if o.Conds && r.Chance(1, 4) {
		g.cond = []string{"c1"}
	}
	g.s.Conds = g.cond
	user := TypeDef{Name: "user"}
	// the shared lower part: group.member, team.member assigned through group#member
	groupMember := RelDef{Name: "member", RW: This(), Restr: []Restr{g.maybeCond(RObj("user"))}}
	if r.Chance(1, 3) {
		groupMember.Restr = append(groupMember.Restr, RWild("user"))
	}
	if r.Chance(1, 3) {
		groupMember.Restr = append(groupMember.Restr, RSet("group", "member"))
	}
	teamRestr := []Restr{g.maybeCond(RSet("group", "member"))}
	if r.Chance(1, 2) {
		teamRestr = append(teamRestr, RObj("user"))
	}
	teamRels := []RelDef{{Name: "member", RW: This(), Restr: teamRestr}}
	if r.Chance(1, 3) {
		// a second relation of team reached the same way
		teamRels = append(teamRels, RelDef{Name: "owner", RW: This(), Restr: []Restr{RSet("group", "member"), RObj("user")}})
	}
	group := TypeDef{Name: "group", Rels: []RelDef{groupMember}}
	team := TypeDef{Name: "team", Rels: teamRels}
	wrap := func(rw *Rewrite) *Rewrite { // sometimes put the two paths under an exclusion / intersection
		switch r.Intn(6) {
		case 0:
			if o.Exclusion {
				return Diff(rw, Comp("blocked"))
			}
		case 1:
			if o.Inter {
				return Inter(rw, Comp("allowed"))
			}
		}
		return rw
	}
	extra := []RelDef{
		{Name: "blocked", RW: This(), Restr: []Restr{RObj("user"), RSet("team", "member")}},
		{Name: "allowed", RW: This(), Restr: []Restr{RObj("user"), RWild("user"), RSet("group", "member")}},
	}
	switch r.Intn(6) {
	case 0: // userset + TTU
		g.s.Shape = "c05-userset+ttu"
		g.s.Types = []TypeDef{user, group, team, {Name: "doc", Rels: append([]RelDef{
			{Name: "parent", RW: This(), Restr: []Restr{g.maybeCond(RObj("team"))}},
			{Name: "viewer", RW: wrap(Union(This(), TTU("parent", "member"))), Restr: []Restr{g.maybeCond(RSet("team", "member")), RObj("user")}},
		}, extra...)}}
	case 1: // two TTUs through different tuplesets
		g.s.Shape = "c05-two-ttus"
		g.s.Types = []TypeDef{user, group, team, {Name: "doc", Rels: append([]RelDef{
			{Name: "parent", RW: This(), Restr: []Restr{RObj("team")}},
			{Name: "owner", RW: This(), Restr: []Restr{g.maybeCond(RObj("team"))}},
			{Name: "viewer", RW: wrap(Union(TTU("parent", "member"), TTU("owner", "member")))},
		}, extra...)}}
	case 2: // two usersets through different intermediate relations
		g.s.Shape = "c05-two-usersets"
		g.s.Types = []TypeDef{user, group, team, {Name: "doc", Rels: append([]RelDef{
			{Name: "editor", RW: This(), Restr: []Restr{RSet("team", "member"), RObj("user")}},
			{Name: "owner", RW: This(), Restr: []Restr{g.maybeCond(RSet("team", "member"))}},
			{Name: "viewer", RW: wrap(Union(Comp("editor"), Comp("owner")))},
		}, extra...)}}
	case 3: // three paths, one more level: folder in between on one of them
		g.s.Shape = "c05-three-paths"
		g.s.Types = []TypeDef{user, group, team,
			{Name: "folder", Rels: []RelDef{
				{Name: "parent", RW: This(), Restr: []Restr{RObj("team")}},
				{Name: "viewer", RW: Union(This(), TTU("parent", "member")), Restr: []Restr{RSet("team", "member")}},
			}},
			{Name: "doc", Rels: append([]RelDef{
				{Name: "parent", RW: This(), Restr: []Restr{RObj("folder"), RObj("team")}},
				{Name: "editor", RW: This(), Restr: []Restr{RSet("team", "member"), RSet("folder", "viewer")}},
				{Name: "viewer", RW: wrap(Union(Comp("editor"), TTU("parent", "member"), TTU("parent", "viewer")))},
			}, extra...)}}
	default: // n-ary intersections with operands of differing sizes
		g.s.Shape = "c05-wide-intersection"
		g.o.MaxObjects = 5
		g.o.MaxTuples = 60
		ops := []*Rewrite{Comp("owner"), Comp("editor"), Comp("viewer")}
		rec.Shuffle(r, ops)
		var rw *Rewrite
		switch r.Intn(3) {
		case 0:
			rw = Inter(ops...)
		case 1:
			rw = Inter(ops[0], Inter(ops[1], ops[2]))
		default:
			rw = Inter(This(), ops[0], ops[1], ops[2])
		}
		g.s.Types = []TypeDef{user, group, {Name: "doc", Rels: []RelDef{
			{Name: "owner", RW: This(), Restr: []Restr{RObj("user")}},
			{Name: "editor", RW: This(), Restr: []Restr{RObj("user"), g.maybeCond(RSet("group", "member"))}},
			{Name: "viewer", RW: This(), Restr: []Restr{RObj("user"), RWild("user")}},
			allowedRel(rw),
			{Name: "member", RW: Inter(Comp("allowed"), Comp("owner"))},
		}}}
	}
	if g.o.MaxTuples < 45 {
		g.o.MaxTuples = 45
	}
	g.dropUnusedConds()
	g.tuples()
	g.reqctx()
	return g.s
}

func allowedRel(rw *Rewrite) RelDef {
	rd := RelDef{Name: "allowed", RW: rw}
	if rw.HasThis() {
		rd.Restr = []Restr{RObj("user")}
	}
	return rd
}
