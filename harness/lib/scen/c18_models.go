//go:build verif

package scen

// C18 (tuple validation): models whose conditions have richer parameter lists than the
// c(x:int) of Generate, hand-made restriction mixes that reach the two laxities of
// validateCondition, tupleset shapes, and models the model validator refuses (they are written to
// the datastore directly: Write builds its typesystem with typesystem.New, without validation).

import (
	"fmt"
	"sort"

	openfgav1 "github.com/openfga/api/proto/openfga/v1"

	"github.com/openfga/openfga/internal/verifharness/lib/rec"
)

// Parameter type kinds (the numbers are the record encoding read by ocaml/c18_oracle.ml).
const (
	PBool = iota
	PString
	PInt
	PUint
	PDouble
	PDuration
	PTimestamp
	PIpaddr
	PAny
	PList
	PMap
)

type C18PType struct {
	Kind int       `json:"k"`
	Elem *C18PType `json:"e,omitempty"`
}

type C18Param struct {
	Name string   `json:"n"`
	Type C18PType `json:"t"`
}

type C18Cond struct {
	Name   string     `json:"name"`
	Params []C18Param `json:"params"`
	Expr   string     `json:"expr"`
}

type C18Model struct {
	S     *Scenario `json:"s"`
	Conds []C18Cond `json:"conds"`
	Shape string    `json:"shape"`
	// Unvalidated: the shape is MEANT to be refused by the model validator
	Unvalidated bool `json:"unvalidated,omitempty"`
}

func pt(k int) C18PType               { return C18PType{Kind: k} }
func ptOf(k int, e C18PType) C18PType { return C18PType{Kind: k, Elem: &e} }

func (t C18PType) Proto() *openfgav1.ConditionParamTypeRef {
	names := map[int]openfgav1.ConditionParamTypeRef_TypeName{
		PBool: openfgav1.ConditionParamTypeRef_TYPE_NAME_BOOL, PString: openfgav1.ConditionParamTypeRef_TYPE_NAME_STRING,
		PInt: openfgav1.ConditionParamTypeRef_TYPE_NAME_INT, PUint: openfgav1.ConditionParamTypeRef_TYPE_NAME_UINT,
		PDouble: openfgav1.ConditionParamTypeRef_TYPE_NAME_DOUBLE, PDuration: openfgav1.ConditionParamTypeRef_TYPE_NAME_DURATION,
		PTimestamp: openfgav1.ConditionParamTypeRef_TYPE_NAME_TIMESTAMP, PIpaddr: openfgav1.ConditionParamTypeRef_TYPE_NAME_IPADDRESS,
		PAny: openfgav1.ConditionParamTypeRef_TYPE_NAME_ANY, PList: openfgav1.ConditionParamTypeRef_TYPE_NAME_LIST,
		PMap: openfgav1.ConditionParamTypeRef_TYPE_NAME_MAP,
	}
	ref := &openfgav1.ConditionParamTypeRef{TypeName: names[t.Kind]}
	if t.Elem != nil {
		ref.GenericTypes = []*openfgav1.ConditionParamTypeRef{t.Elem.Proto()}
	}
	return ref
}

func (t C18PType) V() rec.V {
	if t.Elem != nil {
		return rec.L(rec.I(t.Kind), t.Elem.V())
	}
	return rec.I(t.Kind)
}

func (t C18PType) String() string {
	n := []string{"bool", "string", "int", "uint", "double", "duration", "timestamp", "ipaddress", "any", "list", "map"}[t.Kind]
	if t.Elem != nil {
		return n + "<" + t.Elem.String() + ">"
	}
	return n
}

func (c C18Cond) Proto() *openfgav1.Condition {
	p := map[string]*openfgav1.ConditionParamTypeRef{}
	for _, x := range c.Params {
		p[x.Name] = x.Type.Proto()
	}
	return &openfgav1.Condition{Name: c.Name, Expression: c.Expr, Parameters: p}
}

func (m *C18Model) Cond(name string) *C18Cond {
	for i := range m.Conds {
		if m.Conds[i].Name == name {
			return &m.Conds[i]
		}
	}
	return nil
}

func (m *C18Model) Proto() *openfgav1.AuthorizationModel {
	p := m.S.ModelProto()
	if len(m.Conds) > 0 {
		p.Conditions = map[string]*openfgav1.Condition{}
		for _, c := range m.Conds {
			p.Conditions[c.Name] = c.Proto()
		}
	} else {
		p.Conditions = nil
	}
	return p
}

// parameter list templates
func c18Template(r *rec.Rand, k int) ([]C18Param, string) {
	switch k {
	case 0:
		return []C18Param{{"x", pt(PInt)}}, "x > 0"
	case 1:
		return []C18Param{{"s", pt(PString)}, {"b", pt(PBool)}}, "b && s == 'a'"
	case 2:
		return []C18Param{{"u", pt(PUint)}, {"d", pt(PDouble)}}, "u > 0u || d > 0.5"
	case 3:
		return []C18Param{{"ts", pt(PTimestamp)}, {"dur", pt(PDuration)}, {"ip", pt(PIpaddr)}}, "true"
	case 4:
		return []C18Param{{"l", ptOf(PList, pt(PString))}, {"m", ptOf(PMap, pt(PInt))}, {"a", pt(PAny)}}, "'x' in l"
	case 5:
		return nil, "true"
	case 6:
		return []C18Param{{"x", pt(PInt)}, {"ll", ptOf(PList, ptOf(PList, pt(PInt)))}, {"mm", ptOf(PMap, pt(PAny))}, {"s", pt(PString)}}, "x > 0"
	case 7:
		return []C18Param{{"a", pt(PAny)}, {"lu", ptOf(PList, pt(PUint))}, {"md", ptOf(PMap, pt(PDouble))}, {"b", pt(PBool)}}, "b"
	// two parameters of the SAME container type with different element types: whatever is decoded
	// or cached per container type name must not leak from one parameter to the other
	case 8:
		return []C18Param{{"allowed_names", ptOf(PList, pt(PString))}, {"allowed_ports", ptOf(PList, pt(PInt))}}, "'x' in allowed_names"
	case 9:
		return []C18Param{{"ms", ptOf(PMap, pt(PString))}, {"mi", ptOf(PMap, pt(PInt))}, {"mb", ptOf(PMap, pt(PBool))}}, "true"
	default:
		return []C18Param{{"lu", ptOf(PList, pt(PUint))}, {"ld", ptOf(PList, pt(PDouble))}, {"lls", ptOf(PList, ptOf(PList, pt(PString)))}, {"ml", ptOf(PMap, ptOf(PList, pt(PInt)))}, {"mt", ptOf(PMap, pt(PTimestamp))}}, "true"
	}
}

const c18Templates = 11

// C18Upgrade keeps the model of a generated scenario and gives its conditions random
// parameter lists.
func C18Upgrade(r *rec.Rand, s *Scenario) *C18Model {
	m := &C18Model{S: s, Shape: "gen-" + s.Shape}
	for _, c := range s.Conds {
		k := 0
		if r.Chance(2, 3) {
			k = r.Intn(c18Templates)
		}
		ps, ex := c18Template(r, k)
		m.Conds = append(m.Conds, C18Cond{Name: c, Params: ps, Expr: ex})
	}
	return m
}

// C18Witness is the model of the closed Coq witnesses (Sem/ValidProofs.v, Module Witness): the
// findings of checks/C18.findings.json are re-confirmed on it by every run (corpus/C18-witness.jsonl).
func C18Witness() *C18Model {
	s := &Scenario{Conds: []string{"cnd"}, Types: []TypeDef{{Name: "user"},
		{Name: "group", Rels: []RelDef{{Name: "member", RW: This(), Restr: []Restr{RObj("user")}}}},
		{Name: "doc", Rels: []RelDef{
			{Name: "viewer", RW: This(), Restr: []Restr{RObj("user"), RWild("user").With("cnd"), RObj("group"), RSet("group", "member").With("cnd"), RSet("doc", "viewer")}},
			{Name: "parent", RW: This(), Restr: []Restr{RObj("doc")}},
			{Name: "inherited", RW: TTU("parent", "viewer")},
		}}}}
	return &C18Model{S: s, Shape: "witness", Conds: []C18Cond{{Name: "cnd", Params: []C18Param{{"x", pt(PInt)}}, Expr: "x > 0"}}}
}

// the tuple-to-userset at various depths of the rewrite (typesystem.flattenUserset must find it)
func c18PlaceTTU(k int, ttu *Rewrite) *Rewrite {
	switch k {
	case 0:
		return Union(This(), ttu)
	case 1:
		return Inter(This(), ttu)
	case 2:
		return Diff(This(), ttu)
	case 3:
		return Diff(ttu, This())
	case 4:
		return Union(This(), Diff(This(), Inter(ttu, This())))
	default:
		return ttu
	}
}

// C18Custom builds hand-made shapes.
func C18Custom(r *rec.Rand, force int) *C18Model {
	user := TypeDef{Name: "user"}
	s := &Scenario{}
	m := &C18Model{S: s}
	conds := func(names ...string) {
		s.Conds = names
		for k, n := range names {
			tk := r.Intn(c18Templates)
			if force >= 0 { // the forced shapes of one run cover every template
				tk = ([]int{0, 2, 4, 5, 6, 7, 9, 0, 8}[force%9] + k) % c18Templates
			}
			ps, ex := c18Template(r, tk)
			m.Conds = append(m.Conds, C18Cond{Name: n, Params: ps, Expr: ex})
		}
	}
	group := TypeDef{Name: "group", Rels: []RelDef{{Name: "member", RW: This(), Restr: []Restr{RObj("user"), RSet("group", "member")}}}}
	shape := r.Intn(9)
	if force >= 0 {
		shape = force % 9
	}
	switch shape {
	case 0: // the F4 region: one user type under several forms with different conditions
		m.Shape = "kind-mix"
		conds("c1", "c2")
		s.Types = []TypeDef{user, group,
			{Name: "doc", Rels: []RelDef{
				{Name: "viewer", RW: This(), Restr: []Restr{RObj("user"), RWild("user").With("c1"), RObj("group"), RSet("group", "member").With("c1"), RSet("doc", "viewer")}},
				{Name: "editor", RW: This(), Restr: []Restr{RObj("user").With("c1"), RWild("user"), RSet("group", "member"), RObj("group").With("c2")}},
				{Name: "owner", RW: Union(This(), Comp("editor")), Restr: []Restr{RObj("user").With("c2"), RObj("user").With("c1"), RWild("user").With("c2"), RSet("doc", "owner").With("c1"), RObj("doc")}},
			}}}
	case 1: // every form with and without the condition: no laxity can show
		m.Shape = "all-forms"
		conds("c1", "c2")
		s.Types = []TypeDef{user, group,
			{Name: "doc", Rels: []RelDef{
				{Name: "viewer", RW: This(), Restr: []Restr{RObj("user").With("c1"), RWild("user").With("c1"), RObj("user"), RWild("user"),
					RSet("group", "member").With("c2"), RSet("group", "member"), RSet("doc", "viewer").With("c1")}},
				{Name: "editor", RW: This(), Restr: []Restr{RObj("user").With("c2"), RSet("doc", "editor")}},
			}}}
	case 2: // tuplesets, with a conditioned parent
		m.Shape = "tupleset"
		conds("c1")
		s.Types = []TypeDef{user,
			{Name: "folder", Rels: []RelDef{
				{Name: "parent", RW: This(), Restr: []Restr{RObj("folder")}},
				{Name: "viewer", RW: Union(This(), TTU("parent", "viewer")), Restr: []Restr{RObj("user"), RWild("user"), RSet("folder", "viewer")}},
			}},
			{Name: "doc", Rels: []RelDef{
				{Name: "parent", RW: This(), Restr: []Restr{RObj("folder"), RObj("folder").With("c1"), RObj("doc")}},
				{Name: "viewer", RW: Union(This(), TTU("parent", "viewer")), Restr: []Restr{RObj("user").With("c1"), RObj("folder")}},
				{Name: "owner", RW: TTU("parent", "viewer")},
			}}}
	case 3: // REFUSED by the model validator: wildcard and userset restrictions on a tupleset
		m.Shape = "bad-tupleset-restrictions"
		m.Unvalidated = true
		conds("c1")
		doc := TypeDef{Name: "doc"}
		for k := 0; k < 6; k++ {
			pn := fmt.Sprintf("parent%d", k)
			doc.Rels = append(doc.Rels,
				RelDef{Name: pn, RW: This(), Restr: []Restr{RObj("folder"), RWild("folder"), RSet("folder", "viewer"), RObj("user")}},
				RelDef{Name: fmt.Sprintf("viewer%d", k), RW: c18PlaceTTU(k, TTU(pn, "viewer")), Restr: []Restr{RObj("user")}})
		}
		s.Types = []TypeDef{user,
			{Name: "folder", Rels: []RelDef{
				{Name: "viewer", RW: This(), Restr: []Restr{RObj("user"), RWild("user").With("c1")}},
			}}, doc}
	case 4: // REFUSED: restrictions naming an undefined condition, type or relation
		m.Shape = "bad-references"
		m.Unvalidated = true
		conds("c1")
		s.Types = []TypeDef{user, group,
			{Name: "doc", Rels: []RelDef{
				{Name: "viewer", RW: This(), Restr: []Restr{RObj("user").With("nocond"), RObj("user"), RSet("group", "member").With("c1")}},
				{Name: "editor", RW: This(), Restr: []Restr{RObj("user").With("c1"), RObj("user").With("nocond")}},
			}}}
	case 5: // relations without restrictions, computed-only relations, an unused condition
		m.Shape = "sparse"
		conds("c1", "c2")
		s.Types = []TypeDef{user, group,
			{Name: "doc", Rels: []RelDef{
				{Name: "owner", RW: This(), Restr: []Restr{RObj("user")}},
				{Name: "editor", RW: Comp("owner")},
				{Name: "viewer", RW: Union(Comp("editor"), This()), Restr: []Restr{RSet("group", "member").With("c1")}},
			}},
			{Name: "team"},
		}
	default: // random restrictions over all (type, form, condition) combinations
		m.Shape = "random-restrictions"
		nc := r.Range(0, 2)
		if force >= 0 {
			nc = 2
		}
		conds([]string{"c1", "c2"}[:nc]...)
		tnames := []string{"user", "group", "doc"}
		rels := map[string][]string{"group": {"member", "owner"}, "doc": {"viewer", "editor", "parent"}}
		pick := func() []Restr {
			var rs []Restr
			n := r.Range(1, 6)
			for i := 0; i < n; i++ {
				t := rec.Pick(r, tnames)
				var x Restr
				switch r.Intn(3) {
				case 0:
					x = RObj(t)
				case 1:
					x = RWild(t)
				default:
					if t == "user" {
						x = RObj(t)
					} else {
						x = RSet(t, rec.Pick(r, rels[t]))
					}
				}
				if nc > 0 && r.Chance(2, 5) {
					x = x.With(s.Conds[r.Intn(nc)])
				}
				dup := false
				for _, y := range rs {
					if y == x {
						dup = true
					}
				}
				if !dup {
					rs = append(rs, x)
				}
			}
			return rs
		}
		s.Types = []TypeDef{user,
			{Name: "group", Rels: []RelDef{{Name: "member", RW: This(), Restr: pick()}, {Name: "owner", RW: This(), Restr: pick()}}},
			{Name: "doc", Rels: []RelDef{
				{Name: "parent", RW: This(), Restr: []Restr{RObj("doc"), RObj("group")}},
				{Name: "viewer", RW: This(), Restr: pick()},
				{Name: "editor", RW: Union(This(), Comp("viewer")), Restr: pick()},
			}}}
		if r.Chance(1, 2) { // make parent a tupleset
			s.Types[2].Rels = append(s.Types[2].Rels, RelDef{Name: "owner", RW: TTU("parent", "member")})
		}
	}
	return m
}

// ---------------------------------------------------------------------------------------------
// context values by kind

// C18Val is a context value together with its kind as the oracle sees it.
// K: 0 null, 1 bool, 2 number (A integral, B non-negative), 3 string (S class; B non-negative
// for the integer class), 4 list, 5 map, 6 "contains a control character".
type C18Val struct {
	K    int
	A, B bool
	S    int // 0 int, 1 fraction, 2 text, 3 duration, 4 timestamp, 5 ip
	L    []C18Val
	Go   any
}

func (v C18Val) V() rec.V {
	switch v.K {
	case 2:
		return rec.L(rec.I(2), rec.Bool(v.A), rec.Bool(v.B))
	case 3:
		if v.S == 0 {
			return rec.L(rec.I(3), rec.L(rec.I(0), rec.Bool(v.B)))
		}
		return rec.L(rec.I(3), rec.I(v.S))
	case 4, 5:
		vs := []rec.V{rec.I(v.K)}
		for _, x := range v.L {
			vs = append(vs, x.V())
		}
		return rec.L(vs...)
	default:
		return rec.I(v.K)
	}
}

var (
	c18IntsPos   = []float64{0, 1, 7, 42, 1000}
	c18IntsNeg   = []float64{-1, -5, -300}
	c18FracPos   = []float64{0.5, 1.5, 2.25}
	c18FracNeg   = []float64{-0.5, -1.5}
	c18SIntPos   = []string{"1", "12", "1000", "007"}
	c18SIntNeg   = []string{"-1", "-12"}
	c18SFrac     = []string{"1.5", "0.5", "-2.25"}
	c18SText     = []string{"abc", "", "x y", "hello", "a"}
	c18SDur      = []string{"1h", "30s", "1h30m", "-5m"}
	c18STime     = []string{"2023-01-01T00:00:00Z", "2024-06-30T12:34:56+02:00"}
	c18SIp       = []string{"192.168.0.1", "::1", "10.0.0.0"}
	c18CtlString = []string{"a\x01b", "\x7f", "tab\there", "x\u0085y"}
)

func c18Str(r *rec.Rand, class int, nonneg bool) C18Val {
	var s string
	switch class {
	case 0:
		if nonneg {
			s = rec.Pick(r, c18SIntPos)
		} else {
			s = rec.Pick(r, c18SIntNeg)
		}
	case 1:
		s = rec.Pick(r, c18SFrac)
	case 2:
		s = rec.Pick(r, c18SText)
	case 3:
		s = rec.Pick(r, c18SDur)
	case 4:
		s = rec.Pick(r, c18STime)
	default:
		s = rec.Pick(r, c18SIp)
	}
	return C18Val{K: 3, S: class, B: nonneg, Go: s}
}

func c18Num(r *rec.Rand, integral, nonneg bool) C18Val {
	var f float64
	switch {
	case integral && nonneg:
		f = rec.Pick(r, c18IntsPos)
	case integral:
		f = rec.Pick(r, c18IntsNeg)
	case nonneg:
		f = rec.Pick(r, c18FracPos)
	default:
		f = rec.Pick(r, c18FracNeg)
	}
	return C18Val{K: 2, A: integral, B: nonneg, Go: f}
}

// C18RandVal: a value of a random kind.
func C18RandVal(r *rec.Rand, depth int) C18Val {
	k := r.Intn(14)
	switch {
	case k == 0:
		return C18Val{K: 0, Go: nil}
	case k == 1:
		return C18Val{K: 1, Go: r.Bool()}
	case k <= 4:
		return c18Num(r, r.Chance(2, 3), r.Chance(2, 3))
	case k <= 9:
		return c18Str(r, r.Intn(6), r.Chance(2, 3))
	case k <= 11 && depth < 2:
		return c18Coll(r, 4, depth, func() C18Val { return C18RandVal(r, depth+1) })
	case k == 12 && depth < 2:
		return c18Coll(r, 5, depth, func() C18Val { return C18RandVal(r, depth+1) })
	case k == 13:
		return C18Val{K: 6, Go: rec.Pick(r, c18CtlString)}
	default:
		return c18Str(r, 2, true)
	}
}

func c18Coll(r *rec.Rand, k, depth int, elem func() C18Val) C18Val {
	n := r.Range(0, 3)
	v := C18Val{K: k}
	if k == 4 {
		l := make([]any, 0, n)
		for i := 0; i < n; i++ {
			x := elem()
			v.L = append(v.L, x)
			l = append(l, x.Go)
		}
		v.Go = l
		return v
	}
	mp := map[string]any{}
	for i := 0; i < n; i++ {
		x := elem()
		v.L = append(v.L, x)
		mp[fmt.Sprintf("k%d", i)] = x.Go
	}
	if n > 0 && r.Chance(1, 12) { // a nested key with a control character: the whole map is "ctl"
		mp["k\x02"] = "v"
		return C18Val{K: 6, Go: mp}
	}
	v.Go = mp
	return v
}

// C18FitVal: a value meant to fit the parameter type.
func C18FitVal(r *rec.Rand, t C18PType, depth int) C18Val {
	switch t.Kind {
	case PBool:
		return C18Val{K: 1, Go: r.Bool()}
	case PString:
		return c18Str(r, r.Intn(6), r.Bool())
	case PInt:
		if r.Bool() {
			return c18Num(r, true, r.Bool())
		}
		return c18Str(r, 0, r.Bool())
	case PUint:
		if r.Bool() {
			return c18Num(r, true, true)
		}
		return c18Str(r, 0, true)
	case PDouble:
		switch r.Intn(3) {
		case 0:
			return c18Num(r, r.Bool(), r.Bool())
		case 1:
			return c18Str(r, 0, r.Bool())
		default:
			return c18Str(r, 1, true)
		}
	case PDuration:
		return c18Str(r, 3, true)
	case PTimestamp:
		return c18Str(r, 4, true)
	case PIpaddr:
		return c18Str(r, 5, true)
	case PAny:
		v := C18RandVal(r, depth+1)
		if v.K == 6 {
			return c18Str(r, 2, true)
		}
		return v
	case PList:
		return c18Coll(r, 4, depth, func() C18Val { return C18FitVal(r, *t.Elem, depth+1) })
	default:
		v := c18Coll(r, 5, depth, func() C18Val { return C18FitVal(r, *t.Elem, depth+1) })
		if v.K == 6 {
			return C18Val{K: 5, Go: map[string]any{}}
		}
		return v
	}
}

// C18NearMiss: a value that just misses the parameter type (a negative number for uint, a
// fraction for int, a list with one bad element, ...); for `any` only a control character misses.
func C18NearMiss(r *rec.Rand, t C18PType, depth int) C18Val {
	switch t.Kind {
	case PBool:
		return rec.Pick(r, []C18Val{c18Num(r, true, true), c18Str(r, 2, true), {K: 0}})
	case PString:
		return rec.Pick(r, []C18Val{c18Num(r, true, true), {K: 1, Go: true}, {K: 0}, {K: 6, Go: "s\x1f"}})
	case PInt:
		return rec.Pick(r, []C18Val{c18Num(r, false, r.Bool()), c18Str(r, 1, true), c18Str(r, 2, true), {K: 1, Go: false}, c18Str(r, 3, true)})
	case PUint:
		return rec.Pick(r, []C18Val{c18Num(r, true, false), c18Str(r, 0, false), c18Num(r, false, true), c18Str(r, 1, true)})
	case PDouble:
		return rec.Pick(r, []C18Val{c18Str(r, 2, true), {K: 1, Go: true}, c18Str(r, 5, true), {K: 0}})
	case PDuration:
		return rec.Pick(r, []C18Val{c18Str(r, 0, true), c18Str(r, 2, true), c18Str(r, 4, true), c18Num(r, true, true)})
	case PTimestamp:
		return rec.Pick(r, []C18Val{c18Str(r, 3, true), c18Str(r, 2, true), c18Str(r, 0, true), c18Num(r, true, true)})
	case PIpaddr:
		return rec.Pick(r, []C18Val{c18Str(r, 2, true), c18Str(r, 1, true), c18Str(r, 0, true), c18Num(r, true, true)})
	case PAny:
		return C18Val{K: 6, Go: "any\x00"}
	case PList:
		if r.Chance(1, 3) || depth > 1 {
			return C18Val{K: 5, Go: map[string]any{}}
		}
		good := C18FitVal(r, *t.Elem, depth+1)
		bad := C18NearMiss(r, *t.Elem, depth+1)
		return C18Val{K: 4, L: []C18Val{good, bad}, Go: []any{good.Go, bad.Go}}
	default:
		if r.Chance(1, 3) || depth > 1 {
			return C18Val{K: 4, Go: []any{}}
		}
		good := C18FitVal(r, *t.Elem, depth+1)
		bad := C18NearMiss(r, *t.Elem, depth+1)
		return C18Val{K: 5, L: []C18Val{good, bad}, Go: map[string]any{"k0": good.Go, "k1": bad.Go}}
	}
}

// C18Siblings: the other parameters of the condition that have the same container type as p but a
// different element type.
func (c C18Cond) C18Siblings(p C18Param) []C18Param {
	var out []C18Param
	if p.Type.Elem == nil {
		return nil
	}
	for _, q := range c.Params {
		if q.Name != p.Name && q.Type.Kind == p.Type.Kind && q.Type.Elem != nil && q.Type.String() != p.Type.String() {
			out = append(out, q)
		}
	}
	return out
}

// C18NonEmptyFit: a fitting value of a container type with at least one element.
func C18NonEmptyFit(r *rec.Rand, t C18PType) C18Val {
	for k := 0; k < 20; k++ {
		v := C18FitVal(r, t, 0)
		if len(v.L) > 0 && v.K != 6 {
			return v
		}
	}
	return C18FitVal(r, t, 0)
}

// C18Ctx is a context: sorted keys with their values.
type C18Ctx struct {
	Keys []string
	Vals map[string]C18Val
}

func NewC18Ctx() *C18Ctx { return &C18Ctx{Vals: map[string]C18Val{}} }

func (c *C18Ctx) Set(k string, v C18Val) {
	if _, ok := c.Vals[k]; !ok {
		c.Keys = append(c.Keys, k)
		sort.Strings(c.Keys)
	}
	c.Vals[k] = v
}

func (c *C18Ctx) Map() map[string]any {
	m := map[string]any{}
	for _, k := range c.Keys {
		m[k] = c.Vals[k].Go
	}
	return m
}

func (c *C18Ctx) V() rec.V {
	var vs []rec.V
	for _, k := range c.Keys {
		vs = append(vs, rec.L(rec.S(k), c.Vals[k].V()))
	}
	return rec.L(vs...)
}

func (c *C18Ctx) Clone() *C18Ctx {
	n := NewC18Ctx()
	for _, k := range c.Keys {
		n.Set(k, c.Vals[k])
	}
	return n
}

// ---------------------------------------------------------------------------------------------
// names whose concatenations collide

// C18Collisions: type / relation / condition names with '-', '_', '.' and names that are prefixes of
// each other, arranged so that "type<sep>relation" of a TUPLESET relation equals that of an ordinary
// relation with wildcard and userset restrictions (and the other way round): anything keyed by a
// joined string instead of the pair would mix them up.
func C18Collisions(r *rec.Rand) *C18Model {
	s := &Scenario{Conds: []string{"cn", "cn-1", "cnn"}}
	m := &C18Model{S: s, Shape: "name-collisions"}
	for k, n := range s.Conds {
		ps, ex := c18Template(r, []int{0, 8, 1}[k])
		m.Conds = append(m.Conds, C18Cond{Name: n, Params: ps, Expr: ex})
	}
	open := func(extra ...Restr) []Restr {
		return append([]Restr{RObj("user"), RWild("user"), RSet("folder", "viewer")}, extra...)
	}
	doc := TypeDef{Name: "doc", Rels: []RelDef{
		{Name: "viewer", RW: Union(This(), TTU("ext-parent", "viewer"), TTU("ext_parent", "viewer"), TTU("ext.parent", "viewer")), Restr: []Restr{RObj("user")}},
		{Name: "parent", RW: This(), Restr: open()},
	}}
	for _, sep := range []string{"-", "_", "."} {
		// doc#ext<sep>parent is a tupleset; doc<sep>ext#parent is ordinary
		doc.Rels = append(doc.Rels, RelDef{Name: "ext" + sep + "parent", RW: This(), Restr: []Restr{RObj("folder"), RObj("folder").With("cn")}})
	}
	s.Types = []TypeDef{{Name: "user"},
		{Name: "folder", Rels: []RelDef{{Name: "viewer", RW: This(), Restr: []Restr{RObj("user"), RWild("user").With("cn-1")}}}},
		doc}
	for _, sep := range []string{"-", "_", "."} {
		s.Types = append(s.Types, TypeDef{Name: "doc" + sep + "ext", Rels: []RelDef{
			{Name: "parent", RW: This(), Restr: open(RWild("user").With("cnn"))},
			{Name: "viewer", RW: This(), Restr: []Restr{RObj("user")}},
		}})
		// the other way round: org#unit<sep>owner ordinary, org<sep>unit#owner a tupleset
		s.Types = append(s.Types, TypeDef{Name: "org" + sep + "unit", Rels: []RelDef{
			{Name: "owner", RW: This(), Restr: []Restr{RObj("folder")}},
			{Name: "viewer", RW: TTU("owner", "viewer")},
		}})
	}
	org := TypeDef{Name: "org"}
	for _, sep := range []string{"-", "_", "."} {
		org.Rels = append(org.Rels, RelDef{Name: "unit" + sep + "owner", RW: This(), Restr: open()})
	}
	// prefixes of each other
	org.Rels = append(org.Rels, RelDef{Name: "own", RW: This(), Restr: []Restr{RObj("user")}},
		RelDef{Name: "owner", RW: This(), Restr: []Restr{RWild("user")}},
		RelDef{Name: "owners", RW: This(), Restr: []Restr{RSet("folder", "viewer")}})
	s.Types = append(s.Types, org)
	return m
}

// C18Rename renames the types (except user), relations and conditions of a model injectively into
// a pool of separator-rich names (a, a-b, a-b-c, ... / b-c, c, c-d, ...): a standing ingredient.
func C18Rename(r *rec.Rand, m *C18Model) {
	tpool := []string{"a", "a-b", "a-b-c", "a_b", "a.b", "ab", "a-", "a--b"}
	rpool := []string{"b-c", "c", "b", "b-c-d", "c-d", "d", "b_c", "b.c", "bc", "a-b", "-c", "b--c", "-b-c"}
	cpool := []string{"cn", "cn-1", "cnn", "c-n"}
	rec.Shuffle(r, tpool)
	rec.Shuffle(r, rpool)
	rec.Shuffle(r, cpool)
	tm, rm, cm := map[string]string{"user": "user"}, map[string]string{}, map[string]string{}
	mapName := func(mp map[string]string, pool *[]string, n string) string {
		if n == "" {
			return n
		}
		if v, ok := mp[n]; ok {
			return v
		}
		if len(*pool) == 0 {
			mp[n] = n
			return n
		}
		mp[n] = (*pool)[0]
		*pool = (*pool)[1:]
		return mp[n]
	}
	s := m.S
	done := map[*Rewrite]bool{}
	for i := range s.Types {
		s.Types[i].Name = mapName(tm, &tpool, s.Types[i].Name)
	}
	for i := range s.Types {
		for j := range s.Types[i].Rels {
			rd := &s.Types[i].Rels[j]
			rd.Name = mapName(rm, &rpool, rd.Name)
			rd.RW.Walk(func(x *Rewrite) {
				if done[x] {
					return
				}
				done[x] = true
				x.Rel = mapName(rm, &rpool, x.Rel)
				x.Tupleset = mapName(rm, &rpool, x.Tupleset)
			})
			for k := range rd.Restr {
				rd.Restr[k].Type = mapName(tm, &tpool, rd.Restr[k].Type)
				rd.Restr[k].Rel = mapName(rm, &rpool, rd.Restr[k].Rel)
				rd.Restr[k].Cond = mapName(cm, &cpool, rd.Restr[k].Cond)
			}
		}
	}
	for i := range s.Conds {
		s.Conds[i] = mapName(cm, &cpool, s.Conds[i])
	}
	for i := range m.Conds {
		m.Conds[i].Name = mapName(cm, &cpool, m.Conds[i].Name)
	}
	s.Tuples = nil
	m.Shape += "+renamed"
}
