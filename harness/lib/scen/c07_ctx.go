//go:build verif

package scen

import (
	"context"

	"google.golang.org/protobuf/types/known/structpb"

	"github.com/openfga/openfga/internal/condition/eval"
)

// CEvalCtx is CEval under an explicit request context (C07: every item of a batch carries its own
// context): 0 met, 1 not met, 2 cannot be evaluated.  A condition name the model does not define
// gives 2 (such a tuple is not valid for the model anyway).
func (e *Env) CEvalCtx(ctx context.Context, t Tuple, reqCtx *structpb.Struct) int {
	if t.Cond == "" {
		return 0
	}
	cond, ok := e.TS.GetCondition(t.Cond)
	if !ok || cond == nil {
		return 2
	}
	met, err := eval.EvaluateTupleCondition(ctx, t.Proto(), cond, reqCtx)
	if err != nil {
		return 2
	}
	if met {
		return 0
	}
	return 1
}
