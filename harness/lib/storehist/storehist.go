//go:build verif

// Package storehist holds what the history drivers of C31, C17 and C16 share: opening the two
// backends of /repo offline (memory, sqlite in a temp file migrated the way
// pkg/testfixtures/storage does), building a real server on top, classifying errors, canonical
// ids, and canonical encodings of proto messages.
package storehist

import (
	"context"
	"errors"
	"fmt"
	"os"
	"path/filepath"
	"sort"
	"strings"
	"sync"

	"github.com/oklog/ulid/v2"
	"github.com/pressly/goose/v3"
	"google.golang.org/grpc/codes"
	"google.golang.org/grpc/status"
	"google.golang.org/protobuf/encoding/protojson"
	"google.golang.org/protobuf/proto"

	openfgav1 "github.com/openfga/api/proto/openfga/v1"
	parser "github.com/openfga/language/pkg/go/transformer"

	"github.com/openfga/openfga/assets"
	"github.com/openfga/openfga/pkg/server"
	"github.com/openfga/openfga/pkg/storage"
	"github.com/openfga/openfga/pkg/storage/memory"
	"github.com/openfga/openfga/pkg/storage/sqlcommon"
	"github.com/openfga/openfga/pkg/storage/sqlite"
)

// Backend is an opened datastore of /repo.
type Backend struct {
	Kind  string // "memory" | "sqlite"
	DS    storage.OpenFGADatastore
	dir   string
	owned bool
}

var gooseOnce sync.Once

// Open opens a fresh, empty backend.  sqlite databases live in a new directory under root
// (e.g. /tmp/c31) that Close removes again.
func Open(kind, root string) (*Backend, error) {
	switch kind {
	case "memory":
		return &Backend{Kind: kind, DS: memory.New(), owned: true}, nil
	case "sqlite":
		if err := os.MkdirAll(root, 0o755); err != nil {
			return nil, err
		}
		dir, err := os.MkdirTemp(root, "db-*")
		if err != nil {
			return nil, err
		}
		uri := fmt.Sprintf("file:%s?_pragma=journal_mode(WAL)&_pragma=busy_timeout(5000)&_pragma=synchronous(OFF)", filepath.Join(dir, "database.db"))
		gooseOnce.Do(func() {
			goose.SetLogger(goose.NopLogger())
			goose.SetBaseFS(assets.EmbedMigrations)
		})
		db, err := goose.OpenDBWithDriver("sqlite", uri)
		if err != nil {
			os.RemoveAll(dir)
			return nil, err
		}
		if err := goose.Up(db, assets.SqliteMigrationDir); err != nil {
			db.Close()
			os.RemoveAll(dir)
			return nil, err
		}
		db.Close()
		ds, err := sqlite.New(uri, sqlcommon.NewConfig())
		if err != nil {
			os.RemoveAll(dir)
			return nil, err
		}
		return &Backend{Kind: kind, DS: ds, dir: dir, owned: true}, nil
	}
	return nil, fmt.Errorf("unknown backend %q", kind)
}

// Close closes the datastore (unless a server built on it already did) and removes its files.
func (b *Backend) Close() {
	if b.owned {
		b.DS.Close()
		b.owned = false
	}
	if b.dir != "" {
		os.RemoveAll(b.dir)
		b.dir = ""
	}
}

// NewServer builds a real server over the backend.  The server's Close also closes the
// datastore, so the backend gives up ownership.
func (b *Backend) NewServer(opts ...server.OpenFGAServiceV1Option) *server.Server {
	all := append([]server.OpenFGAServiceV1Option{server.WithDatastore(b.DS)}, opts...)
	s := server.MustNewServerWithOpts(all...)
	b.owned = false
	return s
}

// GateDS wraps a datastore so that a driver can hold one FindLatestAuthorizationModel call of a
// chosen store "in flight": the call queries the inner datastore, then waits at the gate until
// Release.  Calls for other stores pass through.  Used to reproduce overlaps of model-less
// requests deterministically.
type GateDS struct {
	storage.OpenFGADatastore
	mu      sync.Mutex
	armed   string
	has     bool
	calls   map[string]int
	entered chan struct{}
	release chan struct{}
}

func NewGate(inner storage.OpenFGADatastore) *GateDS {
	return &GateDS{OpenFGADatastore: inner, calls: map[string]int{}}
}

// Arm makes the next FindLatestAuthorizationModel(store) wait at the gate.
func (g *GateDS) Arm(store string) {
	g.mu.Lock()
	defer g.mu.Unlock()
	g.armed, g.has = store, true
	g.calls = map[string]int{}
	g.entered, g.release = make(chan struct{}), make(chan struct{})
}

// Entered is closed when the armed call has got its answer from the datastore and waits.
func (g *GateDS) Entered() <-chan struct{} { g.mu.Lock(); defer g.mu.Unlock(); return g.entered }

// Calls is the number of FindLatestAuthorizationModel calls for the store since Arm.
func (g *GateDS) Calls(store string) int { g.mu.Lock(); defer g.mu.Unlock(); return g.calls[store] }

// Release lets the held call return and disarms the gate.
func (g *GateDS) Release() {
	g.mu.Lock()
	defer g.mu.Unlock()
	if g.has {
		close(g.release)
		g.has = false
		g.armed = ""
	}
}

func (g *GateDS) FindLatestAuthorizationModel(ctx context.Context, store string) (*openfgav1.AuthorizationModel, error) {
	m, err := g.OpenFGADatastore.FindLatestAuthorizationModel(ctx, store)
	g.mu.Lock()
	block := false
	if g.has {
		g.calls[store]++
		block = g.armed == store && g.calls[store] == 1
	}
	entered, release := g.entered, g.release
	g.mu.Unlock()
	if block {
		close(entered)
		<-release
	}
	return m, err
}

// Disown tells the backend that somebody else (a server built by hand) closes the datastore.
func (b *Backend) Disown() { b.owned = false }

// CleanupRoot removes the scratch directory of a driver if it is empty or only holds leftovers.
func CleanupRoot(root string) { os.RemoveAll(root) }

// Error classes written into the records (never messages).
const (
	EOK               = 0
	EInvalidArgument  = 1 // req.Validate()
	EModelNotFound    = 2
	ELatestNotFound   = 3
	EExceededLimit    = 4
	EValidation       = 5
	EStoreNotFound    = 6
	EInternal         = 7
	EWriteInvalid     = 8 // write_failed_due_to_invalid_input
	EInvalidTuple     = 9
	ETypeNotFound     = 10
	ERelationNotFound = 11
	EDuplicateTuple   = 12
	EInvalidToken     = 13
	EInvalidModel     = 14 // invalid_authorization_model
	EOther            = 99
)

// ErrClass maps an error returned by the server (a gRPC status) to a class.
func ErrClass(err error) int {
	if err == nil {
		return EOK
	}
	st, ok := status.FromError(err)
	if !ok {
		if errors.Is(err, storage.ErrNotFound) {
			return EStoreNotFound
		}
		return EOther
	}
	switch st.Code() {
	case codes.InvalidArgument:
		return EInvalidArgument
	case codes.Code(openfgav1.ErrorCode_authorization_model_not_found):
		return EModelNotFound
	case codes.Code(openfgav1.ErrorCode_latest_authorization_model_not_found):
		return ELatestNotFound
	case codes.Code(openfgav1.ErrorCode_exceeded_entity_limit):
		return EExceededLimit
	case codes.Code(openfgav1.ErrorCode_validation_error):
		return EValidation
	case codes.Code(openfgav1.NotFoundErrorCode_store_id_not_found):
		return EStoreNotFound
	case codes.Code(openfgav1.InternalErrorCode_internal_error), codes.Internal:
		return EInternal
	case codes.Code(openfgav1.ErrorCode_write_failed_due_to_invalid_input):
		return EWriteInvalid
	case codes.Code(openfgav1.ErrorCode_invalid_tuple):
		return EInvalidTuple
	case codes.Code(openfgav1.ErrorCode_type_not_found):
		return ETypeNotFound
	case codes.Code(openfgav1.ErrorCode_relation_not_found):
		return ERelationNotFound
	case codes.Code(openfgav1.ErrorCode_cannot_allow_duplicate_tuples_in_one_request):
		return EDuplicateTuple
	case codes.Code(openfgav1.ErrorCode_invalid_continuation_token):
		return EInvalidToken
	case codes.Code(openfgav1.ErrorCode_invalid_authorization_model):
		return EInvalidModel
	}
	return EOther
}

// ErrText is only used in PropFail descriptions (never compared).
func ErrText(err error) string {
	if err == nil {
		return ""
	}
	s := err.Error()
	if len(s) > 200 {
		s = s[:200]
	}
	return s
}

// CanonID is a stable 26-character stand-in (valid ULID alphabet) for the k-th id of a family
// ('S' store, 'M' model ...) so that records do not contain generated ULIDs.
func CanonID(family byte, k int) string {
	return fmt.Sprintf("0000000000000000000000%c%03d", family, k)[:26]
}

// IDMap translates real ids to canonical ones (and leaves unknown strings untouched).
type IDMap struct {
	m map[string]string
}

func NewIDMap() *IDMap { return &IDMap{m: map[string]string{}} }

func (m *IDMap) Bind(real, canon string) { m.m[real] = canon }
func (m *IDMap) Canon(real string) string {
	if c, ok := m.m[real]; ok {
		return c
	}
	return real
}

// Replace substitutes every known real id inside s (e.g. inside a canonical JSON document).
func (m *IDMap) Replace(s string) string {
	for real, c := range m.m {
		if real != "" {
			s = strings.ReplaceAll(s, real, c)
		}
	}
	return s
}

// NewULID returns a fresh ULID string.
func NewULID() string { return ulid.Make().String() }

// Model parses the DSL.
func Model(dsl string) *openfgav1.AuthorizationModel { return parser.MustTransformDSLToProto(dsl) }

// ModelWithID parses the DSL and sets the id.
func ModelWithID(dsl, id string) *openfgav1.AuthorizationModel {
	m := Model(dsl)
	m.Id = id
	return m
}

var detMarshal = proto.MarshalOptions{Deterministic: true}

// Enc is the canonical encoding of a message: deterministic wire bytes (map entries sorted).
func Enc(m proto.Message) []byte {
	if m == nil {
		return nil
	}
	b, err := detMarshal.Marshal(m)
	if err != nil {
		panic(err)
	}
	return b
}

// JSON is a readable canonical form for descriptions.
func JSON(m proto.Message) string {
	b, err := protojson.MarshalOptions{}.Marshal(m)
	if err != nil {
		return "?"
	}
	return string(b)
}

// SortedStrings returns a sorted copy.
func SortedStrings(xs []string) []string {
	out := append([]string(nil), xs...)
	sort.Strings(out)
	return out
}

// Ctx is the context all driver calls use.
var Ctx = context.Background()
