//go:build verif

// Package rec holds what every verification driver shares: the single PRNG all random
// choices derive from, and the writer of the line-oriented case records that the extracted
// Coq oracle reads.
//
// Record grammar (one case per line, three tab-separated columns):
//
//	<case-id> TAB <value> ... TAB <json description>
//	value ::= <decimal integer> | x<hex bytes> | ( value* )
package rec

import (
	"bufio"
	"encoding/hex"
	"encoding/json"
	"flag"
	"fmt"
	"os"
	"strconv"
	"strings"
)

// Rand is splitmix64.
type Rand struct{ s uint64 }

func NewRand(seed uint64) *Rand { return &Rand{s: seed} }

func (r *Rand) Uint64() uint64 {
	r.s += 0x9e3779b97f4a7c15
	z := r.s
	z = (z ^ (z >> 30)) * 0xbf58476d1ce4e5b9
	z = (z ^ (z >> 27)) * 0x94d049bb133111eb
	return z ^ (z >> 31)
}

// Intn returns a value in [0,n).
func (r *Rand) Intn(n int) int {
	if n <= 0 {
		return 0
	}
	return int(r.Uint64() % uint64(n))
}

// Range returns a value in [lo,hi].
func (r *Rand) Range(lo, hi int) int { return lo + r.Intn(hi-lo+1) }

func (r *Rand) Bool() bool { return r.Uint64()&1 == 1 }

// Chance is true with probability num/den.
func (r *Rand) Chance(num, den int) bool { return r.Intn(den) < num }

// Fork derives an independent generator (so that one case's choices do not shift the next's).
func (r *Rand) Fork() *Rand { return NewRand(r.Uint64()) }

func Pick[T any](r *Rand, xs []T) T { return xs[r.Intn(len(xs))] }

func Shuffle[T any](r *Rand, xs []T) {
	for i := len(xs) - 1; i > 0; i-- {
		j := r.Intn(i + 1)
		xs[i], xs[j] = xs[j], xs[i]
	}
}

// V is an encoded value.
type V string

func I(i int) V          { return V(strconv.Itoa(i)) }
func I64(i int64) V      { return V(strconv.FormatInt(i, 10)) }
func U64(i uint64) V     { return V(strconv.FormatUint(i, 10)) }
func Dec(s string) V     { return V(s) } // already a decimal literal
func B(b []byte) V       { return V("x" + hex.EncodeToString(b)) }
func S(s string) V       { return B([]byte(s)) }
func Bool(b bool) V {
	if b {
		return "1"
	}
	return "0"
}
func L(vs ...V) V {
	parts := make([]string, 0, len(vs)+2)
	parts = append(parts, "(")
	for _, v := range vs {
		parts = append(parts, string(v))
	}
	parts = append(parts, ")")
	return V(strings.Join(parts, " "))
}
func LS(ss []string) V {
	vs := make([]V, len(ss))
	for i, s := range ss {
		vs[i] = S(s)
	}
	return L(vs...)
}
func LI(is []int) V {
	vs := make([]V, len(is))
	for i, s := range is {
		vs[i] = I(s)
	}
	return L(vs...)
}

// Writer writes case records, direct property failures and statistics.
type Writer struct {
	f     *os.File
	w     *bufio.Writer
	n     int
	stats map[string]int
	order []string
}

func NewWriter(path string) *Writer {
	f, err := os.Create(path)
	if err != nil {
		panic(err)
	}
	return &Writer{f: f, w: bufio.NewWriterSize(f, 1<<20), stats: map[string]int{}}
}

// Case writes one record; desc is any JSON-marshalable description used for replays and samples.
func (w *Writer) Case(desc any, vs ...V) int {
	w.n++
	parts := make([]string, len(vs))
	for i, v := range vs {
		parts[i] = string(v)
	}
	d := "null"
	if desc != nil {
		if b, err := json.Marshal(desc); err == nil {
			d = string(b)
		}
	}
	fmt.Fprintf(w.w, "%d\t%s\t%s\n", w.n, strings.Join(parts, " "), d)
	return w.n
}

// PropFail records that the property's own predicate failed on the implementation's output
// (decided by the driver itself, without the model).
func (w *Writer) PropFail(what string, desc any) {
	d, _ := json.Marshal(desc)
	fmt.Fprintf(w.w, "!PROP\t%s\t%s\n", strings.ReplaceAll(what, "\t", " "), string(d))
}

// Known records a property failure that the driver attributes to a listed finding flag.
func (w *Writer) Known(flag, what string, desc any) {
	d, _ := json.Marshal(desc)
	fmt.Fprintf(w.w, "!KNOWN\t%s\t%s\t%s\n", flag, strings.ReplaceAll(what, "\t", " "), string(d))
}

func (w *Writer) Stat(key string, delta int) {
	if _, ok := w.stats[key]; !ok {
		w.order = append(w.order, key)
	}
	w.stats[key] += delta
}

func (w *Writer) Close() {
	for _, k := range w.order {
		fmt.Fprintf(w.w, "!STAT\t%s\t%d\n", k, w.stats[k])
	}
	w.w.Flush()
	w.f.Close()
}

// Flags common to all drivers.
type Opts struct {
	Seed   uint64
	N      int
	Tier   string
	Out    string
	Replay string
}

func ParseFlags() Opts {
	var o Opts
	flag.Uint64Var(&o.Seed, "seed", 1, "PRNG seed")
	flag.IntVar(&o.N, "n", 1000, "number of cases / scenarios")
	flag.StringVar(&o.Tier, "tier", "quick", "quick|thorough")
	flag.StringVar(&o.Out, "out", "cases.rec", "output record file")
	flag.StringVar(&o.Replay, "replay", "", "replay file (JSON lines of case descriptions)")
	flag.Parse()
	return o
}
