//go:build verif

package storegen

import (
	"fmt"
	"time"

	"github.com/openfga/openfga/internal/verifharness/lib/rec"
)

// Key is one (object, relation, user) of the small universe.
type Key struct{ Obj, Rel, User string }

// Universe: 12 keys over 3 object types (doc, folder, group), direct users, a typed wildcard and
// a userset.
var Universe = []Key{
	{"doc:1", "viewer", "user:a"},
	{"doc:1", "viewer", "user:b"},
	{"doc:1", "viewer", "user:*"},
	{"doc:1", "viewer", "group:g#member"},
	{"doc:1", "editor", "user:a"},
	{"doc:2", "viewer", "user:a"},
	{"doc:2", "editor", "group:g#member"},
	{"folder:1", "viewer", "user:a"},
	{"folder:1", "viewer", "user:*"},
	{"group:g", "member", "user:a"},
	{"group:g", "member", "user:b"},
	{"folder:2", "viewer", "group:g#member"},
}

// condition variants that are valid through the command layer
type condv struct {
	has  bool
	name string
	ctx  int
}

var validConds = []condv{
	{false, "", CtxNil},
	{true, "c1", CtxNil}, {true, "c1", CtxEmpty}, {true, "c1", CtxX1}, {true, "c1", CtxX2},
	{true, "c2", CtxNil}, {true, "c2", CtxEmpty}, {true, "c2", CtxX1}, {true, "c2", CtxSA},
}

// malformed material (deletes are barely validated by the command layer; direct datastore
// calls are not validated at all)
var badObjs = []string{"doc:", "doc", ":1", "doc:1:2", "", "folder:", "zzz:1", "doc:1#viewer"}
var badRels = []string{"", "owner", "view#er", "viewer@"}
var badUsers = []string{"user:", "*", "", "user", "group:g#", "user:a#", ":a", "user:a:b", "zzz:1", "group:g#member#x"}

func inUniverse(o, r, u string) bool {
	for _, k := range Universe {
		if k.Obj == o && k.Rel == r && k.User == u {
			return true
		}
	}
	return false
}

// condValid: does the command layer accept this condition on a universe key (a directly written
// tuple may carry one it would not, and the generator copies conditions of existing tuples)
func condValid(c condv) bool {
	if !c.has {
		return true
	}
	switch c.name {
	case "c1":
		return c.ctx == CtxNil || c.ctx == CtxEmpty || c.ctx == CtxX1 || c.ctx == CtxX2
	case "c2":
		return c.ctx == CtxNil || c.ctx == CtxEmpty || c.ctx == CtxX1 || c.ctx == CtxX2 || c.ctx == CtxSA
	}
	return false
}

func keyItem(k Key, c condv) Item {
	return Item{Obj: k.Obj, Rel: k.Rel, User: k.User, Has: c.has, Name: c.name, Ctx: c.ctx, Valid: condValid(c)}
}

// Profile steers one history.
type Profile struct {
	Name      string
	Mode      int // 0 cmd, 1 direct, 2 mixed per op
	PBadItem  int // per mille: an item is malformed / invalid
	PDupKey   int // per mille: a request repeats a key (inside writes, inside deletes, or across)
	PBogusOpt int // per mille (command layer only)
	MaxItems  int
	KeyLimit  int // use only the first KeyLimit keys of the universe
}

var Profiles = []Profile{
	{Name: "cmd", Mode: 0, PBadItem: 40, PDupKey: 60, PBogusOpt: 25, MaxItems: 4, KeyLimit: 12},
	{Name: "direct", Mode: 1, PBadItem: 0, PDupKey: 0, PBogusOpt: 0, MaxItems: 4, KeyLimit: 12},
	{Name: "mixed", Mode: 2, PBadItem: 30, PDupKey: 50, PBogusOpt: 15, MaxItems: 5, KeyLimit: 8},
	{Name: "direct-raw", Mode: 1, PBadItem: 120, PDupKey: 150, PBogusOpt: 0, MaxItems: 4, KeyLimit: 6},
	{Name: "cmd-dense", Mode: 0, PBadItem: 10, PDupKey: 20, PBogusOpt: 5, MaxItems: 3, KeyLimit: 4},
}

func findPresent(present []TupleObs, k Key) *TupleObs {
	for i := range present {
		if present[i][0] == k.Obj && present[i][1] == k.Rel && present[i][2] == k.User {
			return &present[i]
		}
	}
	return nil
}

func condOfObs(t *TupleObs) condv {
	if t[3] == "" {
		return condv{}
	}
	ctx := CtxEmpty
	switch t[4] {
	case "x=1":
		ctx = CtxX1
	case "x=2":
		ctx = CtxX2
	case `s="a"`:
		ctx = CtxSA
	}
	return condv{true, t[3], ctx}
}

// GenWrite generates one write request against the tuples currently present (as observed on the
// memory backend), so that existing / missing / conflicting items all occur often.
func GenWrite(r *rec.Rand, p Profile, present []TupleObs, stat func(string)) Op {
	op := Op{Kind: KindWrite}
	switch p.Mode {
	case 0, 1:
		op.Mode = p.Mode
	default:
		op.Mode = r.Intn(2)
	}
	pickOpt := func() int {
		if op.Mode == 0 && r.Chance(p.PBogusOpt, 1000) {
			return OptBogus
		}
		return r.Intn(3)
	}
	op.OnDup, op.OnMiss = pickOpt(), pickOpt()
	keys := Universe[:p.KeyLimit]
	var presentKeys, absentKeys []Key
	for _, k := range keys {
		if findPresent(present, k) != nil {
			presentKeys = append(presentKeys, k)
		} else {
			absentKeys = append(absentKeys, k)
		}
	}
	used := map[Key]bool{}
	pick := func(from []Key) (Key, bool) {
		var cand []Key
		for _, k := range from {
			if !used[k] {
				cand = append(cand, k)
			}
		}
		if len(cand) == 0 {
			return Key{}, false
		}
		k := rec.Pick(r, cand)
		used[k] = true
		return k, true
	}
	nd, nw := 0, 0
	switch r.Intn(10) {
	case 0, 1, 2:
		nw = r.Range(1, p.MaxItems)
	case 3, 4:
		nd = r.Range(1, p.MaxItems)
	case 5:
		if r.Chance(1, 6) {
			// empty request
		} else {
			nw, nd = 1, 1
		}
	default:
		nw, nd = r.Range(1, p.MaxItems), r.Range(1, p.MaxItems)
	}
	for i := 0; i < nd; i++ {
		c := r.Intn(100)
		switch {
		case r.Chance(p.PBadItem, 1000):
			k := rec.Pick(r, keys)
			it := Item{Obj: k.Obj, Rel: k.Rel, User: k.User, Valid: true}
			switch r.Intn(4) {
			case 0, 1:
				it.Obj = rec.Pick(r, badObjs)
			case 2:
				it.Rel = rec.Pick(r, badRels)
			default:
				it.User = rec.Pick(r, badUsers)
			}
			op.Dels = append(op.Dels, it)
			stat("del_malformed")
		case c < 70:
			if k, ok := pick(presentKeys); ok {
				op.Dels = append(op.Dels, Item{Obj: k.Obj, Rel: k.Rel, User: k.User, Valid: true})
				stat("del_existing")
			}
		default:
			if k, ok := pick(absentKeys); ok {
				op.Dels = append(op.Dels, Item{Obj: k.Obj, Rel: k.Rel, User: k.User, Valid: true})
				stat("del_missing")
			}
		}
	}
	for i := 0; i < nw; i++ {
		c := r.Intn(100)
		switch {
		case r.Chance(p.PBadItem, 1000):
			k := rec.Pick(r, keys)
			it := keyItem(k, rec.Pick(r, validConds))
			it.Valid = false
			switch r.Intn(8) {
			case 0:
				it.Obj = rec.Pick(r, badObjs)
			case 1:
				it.Rel = rec.Pick(r, badRels)
			case 2:
				it.User = rec.Pick(r, badUsers)
			case 3:
				it.Has, it.Name, it.Ctx = true, "c9", CtxNil // undefined condition
			case 4:
				it.Has, it.Name, it.Ctx = true, "c1", CtxXStr // wrong parameter type
			case 5:
				it.Has, it.Name, it.Ctx = true, "c1", CtxZ // unknown parameter
			case 6:
				it.Has, it.Name, it.Ctx = true, "c2", CtxBig // over the context byte limit
			default:
				it.Has, it.Name, it.Ctx = true, "", r.Intn(3) // unnamed condition
			}
			if it.User == "*" && it.Obj == k.Obj && it.Rel == k.Rel {
				// the untyped wildcard is a well-formed user, rejected by the type restrictions
				it.Valid = false
			}
			op.Wrs = append(op.Wrs, it)
			stat("wr_invalid")
		case c < 50:
			if k, ok := pick(absentKeys); ok {
				op.Wrs = append(op.Wrs, keyItem(k, rec.Pick(r, validConds)))
				stat("wr_new")
			}
		default:
			k, ok := pick(presentKeys)
			if !ok {
				continue
			}
			ex := condOfObs(findPresent(present, k))
			switch v := r.Intn(10); {
			case v < 4:
				op.Wrs = append(op.Wrs, keyItem(k, ex))
				stat("wr_existing_same")
			case v < 6 && ex.has:
				// same condition, context given the other way (nil <-> empty struct)
				alt := ex
				if ex.ctx == CtxEmpty {
					alt.ctx = CtxNil
				} else if ex.ctx == CtxNil {
					alt.ctx = CtxEmpty
				}
				op.Wrs = append(op.Wrs, keyItem(k, alt))
				stat("wr_existing_same_nilctx")
			case v < 8:
				var alt condv
				for {
					alt = rec.Pick(r, validConds)
					if alt.name != ex.name {
						break
					}
				}
				op.Wrs = append(op.Wrs, keyItem(k, alt))
				stat("wr_existing_other_condition")
			default:
				alt := ex
				if ex.has {
					if ex.ctx == CtxX1 {
						alt.ctx = CtxX2
					} else {
						alt.ctx = CtxX1
					}
				} else {
					alt = condv{true, "c1", CtxX1}
				}
				op.Wrs = append(op.Wrs, keyItem(k, alt))
				stat("wr_existing_other_context")
			}
		}
	}
	// a delete whose object lacks the id ("doc:"): accepted by the command layer (only the user
	// of a delete is validated), a pattern for the memory backend's match
	if p.PBadItem > 0 && len(present) > 0 && r.Chance(35, 1000) {
		t := rec.Pick(r, present)
		for i := 0; i < len(t[0]); i++ {
			if t[0][i] == ':' {
				op.Dels = append(op.Dels, Item{Obj: t[0][:i+1], Rel: t[1], User: t[2], Valid: true})
				stat("del_object_without_id")
				break
			}
		}
	}
	if r.Chance(p.PDupKey, 1000) && (len(op.Dels)+len(op.Wrs) > 0) {
		switch r.Intn(3) {
		case 0:
			if len(op.Wrs) > 0 {
				it := rec.Pick(r, op.Wrs)
				if r.Bool() {
					c := rec.Pick(r, validConds)
					it.Has, it.Name, it.Ctx = c.has, c.name, c.ctx
				}
				op.Wrs = append(op.Wrs, it)
				stat("dup_in_writes")
			}
		case 1:
			if len(op.Dels) > 0 {
				op.Dels = append(op.Dels, rec.Pick(r, op.Dels))
				stat("dup_in_deletes")
			}
		default:
			if len(op.Wrs) > 0 {
				it := rec.Pick(r, op.Wrs)
				op.Dels = append(op.Dels, Item{Obj: it.Obj, Rel: it.Rel, User: it.User, Valid: true})
				stat("key_in_writes_and_deletes")
			} else {
				it := rec.Pick(r, op.Dels)
				c := rec.Pick(r, validConds)
				op.Wrs = append(op.Wrs, Item{Obj: it.Obj, Rel: it.Rel, User: it.User, Has: c.has, Name: c.name, Ctx: c.ctx,
					Valid: inUniverse(it.Obj, it.Rel, it.User)})
				stat("key_in_writes_and_deletes")
			}
		}
	}
	return op
}

// GenBulk generates a request with more items than one SQL batch (100) directly on the
// datastore, or - through the command layer - with exactly 99, 100 or 101 items (the limit).
func GenBulk(r *rec.Rand, present []TupleObs, mode int) Op {
	op := Op{Kind: KindWrite, Mode: mode, OnDup: r.Intn(3), OnMiss: r.Intn(3)}
	n := r.Range(95, 230)
	if mode == 0 {
		n = r.Range(99, 101)
	}
	base := r.Intn(3) * 60
	for i := 0; i < n; i++ {
		k := Key{fmt.Sprintf("doc:b%d", base+i), "viewer", "user:a"}
		if mode == 0 {
			// one item per key, so that the request has exactly n items
			if findPresent(present, k) != nil {
				op.Dels = append(op.Dels, Item{Obj: k.Obj, Rel: k.Rel, User: k.User, Valid: true})
			} else {
				op.Wrs = append(op.Wrs, keyItem(k, validConds[r.Intn(2)*3]))
			}
			continue
		}
		if findPresent(present, k) != nil {
			if r.Chance(3, 4) {
				op.Dels = append(op.Dels, Item{Obj: k.Obj, Rel: k.Rel, User: k.User, Valid: true})
			} else if op.OnDup == OptIgnore {
				op.Wrs = append(op.Wrs, keyItem(k, condOfObs(findPresent(present, k))))
			}
		} else {
			if r.Chance(9, 10) || op.OnMiss != OptIgnore {
				op.Wrs = append(op.Wrs, keyItem(k, validConds[r.Intn(2)*3]))
			} else {
				op.Dels = append(op.Dels, Item{Obj: k.Obj, Rel: k.Rel, User: k.User, Valid: true})
			}
		}
	}
	return op
}

// History is one scenario: the ops and what both backends answered.
type History struct {
	Profile string `json:"p"`
	Ops     []Op   `json:"ops"`
	Seed    uint64 `json:"s"`
	NT      *bool  `json:"nt,omitempty"`
}

// Result of running a history.
type Result struct {
	Ops   []Op
	Mem   []Obs
	Sql   []Obs
	Probs []Problem
}

// Runner executes ops on a fresh memory and a fresh sqlite backend.
type Runner struct {
	Mem, Sql *Backend
	R        *rec.Rand
	Res      Result
	Times    []OpTime
	TokMem   TokenState
	TokSql   TokenState
}

func NewRunner(seed uint64) (*Runner, error) {
	m, err := NewMemory()
	if err != nil {
		return nil, err
	}
	s, err := NewSqlite()
	if err != nil {
		return nil, err
	}
	return &Runner{Mem: m, Sql: s, R: rec.NewRand(seed ^ 0x5bd1e995)}, nil
}

func (rn *Runner) Close() {
	rn.Mem.Close()
	rn.Sql.Close()
}

// Present returns the memory backend's current tuples (for the generators).
func (rn *Runner) Present() []TupleObs {
	if n := len(rn.Res.Mem); n > 0 {
		for i := n - 1; i >= 0; i-- {
			if rn.Res.Ops[i].Kind == KindWrite && rn.Res.Mem[i].Present {
				return rn.Res.Mem[i].Tuples
			}
		}
	}
	return nil
}

// Do executes one op on both backends.
func (rn *Runner) Do(op Op, full bool) {
	if op.SleepMs > 0 {
		time.Sleep(time.Duration(op.SleepMs) * time.Millisecond)
	}
	var mo, so Obs
	switch op.Kind {
	case KindWrite:
		// the same observation choices (page sizes) for both backends
		s := rn.R.Uint64()
		t0 := time.Now()
		mo = ExecWrite(rn.Mem, &op, rec.NewRand(s), full, &rn.Res.Probs)
		so = ExecWrite(rn.Sql, &op, rec.NewRand(s), full, &rn.Res.Probs)
		rn.Times = append(rn.Times, OpTime{Tick: op.Tick, Start: t0, End: time.Now()})
	case KindHorizon:
		mo = ExecHorizon(rn.Mem, &op, rn.Times, &rn.Res.Probs)
		so = ExecHorizon(rn.Sql, &op, rn.Times, &rn.Res.Probs)
	case KindHorizonCmd:
		// the backdating only exists on sqlite: for memory every op is as old as the clock says
		sqlTimes := rn.Times
		memTimes := make([]OpTime, len(rn.Times))
		for i, t := range rn.Times {
			t.Backdated = false
			memTimes[i] = t
		}
		mo = ExecHorizonCmd(rn.Mem, &op, memTimes, &rn.TokMem, &rn.Res.Probs)
		so = ExecHorizonCmd(rn.Sql, &op, sqlTimes, &rn.TokSql, &rn.Res.Probs)
	case KindBackdate:
		if err := Backdate(rn.Sql); err != nil {
			rn.Res.Probs = append(rn.Res.Probs, Problem{"harness: backdating failed: " + err.Error()})
		}
		for i := range rn.Times {
			rn.Times[i].Backdated = true
		}
	}
	rn.Res.Ops = append(rn.Res.Ops, op)
	rn.Res.Mem = append(rn.Res.Mem, mo)
	rn.Res.Sql = append(rn.Res.Sql, so)
}

// Emit writes the history as one record.
func (rn *Runner) Emit(w *rec.Writer, profile string, seed uint64) {
	vs := make([]rec.V, len(rn.Res.Ops))
	for i := range rn.Res.Ops {
		vs[i] = OpV(&rn.Res.Ops[i], rn.Res.Mem[i], rn.Res.Sql[i])
	}
	desc := History{Profile: profile, Ops: rn.Res.Ops, Seed: seed}
	w.Case(desc, rec.I(1), rec.L(vs...))
	for _, p := range rn.Res.Probs {
		w.PropFail(p.What, desc)
	}
}
