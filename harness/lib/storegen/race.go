//go:build verif

package storegen

import (
	"context"
	"fmt"
	"sync"

	"github.com/oklog/ulid/v2"
	parser "github.com/openfga/language/pkg/go/transformer"

	"github.com/openfga/openfga/internal/verifharness/lib/rec"
)

// Concurrent histories: k racing Write requests on one store touching overlapping tuples.  The
// verdict (oracle) is linearisability against the sequential specification: results, final
// store and changelog must be explainable by SOME sequential order of the requests.

// NewStore gives the backend a fresh store (stores are isolated by id) with the model in it.
func NewStore(b *Backend) error {
	b.Store = ulid.Make().String()
	model := parser.MustTransformDSLToProto(ModelDSL)
	model.Id = ulid.Make().String()
	b.ModelID = model.GetId()
	return b.DS.WriteAuthorizationModel(context.Background(), b.Store, model)
}

// RaceDesc describes one race (for the evidence and for re-running it).
type RaceDesc struct {
	Kind    string `json:"kind"` // "race"
	Backend string `json:"backend"`
	Ballast int    `json:"ballast"`
	Init    []Item `json:"init"`
	Reqs    []Op   `json:"reqs"`
	Seed    uint64 `json:"s"`
}

// RaceObs is what one race showed.
type RaceObs struct {
	Init  []TupleObs
	Errs  []int
	Final []TupleObs
	Log   []ChangeObs // entries appended during the race
	// Reordered: the changelog read before the race is not a prefix of the one read after it -
	// an entry written by a racing request sorts (by ULID) before an entry that had already been
	// written, and returned, before the race started.  Only the sqlite backend can show this.
	Reordered bool
}

// conditions used in races: none, or c1 with an explicit non-empty context (the nil / empty
// context comparison defects of the listed findings are kept out of the concurrency verdict)
var raceConds = []condv{{false, "", CtxNil}, {false, "", CtxNil}, {true, "c1", CtxX1}, {true, "c1", CtxX2}}

const ballastType = "ballast:"

func notBallast(ts []TupleObs) []TupleObs {
	var out []TupleObs
	for _, t := range ts {
		if len(t[0]) < len(ballastType) || t[0][:len(ballastType)] != ballastType {
			out = append(out, t)
		}
	}
	return out
}

func notBallastC(cs []ChangeObs) []ChangeObs {
	var out []ChangeObs
	for _, c := range cs {
		if len(c[1]) < len(ballastType) || c[1][:len(ballastType)] != ballastType {
			out = append(out, c)
		}
	}
	return out
}

// GenRace generates the initial tuples and k requests over the first six keys of the universe
// (contended) plus one private key per request.
func GenRace(r *rec.Rand, k int, stat func(string)) ([]Item, []Op) {
	hot := Universe[:r.Range(2, 5)]
	var init []Item
	for _, key := range hot {
		if r.Bool() {
			init = append(init, keyItem(key, rec.Pick(r, raceConds)))
		}
	}
	reqs := make([]Op, k)
	for i := range reqs {
		op := Op{Kind: KindWrite, Mode: r.Intn(2), OnDup: r.Intn(3), OnMiss: r.Intn(3), Tick: 2}
		if r.Chance(1, 2) {
			op.OnDup, op.OnMiss = r.Intn(2), r.Intn(2) // default / "error": the contended case
		}
		used := map[Key]bool{}
		for j := 0; j < r.Range(1, 3); j++ {
			key := rec.Pick(r, hot)
			if used[key] {
				continue
			}
			used[key] = true
			if r.Chance(3, 5) {
				op.Wrs = append(op.Wrs, keyItem(key, rec.Pick(r, raceConds)))
			} else {
				op.Dels = append(op.Dels, Item{Obj: key.Obj, Rel: key.Rel, User: key.User, Valid: true})
			}
		}
		if r.Chance(1, 2) {
			// a private tuple: shows a partially applied request
			op.Wrs = append(op.Wrs, keyItem(Universe[6+i%6], condv{}))
		}
		if len(op.Wrs)+len(op.Dels) == 0 {
			op.Wrs = append(op.Wrs, keyItem(hot[0], condv{}))
		}
		reqs[i] = op
		stat(fmt.Sprintf("race_requests_mode%d", op.Mode))
	}
	return init, reqs
}

// RunRace prepares a fresh store (ballast tuples widen the validate/apply window of the memory
// backend), starts all requests at once and observes the outcome.
func RunRace(b *Backend, ballast int, init []Item, reqs []Op) (RaceObs, error) {
	var o RaceObs
	if err := NewStore(b); err != nil {
		return o, err
	}
	for start := 0; start < ballast; start += 100 {
		op := Op{Kind: KindWrite, Mode: 1}
		for i := start; i < start+100 && i < ballast; i++ {
			op.Wrs = append(op.Wrs, Item{Obj: fmt.Sprintf("%s%d", ballastType, i), Rel: "viewer", User: "user:a", Valid: true})
		}
		if err := doWrite(context.Background(), b, &op); err != nil {
			return o, fmt.Errorf("ballast: %w", err)
		}
	}
	if len(init) > 0 {
		op := Op{Kind: KindWrite, Mode: 1, Wrs: init}
		if err := doWrite(context.Background(), b, &op); err != nil {
			return o, fmt.Errorf("initial tuples: %w", err)
		}
	}
	t0, err := ReadAllTuples(b, 100)
	if err != nil {
		return o, err
	}
	l0, err := ReadAllChanges(b, "", 0, false, 100)
	if err != nil {
		return o, err
	}
	o.Init = notBallast(t0)
	o.Errs = make([]int, len(reqs))
	start := make(chan struct{})
	var wg sync.WaitGroup
	for i := range reqs {
		wg.Add(1)
		go func(i int) {
			defer wg.Done()
			<-start
			err := doWrite(context.Background(), b, &reqs[i])
			o.Errs[i] = classify(&reqs[i], err)
		}(i)
	}
	close(start)
	wg.Wait()
	t1, err := ReadAllTuples(b, 100)
	if err != nil {
		return o, err
	}
	l1, err := ReadAllChanges(b, "", 0, false, 100)
	if err != nil {
		return o, err
	}
	o.Final = notBallast(t1)
	if len(l1) < len(l0) {
		return o, fmt.Errorf("changelog shrank during the race")
	}
	if eqChanges(l1[:len(l0)], l0) {
		o.Log = notBallastC(l1[len(l0):])
		return o, nil
	}
	// The old entries are not a prefix of the new read.  sqlite orders the changelog by ULID and
	// takes the ULID's millisecond before BEGIN, and the process-wide monotonic entropy restarts
	// whenever the millisecond changes - even backwards - so an entry of a racing request can
	// sort before older entries.  The entries written during the race are then the multiset
	// difference (in the order read), not the tail.
	if b.Name != "sqlite" {
		return o, fmt.Errorf("changelog entries written before the race changed or moved")
	}
	o.Reordered = true
	rest := append([]ChangeObs(nil), l1...)
	for _, old := range l0 {
		found := false
		for i, c := range rest {
			if c == old {
				rest = append(rest[:i], rest[i+1:]...)
				found = true
				break
			}
		}
		if !found {
			return o, fmt.Errorf("a changelog entry written before the race disappeared")
		}
	}
	o.Log = notBallastC(rest)
	return o, nil
}

// EmitRace writes one race as a record of kind 2:
// 2 backend (init tuples) ((mode ondup onmiss (dels) (writes) errclass) ...) (final tuples) (new changelog entries)
func EmitRace(w *rec.Writer, b *Backend, ballast int, init []Item, reqs []Op, o RaceObs, seed uint64) {
	code := 0
	if b.Name == "sqlite" {
		code = 1
	}
	rs := make([]rec.V, len(reqs))
	for i := range reqs {
		ds := make([]rec.V, len(reqs[i].Dels))
		for j, d := range reqs[i].Dels {
			ds[j] = itemDelV(d)
		}
		ws := make([]rec.V, len(reqs[i].Wrs))
		for j, x := range reqs[i].Wrs {
			ws[j] = itemWrV(x)
		}
		rs[i] = rec.L(rec.I(reqs[i].Mode), rec.I(reqs[i].OnDup), rec.I(reqs[i].OnMiss), rec.L(ds...), rec.L(ws...), rec.I(o.Errs[i]))
	}
	desc := RaceDesc{Kind: "race", Backend: b.Name, Ballast: ballast, Init: init, Reqs: reqs, Seed: seed}
	w.Case(desc, rec.I(2), rec.I(code), tuplesV(o.Init), rec.L(rs...), tuplesV(o.Final), changesV(o.Log))
}
