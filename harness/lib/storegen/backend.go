//go:build verif

// Package storegen is shared by the C12 and C15 drivers: it creates the two storage backends
// (memory, sqlite on a temporary file), wraps the sqlite connection in a statement-counting,
// fault-injecting database/sql driver, runs generated write histories through the command
// layer or directly through the datastore, and records canonical observations (sorted tuples,
// changelog in returned order without timestamps / ULIDs).
package storegen

import (
	"context"
	"database/sql"
	"database/sql/driver"
	"errors"
	"fmt"
	"io"
	"os"
	"path/filepath"
	"strings"
	"sync"
	"time"

	"github.com/oklog/ulid/v2"
	parser "github.com/openfga/language/pkg/go/transformer"
	"github.com/pressly/goose/v3"

	"github.com/openfga/openfga/assets"
	"github.com/openfga/openfga/pkg/storage"
	"github.com/openfga/openfga/pkg/storage/memory"
	"github.com/openfga/openfga/pkg/storage/sqlcommon"
	"github.com/openfga/openfga/pkg/storage/sqlite"
)

// ModelDSL: every relation accepts every user shape of the universe, without condition and
// with c1 / c2, so that a tuple's validity never depends on which condition the generator chose.
const ModelDSL = `model
  schema 1.1
type user
type group
  relations
    define member: [user, user with c1, user with c2, user:*, user:* with c1, user:* with c2, group#member, group#member with c1, group#member with c2]
type doc
  relations
    define viewer: [user, user with c1, user with c2, user:*, user:* with c1, user:* with c2, group#member, group#member with c1, group#member with c2]
    define editor: [user, user with c1, user with c2, user:*, user:* with c1, user:* with c2, group#member, group#member with c1, group#member with c2]
type folder
  relations
    define viewer: [user, user with c1, user with c2, user:*, user:* with c1, user:* with c2, group#member, group#member with c1, group#member with c2]
condition c1(x: int) {
  x < 100
}
condition c2(x: int, s: string) {
  x < 200 || s == "a"
}
`

// FaultCtl counts the statements the sqlite datastore sends through database/sql while it is
// armed and makes the FailAt-th one fail (before it reaches the engine), or calls Snapshot
// before each statement (crash points).
type FaultCtl struct {
	mu       sync.Mutex
	armed    bool
	count    int
	FailAt   int  // 1-based; 0 = never
	BadConn  bool // fail with driver.ErrBadConn instead of a plain error
	Flavour  int  // FlavCancel: cancel the request context after statement FailAt-1; FlavBusy: COMMIT fails with SQLITE_BUSY
	Cancel   context.CancelFunc
	Trace    []string
	Snapshot func(k int) // called before statement k executes (k 1-based)
}

// Fault flavours (Op.Flav).
const (
	FlavPlain          = 0 // statement Fault fails with a plain error (or ErrBadConn with Op.BadConn)
	FlavCancel         = 2 // the request context is cancelled after statement Fault-1 (database/sql rolls back by itself)
	FlavBusy           = 3 // statement Fault, if it is COMMIT, fails with a genuine SQLITE_BUSY error (busyRetry retries it)
	FlavConflictDelete = 4 // command layer over a datastore whose Write returns ErrWriteConflictOnDelete without applying
	FlavConflictInsert = 5 // ... ErrWriteConflictOnInsert
)

var ErrInjected = errors.New("verif: injected statement failure")

func (c *FaultCtl) Arm(failAt int, badConn bool, snap func(int)) {
	c.mu.Lock()
	defer c.mu.Unlock()
	c.armed, c.count, c.FailAt, c.BadConn, c.Trace, c.Snapshot = true, 0, failAt, badConn, nil, snap
	c.Flavour, c.Cancel = FlavPlain, nil
}

// ArmFlavour is Arm with a fault flavour (and the cancel function of the request's context).
func (c *FaultCtl) ArmFlavour(failAt int, badConn bool, flavour int, cancel context.CancelFunc, snap func(int)) {
	c.Arm(failAt, badConn, snap)
	c.mu.Lock()
	c.Flavour, c.Cancel = flavour, cancel
	c.mu.Unlock()
}

// after is called when a statement was executed by the engine: with FlavCancel the request
// context is cancelled once statement FailAt-1 is done, and database/sql is given a moment to
// roll the transaction back on its own.
func (c *FaultCtl) after() {
	c.mu.Lock()
	fire := c.armed && c.Flavour == FlavCancel && c.Cancel != nil && c.count == c.FailAt-1
	cancel := c.Cancel
	c.mu.Unlock()
	if fire {
		cancel()
		time.Sleep(4 * time.Millisecond)
	}
}

var (
	busyOnce sync.Once
	busyErr  error
)

// BusyError provokes (once) a genuine SQLITE_BUSY error from the real driver: two connections
// with busy_timeout(0) and immediate transactions on a scratch database.
func BusyError() error {
	busyOnce.Do(func() {
		initTemplate()
		p := filepath.Join(Root, "busy.db")
		if err := copyFile(tmplPath, p); err != nil {
			return
		}
		dsn := "file:" + p + "?_pragma=busy_timeout(0)&_txlock=immediate"
		db1, err := sql.Open("sqlite", dsn)
		if err != nil {
			return
		}
		defer db1.Close()
		db2, err := sql.Open("sqlite", dsn)
		if err != nil {
			return
		}
		defer db2.Close()
		tx1, err := db1.Begin()
		if err != nil {
			return
		}
		defer func() { _ = tx1.Rollback() }()
		_, busyErr = db2.Begin()
	})
	return busyErr
}

// Disarm returns the trace of statement kinds seen while armed.
func (c *FaultCtl) Disarm() []string {
	c.mu.Lock()
	defer c.mu.Unlock()
	c.armed = false
	c.Snapshot = nil
	return c.Trace
}

// before is called at every statement boundary; a non-nil result makes the statement fail.
func (c *FaultCtl) before(kind string) error {
	c.mu.Lock()
	if !c.armed {
		c.mu.Unlock()
		return nil
	}
	c.count++
	k := c.count
	c.Trace = append(c.Trace, kind)
	snap := c.Snapshot
	fail := c.FailAt == k && c.Flavour != FlavCancel
	bad := c.BadConn
	busy := c.Flavour == FlavBusy && kind == "commit"
	c.mu.Unlock()
	if snap != nil {
		snap(k)
	}
	if fail {
		if busy {
			if e := BusyError(); e != nil {
				return e
			}
		}
		if bad {
			return driver.ErrBadConn
		}
		return ErrInjected
	}
	return nil
}

func stmtKind(q string) string {
	q = strings.ToUpper(strings.TrimSpace(q))
	switch {
	case strings.HasPrefix(q, "SELECT"):
		return "select"
	case strings.HasPrefix(q, "DELETE FROM TUPLE"):
		return "delete"
	case strings.HasPrefix(q, "INSERT INTO TUPLE"):
		return "insert"
	case strings.HasPrefix(q, "INSERT INTO CHANGELOG"):
		return "changelog"
	}
	if len(q) > 16 {
		q = q[:16]
	}
	return "other:" + q
}

type faultConnector struct {
	inner driver.Driver
	dsn   string
	ctl   *FaultCtl
}

func (fc *faultConnector) Connect(ctx context.Context) (driver.Conn, error) {
	c, err := fc.inner.Open(fc.dsn)
	if err != nil {
		return nil, err
	}
	return &faultConn{Conn: c, ctl: fc.ctl}, nil
}
func (fc *faultConnector) Driver() driver.Driver { return fc.inner }

type faultConn struct {
	driver.Conn
	ctl *FaultCtl
}

func (c *faultConn) BeginTx(ctx context.Context, opts driver.TxOptions) (driver.Tx, error) {
	if err := c.ctl.before("begin"); err != nil {
		return nil, err
	}
	var tx driver.Tx
	var err error
	if b, ok := c.Conn.(driver.ConnBeginTx); ok {
		tx, err = b.BeginTx(ctx, opts)
	} else {
		tx, err = c.Conn.Begin() //nolint
	}
	if err != nil {
		return nil, err
	}
	c.ctl.after()
	return &faultTx{Tx: tx, ctl: c.ctl}, nil
}

func (c *faultConn) ExecContext(ctx context.Context, query string, args []driver.NamedValue) (driver.Result, error) {
	e, ok := c.Conn.(driver.ExecerContext)
	if !ok {
		return nil, driver.ErrSkip
	}
	if err := c.ctl.before(stmtKind(query)); err != nil {
		return nil, err
	}
	res, err := e.ExecContext(ctx, query, args)
	if err == nil {
		c.ctl.after()
	}
	return res, err
}

func (c *faultConn) QueryContext(ctx context.Context, query string, args []driver.NamedValue) (driver.Rows, error) {
	q, ok := c.Conn.(driver.QueryerContext)
	if !ok {
		return nil, driver.ErrSkip
	}
	if err := c.ctl.before(stmtKind(query)); err != nil {
		return nil, err
	}
	rows, err := q.QueryContext(ctx, query, args)
	if err == nil {
		c.ctl.after()
	}
	return rows, err
}

func (c *faultConn) PrepareContext(ctx context.Context, query string) (driver.Stmt, error) {
	if p, ok := c.Conn.(driver.ConnPrepareContext); ok {
		return p.PrepareContext(ctx, query)
	}
	return c.Conn.Prepare(query)
}

func (c *faultConn) Ping(ctx context.Context) error {
	if p, ok := c.Conn.(driver.Pinger); ok {
		return p.Ping(ctx)
	}
	return nil
}

func (c *faultConn) ResetSession(ctx context.Context) error {
	if p, ok := c.Conn.(driver.SessionResetter); ok {
		return p.ResetSession(ctx)
	}
	return nil
}

func (c *faultConn) IsValid() bool {
	if p, ok := c.Conn.(driver.Validator); ok {
		return p.IsValid()
	}
	return true
}

type faultTx struct {
	driver.Tx
	ctl *FaultCtl
}

func (t *faultTx) Commit() error {
	if err := t.ctl.before("commit"); err != nil {
		_ = t.Tx.Rollback()
		return err
	}
	return t.Tx.Commit()
}

// Backend is one datastore with one store and one authorization model in it.
type Backend struct {
	Name    string
	DS      storage.OpenFGADatastore
	Store   string
	ModelID string
	Path    string // sqlite file
	Ctl     *FaultCtl
}

var (
	tmplOnce sync.Once
	tmplPath string
	tmplErr  error
	innerDrv driver.Driver
	seq      int
)

// Root is the scratch directory of this run (removed by Cleanup); ScratchBase its parent
// (set by the driver before the first backend is created, e.g. /tmp/c12).
var (
	Root        string
	ScratchBase string
)

func sqliteURI(path string) string {
	return fmt.Sprintf("file:%s?_pragma=journal_mode(WAL)&_pragma=busy_timeout(5000)&_pragma=synchronous(NORMAL)", path)
}

func initTemplate() {
	tmplOnce.Do(func() {
		base := ScratchBase
		if base == "" {
			base = filepath.Join(os.TempDir(), "storegen")
		}
		if tmplErr = os.MkdirAll(base, 0o755); tmplErr != nil {
			return
		}
		Root, tmplErr = os.MkdirTemp(base, "run-*")
		if tmplErr != nil {
			return
		}
		tmplPath = filepath.Join(Root, "template.db")
		goose.SetBaseFS(assets.EmbedMigrations)
		goose.SetLogger(goose.NopLogger())
		db, err := goose.OpenDBWithDriver("sqlite", sqliteURI(tmplPath))
		if err != nil {
			tmplErr = err
			return
		}
		innerDrv = db.Driver()
		if err := goose.Up(db, assets.SqliteMigrationDir); err != nil {
			tmplErr = err
			return
		}
		// fold the WAL back into the main file so that the template is one file
		_, _ = db.Exec("PRAGMA wal_checkpoint(TRUNCATE)")
		tmplErr = db.Close()
	})
}

// Cleanup removes every scratch file of this run.
func Cleanup() {
	if Root != "" {
		_ = os.RemoveAll(Root)
	}
	if ScratchBase != "" {
		_ = os.Remove(ScratchBase) // only when empty
	}
}

func copyFile(src, dst string) error {
	in, err := os.Open(src)
	if err != nil {
		return err
	}
	defer in.Close()
	out, err := os.Create(dst)
	if err != nil {
		return err
	}
	if _, err := io.Copy(out, in); err != nil {
		out.Close()
		return err
	}
	return out.Close()
}

// CopyDB copies a sqlite database (main file, -wal, -shm when present): what a killed process
// leaves behind at this instant.
func CopyDB(src, dst string) error {
	if err := copyFile(src, dst); err != nil {
		return err
	}
	for _, suf := range []string{"-wal", "-shm"} {
		if _, err := os.Stat(src + suf); err == nil {
			if err := copyFile(src+suf, dst+suf); err != nil {
				return err
			}
		} else {
			_ = os.Remove(dst + suf)
		}
	}
	return nil
}

func RemoveDB(path string) {
	for _, suf := range []string{"", "-wal", "-shm"} {
		_ = os.Remove(path + suf)
	}
}

func setup(b *Backend) error {
	ctx := context.Background()
	b.Store = ulid.Make().String()
	model := parser.MustTransformDSLToProto(ModelDSL)
	model.Id = ulid.Make().String()
	b.ModelID = model.GetId()
	return b.DS.WriteAuthorizationModel(ctx, b.Store, model)
}

func NewMemory() (*Backend, error) {
	b := &Backend{Name: "memory", DS: memory.New()}
	return b, setup(b)
}

// OpenSqlite opens an existing database file through the fault-injecting connector.
func OpenSqlite(path string) (*Backend, error) {
	initTemplate()
	if tmplErr != nil {
		return nil, tmplErr
	}
	dsn, err := sqlite.PrepareDSN(sqliteURI(path))
	if err != nil {
		return nil, err
	}
	ctl := &FaultCtl{}
	db := sql.OpenDB(&faultConnector{inner: innerDrv, dsn: dsn, ctl: ctl})
	ds, err := sqlite.NewWithDB(db, sqlcommon.NewConfig())
	if err != nil {
		return nil, err
	}
	return &Backend{Name: "sqlite", DS: ds, Path: path, Ctl: ctl}, nil
}

// NewSqlite creates a fresh migrated database (copy of the template) with a store and model.
func NewSqlite() (*Backend, error) {
	initTemplate()
	if tmplErr != nil {
		return nil, tmplErr
	}
	seq++
	path := filepath.Join(Root, fmt.Sprintf("db%d.db", seq))
	if err := copyFile(tmplPath, path); err != nil {
		return nil, err
	}
	b, err := OpenSqlite(path)
	if err != nil {
		return nil, err
	}
	return b, setup(b)
}

func (b *Backend) Close() {
	b.DS.Close()
	if b.Path != "" {
		RemoveDB(b.Path)
	}
}
