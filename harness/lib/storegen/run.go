//go:build verif

package storegen

import (
	"context"
	"database/sql"
	"errors"
	"fmt"
	"sort"
	"strconv"
	"strings"
	"time"

	"google.golang.org/grpc/codes"
	"google.golang.org/grpc/status"
	"google.golang.org/protobuf/types/known/structpb"
	"google.golang.org/protobuf/types/known/wrapperspb"

	openfgav1 "github.com/openfga/api/proto/openfga/v1"

	"github.com/openfga/openfga/internal/verifharness/lib/rec"
	"github.com/openfga/openfga/pkg/encoder"
	"github.com/openfga/openfga/pkg/server/commands"
	"github.com/openfga/openfga/pkg/storage"
	"github.com/openfga/openfga/pkg/storage/sqlcommon"
)

// ---- inputs ------------------------------------------------------------------------------

// Context kinds: how the condition context of a written tuple is given.
const (
	CtxNil   = 0 // Context == nil
	CtxEmpty = 1 // &structpb.Struct{}
	CtxX1    = 2 // {x:1}
	CtxX2    = 3 // {x:2}
	CtxSA    = 4 // {s:"a"}        (valid for c2 only)
	CtxXStr  = 5 // {x:"str"}      (wrong type: invalid through the command layer)
	CtxZ     = 6 // {z:1}          (unknown parameter: invalid through the command layer)
	CtxBig   = 7 // {s: 600 x "a"} (over the byte limit through the command layer)
)

func ctxStruct(kind int) *structpb.Struct {
	mk := func(m map[string]any) *structpb.Struct {
		s, err := structpb.NewStruct(m)
		if err != nil {
			panic(err)
		}
		return s
	}
	switch kind {
	case CtxNil:
		return nil
	case CtxEmpty:
		return &structpb.Struct{}
	case CtxX1:
		return mk(map[string]any{"x": 1})
	case CtxX2:
		return mk(map[string]any{"x": 2})
	case CtxSA:
		return mk(map[string]any{"s": "a"})
	case CtxXStr:
		return mk(map[string]any{"x": "str"})
	case CtxZ:
		return mk(map[string]any{"z": 1})
	case CtxBig:
		return mk(map[string]any{"s": strings.Repeat("a", 600)})
	}
	return nil
}

// CanonStruct renders a context canonically: "" for nil and for the empty struct, otherwise
// the sorted key=value list.
func CanonStruct(s *structpb.Struct) string {
	if s == nil || len(s.GetFields()) == 0 {
		return ""
	}
	keys := make([]string, 0, len(s.GetFields()))
	for k := range s.GetFields() {
		keys = append(keys, k)
	}
	sort.Strings(keys)
	parts := make([]string, 0, len(keys))
	for _, k := range keys {
		v := s.GetFields()[k]
		var t string
		switch x := v.GetKind().(type) {
		case *structpb.Value_NumberValue:
			t = strconv.FormatFloat(x.NumberValue, 'g', -1, 64)
		case *structpb.Value_StringValue:
			if len(x.StringValue) > 20 {
				t = fmt.Sprintf("str%d", len(x.StringValue))
			} else {
				t = strconv.Quote(x.StringValue)
			}
		case *structpb.Value_BoolValue:
			t = strconv.FormatBool(x.BoolValue)
		default:
			t = "?"
		}
		parts = append(parts, k+"="+t)
	}
	return strings.Join(parts, ",")
}

// Item is one tuple of a request.  Valid is the generator's knowledge of whether the tuple
// passes the command layer's model validation (abstracted in the Coq model as a flag).
type Item struct {
	Obj   string `json:"o"`
	Rel   string `json:"r"`
	User  string `json:"u"`
	Has   bool   `json:"h,omitempty"` // Condition != nil
	Name  string `json:"n,omitempty"`
	Ctx   int    `json:"c,omitempty"`
	Valid bool   `json:"v"`
}

func (it Item) tupleKey() *openfgav1.TupleKey {
	tk := &openfgav1.TupleKey{Object: it.Obj, Relation: it.Rel, User: it.User}
	if it.Has {
		tk.Condition = &openfgav1.RelationshipCondition{Name: it.Name, Context: ctxStruct(it.Ctx)}
	}
	return tk
}

const (
	OptAbsent = 0
	OptError  = 1
	OptIgnore = 2
	OptBogus  = 3
)

var optStr = []string{"", "error", "ignore", "skip"}

const (
	KindWrite      = 0
	KindHorizon    = 1 // horizon read on the datastore
	KindHorizonCmd = 2 // horizon read through the ReadChanges command, following continuation tokens
	KindBackdate   = 3 // sqlite only: make every changelog row written so far two minutes older
)

// Op is one step of a history.
type Op struct {
	Kind    int    `json:"k"`
	Mode    int    `json:"m"`  // 0 command layer, 1 datastore
	OnDup   int    `json:"od"` // OptAbsent..OptBogus
	OnMiss  int    `json:"om"`
	Tick    int    `json:"t"`
	Fault   int    `json:"f,omitempty"`  // sqlite: fail the Fault-th statement (1-based)
	BadConn bool   `json:"bc,omitempty"` // ... with driver.ErrBadConn
	Flav    int    `json:"fl,omitempty"` // fault flavour (FlavCancel, FlavBusy, FlavConflictDelete, ...)
	Crash   bool   `json:"cr,omitempty"` // sqlite: snapshot the files before every statement
	Dels    []Item `json:"d,omitempty"`
	Wrs     []Item `json:"w,omitempty"`
	// horizon read
	Now     int    `json:"now,omitempty"`
	H       int    `json:"hz,omitempty"`
	Type    string `json:"ty,omitempty"`
	SleepMs int    `json:"sl,omitempty"` // sleep before this op (real clock)
	HMs     int    `json:"hms,omitempty"`
	// horizon read through the command
	PS   int  `json:"ps,omitempty"`   // page size
	Poll bool `json:"poll,omitempty"` // continue from the token the previous command read of this backend ended with
	Real bool `json:"real,omitempty"` // sqlite only, after KindBackdate: the command's real one-minute horizon, no scaling
}

// ---- observations ------------------------------------------------------------------------

type TupleObs [5]string  // object relation user condname ctx
type ChangeObs [6]string // op("W"/"D") object relation user condname ctx

type Obs struct {
	Present bool
	Err     int
	Tuples  []TupleObs
	Asc     []ChangeObs
	Desc    []ChangeObs
	ByType  [][]ChangeObs // per Types entry
	NStmts  int
	Trace   []string
	Crash   []int // per snapshot: 0 = before, 1 = after, 2 = both, 3 = neither
	Incon   bool  // timing guard failed: result not comparable
	Msg     string
}

var Types = []string{"doc", "folder", "group"}

// Error classes.
const (
	EOK            = 0
	EInvalidInput  = 1  // storage.ErrInvalidWriteInput / write_failed_due_to_invalid_input
	ECondConflict  = 2  // ErrTransactionalWriteFailed (condition conflict) / Aborted
	EConflictIns   = 3  // ErrWriteConflictOnInsert
	EConflictDel   = 4  // ErrWriteConflictOnDelete
	EEmptyRequest  = 5  // invalid_write_input
	EValidation    = 6  // validation_error
	EDuplicate     = 7  // cannot_allow_duplicate_tuples_in_one_request
	EExceeded      = 8  // exceeded_entity_limit
	EOther         = 9  // anything else
	EInjected      = 10 // the injected failure came back (any wrapping)
	EModelNotFound = 11
)

func classifyDirect(err error) int {
	switch {
	case err == nil:
		return EOK
	case errors.Is(err, storage.ErrInvalidWriteInput):
		return EInvalidInput
	case errors.Is(err, storage.ErrWriteConflictOnInsert):
		return EConflictIns
	case errors.Is(err, storage.ErrWriteConflictOnDelete):
		return EConflictDel
	case errors.Is(err, storage.ErrTransactionalWriteFailed):
		return ECondConflict
	}
	return EOther
}

func classifyCmd(err error) int {
	if err == nil {
		return EOK
	}
	st, ok := status.FromError(err)
	if !ok {
		return EOther
	}
	switch st.Code() {
	case codes.Aborted:
		return ECondConflict
	case codes.Code(openfgav1.ErrorCode_write_failed_due_to_invalid_input):
		return EInvalidInput
	case codes.Code(openfgav1.ErrorCode_invalid_write_input):
		return EEmptyRequest
	case codes.Code(openfgav1.ErrorCode_validation_error):
		return EValidation
	case codes.Code(openfgav1.ErrorCode_cannot_allow_duplicate_tuples_in_one_request):
		return EDuplicate
	case codes.Code(openfgav1.ErrorCode_exceeded_entity_limit):
		return EExceeded
	case codes.Code(openfgav1.ErrorCode_authorization_model_not_found):
		return EModelNotFound
	}
	return EOther
}

func condOf(tk *openfgav1.TupleKey) (string, string) {
	c := tk.GetCondition()
	if c == nil || c.GetName() == "" {
		// a nil condition and (never produced by the readers) an unnamed one are both "no condition"
		if c != nil {
			return "", "unnamed:" + CanonStruct(c.GetContext())
		}
		return "", ""
	}
	return c.GetName(), CanonStruct(c.GetContext())
}

func tupleObs(tk *openfgav1.TupleKey) TupleObs {
	n, c := condOf(tk)
	return TupleObs{tk.GetObject(), tk.GetRelation(), tk.GetUser(), n, c}
}

func changeObs(ch *openfgav1.TupleChange) ChangeObs {
	n, c := condOf(ch.GetTupleKey())
	op := "?"
	switch ch.GetOperation() {
	case openfgav1.TupleOperation_TUPLE_OPERATION_WRITE:
		op = "W"
	case openfgav1.TupleOperation_TUPLE_OPERATION_DELETE:
		op = "D"
	}
	tk := ch.GetTupleKey()
	return ChangeObs{op, tk.GetObject(), tk.GetRelation(), tk.GetUser(), n, c}
}

func sortTuples(ts []TupleObs) {
	sort.Slice(ts, func(i, j int) bool {
		for k := 0; k < 5; k++ {
			if ts[i][k] != ts[j][k] {
				return ts[i][k] < ts[j][k]
			}
		}
		return false
	})
}

// ReadAllTuples pages through ReadPage (page size ps) and also drains the Read iterator; the two
// must agree as sets.
func ReadAllTuples(b *Backend, ps int) ([]TupleObs, error) {
	ctx := context.Background()
	var paged []TupleObs
	token := ""
	for guard := 0; ; guard++ {
		if guard > 10000 {
			return nil, fmt.Errorf("ReadPage does not terminate")
		}
		page, next, err := b.DS.ReadPage(ctx, b.Store, storage.ReadFilter{}, storage.ReadPageOptions{
			Pagination: storage.PaginationOptions{PageSize: ps, From: token}})
		if err != nil {
			return nil, fmt.Errorf("ReadPage: %w", err)
		}
		for _, t := range page {
			paged = append(paged, tupleObs(t.GetKey()))
		}
		if next == "" {
			break
		}
		token = next
	}
	it, err := b.DS.Read(ctx, b.Store, storage.ReadFilter{}, storage.ReadOptions{})
	if err != nil {
		return nil, fmt.Errorf("Read: %w", err)
	}
	var all []TupleObs
	for {
		t, err := it.Next(ctx)
		if err != nil {
			if errors.Is(err, storage.ErrIteratorDone) {
				break
			}
			it.Stop()
			return nil, fmt.Errorf("Read.Next: %w", err)
		}
		all = append(all, tupleObs(t.GetKey()))
	}
	it.Stop()
	sortTuples(paged)
	sortTuples(all)
	if !eqTuples(paged, all) {
		return all, fmt.Errorf("paged ReadPage (%d tuples) and Read iterator (%d tuples) disagree", len(paged), len(all))
	}
	return all, nil
}

func eqTuples(a, b []TupleObs) bool {
	if len(a) != len(b) {
		return false
	}
	for i := range a {
		if a[i] != b[i] {
			return false
		}
	}
	return true
}

func eqChanges(a, b []ChangeObs) bool {
	if len(a) != len(b) {
		return false
	}
	for i := range a {
		if a[i] != b[i] {
			return false
		}
	}
	return true
}

// ReadAllChanges pages through the datastore's ReadChanges.
func ReadAllChanges(b *Backend, typ string, horizon time.Duration, desc bool, ps int) ([]ChangeObs, error) {
	ctx := context.Background()
	var out []ChangeObs
	token := ""
	for guard := 0; ; guard++ {
		if guard > 100000 {
			return nil, fmt.Errorf("ReadChanges does not terminate")
		}
		page, next, err := b.DS.ReadChanges(ctx, b.Store,
			storage.ReadChangesFilter{ObjectType: typ, HorizonOffset: horizon},
			storage.ReadChangesOptions{Pagination: storage.PaginationOptions{PageSize: ps, From: token}, SortDesc: desc})
		if err != nil {
			if errors.Is(err, storage.ErrNotFound) {
				break
			}
			return nil, fmt.Errorf("ReadChanges: %w", err)
		}
		if len(page) == 0 {
			break
		}
		for _, c := range page {
			out = append(out, changeObs(c))
		}
		if next == "" {
			break
		}
		token = next
	}
	return out, nil
}

// ReadAllChangesCmd pages through the ReadChanges command (ascending only), horizon in minutes.
func ReadAllChangesCmd(b *Backend, typ string, horizonMin int, ps int) ([]ChangeObs, error) {
	ctx := context.Background()
	var ser encoder.ContinuationTokenSerializer = encoder.NewStringContinuationTokenSerializer()
	if b.Name == "sqlite" {
		ser = sqlcommon.NewSQLContinuationTokenSerializer()
	}
	q := commands.NewReadChangesQuery(b.DS,
		commands.WithReadChangeQueryHorizonOffset(horizonMin),
		commands.WithContinuationTokenSerializer(ser))
	var out []ChangeObs
	token := ""
	for guard := 0; ; guard++ {
		if guard > 100000 {
			return nil, fmt.Errorf("ReadChanges command does not terminate")
		}
		resp, err := q.Execute(ctx, &openfgav1.ReadChangesRequest{
			StoreId: b.Store, Type: typ, PageSize: wrapperspb.Int32(int32(ps)), ContinuationToken: token})
		if err != nil {
			return nil, fmt.Errorf("ReadChanges command: %w", err)
		}
		if len(resp.GetChanges()) == 0 {
			break
		}
		for _, c := range resp.GetChanges() {
			out = append(out, changeObs(c))
		}
		if resp.GetContinuationToken() == "" || resp.GetContinuationToken() == token {
			break
		}
		token = resp.GetContinuationToken()
	}
	return out, nil
}

// Problem is something the driver itself decided is wrong with the implementation's answers
// (reported through rec.Writer.PropFail by the caller).
type Problem struct{ What string }

// Observe reads tuples and the changelog every way the backend offers and cross-checks them.
func Observe(b *Backend, r *rec.Rand, full bool, probs *[]Problem) (tuples []TupleObs, asc, desc []ChangeObs, byType [][]ChangeObs) {
	add := func(f string, a ...any) { *probs = append(*probs, Problem{b.Name + ": " + fmt.Sprintf(f, a...)}) }
	var err error
	tuples, err = ReadAllTuples(b, r.Range(1, 5))
	if err != nil {
		add("%v", err)
	}
	asc, err = ReadAllChanges(b, "", 0, false, r.Range(1, 6))
	if err != nil {
		add("%v", err)
	}
	desc, err = ReadAllChanges(b, "", 0, true, r.Range(1, 6))
	if err != nil {
		add("%v", err)
	}
	for _, ty := range Types {
		l, err := ReadAllChanges(b, ty, 0, false, r.Range(1, 6))
		if err != nil {
			add("%v", err)
		}
		byType = append(byType, l)
	}
	if full {
		one, err := ReadAllChanges(b, "", 0, false, 0) // default page size (50), following tokens
		if err != nil {
			add("%v", err)
		} else if !eqChanges(one, asc) {
			add("ReadChanges with default page size differs from small pages (%d vs %d entries)", len(one), len(asc))
		}
		cmd, err := ReadAllChangesCmd(b, "", 0, r.Range(1, 6))
		if err != nil {
			add("%v", err)
		} else if !eqChanges(cmd, asc) {
			add("ReadChanges command differs from the datastore (%d vs %d entries)", len(cmd), len(asc))
		}
		ti := r.Intn(len(Types))
		cmdT, err := ReadAllChangesCmd(b, Types[ti], 0, r.Range(1, 6))
		if err != nil {
			add("%v", err)
		} else if !eqChanges(cmdT, byType[ti]) {
			add("ReadChanges command with type %s differs from the datastore", Types[ti])
		}
		dT, err := ReadAllChanges(b, Types[ti], 0, true, r.Range(1, 6))
		if err != nil {
			add("%v", err)
		} else {
			rv := make([]ChangeObs, len(dT))
			for i := range dT {
				rv[len(dT)-1-i] = dT[i]
			}
			if !eqChanges(rv, byType[ti]) {
				add("type-filtered descending ReadChanges is not the reverse of ascending (type %s)", Types[ti])
			}
		}
		late, err := ReadAllChangesCmd(b, "", 1, 3) // horizon of one minute: everything is newer
		if err != nil {
			add("%v", err)
		} else if len(late) != 0 {
			add("ReadChanges command with a one-minute horizon returned %d entries written within this run", len(late))
		}
		lateD, err := ReadAllChanges(b, "", time.Hour, r.Bool(), 3)
		if err != nil {
			add("%v", err)
		} else if len(lateD) != 0 {
			add("ReadChanges with a one-hour horizon returned %d entries written within this run", len(lateD))
		}
	}
	return
}

// ---- executing one write -----------------------------------------------------------------

// conflictDS is a datastore whose Write behaves like a transaction that lost a race and was
// rolled back: it returns the conflict error and applies nothing.
type conflictDS struct {
	storage.OpenFGADatastore
	err error
}

func (c conflictDS) Write(ctx context.Context, store string, d storage.Deletes, w storage.Writes, opts ...storage.TupleWriteOption) error {
	return c.err
}

func doWrite(ctx context.Context, b *Backend, op *Op) error {
	dels := make([]*openfgav1.TupleKeyWithoutCondition, len(op.Dels))
	for i, d := range op.Dels {
		dels[i] = &openfgav1.TupleKeyWithoutCondition{Object: d.Obj, Relation: d.Rel, User: d.User}
	}
	wrs := make([]*openfgav1.TupleKey, len(op.Wrs))
	for i, w := range op.Wrs {
		wrs[i] = w.tupleKey()
	}
	if op.Mode == 0 {
		req := &openfgav1.WriteRequest{StoreId: b.Store, AuthorizationModelId: b.ModelID}
		if len(wrs) > 0 || op.OnDup != OptAbsent {
			req.Writes = &openfgav1.WriteRequestWrites{TupleKeys: wrs, OnDuplicate: optStr[op.OnDup]}
		}
		if len(dels) > 0 || op.OnMiss != OptAbsent {
			req.Deletes = &openfgav1.WriteRequestDeletes{TupleKeys: dels, OnMissing: optStr[op.OnMiss]}
		}
		// the context byte limit is configured low (default 32KB) so that a 600-byte context exceeds it
		var ds storage.OpenFGADatastore = b.DS
		switch op.Flav {
		case FlavConflictDelete:
			ds = conflictDS{OpenFGADatastore: b.DS, err: storage.ErrWriteConflictOnDelete}
		case FlavConflictInsert:
			ds = conflictDS{OpenFGADatastore: b.DS, err: storage.ErrWriteConflictOnInsert}
		}
		_, err := commands.NewWriteCommand(ds, commands.WithConditionContextByteLimit(512)).Execute(ctx, req)
		return err
	}
	var opts []storage.TupleWriteOption
	switch op.OnDup {
	case OptError:
		opts = append(opts, storage.WithOnDuplicateInsert(storage.OnDuplicateInsertError))
	case OptIgnore:
		opts = append(opts, storage.WithOnDuplicateInsert(storage.OnDuplicateInsertIgnore))
	}
	switch op.OnMiss {
	case OptError:
		opts = append(opts, storage.WithOnMissingDelete(storage.OnMissingDeleteError))
	case OptIgnore:
		opts = append(opts, storage.WithOnMissingDelete(storage.OnMissingDeleteIgnore))
	}
	return b.DS.Write(ctx, b.Store, dels, wrs, opts...)
}

func classify(op *Op, err error) int {
	if err != nil && (errors.Is(err, ErrInjected) || strings.Contains(err.Error(), ErrInjected.Error()) ||
		strings.Contains(err.Error(), "driver: bad connection")) {
		return EInjected
	}
	if err != nil && op.Mode == 1 && (op.Flav == FlavCancel || op.Flav == FlavBusy) {
		// the cancelled context / the commit that never happened, however it is wrapped
		if errors.Is(err, context.Canceled) || errors.Is(err, sql.ErrTxDone) || strings.Contains(err.Error(), "context canceled") ||
			strings.Contains(err.Error(), "SQLITE_BUSY") || strings.Contains(err.Error(), "database is locked") {
			return EInjected
		}
	}
	if op.Mode == 0 {
		return classifyCmd(err)
	}
	return classifyDirect(err)
}

type state struct {
	t []TupleObs
	c []ChangeObs
}

// ExecWrite runs a write op on one backend and observes the result.
func ExecWrite(b *Backend, op *Op, r *rec.Rand, full bool, probs *[]Problem) Obs {
	o := Obs{Present: true}
	if b.Ctl == nil {
		if (op.Fault > 0 && op.Flav < FlavConflictDelete) || op.Crash {
			return Obs{}
		}
		err := doWrite(context.Background(), b, op)
		o.Err = classify(op, err)
		if o.Err == EOther {
			o.Msg = err.Error()
		}
		o.Tuples, o.Asc, o.Desc, o.ByType = Observe(b, r, full, probs)
		return o
	}
	// sqlite: count statements, inject the failure / take the crash snapshots
	var before state
	var snaps []string
	var snap func(int)
	if op.Crash {
		before.t, _ = ReadAllTuples(b, 50)
		before.c, _ = ReadAllChanges(b, "", 0, false, 50)
		snap = func(k int) {
			p := fmt.Sprintf("%s.crash%d", b.Path, k)
			if err := CopyDB(b.Path, p); err != nil {
				*probs = append(*probs, Problem{"harness: snapshot failed: " + err.Error()})
				return
			}
			snaps = append(snaps, p)
		}
	}
	ctx, cancel := context.WithCancel(context.Background())
	if op.Flav >= FlavConflictDelete {
		b.Ctl.ArmFlavour(0, false, FlavPlain, nil, snap)
	} else {
		b.Ctl.ArmFlavour(op.Fault, op.BadConn, op.Flav, cancel, snap)
	}
	err := doWrite(ctx, b, op)
	cancel()
	o.Trace = b.Ctl.Disarm()
	o.NStmts = len(o.Trace)
	o.Err = classify(op, err)
	if o.Err == EOther {
		o.Msg = err.Error()
	}
	if op.Crash {
		// one more snapshot after the call returned
		p := fmt.Sprintf("%s.crash%d", b.Path, len(snaps)+1)
		if err := CopyDB(b.Path, p); err == nil {
			snaps = append(snaps, p)
		}
	}
	o.Tuples, o.Asc, o.Desc, o.ByType = Observe(b, r, full, probs)
	for _, p := range snaps {
		code := 3
		sb, err := OpenSqlite(p)
		if err != nil {
			*probs = append(*probs, Problem{"sqlite: crash snapshot does not open: " + err.Error()})
		} else {
			sb.Store = b.Store
			t, e1 := ReadAllTuples(sb, 50)
			c, e2 := ReadAllChanges(sb, "", 0, false, 50)
			if e1 != nil || e2 != nil {
				*probs = append(*probs, Problem{fmt.Sprintf("sqlite: crash snapshot unreadable: %v %v", e1, e2)})
			} else {
				isB := eqTuples(t, before.t) && eqChanges(c, before.c)
				isA := eqTuples(t, o.Tuples) && eqChanges(c, o.Asc)
				switch {
				case isB && isA:
					code = 2
				case isB:
					code = 0
				case isA:
					code = 1
				}
			}
			sb.DS.Close()
		}
		RemoveDB(p)
		o.Crash = append(o.Crash, code)
	}
	return o
}

// OpTime records when a write op ran (real clock) and its logical tick.
type OpTime struct {
	Tick       int
	Start, End time.Time
	Backdated  bool // sqlite rows of this op were made two minutes older
}

// ExecHorizon runs a horizon read (logical: entries with tick + H <= Now are old enough) on one
// backend with the real clock and a horizon of HMs milliseconds.  The result is comparable only
// when every earlier write that must be returned is safely older than the horizon and every
// one that must be withheld safely newer (guard band); otherwise it is marked inconclusive.
func ExecHorizon(b *Backend, op *Op, times []OpTime, probs *[]Problem) Obs {
	o := Obs{Present: true}
	h := time.Duration(op.HMs) * time.Millisecond
	band := 60 * time.Millisecond
	t0 := time.Now()
	l, err := ReadAllChanges(b, op.Type, h, false, 3)
	d, err2 := ReadAllChanges(b, op.Type, h, true, 2)
	t1 := time.Now()
	if err != nil || err2 != nil {
		o.Err = EOther
		o.Msg = fmt.Sprint(err, err2)
	}
	if op.HMs > 0 {
		for _, ot := range times {
			if ot.Tick+op.H <= op.Now {
				if t0.Sub(ot.End) < h+band {
					o.Incon = true
				}
			} else if t1.Sub(ot.Start) > h-band {
				o.Incon = true
			}
		}
	}
	o.Asc = l
	if !o.Incon {
		rv := make([]ChangeObs, len(d))
		for i := range d {
			rv[len(d)-1-i] = d[i]
		}
		if !eqChanges(rv, l) {
			*probs = append(*probs, Problem{b.Name + ": descending ReadChanges under a horizon is not the reverse of ascending"})
		}
	}
	return o
}

// scaledBackend sits between the ReadChanges command and the datastore: one minute of the
// command's horizon (it only takes whole minutes) becomes PerMinute of real time, so that a
// non-zero horizon can be exercised through the command without waiting for minutes.  Whether
// the command passes its horizon at all - on every request - is what is being observed.
type scaledBackend struct {
	inner     storage.ChangelogBackend
	PerMinute time.Duration
}

func (s scaledBackend) ReadChanges(ctx context.Context, store string, filter storage.ReadChangesFilter, options storage.ReadChangesOptions) ([]*openfgav1.TupleChange, string, error) {
	filter.HorizonOffset = time.Duration(int64(filter.HorizonOffset) / int64(time.Minute) * int64(s.PerMinute))
	return s.inner.ReadChanges(ctx, store, filter, options)
}

// TokenState is where a token-following reader of one backend stopped.
type TokenState struct {
	Token string
	Type  string
}

// ExecHorizonCmd reads the changelog through commands.ReadChangesQuery configured with a
// one-minute horizon (scaled to op.HMs milliseconds, or real with op.Real), page size op.PS,
// following continuation tokens until a response carries no changes; with op.Poll it starts
// from the token the previous such read ended with.
func ExecHorizonCmd(b *Backend, op *Op, times []OpTime, ts *TokenState, probs *[]Problem) Obs {
	if op.Real && b.Name != "sqlite" {
		return Obs{}
	}
	o := Obs{Present: true}
	ctx := context.Background()
	var ser encoder.ContinuationTokenSerializer = encoder.NewStringContinuationTokenSerializer()
	if b.Name == "sqlite" {
		ser = sqlcommon.NewSQLContinuationTokenSerializer()
	}
	var backend storage.ChangelogBackend = b.DS
	h := time.Minute
	if !op.Real {
		h = time.Duration(op.HMs) * time.Millisecond
		backend = scaledBackend{inner: b.DS, PerMinute: h}
	}
	q := commands.NewReadChangesQuery(backend,
		commands.WithReadChangeQueryHorizonOffset(1),
		commands.WithContinuationTokenSerializer(ser))
	token := ""
	if op.Poll {
		if ts.Type != op.Type {
			*probs = append(*probs, Problem{"harness: poll with a token of another type"})
		}
		token = ts.Token
	}
	band := 60 * time.Millisecond
	t0 := time.Now()
	var out []ChangeObs
	for guard := 0; ; guard++ {
		if guard > 100000 {
			o.Err, o.Msg = EOther, "ReadChanges command does not terminate"
			break
		}
		resp, err := q.Execute(ctx, &openfgav1.ReadChangesRequest{
			StoreId: b.Store, Type: op.Type, PageSize: wrapperspb.Int32(int32(op.PS)), ContinuationToken: token})
		if err != nil {
			o.Err, o.Msg = EOther, err.Error()
			break
		}
		if len(resp.GetChanges()) == 0 {
			break
		}
		if len(resp.GetChanges()) > op.PS {
			*probs = append(*probs, Problem{b.Name + ": ReadChanges command returned more changes than the page size"})
		}
		for _, c := range resp.GetChanges() {
			out = append(out, changeObs(c))
		}
		if resp.GetContinuationToken() == "" || resp.GetContinuationToken() == token {
			break
		}
		token = resp.GetContinuationToken()
	}
	t1 := time.Now()
	ts.Token, ts.Type = token, op.Type
	for _, ot := range times {
		if ot.Tick+op.H <= op.Now {
			// must be returned: safely older than the horizon when the read started
			age := t0.Sub(ot.End)
			if ot.Backdated {
				age += 2 * time.Minute
			}
			if age < h+band {
				o.Incon = true
			}
		} else if t1.Sub(ot.Start) > h-band || (ot.Backdated && op.Real) {
			o.Incon = true
		}
	}
	o.Asc = out
	return o
}

// Backdate makes every changelog row of the store two minutes older (sqlite, through a second
// connection): old changes for a real one-minute horizon without waiting.
func Backdate(b *Backend) error {
	if b.Name != "sqlite" {
		return nil
	}
	db, err := sql.Open("sqlite", sqliteURI(b.Path))
	if err != nil {
		return err
	}
	defer db.Close()
	_, err = db.Exec("UPDATE changelog SET inserted_at = strftime('%Y-%m-%d %H:%M:%f', inserted_at, '-120 seconds') WHERE store = ?", b.Store)
	return err
}

// ---- record encoding ---------------------------------------------------------------------

func itemDelV(it Item) rec.V { return rec.L(rec.S(it.Obj), rec.S(it.Rel), rec.S(it.User)) }

func itemWrV(it Item) rec.V {
	ck := 0
	if it.Ctx != CtxNil {
		ck = 1
	}
	return rec.L(rec.S(it.Obj), rec.S(it.Rel), rec.S(it.User), rec.Bool(it.Has), rec.S(it.Name),
		rec.I(ck), rec.S(CanonStruct(ctxStruct(it.Ctx))), rec.Bool(it.Valid))
}

func tuplesV(ts []TupleObs) rec.V {
	vs := make([]rec.V, len(ts))
	for i, t := range ts {
		vs[i] = rec.L(rec.S(t[0]), rec.S(t[1]), rec.S(t[2]), rec.S(t[3]), rec.S(t[4]))
	}
	return rec.L(vs...)
}

func changesV(cs []ChangeObs) rec.V {
	vs := make([]rec.V, len(cs))
	for i, c := range cs {
		op := 0
		if c[0] == "D" {
			op = 1
		} else if c[0] != "W" {
			op = 9
		}
		vs[i] = rec.L(rec.I(op), rec.S(c[1]), rec.S(c[2]), rec.S(c[3]), rec.S(c[4]), rec.S(c[5]))
	}
	return rec.L(vs...)
}

func traceCode(k string) int {
	switch k {
	case "begin":
		return 0
	case "select":
		return 1
	case "delete":
		return 2
	case "insert":
		return 3
	case "changelog":
		return 4
	case "commit":
		return 5
	}
	return 9
}

func ObsV(o Obs) rec.V {
	if !o.Present || o.Incon {
		return rec.L(rec.I(0))
	}
	bt := make([]rec.V, len(o.ByType))
	for i, l := range o.ByType {
		bt[i] = changesV(l)
	}
	tr := make([]int, len(o.Trace))
	for i, k := range o.Trace {
		tr[i] = traceCode(k)
	}
	return rec.L(rec.I(1), rec.I(o.Err), tuplesV(o.Tuples), changesV(o.Asc), changesV(o.Desc), rec.L(bt...),
		rec.LI(tr), rec.LI(o.Crash))
}

// OpV encodes one op with both observations.
func OpV(op *Op, mem, sq Obs) rec.V {
	switch op.Kind {
	case KindHorizon:
		return rec.L(rec.I(1), rec.I(op.Now), rec.I(op.H), rec.S(op.Type), ObsV(mem), ObsV(sq))
	case KindHorizonCmd:
		return rec.L(rec.I(2), rec.I(op.Now), rec.I(op.H), rec.S(op.Type), rec.I(op.PS), rec.Bool(op.Poll), ObsV(mem), ObsV(sq))
	case KindBackdate:
		return rec.L(rec.I(3))
	}
	ds := make([]rec.V, len(op.Dels))
	for i, d := range op.Dels {
		ds[i] = itemDelV(d)
	}
	ws := make([]rec.V, len(op.Wrs))
	for i, w := range op.Wrs {
		ws[i] = itemWrV(w)
	}
	return rec.L(rec.I(0), rec.I(op.Mode), rec.I(op.OnDup), rec.I(op.OnMiss), rec.I(op.Tick), rec.I(op.Fault),
		rec.L(ds...), rec.L(ws...), ObsV(mem), ObsV(sq), rec.I(op.Flav))
}
