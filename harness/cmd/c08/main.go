//go:build verif

// Driver for C08 ("the Check query cache never changes answers").
//
// One case = one scenario (store with up to two model versions) + one request HISTORY (Check,
// BatchCheck, ListObjects; several "worlds" = model version x request context x contextual
// tuples; several subjects) ordered to maximise sub-problem overlap.  The history is executed
//
//	engine 0  default engine, command layer (commands.CheckQuery / BatchCheckQuery /
//	          ListObjectsQuery over ONE resolver chain CachedCheckResolver -> LocalChecker with
//	          the planner forced to the default strategy),
//	engine 1  weighted-graph engine, command layer (commands.CheckQueryV2, strategy forced),
//	engine 2  real server (Check / BatchCheck / ListObjects API), default engine,
//	engine 3  real server with the experimental flag weighted_graph_check,
//	engine 4  engine 0's ListObjects steps with the experimental flag enable-list-objects-optimizations,
//
// each WITHOUT the Check query cache (reference; twice, and six more times when a cached answer was
// not among the reference answers: answers that are unstable on their own are recognised that way)
// and WITH one shared cache (several runs: goroutine order decides what gets cached).
// For engine 0 the content of the shared cache is read back at the end of every cached run
// (every key storage.CheckCacheKey(store, object, relation, user, invariant) of the universe).
//
// Before the histories: three directed probes with direct verdicts (reducerProbe below; faultProbe and
// gateProbe in probes.go).
//
// The oracle (ocaml/c08_oracle.ml) compares cached with uncached answers (PROP), both with the
// Coq models (Check/V1.v, Check/QueryCache.v, Sem) and every cache entry with the path-independent
// value of its sub-problem.
package main

import (
	"bufio"
	"context"
	"encoding/json"
	"errors"
	"fmt"
	"os"
	"runtime"
	"sort"
	"strings"
	"sync/atomic"
	"time"

	"github.com/oklog/ulid/v2"
	openfgav1 "github.com/openfga/api/proto/openfga/v1"
	"github.com/prometheus/client_golang/prometheus"
	"google.golang.org/grpc/status"
	"google.golang.org/protobuf/types/known/structpb"

	"github.com/openfga/openfga/internal/cachecontroller"
	"github.com/openfga/openfga/internal/check"
	_ "github.com/openfga/openfga/internal/check/metrics"
	"github.com/openfga/openfga/internal/condition"
	"github.com/openfga/openfga/pkg/featureflags"
	"github.com/openfga/openfga/internal/graph"
	"github.com/openfga/openfga/internal/modelgraph"
	"github.com/openfga/openfga/internal/shared"
	"github.com/openfga/openfga/internal/verifharness/lib/rec"
	"github.com/openfga/openfga/internal/verifharness/lib/scen"
	"github.com/openfga/openfga/pkg/server"
	"github.com/openfga/openfga/pkg/server/commands"
	serverconfig "github.com/openfga/openfga/pkg/server/config"
	"github.com/openfga/openfga/pkg/storage"
	"github.com/openfga/openfga/pkg/tuple"
	"github.com/openfga/openfga/pkg/typesystem"
)

// ---- outcome classes (shared by all engines; the oracle sees these numbers) ---------------------

const (
	cAllowed  = 0
	cDenied   = 1
	cDeniedCy = 2 // engine 0 only: CycleDetected on the top-level response
	cErrCond  = 3
	cErrDepth = 4
	cErrOther = 5
	cTimeout  = 6
	cInvalid  = 7 // request rejected by validation
	cV2Shape  = 8 // weighted-graph engine refuses the request shape (userset/wildcard with exclusion ...)
	cV2Model  = 9 // weighted graph cannot be built
	cSkipped  = 99
)

var classNames = map[int]string{0: "allowed", 1: "denied", 2: "denied_cycle", 3: "err_cond", 4: "err_depth",
	5: "err_other", 6: "timeout", 7: "invalid", 8: "v2_shape", 9: "v2_model", 99: "skipped"}

func classifyErr(err error) int {
	var ite *tuple.InvalidTupleError
	var c1 *commands.InvalidRelationError
	var c2 *commands.InvalidTupleError
	var c3 *commands.InvalidContextError
	switch {
	case errors.Is(err, check.ErrUsersetInvalidRequest), errors.Is(err, check.ErrWildcardInvalidRequest):
		return cV2Shape
	case errors.As(err, &c1), errors.As(err, &c2), errors.As(err, &c3), errors.As(err, &ite),
		errors.Is(err, check.ErrValidation), errors.Is(err, check.ErrInvalidUser):
		return cInvalid
	case errors.Is(err, condition.ErrEvaluationFailed):
		return cErrCond
	case errors.Is(err, graph.ErrResolutionDepthExceeded):
		return cErrDepth
	case errors.Is(err, context.DeadlineExceeded), errors.Is(err, context.Canceled):
		return cTimeout
	case errors.Is(err, modelgraph.ErrInvalidModel):
		return cV2Model
	}
	if st, ok := status.FromError(err); ok {
		// the server reports a condition that cannot be evaluated as validation_error: tell it apart by its text
		if strings.Contains(st.Message(), "failed to evaluate relationship condition") {
			return cErrCond
		}
		switch openfgav1.ErrorCode(st.Code()) {
		case openfgav1.ErrorCode_validation_error, openfgav1.ErrorCode_invalid_tuple, openfgav1.ErrorCode_invalid_check_input,
			openfgav1.ErrorCode_type_not_found, openfgav1.ErrorCode_relation_not_found, openfgav1.ErrorCode_invalid_user,
			openfgav1.ErrorCode_invalid_object_format, openfgav1.ErrorCode_invalid_contextual_tuple:
			return cInvalid
		case openfgav1.ErrorCode_authorization_model_resolution_too_complex:
			return cErrDepth
		}
		if st.Code() == 4 || st.Code() == 1 {
			return cTimeout
		}
	}
	return cErrOther
}

func classify(allowed, cycle bool, err error) int {
	if err != nil {
		return classifyErr(err)
	}
	if allowed {
		return cAllowed
	}
	if cycle {
		return cDeniedCy
	}
	return cDenied
}

// ---- plan of one case ------------------------------------------------------------------------

type World struct {
	Model  int            `json:"model"` // 0 = first model version, 1 = second
	HasCtx bool           `json:"has_ctx"`
	Ctx    map[string]any `json:"ctx,omitempty"`
	CT     []scen.Tuple   `json:"ct,omitempty"`
}

type Item struct {
	W    int    `json:"w"`
	User string `json:"user"`
	Obj  string `json:"obj,omitempty"`
	Rel  string `json:"rel"`
	Type string `json:"type,omitempty"` // ListObjects
}

type Step struct {
	Kind  string `json:"kind"` // check | batch | list
	Item  Item   `json:"item"`
	Items []Item `json:"items,omitempty"`
}

type Plan struct {
	ModelB   *scen.Scenario `json:"model_b,omitempty"`
	Worlds   []World        `json:"worlds"`
	Steps    []Step         `json:"steps"`
	Depth    int            `json:"depth"`
	Limit    int            `json:"limit"`   // cache size (entries)
	TTL      string         `json:"ttl"`     // long | tiny
	Inval    bool           `json:"inval"`   // cache controller reports "the store was written just now" on every request
	V2Strat  string         `json:"v2strat"` // default | weight2 | recursive
	V2Conc   int            `json:"v2conc"`
	Jitter   int            `json:"jitter"`  // engine 0/1: every datastore read is delayed by 0..Jitter microseconds (schedules)
	Runs     int            `json:"runs"`    // cached runs per engine
	Engines  []int          `json:"engines"` // which engines to run
}

func (w World) ctxStruct() *structpb.Struct {
	if !w.HasCtx {
		return nil
	}
	if w.Ctx == nil {
		return &structpb.Struct{}
	}
	return scen.Struct(w.Ctx)
}

func (w World) ctProto() *openfgav1.ContextualTupleKeys {
	if len(w.CT) == 0 {
		return nil
	}
	ct := &openfgav1.ContextualTupleKeys{}
	for _, t := range w.CT {
		ct.TupleKeys = append(ct.TupleKeys, t.Proto())
	}
	return ct
}

// ---- environment of one case --------------------------------------------------------------------

type caseEnv struct {
	envs []*scen.Env // per model version
	p    *Plan
}

func (c *caseEnv) env(w World) *scen.Env { return c.envs[w.Model] }

type fixedController struct{ now bool }

func (f fixedController) DetermineInvalidationTime(context.Context, string) time.Time {
	if f.now {
		return time.Now().Add(time.Hour) // every existing entry is older than the "last write"
	}
	return time.Time{}
}
func (fixedController) InvalidateIfNeeded(context.Context, string) {}

var _ cachecontroller.CacheController = fixedController{}

func (p *Plan) ttl() time.Duration {
	if p.TTL == "tiny" {
		return time.Nanosecond
	}
	return time.Hour
}

// observation of one step: check -> [class]; batch -> class per item; list -> errclass followed by objects
type obs struct {
	Classes []int
	Objects []string
}

func (o obs) enc(in *scen.Intern) rec.V {
	var os []rec.V
	for _, x := range o.Objects {
		os = append(os, in.ObjV(x))
	}
	return rec.L(rec.LI(o.Classes), rec.L(os...))
}

type dumpEntry struct {
	W       int
	User    string
	Obj     string
	Rel     string
	Allowed bool
	Cycle   bool
}

// ---- engine 0: default engine, command layer ----------------------------------------------------

func (c *caseEnv) runV1(ctx context.Context, cached bool, universe []string, subjects []string) ([]obs, []dumpEntry) {
	return c.runV1x(ctx, cached, false, universe, subjects)
}

// runV1x: optList = ListObjects steps run with the experimental flag enable-list-objects-optimizations
// (engine 4; the other steps are skipped).
func (c *caseEnv) runV1x(ctx context.Context, cached, optList bool, universe []string, subjects []string) ([]obs, []dumpEntry) {
	p := c.p
	var cache storage.InMemoryCache[any]
	opts := []graph.CheckResolverOrderedBuilderOpt{
		graph.WithLocalCheckerOpts(graph.WithPlanner(scen.NewForcedPlanner("default")), graph.WithMaxResolutionDepth(uint32(p.Depth)), graph.WithOptimizations(true)),
	}
	if cached {
		lc, err := storage.NewInMemoryLRUCache[any](storage.WithMaxCacheSize[any](int64(p.Limit)))
		if err != nil {
			panic(err)
		}
		cache = lc
		defer lc.Stop()
		opts = append(opts, graph.WithCachedCheckResolverOpts(true, graph.WithExistingCache(cache), graph.WithCacheTTL(p.ttl())))
	}
	resolver, closer, err := graph.NewOrderedCheckResolvers(opts...).Build()
	if err != nil {
		panic(err)
	}
	defer closer()
	res := &shared.SharedDatastoreResources{CacheController: fixedController{now: p.Inval}}
	settings := serverconfig.NewDefaultCacheSettings()
	checker := func(e *scen.Env) *commands.CheckQuery {
		return commands.NewCheckCommand(c.ds(e), resolver, e.TS, commands.WithCheckCommandCache(res, settings))
	}
	var out []obs
	for _, st := range p.Steps {
		cctx, cancel := context.WithTimeout(ctx, 20*time.Second)
		if optList && st.Kind != "list" {
			n := 1
			if st.Kind == "batch" {
				n = len(st.Items)
			}
			o := obs{}
			for i := 0; i < n; i++ {
				o.Classes = append(o.Classes, cSkipped)
			}
			out = append(out, o)
			cancel()
			continue
		}
		switch st.Kind {
		case "check":
			w := p.Worlds[st.Item.W]
			r, err := checker(c.env(w)).Execute(cctx, &commands.CheckCommandParams{
				StoreID: c.envs[0].StoreID, TupleKey: &openfgav1.CheckRequestTupleKey{Object: st.Item.Obj, Relation: st.Item.Rel, User: st.Item.User},
				ContextualTuples: w.ctProto(), Context: w.ctxStruct()})
			cl := 0
			if err != nil {
				cl = classifyErr(err)
			} else {
				cl = classify(r.Allowed, r.CycleDetected, nil)
			}
			out = append(out, obs{Classes: []int{cl}})
		case "batch":
			e := c.env(p.Worlds[st.Items[0].W])
			var items []*openfgav1.BatchCheckItem
			for i, it := range st.Items {
				w := p.Worlds[it.W]
				items = append(items, &openfgav1.BatchCheckItem{
					TupleKey:         &openfgav1.CheckRequestTupleKey{Object: it.Obj, Relation: it.Rel, User: it.User},
					ContextualTuples: w.ctProto(), Context: w.ctxStruct(), CorrelationId: fmt.Sprintf("i%d", i)})
			}
			cmd := commands.NewBatchCheckCommand(checker(e), commands.WithBatchCheckMaxConcurrentChecks(uint32(1+len(items)%3)))
			rs, _, err := cmd.Execute(cctx, &commands.BatchCheckCommandParams{AuthorizationModelID: e.Model.GetId(), Checks: items, StoreID: e.StoreID})
			o := obs{}
			for i := range st.Items {
				switch {
				case err != nil:
					o.Classes = append(o.Classes, classifyErr(err))
				case rs[commands.CorrelationID(fmt.Sprintf("i%d", i))] == nil:
					o.Classes = append(o.Classes, cErrOther)
				default:
					x := rs[commands.CorrelationID(fmt.Sprintf("i%d", i))]
					o.Classes = append(o.Classes, classify(x.Allowed, false, x.Err))
				}
			}
			out = append(out, o)
		case "list":
			w := p.Worlds[st.Item.W]
			e := c.env(w)
			var flags []string
			if optList {
				flags = []string{serverconfig.ExperimentalListObjectsOptimizations}
			}
			q, err := commands.NewListObjectsQuery(c.ds(e), resolver, e.StoreID,
				commands.WithFeatureFlagClient(featureflags.NewDefaultClient(flags)), commands.WithListObjectsPipelineEnabled(false),
				commands.WithListObjectsDeadline(20*time.Second), commands.WithListObjectsMaxResults(1000), // 0 would swallow errors (C05 limit0_error_swallowed)
				commands.WithResolveNodeLimit(uint32(p.Depth)), commands.WithListObjectsCache(res, settings))
			if err != nil {
				panic(err)
			}
			lctx := typesystem.ContextWithTypesystem(cctx, e.TS)
			r, err := q.Execute(lctx, &openfgav1.ListObjectsRequest{StoreId: e.StoreID, AuthorizationModelId: e.Model.GetId(),
				Type: st.Item.Type, Relation: st.Item.Rel, User: st.Item.User, Context: w.ctxStruct(), ContextualTuples: w.ctProto()})
			o := obs{}
			if err != nil {
				o.Classes = []int{classifyErr(err)}
			} else {
				o.Classes = []int{cAllowed}
				o.Objects = append([]string{}, r.Objects...)
				sort.Strings(o.Objects)
			}
			out = append(out, o)
		}
		cancel()
	}
	var dump []dumpEntry
	if cached && !optList {
		time.Sleep(2 * time.Millisecond) // theine applies writes asynchronously
		for wi, w := range p.Worlds {
			e := c.env(w)
			var cts []*openfgav1.TupleKey
			if ct := w.ctProto(); ct != nil {
				cts = ct.GetTupleKeys()
			}
			inv := storage.InvariantCacheKey(e.StoreID, e.Model.GetId(), w.ctxStruct(), cts...)
			for _, u := range subjects {
				for _, o := range universe {
					ot, _ := scen.SplitObj(o)
					td := e.S.Type(ot)
					if td == nil {
						continue
					}
					for _, rd := range td.Rels {
						v := cache.Get(storage.CheckCacheKey(e.StoreID, o, rd.Name, u, inv))
						if v == nil {
							continue
						}
						ent, ok := v.(*graph.CheckResponseCacheEntry)
						if !ok {
							continue
						}
						dump = append(dump, dumpEntry{W: wi, User: u, Obj: o, Rel: rd.Name,
							Allowed: ent.CheckResponse.GetAllowed(), Cycle: ent.CheckResponse.GetCycleDetected()})
					}
				}
			}
		}
	}
	return out, dump
}

// ---- engine 1: weighted-graph engine, command layer ------------------------------------------------

func (c *caseEnv) runV2(ctx context.Context, cached bool) []obs {
	p := c.p
	var cache storage.InMemoryCache[any]
	if cached {
		lc, err := storage.NewInMemoryLRUCache[any](storage.WithMaxCacheSize[any](int64(p.Limit)))
		if err != nil {
			panic(err)
		}
		cache = lc
		defer lc.Stop()
	}
	mgs := make([]*modelgraph.AuthorizationModelGraph, len(c.envs))
	mgErr := make([]error, len(c.envs))
	for i, e := range c.envs {
		mgs[i], mgErr[i] = modelgraph.New(e.Model)
	}
	pl := scen.NewForcedPlanner(p.V2Strat)
	inval := time.Time{}
	query := func(mi int) *commands.CheckQueryV2 {
		if p.Inval {
			inval = time.Now().Add(time.Hour)
		}
		o := []commands.CheckQueryV2Option{
			commands.WithCheckQueryV2Datastore(c.ds(c.envs[mi])), commands.WithCheckQueryV2Model(mgs[mi]),
			commands.WithCheckQueryV2Planner(pl), commands.WithCheckQueryV2ConcurrencyLimit(p.V2Conc),
			commands.WithCheckQueryV2UpstreamTimeout(10 * time.Second),
			commands.WithCheckQueryV2LastCacheInvalidationTime(inval),
		}
		if cached {
			o = append(o, commands.WithCheckQueryV2Cache(cache), commands.WithCheckQueryV2QueryCacheEnabled(true), commands.WithCheckQueryV2QueryCacheTTL(p.ttl()))
		}
		return commands.NewCheckQuery(o...)
	}
	var out []obs
	for _, st := range p.Steps {
		cctx, cancel := context.WithTimeout(ctx, 20*time.Second)
		switch st.Kind {
		case "check":
			w := p.Worlds[st.Item.W]
			if mgErr[w.Model] != nil {
				out = append(out, obs{Classes: []int{cV2Model}})
				break
			}
			r, err := query(w.Model).Execute(cctx, &commands.CheckCommandParams{
				StoreID: c.envs[0].StoreID, TupleKey: &openfgav1.CheckRequestTupleKey{Object: st.Item.Obj, Relation: st.Item.Rel, User: st.Item.User},
				ContextualTuples: w.ctProto(), Context: w.ctxStruct()})
			if err != nil {
				out = append(out, obs{Classes: []int{classifyErr(err)}})
			} else {
				out = append(out, obs{Classes: []int{classify(r.Allowed, false, nil)}})
			}
		case "batch":
			mi := p.Worlds[st.Items[0].W].Model
			o := obs{}
			if mgErr[mi] != nil {
				for range st.Items {
					o.Classes = append(o.Classes, cV2Model)
				}
				out = append(out, o)
				break
			}
			e := c.envs[mi]
			var items []*openfgav1.BatchCheckItem
			for i, it := range st.Items {
				w := p.Worlds[it.W]
				items = append(items, &openfgav1.BatchCheckItem{
					TupleKey:         &openfgav1.CheckRequestTupleKey{Object: it.Obj, Relation: it.Rel, User: it.User},
					ContextualTuples: w.ctProto(), Context: w.ctxStruct(), CorrelationId: fmt.Sprintf("i%d", i)})
			}
			cmd := commands.NewBatchCheckCommand(query(mi), commands.WithBatchCheckMaxConcurrentChecks(uint32(1+len(items)%3)))
			rs, _, err := cmd.Execute(cctx, &commands.BatchCheckCommandParams{AuthorizationModelID: e.Model.GetId(), Checks: items, StoreID: e.StoreID})
			for i := range st.Items {
				switch {
				case err != nil:
					o.Classes = append(o.Classes, classifyErr(err))
				case rs[commands.CorrelationID(fmt.Sprintf("i%d", i))] == nil:
					o.Classes = append(o.Classes, cErrOther)
				default:
					x := rs[commands.CorrelationID(fmt.Sprintf("i%d", i))]
					o.Classes = append(o.Classes, classify(x.Allowed, false, x.Err))
				}
			}
			out = append(out, o)
		default:
			out = append(out, obs{Classes: []int{cSkipped}})
		}
		cancel()
	}
	return out
}

// ---- engines 2 and 3: the real server ----------------------------------------------------------------

func (c *caseEnv) runServer(ctx context.Context, cached, v2 bool) []obs {
	p := c.p
	opts := []server.OpenFGAServiceV1Option{
		server.WithDatastore(noClose{c.envs[0].DS}),
		server.WithRequestTimeout(20 * time.Second),
		server.WithResolveNodeLimit(uint32(p.Depth)),
		server.WithCheckQueryCacheEnabled(cached),
		server.WithCheckQueryCacheTTL(p.ttl()),
		server.WithCheckCacheLimit(uint32(p.Limit)),
		server.WithListObjectsDeadline(20 * time.Second),
	}
	if v2 {
		opts = append(opts, server.WithExperimentals(serverconfig.ExperimentalWeightedGraphCheck))
	}
	srv := server.MustNewServerWithOpts(opts...)
	defer srv.Close()
	storeID := c.envs[0].StoreID
	var out []obs
	for _, st := range p.Steps {
		switch st.Kind {
		case "check":
			w := p.Worlds[st.Item.W]
			r, err := srv.Check(ctx, &openfgav1.CheckRequest{StoreId: storeID, AuthorizationModelId: c.env(w).Model.GetId(),
				TupleKey:         &openfgav1.CheckRequestTupleKey{Object: st.Item.Obj, Relation: st.Item.Rel, User: st.Item.User},
				ContextualTuples: w.ctProto(), Context: w.ctxStruct()})
			out = append(out, obs{Classes: []int{classify(r.GetAllowed(), false, err)}})
		case "batch":
			e := c.env(p.Worlds[st.Items[0].W])
			var items []*openfgav1.BatchCheckItem
			for i, it := range st.Items {
				w := p.Worlds[it.W]
				items = append(items, &openfgav1.BatchCheckItem{
					TupleKey:         &openfgav1.CheckRequestTupleKey{Object: it.Obj, Relation: it.Rel, User: it.User},
					ContextualTuples: w.ctProto(), Context: w.ctxStruct(), CorrelationId: fmt.Sprintf("i%d", i)})
			}
			r, err := srv.BatchCheck(ctx, &openfgav1.BatchCheckRequest{StoreId: storeID, AuthorizationModelId: e.Model.GetId(), Checks: items})
			o := obs{}
			for i := range st.Items {
				if err != nil {
					o.Classes = append(o.Classes, classifyErr(err))
					continue
				}
				x := r.GetResult()[fmt.Sprintf("i%d", i)]
				switch {
				case x == nil:
					o.Classes = append(o.Classes, cErrOther)
				case x.GetError() != nil:
					o.Classes = append(o.Classes, apiItemErrClass(x.GetError()))
				case x.GetAllowed():
					o.Classes = append(o.Classes, cAllowed)
				default:
					o.Classes = append(o.Classes, cDenied)
				}
			}
			out = append(out, o)
		case "list":
			w := p.Worlds[st.Item.W]
			r, err := srv.ListObjects(ctx, &openfgav1.ListObjectsRequest{StoreId: storeID, AuthorizationModelId: c.env(w).Model.GetId(),
				Type: st.Item.Type, Relation: st.Item.Rel, User: st.Item.User, Context: w.ctxStruct(), ContextualTuples: w.ctProto()})
			o := obs{}
			if err != nil {
				o.Classes = []int{classifyErr(err)}
			} else {
				o.Classes = []int{cAllowed}
				o.Objects = append([]string{}, r.GetObjects()...)
				sort.Strings(o.Objects)
			}
			out = append(out, o)
		}
	}
	return out
}

func apiItemErrClass(e *openfgav1.CheckError) int {
	switch x := e.GetCode().(type) {
	case *openfgav1.CheckError_InputError:
		if strings.Contains(e.GetMessage(), "failed to evaluate relationship condition") {
			return cErrCond
		}
		if x.InputError == openfgav1.ErrorCode_authorization_model_resolution_too_complex {
			return cErrDepth
		}
		return cInvalid
	case *openfgav1.CheckError_InternalError:
		if strings.Contains(e.GetMessage(), "condition") {
			return cErrCond
		}
		if x.InternalError == openfgav1.InternalErrorCode_deadline_exceeded {
			return cTimeout
		}
	}
	if strings.Contains(e.GetMessage(), "condition") {
		return cErrCond
	}
	return cErrOther
}

// slowDS delays every read by a pseudo-random 0..max microseconds: sub-problems are then still in
// flight when a sibling short-circuits their union (the schedules a fast in-memory store hides).
type slowDS struct {
	storage.OpenFGADatastore
	max int
	n   atomic.Uint64
}

func (d *slowDS) nap() {
	if d.max <= 0 {
		return
	}
	x := d.n.Add(0x9e3779b97f4a7c15)
	x ^= x >> 29
	x *= 0xbf58476d1ce4e5b9
	x ^= x >> 32
	time.Sleep(time.Duration(x%uint64(d.max+1)) * time.Microsecond)
}

func (d *slowDS) Read(ctx context.Context, store string, f storage.ReadFilter, o storage.ReadOptions) (storage.TupleIterator, error) {
	d.nap()
	return d.OpenFGADatastore.Read(ctx, store, f, o)
}
func (d *slowDS) ReadUserTuple(ctx context.Context, store string, f storage.ReadUserTupleFilter, o storage.ReadUserTupleOptions) (*openfgav1.Tuple, error) {
	d.nap()
	return d.OpenFGADatastore.ReadUserTuple(ctx, store, f, o)
}
func (d *slowDS) ReadUsersetTuples(ctx context.Context, store string, f storage.ReadUsersetTuplesFilter, o storage.ReadUsersetTuplesOptions) (storage.TupleIterator, error) {
	d.nap()
	return d.OpenFGADatastore.ReadUsersetTuples(ctx, store, f, o)
}
func (d *slowDS) ReadStartingWithUser(ctx context.Context, store string, f storage.ReadStartingWithUserFilter, o storage.ReadStartingWithUserOptions) (storage.TupleIterator, error) {
	d.nap()
	return d.OpenFGADatastore.ReadStartingWithUser(ctx, store, f, o)
}

// ds returns the datastore the command-layer engines read through
func (c *caseEnv) ds(e *scen.Env) storage.OpenFGADatastore {
	if c.p.Jitter > 0 {
		return &slowDS{OpenFGADatastore: e.DS, max: c.p.Jitter}
	}
	return e.DS
}

type noClose struct{ storage.OpenFGADatastore }

func (noClose) Close() {}

// ---- plan generation --------------------------------------------------------------------------------

func deepCopy(s *scen.Scenario) *scen.Scenario {
	b, _ := json.Marshal(s)
	var c scen.Scenario
	if err := json.Unmarshal(b, &c); err != nil {
		panic(err)
	}
	return &c
}

// second model version: one restriction of one relation dropped (tuples of that kind become
// invalid under it), or an unrelated relation added; same relation names
func modelB(r *rec.Rand, s *scen.Scenario) *scen.Scenario {
	b := deepCopy(s)
	type pos struct{ t, r int }
	var cand []pos
	for ti, td := range b.Types {
		for ri, rd := range td.Rels {
			if len(rd.Restr) >= 2 {
				cand = append(cand, pos{ti, ri})
			}
		}
	}
	if len(cand) == 0 || r.Chance(1, 5) {
		return b // same content, new model id
	}
	p := rec.Pick(r, cand)
	rs := b.Types[p.t].Rels[p.r].Restr
	k := r.Intn(len(rs))
	b.Types[p.t].Rels[p.r].Restr = append(append([]scen.Restr{}, rs[:k]...), rs[k+1:]...)
	b.Shape = s.Shape + "/b"
	return b
}

// candidate contextual tuples: valid-looking tuples not in the store
func ctPool(r *rec.Rand, s *scen.Scenario) []scen.Tuple {
	have := map[string]bool{}
	for _, t := range s.Tuples {
		have[t.Key()] = true
	}
	var pool []scen.Tuple
	objs := s.Objects()
	for _, td := range s.Types {
		for _, rd := range td.Rels {
			if !rd.RW.HasThis() {
				continue
			}
			for _, rs := range rd.Restr {
				for _, o := range objs {
					if ot, _ := scen.SplitObj(o); ot != td.Name {
						continue
					}
					var users []string
					switch rs.Kind {
					case scen.KObj:
						if rs.Type == "user" {
							users = []string{"user:a", "user:b", "user:c"}
						} else {
							for _, o2 := range objs {
								if t2, _ := scen.SplitObj(o2); t2 == rs.Type {
									users = append(users, o2)
								}
							}
						}
					case scen.KWild:
						users = []string{rs.Type + ":*"}
					case scen.KSet:
						for _, o2 := range objs {
							if t2, _ := scen.SplitObj(o2); t2 == rs.Type {
								users = append(users, o2+"#"+rs.Rel)
							}
						}
					}
					for _, u := range users {
						t := scen.Tuple{Obj: o, Rel: rd.Name, User: u, Cond: rs.Cond}
						if rs.Cond != "" {
							switch r.Intn(4) {
							case 0:
								t.Ctx = map[string]any{"x": 1}
							case 1:
								t.Ctx = map[string]any{"x": -1}
							}
						}
						if !have[t.Key()] {
							have[t.Key()] = true
							pool = append(pool, t)
						}
					}
				}
			}
		}
	}
	rec.Shuffle(r, pool)
	return pool
}

// worldKey identifies the part of the cache key a world contributes (model version, context,
// contextual tuples): an absent context and an empty one are the same request, contextual tuples
// are a set.
func worldKey(w World) string {
	ctx := map[string]any{}
	if w.HasCtx && w.Ctx != nil {
		ctx = w.Ctx
	}
	var cts []string
	for _, t := range w.CT {
		b, _ := json.Marshal(t)
		cts = append(cts, string(b))
	}
	sort.Strings(cts)
	b, _ := json.Marshal([]any{w.Model, ctx, cts})
	return string(b)
}

func makePlan(r *rec.Rand, s *scen.Scenario, tier string) *Plan {
	p := &Plan{Depth: 25, Limit: 10000, TTL: "long", V2Strat: rec.Pick(r, []string{"default", "default", "weight2", "recursive"}),
		V2Conc: rec.Pick(r, []int{1, 2, 10, 100}), Runs: 3, Engines: []int{0, 1}}
	if tier == "thorough" {
		p.Runs = 3
	}
	switch r.Intn(12) {
	case 0:
		p.Depth = r.Range(2, 5)
	case 1:
		p.Limit = r.Range(1, 4)
	case 2:
		p.TTL = "tiny"
	case 3:
		p.Inval = true
	}
	if r.Chance(1, 4) {
		p.Engines = []int{0, 1, 2, 3}
	}
	if r.Chance(1, 8) {
		p.Jitter = rec.Pick(r, []int{50, 150, 400})
	}
	p.ModelB = modelB(r, s)
	defer func() {
		nl := 0
		for _, st := range p.Steps {
			if st.Kind == "list" {
				nl++
			}
		}
		if nl >= 2 && r.Chance(1, 2) {
			p.Engines = append(p.Engines, 4)
		}
	}()
	// worlds
	pool := ctPool(r, s)
	ctxs := []World{{HasCtx: s.ReqCtx != nil, Ctx: s.ReqCtx}}
	for _, c := range []map[string]any{{"x": 1}, {"x": -1}, nil} {
		ctxs = append(ctxs, World{HasCtx: true, Ctx: c})
	}
	p.Worlds = []World{ctxs[0]}
	nw := r.Range(0, 3)
	if len(s.Conds) > 0 {
		nw = r.Range(1, 3)
	}
	for i := 0; i < nw; i++ {
		w := rec.Pick(r, ctxs)
		if len(s.Conds) > 0 {
			w = ctxs[1+(i+r.Intn(2))%3] // a context that differs from the scenario's, mostly
		}
		if len(s.Conds) == 0 && r.Chance(2, 3) {
			w = ctxs[0]
		}
		w.Model = 0
		if r.Chance(1, 3) {
			w.Model = 1
		}
		if len(pool) > 0 && r.Chance(1, 2) {
			k := r.Range(1, 2)
			for j := 0; j < k && j < len(pool); j++ {
				w.CT = append(w.CT, pool[(i*2+j)%len(pool)])
			}
		}
		dup := false
		for _, x := range p.Worlds {
			if worldKey(x) == worldKey(w) {
				dup = true
			}
		}
		if !dup {
			p.Worlds = append(p.Worlds, w)
		}
	}
	// subjects
	var users []string
	seen := map[string]bool{}
	var allCT []scen.Tuple
	for _, w := range p.Worlds {
		allCT = append(allCT, w.CT...)
	}
	for _, t := range append(append([]scen.Tuple{}, s.Tuples...), allCT...) {
		if ut, uid, rel := scen.SplitUser(t.User); ut == "user" && rel == "" && uid != "*" && !seen[t.User] {
			seen[t.User] = true
			users = append(users, t.User)
		}
	}
	if len(users) == 0 {
		users = []string{"user:a"}
	}
	rec.Shuffle(r, users)
	focus := users[:1]
	if len(users) > 1 && r.Chance(1, 2) {
		focus = users[:2]
	}
	if r.Chance(1, 5) {
		extra := s.Subjects(r, 3)
		focus = append(focus, extra[len(extra)-1])
	}
	// request order over the dependency graph
	dg := s.DepGraph(allCT)
	var nodes []string
	for n := range dg {
		nodes = append(nodes, n)
	}
	sort.Strings(nodes)
	if len(nodes) == 0 {
		return p
	}
	reachN := func(root string) int {
		seen := map[string]bool{root: true}
		st := []string{root}
		for len(st) > 0 {
			n := st[len(st)-1]
			st = st[:len(st)-1]
			for _, m := range dg[n] {
				if _, ok := dg[m]; ok && !seen[m] {
					seen[m] = true
					st = append(st, m)
				}
			}
		}
		return len(seen)
	}
	// roots: prefer nodes that reach many nodes
	sort.SliceStable(nodes, func(i, j int) bool { return reachN(nodes[i]) > reachN(nodes[j]) })
	top := nodes
	if len(top) > 4 {
		top = top[:4]
	}
	var order []string
	nroots := r.Range(1, 2)
	for k := 0; k < nroots; k++ {
		root := rec.Pick(r, top)
		if r.Chance(1, 5) {
			root = rec.Pick(r, nodes)
		}
		var pre, post []string
		vis := map[string]bool{}
		var dfs func(n string)
		dfs = func(n string) {
			if vis[n] {
				return
			}
			vis[n] = true
			pre = append(pre, n)
			succ := append([]string{}, dg[n]...)
			rec.Shuffle(r, succ)
			for _, m := range succ {
				if _, ok := dg[m]; ok {
					dfs(m)
				}
			}
			post = append(post, n)
		}
		dfs(root)
		switch r.Intn(6) {
		case 0: // ancestors first
			order = append(order, pre...)
		case 1: // descendants first
			order = append(order, post...)
		case 2: // the root, everything below it, the root again
			order = append(append(append(order, root), post...), root)
		case 3: // root first, then inner nodes in reverse discovery order (the F3 order)
			order = append(order, root)
			for i := len(pre) - 1; i >= 1; i-- {
				order = append(order, pre[i])
			}
		case 4:
			sh := append([]string{}, pre...)
			rec.Shuffle(r, sh)
			order = append(append(order, root), sh...)
		default:
			order = append(append(order, pre...), post...)
		}
	}
	max := 22
	if len(order) > max {
		order = order[:max]
	}
	mkItem := func(node string, w int, u string) Item {
		i := strings.LastIndexByte(node, '#')
		return Item{W: w, User: u, Obj: node[:i], Rel: node[i+1:]}
	}
	pickW := func() int {
		if len(p.Worlds) > 1 && r.Chance(1, 3) {
			return r.Intn(len(p.Worlds))
		}
		return 0
	}
	sweep := len(p.Worlds) > 1 && r.Chance(2, 3)
	for i := 0; i < len(order); i++ {
		if sweep && r.Chance(1, 4) {
			// the same request in every world, back to back: only the invariant part of the key differs
			u := rec.Pick(r, focus)
			ws := make([]int, len(p.Worlds))
			for k := range ws {
				ws[k] = k
			}
			rec.Shuffle(r, ws)
			asList := p.Depth >= 25 && r.Chance(1, 3)
			for _, wk := range ws {
				it := mkItem(order[i], wk, u)
				if asList {
					it.Type, _ = scen.SplitObj(it.Obj)
					it.Obj = ""
					p.Steps = append(p.Steps, Step{Kind: "list", Item: it})
				} else {
					p.Steps = append(p.Steps, Step{Kind: "check", Item: it})
				}
			}
			continue
		}
		u := focus[0]
		if len(focus) > 1 && r.Chance(1, 4) {
			u = rec.Pick(r, focus)
		}
		w := pickW()
		switch x := r.Intn(20); {
		case x < 14:
			p.Steps = append(p.Steps, Step{Kind: "check", Item: mkItem(order[i], w, u)})
			if r.Chance(1, 8) { // the same request again
				p.Steps = append(p.Steps, Step{Kind: "check", Item: mkItem(order[i], w, u)})
			}
		case x < 17:
			n := r.Range(2, 5)
			var items []Item
			mi := p.Worlds[w].Model
			for j := 0; j < n; j++ {
				node := order[(i+j)%len(order)]
				if r.Chance(1, 4) {
					node = rec.Pick(r, order)
				}
				wj := w
				if r.Chance(1, 3) {
					if c := pickW(); p.Worlds[c].Model == mi {
						wj = c
					}
				}
				items = append(items, mkItem(node, wj, u))
			}
			p.Steps = append(p.Steps, Step{Kind: "batch", Items: items})
			i += n - 1
		default:
			if p.Depth < 25 {
				// ListObjects under a small resolution-depth limit is unstable on its own (whether
				// the depth error of one branch surfaces depends on goroutine timing)
				p.Steps = append(p.Steps, Step{Kind: "check", Item: mkItem(order[i], w, u)})
				break
			}
			it := mkItem(order[i], w, u)
			it.Type, _ = scen.SplitObj(it.Obj)
			it.Obj = ""
			p.Steps = append(p.Steps, Step{Kind: "list", Item: it})
		}
	}
	return p
}

// ---- one case ------------------------------------------------------------------------------------------

func runCase(ctx context.Context, w *rec.Writer, s *scen.Scenario, p *Plan) {
	envA, err := scen.NewEnv(ctx, s)
	if err != nil {
		if errors.Is(err, scen.ErrModelRejected) {
			w.Stat("models_rejected", 1)
			w.Stat("models_rejected_"+s.Shape, 1)
			if os.Getenv("C08_DEBUG") != "" {
				fmt.Fprintf(os.Stderr, "rejected %s: %v\n", s.Shape, err)
			}
			return
		}
		panic(err)
	}
	defer envA.Close()
	c := &caseEnv{envs: []*scen.Env{envA}, p: p}
	sB := p.ModelB
	if sB != nil {
		sB.Tuples, sB.ReqCtx = s.Tuples, s.ReqCtx
		mB := sB.ModelProto()
		mB.Id = ulid.Make().String()
		tsB, err := typesystem.NewAndValidate(ctx, mB)
		if err == nil {
			if err := envA.DS.WriteAuthorizationModel(ctx, envA.StoreID, mB); err != nil {
				panic(err)
			}
			c.envs = append(c.envs, &scen.Env{S: sB, DS: envA.DS, StoreID: envA.StoreID, Model: mB, TS: tsB})
		} else {
			w.Stat("model_b_rejected", 1)
		}
	}
	if len(c.envs) == 1 {
		for i := range p.Worlds {
			p.Worlds[i].Model = 0
		}
		p.ModelB = nil
	}
	// worlds with the same cache-key contribution are one world
	remap := make([]int, len(p.Worlds))
	for i := range p.Worlds {
		remap[i] = i
		for j := 0; j < i; j++ {
			if worldKey(p.Worlds[j]) == worldKey(p.Worlds[i]) {
				remap[i] = j
				break
			}
		}
	}
	for si := range p.Steps {
		p.Steps[si].Item.W = remap[p.Steps[si].Item.W]
		for ii := range p.Steps[si].Items {
			p.Steps[si].Items[ii].W = remap[p.Steps[si].Items[ii].W]
		}
	}
	if len(p.Steps) == 0 {
		w.Stat("empty_histories", 1)
		return
	}
	w.Stat("models_accepted", 1)
	w.Stat("shape_"+s.Shape, 1)
	w.Stat("worlds", len(p.Worlds))
	w.Stat("tuples", len(s.Tuples))
	in := scen.NewIntern()
	// subjects and universe
	var subjects []string
	seenS := map[string]bool{}
	addS := func(u string) {
		if !seenS[u] {
			seenS[u] = true
			subjects = append(subjects, u)
		}
	}
	var extra []string
	for _, st := range p.Steps {
		its := st.Items
		if st.Kind != "batch" {
			its = []Item{st.Item}
		}
		for _, it := range its {
			addS(it.User)
			extra = append(extra, it.User)
			if it.Obj != "" {
				extra = append(extra, it.Obj)
			}
		}
	}
	for _, wd := range p.Worlds {
		for _, t := range wd.CT {
			extra = append(extra, t.Obj, t.User)
		}
	}
	universe := s.Objects(extra...)
	atoms := in.Atoms(s, universe)
	subjIdx := map[string]int{}
	for i, u := range subjects {
		subjIdx[u] = i
	}
	// worlds: model, conds, tuples (contextual first) with their condition outcome under the world's context
	var models []rec.V
	for _, e := range c.envs {
		models = append(models, rec.L(in.Model(e.S), in.Conds(e.S)))
	}
	var wvs []rec.V
	for _, wd := range p.Worlds {
		e := c.env(wd)
		var tvs []rec.V
		for _, t := range append(append([]scen.Tuple{}, wd.CT...), s.Tuples...) {
			tvs = append(tvs, in.Tuple(t, e.CEvalCtx(ctx, t, wd.ctxStruct())))
		}
		var pxs []rec.V
		for _, u := range subjects {
			var ps []rec.V
			for _, px := range e.PathX(u) {
				ps = append(ps, rec.L(rec.I(in.T(px[0])), rec.I(in.R(px[1]))))
			}
			pxs = append(pxs, rec.L(ps...))
		}
		wvs = append(wvs, rec.L(rec.I(wd.Model), rec.L(tvs...), rec.L(pxs...)))
	}
	var svs []rec.V
	for _, u := range subjects {
		svs = append(svs, in.Subject(u))
	}
	encItem := func(it Item) rec.V {
		if it.Obj == "" {
			return rec.L(rec.I(it.W), rec.I(subjIdx[it.User]), rec.I(in.T(it.Type)), rec.I(0), rec.I(in.R(it.Rel)))
		}
		a, b := in.Obj(it.Obj)
		return rec.L(rec.I(it.W), rec.I(subjIdx[it.User]), a, b, rec.I(in.R(it.Rel)))
	}
	var stepvs []rec.V
	for _, st := range p.Steps {
		w.Stat("steps_"+st.Kind, 1)
		switch st.Kind {
		case "check":
			stepvs = append(stepvs, rec.L(rec.I(0), encItem(st.Item)))
		case "list":
			stepvs = append(stepvs, rec.L(rec.I(2), encItem(st.Item)))
		default:
			var is []rec.V
			for _, it := range st.Items {
				is = append(is, encItem(it))
			}
			stepvs = append(stepvs, rec.L(rec.I(1), rec.L(is...)))
		}
	}
	// run
	encRun := func(os []obs) rec.V {
		var vs []rec.V
		for _, o := range os {
			vs = append(vs, o.enc(in))
		}
		return rec.L(vs...)
	}
	var engvs []rec.V
	for _, eng := range p.Engines {
		var unc [][]obs
		var cac [][]obs
		var dumps [][]dumpEntry
		for k := 0; k < uncRuns; k++ {
			switch eng {
			case 0:
				o, _ := c.runV1(ctx, false, universe, subjects)
				unc = append(unc, o)
			case 1:
				unc = append(unc, c.runV2(ctx, false))
			case 2:
				unc = append(unc, c.runServer(ctx, false, false))
			case 3:
				unc = append(unc, c.runServer(ctx, false, true))
			case 4:
				o, _ := c.runV1x(ctx, false, true, universe, subjects)
				unc = append(unc, o)
			}
		}
		for k := 0; k < p.Runs; k++ {
			before := readCounters()
			switch eng {
			case 0:
				o, d := c.runV1(ctx, true, universe, subjects)
				cac = append(cac, o)
				dumps = append(dumps, d)
			case 1:
				cac = append(cac, c.runV2(ctx, true))
			case 2:
				cac = append(cac, c.runServer(ctx, true, false))
			case 3:
				cac = append(cac, c.runServer(ctx, true, true))
			case 4:
				o, _ := c.runV1x(ctx, true, true, universe, subjects)
				cac = append(cac, o)
			}
			after := readCounters()
			hits, inv := after.hits-before.hits, after.invalid-before.invalid
			w.Stat(fmt.Sprintf("engine%d_cache_lookups", eng), after.lookups-before.lookups)
			w.Stat(fmt.Sprintf("engine%d_cache_hits", eng), hits)
			w.Stat(fmt.Sprintf("engine%d_cache_invalid_hits", eng), inv)
			totalHits += hits
			cachedRuns++
			// (the counters are process-wide: goroutines of an earlier run that were cancelled by a
			// short circuit may still be counting, so no verdict is derived from them; with the
			// invalidation time in the future engine0/1 hits stay near zero -- see the distribution)
			if p.Inval && (eng == 0 || eng == 1) {
				w.Stat(fmt.Sprintf("engine%d_hits_despite_invalidation", eng), hits)
			}
		}
		// a cached answer that no uncached run gave: before it is blamed on the cache, the reference is
		// run some more times (answers that are unstable on their own: races between the branches of
		// the weighted-graph engine, ListObjects meeting a condition error)
		apiOf := func(c int) int {
			if c == cDeniedCy {
				return cDenied
			}
			return c
		}
		mismatch := func() bool {
			for si := range p.Steps {
				for _, run := range cac {
					for ci, cl := range run[si].Classes {
						found := false
						for _, u := range unc {
							if apiOf(u[si].Classes[ci]) == apiOf(cl) {
								found = true
							}
						}
						if !found {
							return true
						}
					}
					same := false
					for _, u := range unc {
						if strings.Join(u[si].Objects, ",") == strings.Join(run[si].Objects, ",") {
							same = true
						}
					}
					if !same {
						return true
					}
				}
			}
			return false
		}
		if mismatch() {
			w.Stat(fmt.Sprintf("engine%d_reference_rerun", eng), 1)
			for k := 0; k < 6; k++ {
				switch eng {
				case 0:
					o, _ := c.runV1(ctx, false, universe, subjects)
					unc = append(unc, o)
				case 1:
					unc = append(unc, c.runV2(ctx, false))
				case 2:
					unc = append(unc, c.runServer(ctx, false, false))
				case 3:
					unc = append(unc, c.runServer(ctx, false, true))
				case 4:
					o, _ := c.runV1x(ctx, false, true, universe, subjects)
					unc = append(unc, o)
				}
			}
			if !mismatch() {
				w.Stat(fmt.Sprintf("engine%d_reference_unstable_explains_difference", eng), 1)
			}
		}
		// statistics
		w.Stat(fmt.Sprintf("engine%d_histories", eng), 1)
		for si := range p.Steps {
			for ci, cl := range unc[0][si].Classes {
				w.Stat(fmt.Sprintf("engine%d_uncached_%s", eng, classNames[cl]), 1)
				for k := 1; k < len(unc); k++ {
					if unc[k][si].Classes[ci] != cl {
						w.Stat(fmt.Sprintf("engine%d_uncached_unstable", eng), 1)
					}
				}
				for _, run := range cac {
					if run[si].Classes[ci] != cl {
						w.Stat(fmt.Sprintf("engine%d_cached_ne_uncached_%s_to_%s", eng, classNames[cl], classNames[run[si].Classes[ci]]), 1)
					}
				}
			}
			for _, run := range cac {
				if strings.Join(run[si].Objects, ",") != strings.Join(unc[0][si].Objects, ",") {
					w.Stat(fmt.Sprintf("engine%d_cached_ne_uncached_objects", eng), 1)
				}
			}
		}
		var uv, cv, dv []rec.V
		for _, o := range unc {
			uv = append(uv, encRun(o))
		}
		for _, o := range cac {
			cv = append(cv, encRun(o))
		}
		for _, d := range dumps {
			w.Stat("engine0_cache_entries_read_back", len(d))
			var es []rec.V
			for _, x := range d {
				a, b := in.Obj(x.Obj)
				es = append(es, rec.L(rec.I(x.W), rec.I(subjIdx[x.User]), a, b, rec.I(in.R(x.Rel)), rec.Bool(x.Allowed), rec.Bool(x.Cycle)))
				if x.Cycle {
					w.PropFail("a response with CycleDetected was found in the Check query cache", map[string]any{"scenario": s, "plan": p, "entry": x})
				}
			}
			dv = append(dv, rec.L(es...))
		}
		engvs = append(engvs, rec.L(rec.I(eng), rec.L(uv...), rec.L(cv...), rec.L(dv...)))
	}
	flags := 0
	if p.TTL == "tiny" {
		flags |= 1
	}
	if p.Inval {
		flags |= 2
	}
	if p.Limit < 100 {
		flags |= 4
	}
	w.Stat("plan_depth_small", b2i(p.Depth < 25))
	w.Stat("plan_cache_small", b2i(p.Limit < 100))
	w.Stat("plan_ttl_tiny", b2i(p.TTL == "tiny"))
	w.Stat("plan_invalidation_now", b2i(p.Inval))
	w.Stat("plan_two_models", b2i(len(c.envs) > 1))
	w.Stat("plan_read_jitter", b2i(p.Jitter > 0))
	w.Stat("plan_v2_"+p.V2Strat, 1)
	w.Case(map[string]any{"scenario": s, "plan": p, "text": s.String(),
		"names": map[string]any{"t": in.TypeNames, "r": in.RelNames, "i": in.IDNames}},
		rec.I(1), rec.L(models...), rec.L(wvs...), atoms, rec.L(svs...), rec.I(p.Depth), rec.I(flags), rec.L(stepvs...), rec.L(engvs...))
}

// cache counters of internal/check/metrics (shared by CachedCheckResolver and the weighted-graph
// engine), read through the default registry (no direct dependency on prometheus/client_model)
type cacheCounters struct{ lookups, hits, invalid int }

func readCounters() cacheCounters {
	var c cacheCounters
	mfs, err := prometheus.DefaultGatherer.Gather()
	if err != nil {
		return c
	}
	for _, mf := range mfs {
		if len(mf.GetMetric()) == 0 {
			continue
		}
		v := int(mf.GetMetric()[0].GetCounter().GetValue())
		switch mf.GetName() {
		case "openfga_check_cache_total_count":
			c.lookups = v
		case "openfga_check_cache_hit_count":
			c.hits = v
		case "openfga_check_cache_invalid_hit_count":
			c.invalid = v
		}
	}
	return c
}

var totalHits, cachedRuns int

// number of uncached reference runs per engine (debugging: C08_UNC)
var uncRuns = 2

func init() {
	if v := os.Getenv("C08_UNC"); v != "" {
		fmt.Sscan(v, &uncRuns)
	}
}

// reducerProbe is the direct regression case of the repaired finding cancelled_reducer_result_cached
// (/repo 7d244e9): LocalChecker.ResolveCheck on  doc:1#any = a or b  (both branches can only answer
// `allowed`) and  doc:1#both = c and d  (both branches can only answer `denied`) under a context that a
// racing goroutine cancels.  Whatever the timing, the call must answer `allowed` resp. `denied`, or
// fail; a `denied` resp. `allowed` with a nil error is an invented result (and would be stored by
// CachedCheckResolver).
func reducerProbe(ctx context.Context, w *rec.Writer, n int) {
	s := &scen.Scenario{Shape: "probe-reducers", Types: []scen.TypeDef{{Name: "user"}, {Name: "doc", Rels: []scen.RelDef{
		{Name: "a", RW: scen.This(), Restr: []scen.Restr{scen.RObj("user")}},
		{Name: "b", RW: scen.This(), Restr: []scen.Restr{scen.RObj("user")}},
		{Name: "c", RW: scen.This(), Restr: []scen.Restr{scen.RObj("user")}},
		{Name: "d", RW: scen.This(), Restr: []scen.Restr{scen.RObj("user")}},
		{Name: "any", RW: scen.Union(scen.Comp("a"), scen.Comp("b"))},
		{Name: "both", RW: scen.Inter(scen.Comp("c"), scen.Comp("d"))},
	}}}, Tuples: []scen.Tuple{{Obj: "doc:1", Rel: "a", User: "user:x"}, {Obj: "doc:1", Rel: "b", User: "user:x"}}}
	env, err := scen.NewEnv(ctx, s)
	if err != nil {
		panic(err)
	}
	defer env.Close()
	resolver, closer := scen.Resolver(scen.NewForcedPlanner("default"), 25)
	defer closer()
	base := storage.ContextWithRelationshipTupleReader(typesystem.ContextWithTypesystem(ctx, env.TS), env.DS)
	call := func(rel string, k int) (bool, error) {
		cctx, cancel := context.WithCancel(base)
		defer cancel()
		req, err := graph.NewResolveCheckRequest(graph.ResolveCheckRequestParams{StoreID: env.StoreID,
			AuthorizationModelID: env.Model.GetId(), TupleKey: &openfgav1.TupleKey{Object: "doc:1", Relation: rel, User: "user:x"}})
		if err != nil {
			panic(err)
		}
		go func() {
			for j := 0; j < k%48; j++ {
				runtime.Gosched()
			}
			cancel()
		}()
		r, err := resolver.ResolveCheck(cctx, req)
		if err != nil {
			return false, err
		}
		return r.GetAllowed(), nil
	}
	for k := 0; k < n; k++ {
		a, err := call("any", k)
		switch {
		case err != nil:
			w.Stat("probe_union_cancelled", 1)
		case a:
			w.Stat("probe_union_allowed", 1)
		default:
			w.Stat("probe_union_invented_denied", 1)
			w.PropFail("union(allowed, allowed) under a racing cancellation answered `denied` with a nil error", map[string]any{"probe": "union", "k": k})
		}
		a, err = call("both", k)
		switch {
		case err != nil:
			w.Stat("probe_intersection_cancelled", 1)
		case !a:
			w.Stat("probe_intersection_denied", 1)
		default:
			w.Stat("probe_intersection_invented_allowed", 1)
			w.PropFail("intersection(denied, denied) under a racing cancellation answered `allowed` with a nil error", map[string]any{"probe": "intersection", "k": k})
		}
	}
}

func b2i(b bool) int {
	if b {
		return 1
	}
	return 0
}

func main() {
	o := rec.ParseFlags()
	w := rec.NewWriter(o.Out)
	defer w.Close()
	ctx := context.Background()
	if o.Replay != "" {
		f, err := os.Open(o.Replay)
		if err != nil {
			panic(err)
		}
		defer f.Close()
		sc := bufio.NewScanner(f)
		sc.Buffer(make([]byte, 1<<20), 1<<26)
		for sc.Scan() {
			var d struct {
				Scenario *scen.Scenario `json:"scenario"`
				Plan     *Plan          `json:"plan"`
			}
			if json.Unmarshal(sc.Bytes(), &d) != nil || d.Scenario == nil || d.Plan == nil {
				continue
			}
			runCase(ctx, w, d.Scenario, d.Plan)
		}
		return
	}
	probeN := 100000
	if o.Tier == "thorough" {
		probeN = 300000
	}
	if v := os.Getenv("C08_PROBE"); v != "" {
		fmt.Sscan(v, &probeN)
	}
	reducerProbe(ctx, w, probeN)
	t0 := time.Now()
	faultProbe(ctx, w)
	gateProbe(ctx, w)
	w.Stat("probe_fault_gate_ms", int(time.Since(t0).Milliseconds()))
	r := rec.NewRand(o.Seed)
	for i := 0; i < o.N; i++ {
		rr := r.Fork()
		var s *scen.Scenario
		switch x := rr.Intn(10); {
		case x < 5:
			s = scen.C08Shape(rr, -1)
		case x < 6:
			s = scen.C03Shape(rr, -1)
		default:
			s = scen.Generate(rr, scen.DefaultOpts())
		}
		t0 := time.Now()
		runCase(ctx, w, s, makePlan(rr, s, o.Tier))
		if i == o.N-1 && cachedRuns >= 200 && totalHits == 0 {
			w.PropFail("no cache hit in the whole run: the Check query cache is never used (the comparison would be vacuous)", map[string]any{"cached_runs": cachedRuns})
		}
		if d := time.Since(t0); d > 5*time.Second {
			w.Stat("slow_cases", 1)
			if os.Getenv("C08_DEBUG") != "" {
				fmt.Fprintf(os.Stderr, "slow case %d (%s): %v\n", i, s.Shape, d)
			}
		}
	}
}
