//go:build verif

package main

// Directed probes of C08 on ACYCLIC, non-recursive models (no listed finding applies there): the
// predicate is the property itself -- a request answered with the Check query cache on gets the
// answer the same request gets with the cache off at the same (never modified) store state; an
// evaluation that failed or was abandoned is never remembered as a decision.
//
//	faultProbe  weighted-graph server (experimental weighted_graph_check), cache on vs off:
//	            (a) request shapes the weighted-graph engine rejects and the server answers through
//	            the default-engine fallback (typed wildcard / userset subject reaching an exclusion),
//	            each REPEATED inside the TTL, with object-subject neighbours in between;
//	            (b) a transient fault: the k-th datastore read of a request fails once (k = 1..),
//	            then the datastore is healthy and the same request and its neighbours are repeated.
//	gateProbe   default-engine server, cache on vs off: a union whose one branch answers `allowed`
//	            while the sibling is still inside a dispatched sub-problem S waiting for a slow
//	            read (a gating datastore wrapper holds that read until the request has returned);
//	            then S and its neighbours are asked directly.  S is a bare tuple-to-userset, reached
//	            through a tuple-to-userset or a userset tuple or a computed userset, the fast branch
//	            first or last in the union.

import (
	"context"
	"errors"
	"fmt"
	"os"
	"sync"
	"sync/atomic"
	"time"

	openfgav1 "github.com/openfga/api/proto/openfga/v1"

	"github.com/openfga/openfga/internal/verifharness/lib/rec"
	"github.com/openfga/openfga/internal/verifharness/lib/scen"
	"github.com/openfga/openfga/pkg/server"
	serverconfig "github.com/openfga/openfga/pkg/server/config"
	"github.com/openfga/openfga/pkg/storage"
)

// ---- a datastore whose k-th read fails once ------------------------------------------------------

type faultDS struct {
	storage.OpenFGADatastore
	left  atomic.Int64 // reads until the failure (0 = disarmed)
	fired atomic.Int64
}

var errTransient = errors.New("verif: transient datastore failure")

func (d *faultDS) arm(k int) { d.left.Store(int64(k)) }
func (d *faultDS) hit() bool {
	for {
		v := d.left.Load()
		if v <= 0 {
			return false
		}
		if d.left.CompareAndSwap(v, v-1) {
			if v == 1 {
				d.fired.Add(1)
				return true
			}
			return false
		}
	}
}
func (d *faultDS) Read(ctx context.Context, store string, f storage.ReadFilter, o storage.ReadOptions) (storage.TupleIterator, error) {
	if d.hit() {
		return nil, errTransient
	}
	return d.OpenFGADatastore.Read(ctx, store, f, o)
}
func (d *faultDS) ReadUserTuple(ctx context.Context, store string, f storage.ReadUserTupleFilter, o storage.ReadUserTupleOptions) (*openfgav1.Tuple, error) {
	if d.hit() {
		return nil, errTransient
	}
	return d.OpenFGADatastore.ReadUserTuple(ctx, store, f, o)
}
func (d *faultDS) ReadUsersetTuples(ctx context.Context, store string, f storage.ReadUsersetTuplesFilter, o storage.ReadUsersetTuplesOptions) (storage.TupleIterator, error) {
	if d.hit() {
		return nil, errTransient
	}
	return d.OpenFGADatastore.ReadUsersetTuples(ctx, store, f, o)
}
func (d *faultDS) ReadStartingWithUser(ctx context.Context, store string, f storage.ReadStartingWithUserFilter, o storage.ReadStartingWithUserOptions) (storage.TupleIterator, error) {
	if d.hit() {
		return nil, errTransient
	}
	return d.OpenFGADatastore.ReadStartingWithUser(ctx, store, f, o)
}

type probeReq struct{ obj, rel, user string }

func probeServer(ds storage.OpenFGADatastore, cached, v2 bool) *server.Server {
	opts := []server.OpenFGAServiceV1Option{
		server.WithDatastore(noClose{ds}),
		server.WithRequestTimeout(20 * time.Second),
		server.WithCheckQueryCacheEnabled(cached),
		server.WithCheckQueryCacheTTL(10 * time.Minute),
		server.WithCheckCacheLimit(1000),
	}
	if v2 {
		opts = append(opts, server.WithExperimentals(serverconfig.ExperimentalWeightedGraphCheck))
	}
	return server.MustNewServerWithOpts(opts...)
}

func probeCheck(ctx context.Context, srv *server.Server, env *scen.Env, q probeReq) int {
	r, err := srv.Check(ctx, &openfgav1.CheckRequest{StoreId: env.StoreID, AuthorizationModelId: env.Model.GetId(),
		TupleKey: &openfgav1.CheckRequestTupleKey{Object: q.obj, Relation: q.rel, User: q.user}})
	return classify(r.GetAllowed(), false, err)
}

func faultProbe(ctx context.Context, w *rec.Writer) {
	s := &scen.Scenario{Shape: "probe-fault", Types: []scen.TypeDef{{Name: "user"},
		{Name: "group", Rels: []scen.RelDef{{Name: "member", RW: scen.This(), Restr: []scen.Restr{scen.RObj("user")}}}},
		{Name: "folder", Rels: []scen.RelDef{{Name: "viewer", RW: scen.This(), Restr: []scen.Restr{scen.RObj("user"), scen.RSet("group", "member")}}}},
		{Name: "doc", Rels: []scen.RelDef{
			{Name: "parent", RW: scen.This(), Restr: []scen.Restr{scen.RObj("folder")}},
			{Name: "allowed", RW: scen.This(), Restr: []scen.Restr{scen.RObj("user"), scen.RWild("user"), scen.RSet("group", "member")}},
			{Name: "blocked", RW: scen.This(), Restr: []scen.Restr{scen.RObj("user")}},
			{Name: "viewer", RW: scen.Diff(scen.Comp("allowed"), scen.Comp("blocked"))},
			{Name: "editor", RW: scen.Union(scen.Comp("viewer"), scen.TTU("parent", "viewer"))},
			{Name: "reader", RW: scen.Union(scen.This(), scen.Comp("editor")), Restr: []scen.Restr{scen.RObj("user")}},
		}}},
		Tuples: []scen.Tuple{
			{Obj: "doc:1", Rel: "allowed", User: "user:*"}, {Obj: "doc:1", Rel: "blocked", User: "user:bob"},
			{Obj: "doc:2", Rel: "allowed", User: "user:anne"}, {Obj: "doc:2", Rel: "allowed", User: "group:1#member"},
			{Obj: "group:1", Rel: "member", User: "user:carl"}, {Obj: "doc:3", Rel: "parent", User: "folder:1"},
			{Obj: "folder:1", Rel: "viewer", User: "group:1#member"}, {Obj: "doc:3", Rel: "reader", User: "user:dora"},
			{Obj: "doc:2", Rel: "blocked", User: "user:carl"},
		}}
	env, err := scen.NewEnv(ctx, s)
	if err != nil {
		panic(err)
	}
	defer env.Close()
	ref := probeServer(env.DS, false, true)
	defer ref.Close()
	want := map[probeReq]int{}
	refAns := func(q probeReq) int {
		if c, ok := want[q]; ok {
			return c
		}
		c := probeCheck(ctx, ref, env, q)
		if c2 := probeCheck(ctx, ref, env, q); c2 != c {
			w.Stat("probe_fault_reference_unstable", 1)
			c = -1
		}
		want[q] = c
		return c
	}
	compare := func(what string, srv *server.Server, seq []probeReq, skipFirst bool) {
		for i, q := range seq {
			got := probeCheck(ctx, srv, env, q)
			w.Stat("probe_fault_requests", 1)
			if skipFirst && i == 0 {
				continue // the request that met the fault may fail
			}
			if exp := refAns(q); exp >= 0 && got != exp {
				w.Stat("probe_fault_mismatch", 1)
				w.PropFail(fmt.Sprintf("%s: step %d Check(%s#%s@%s) with the query cache = %s, without = %s (weighted-graph server, acyclic model, store unchanged)",
					what, i, q.obj, q.rel, q.user, classNames[got], classNames[exp]), map[string]any{"probe": what, "step": i})
			}
		}
	}
	// (a) shapes the weighted-graph engine rejects (fallback to the default engine), repeated
	var seq []probeReq
	for _, o := range []string{"doc:1", "doc:2", "doc:3"} {
		for _, rel := range []string{"viewer", "editor", "reader", "allowed"} {
			for _, u := range []string{"user:*", "group:1#member", "user:anne", "user:*", "user:bob", "group:1#member", "user:carl", "user:*"} {
				seq = append(seq, probeReq{o, rel, u})
			}
		}
	}
	srv := probeServer(env.DS, true, true)
	compare("fallback shapes repeated", srv, seq, false)
	srv.Close()
	// (b) transient fault at the k-th read of a request, then healthy
	for _, q := range []probeReq{{"doc:2", "allowed", "user:anne"}, {"doc:2", "viewer", "user:anne"}, {"doc:2", "viewer", "user:carl"},
		{"doc:3", "editor", "user:carl"}, {"doc:3", "reader", "user:dora"}, {"doc:1", "viewer", "user:anne"}, {"doc:2", "reader", "user:carl"}} {
		for k := 1; k <= 4; k++ {
			fds := &faultDS{OpenFGADatastore: env.DS}
			srv := probeServer(fds, true, true)
			fds.arm(k)
			compare(fmt.Sprintf("transient fault at read %d", k), srv,
				[]probeReq{q, q, q, {q.obj, "viewer", q.user}, {q.obj, "editor", q.user}, {q.obj, "reader", q.user}, q}, true)
			fds.arm(0)
			w.Stat("probe_fault_injected", int(fds.fired.Load()))
			srv.Close()
		}
	}
}

// ---- a datastore that holds one read back until released -------------------------------------------

type gateDS struct {
	storage.OpenFGADatastore
	mu               sync.Mutex
	armed            bool
	slowObj, slowRel string
	fastObj, fastRel string
	reached, resumed chan struct{}
	released         chan struct{}
}

func (d *gateDS) arm(slowObj, slowRel, fastObj, fastRel string) {
	d.mu.Lock()
	defer d.mu.Unlock()
	d.armed = true
	if os.Getenv("C08_DEBUG") != "" {
		fmt.Fprintf(os.Stderr, "ARM %p\n", d)
	}
	d.slowObj, d.slowRel, d.fastObj, d.fastRel = slowObj, slowRel, fastObj, fastRel
	d.reached, d.resumed, d.released = make(chan struct{}), make(chan struct{}), make(chan struct{})
}

func (d *gateDS) disarm() {
	if os.Getenv("C08_DEBUG") != "" {
		fmt.Fprintf(os.Stderr, "DISARM %p\n", d)
	}
	d.mu.Lock()
	d.armed = false
	d.mu.Unlock()
}

func (d *gateDS) ReadUserTuple(ctx context.Context, store string, f storage.ReadUserTupleFilter, o storage.ReadUserTupleOptions) (*openfgav1.Tuple, error) {
	if os.Getenv("C08_DEBUG") != "" {
		fmt.Fprintf(os.Stderr, "gate read %p %s#%s@%s\n", d, f.Object, f.Relation, f.User)
	}
	d.mu.Lock()
	isSlow := d.armed && f.Object == d.slowObj && f.Relation == d.slowRel
	isFast := d.armed && f.Object == d.fastObj && f.Relation == d.fastRel
	reached, resumed, released := d.reached, d.resumed, d.released
	if isSlow {
		d.armed = false
	}
	d.mu.Unlock()
	if os.Getenv("C08_DEBUG") != "" {
		fmt.Fprintf(os.Stderr, "  slow=%v fast=%v armed=%v want slow %s#%s fast %s#%s\n", isSlow, isFast, d.armed, d.slowObj, d.slowRel, d.fastObj, d.fastRel)
	}
	switch {
	case isSlow:
		close(reached)
		defer close(released)
		select {
		case <-resumed:
		case <-time.After(5 * time.Second):
		}
	case isFast:
		select {
		case <-reached:
			time.Sleep(120 * time.Millisecond) // let the evaluation above the slow read park in its select loops
		case <-time.After(2 * time.Second):
		}
	}
	return d.OpenFGADatastore.ReadUserTuple(ctx, store, f, o)
}

func gateProbe(ctx context.Context, w *rec.Writer) {
	user := scen.TypeDef{Name: "user"}
	// (org.member also takes team#member: with [user] alone the planner may pick the weight-2 fast path
	// for the tuple-to-userset hops, which does not dispatch)
	team := scen.TypeDef{Name: "team", Rels: []scen.RelDef{{Name: "member", RW: scen.This(), Restr: []scen.Restr{scen.RObj("user")}}}}
	org := scen.TypeDef{Name: "org", Rels: []scen.RelDef{{Name: "member", RW: scen.This(), Restr: []scen.Restr{scen.RObj("user"), scen.RSet("team", "member")}}}}
	bare := []scen.RelDef{
		{Name: "org", RW: scen.This(), Restr: []scen.Restr{scen.RObj("org")}},
		{Name: "viewer", RW: scen.TTU("org", "member")}}
	viaComputed := []scen.RelDef{
		{Name: "org", RW: scen.This(), Restr: []scen.Restr{scen.RObj("org")}},
		{Name: "fview", RW: scen.TTU("org", "member")},
		{Name: "viewer", RW: scen.Comp("fview")}}
	docRels := func(viewer *scen.Rewrite, restr []scen.Restr) []scen.RelDef {
		return []scen.RelDef{
			{Name: "parent", RW: scen.This(), Restr: []scen.Restr{scen.RObj("folder")}},
			{Name: "owner", RW: scen.This(), Restr: []scen.Restr{scen.RObj("user")}},
			{Name: "viewer", RW: viewer, Restr: restr}}
	}
	type shape struct {
		name    string
		folder  []scen.RelDef
		doc     []scen.RelDef
		fastRel string // the direct read that answers `allowed`
		userset bool   // S is reached through a userset tuple instead of the parent hop
	}
	shapes := []shape{
		{"owner or viewer from parent", bare, docRels(scen.Union(scen.Comp("owner"), scen.TTU("parent", "viewer")), nil), "owner", false},
		{"viewer from parent or owner", bare, docRels(scen.Union(scen.TTU("parent", "viewer"), scen.Comp("owner")), nil), "owner", false},
		{"[user, folder#viewer]", bare, docRels(scen.This(), []scen.Restr{scen.RObj("user"), scen.RSet("folder", "viewer")}), "viewer", true},
		{"owner or viewer from parent, S behind a computed userset", viaComputed, docRels(scen.Union(scen.Comp("owner"), scen.TTU("parent", "viewer")), nil), "owner", false},
	}
	for si, sh := range shapes {
		r := fmt.Sprint(si + 1)
		s := &scen.Scenario{Shape: "probe-gate", Types: []scen.TypeDef{user, team, org, {Name: "folder", Rels: sh.folder}, {Name: "doc", Rels: sh.doc}},
			Tuples: []scen.Tuple{{Obj: "doc:" + r, Rel: sh.fastRel, User: "user:anne"}, {Obj: "folder:" + r, Rel: "org", User: "org:" + r},
				{Obj: "org:" + r, Rel: "member", User: "user:anne"}}}
		if sh.userset {
			s.Tuples = append(s.Tuples, scen.Tuple{Obj: "doc:" + r, Rel: "viewer", User: "folder:" + r + "#viewer"})
		} else {
			s.Tuples = append(s.Tuples, scen.Tuple{Obj: "doc:" + r, Rel: "parent", User: "folder:" + r})
		}
		env, err := scen.NewEnv(ctx, s)
		if err != nil {
			panic(err)
		}
		gated := &gateDS{OpenFGADatastore: env.DS}
		cached := probeServer(gated, true, false)
		plain := probeServer(env.DS, false, false)
		compare := func(step string, q probeReq) {
			exp := probeCheck(ctx, plain, env, q)
			got := probeCheck(ctx, cached, env, q)
			w.Stat("probe_gate_requests", 1)
			if got != exp {
				w.Stat("probe_gate_mismatch", 1)
				w.PropFail(fmt.Sprintf("gate probe `%s`, %s: Check(%s#%s@%s) with the query cache = %s, without = %s (default engine, acyclic model, store unchanged)",
					sh.name, step, q.obj, q.rel, q.user, classNames[got], classNames[exp]), map[string]any{"probe": "gate", "shape": sh.name})
			}
		}
		gated.arm("org:"+r, "member", "doc:"+r, sh.fastRel)
		compare("request 1 (the sibling branch is abandoned)", probeReq{"doc:" + r, "viewer", "user:anne"})
		select {
		case <-gated.reached:
			w.Stat("probe_gate_interleaving_forced", 1)
		default:
			w.Stat("probe_gate_interleaving_missed", 1)
		}
		gated.disarm()
		time.Sleep(30 * time.Millisecond)
		close(gated.resumed)
		select {
		case <-gated.released:
		case <-time.After(200 * time.Millisecond):
		}
		time.Sleep(60 * time.Millisecond)
		for i := 0; i < 2; i++ {
			compare("afterwards", probeReq{"folder:" + r, "viewer", "user:anne"})
			compare("afterwards", probeReq{"org:" + r, "member", "user:anne"})
			compare("afterwards", probeReq{"doc:" + r, "viewer", "user:anne"})
		}
		cached.Close()
		plain.Close()
		env.Close()
	}
}
