//go:build verif

// Driver for C11 (the cache controller bounds staleness after writes).
//
// Every case builds, from the real code of /repo,
//
//	memory datastore  <- gate wrapper (ReadChanges can be held before and after the inner read)
//	storage.InMemoryLRUCache (theine)  <- recording wrapper (every Set with its TTL is noted)
//	cachecontroller.NewCacheController(gate, cache, interval, queryTTL, iteratorTTL)
//	storagewrappers.NewCachedDatastore(counting reader over the same datastore, same cache, iteratorTTL, jitter)
//	graph.NewCachedCheckResolver(same cache, queryTTL, jitter) with a delegate that performs the
//	  request's datastore reads (through the CachedDatastore when the iterator cache is on)
//
// and drives them with a generated timeline of writes/deletes, requests (DetermineInvalidationTime +
// cached resolution), explicit InvalidateIfNeeded calls and the two gates of the asynchronous run
// (InvRead = let ReadChanges perform its read, InvFinish = let it return and wait for the run's
// WaitGroup).  Nothing sleeps to "let a goroutine finish": the in-flight map and the WaitGroup of
// the controller (unexported, read through reflect/unsafe) make start and completion deterministic.
//
// Timing: operations are scheduled on a 20 ms grid, TTLs are odd multiples of 10 ms; the instants of
// every operation are MEASURED (ns since the case began) and the Coq model is replayed on the
// measured instants.  A case is discarded (and counted) when any pair of operations lies within
// guardNS of ANY of the case's TTLs apart, so that no time comparison of the implementation can
// fall on the other side than the model's.
package main

import (
	"bufio"
	"context"
	"encoding/json"
	"fmt"
	"os"
	"reflect"
	"sort"
	"strconv"
	"strings"
	"sync"
	"time"
	"unsafe"

	"github.com/oklog/ulid/v2"
	openfgav1 "github.com/openfga/api/proto/openfga/v1"
	"golang.org/x/sync/singleflight"

	"github.com/openfga/openfga/internal/cachecontroller"
	"github.com/openfga/openfga/internal/graph"
	"github.com/openfga/openfga/internal/verifharness/lib/rec"
	"github.com/openfga/openfga/pkg/storage"
	"github.com/openfga/openfga/pkg/storage/cache/keys"
	"github.com/openfga/openfga/pkg/storage/memory"
	"github.com/openfga/openfga/pkg/storage/storagewrappers"
	"github.com/openfga/openfga/pkg/tuple"
)

const (
	slotNS  = int64(20 * time.Millisecond)
	guardNS = int64(6 * time.Millisecond)
	// a run aborts silently when ReadChanges takes longer than one second
	runLimitNS = int64(850 * time.Millisecond)
)

// ---------------------------------------------------------------------------------------------
// vocabulary: strings of the real system <-> identifiers of the model

const (
	relViewer = 1 // doc:d#viewer@group:g#member   (ReadUsersetTuples)
	relParent = 2 // doc:d#parent@folder:f         (Read)
	relEditor = 3 // doc:x#editor@user:u | user:*  (ReadStartingWithUser)
	relOwner  = 4 // doc:x#owner@user:u            (ReadStartingWithUser; shares the UOT marker with editor)
)

var relName = map[int]string{relViewer: "viewer", relParent: "parent", relEditor: "editor", relOwner: "owner"}

// user ids: 1..9 user:uN, 50 user:*, 100+N group:gN#member, 1000+N folder:fN
func userString(id int) string {
	switch {
	case id == 50:
		return "user:*"
	case id < 50:
		return "user:u" + strconv.Itoa(id)
	case id < 1000:
		return "group:g" + strconv.Itoa(id-100) + "#member"
	default:
		return "folder:f" + strconv.Itoa(id-1000)
	}
}

func userID(s string) int {
	switch {
	case s == "user:*":
		return 50
	case strings.HasPrefix(s, "user:u"):
		n, _ := strconv.Atoi(s[len("user:u"):])
		return n
	case strings.HasPrefix(s, "group:g"):
		n, _ := strconv.Atoi(strings.TrimSuffix(s[len("group:g"):], "#member"))
		return 100 + n
	case strings.HasPrefix(s, "folder:f"):
		n, _ := strconv.Atoi(s[len("folder:f"):])
		return 1000 + n
	}
	return -1
}

type tup struct {
	User int  `json:"u"`
	Oid  int  `json:"o"`
	Rel  int  `json:"r"`
	Del  bool `json:"d,omitempty"`
}

func (t tup) key() *openfgav1.TupleKey {
	return tuple.NewTupleKey("doc:"+strconv.Itoa(t.Oid), relName[t.Rel], userString(t.User))
}

// iterator keys
type ikey struct {
	Kind  int   `json:"k"` // 0 Read, 1 ReadUsersetTuples, 2 ReadStartingWithUser
	Oid   int   `json:"o,omitempty"`
	Rel   int   `json:"r"`
	Users []int `json:"u,omitempty"`
}

func (k ikey) v() rec.V {
	if k.Kind == 2 {
		return rec.L(rec.I(1), rec.LI(k.Users), rec.I(1), rec.I(k.Rel))
	}
	return rec.L(rec.I(0), rec.I(k.Kind), rec.I(1), rec.I(k.Oid), rec.I(k.Rel))
}

// ---------------------------------------------------------------------------------------------
// timeline description (enough to re-run the case)

// a sub-problem: identity, own reads (indices into the key pool), dispatched children (identities)
type qnode struct {
	Id   int   `json:"id"`
	Keys []int `json:"q,omitempty"`
	Kids []int `json:"c,omitempty"`
}

type opDesc struct {
	K    string  `json:"k"`           // w r i rd f
	Slot int     `json:"s"`           // slots (20 ms) to wait before the operation, relative to the previous one
	Ws   []tup   `json:"w,omitempty"` // w
	Keys []int   `json:"q,omitempty"` // r without sub-problems: indices into the key pool
	T    []qnode `json:"t,omitempty"` // r with sub-problems: the nodes, root first (identities >= 50)
}

type caseDesc struct {
	Seed uint64 `json:"seed"`
	Idx  int    `json:"idx"`
	Tmpl string `json:"tmpl"`
	Qon  bool   `json:"qon"`
	Ion  bool   `json:"ion"`
	Qttl int    `json:"qttl"` // ms
	Ittl int    `json:"ittl"`
	Intv int    `json:"intv"`
	Jit  int    `json:"jit"`
	Ops  []opDesc `json:"ops,omitempty"`
	Nt   *bool  `json:"nt,omitempty"`
}

var keyPool = []ikey{
	{Kind: 1, Oid: 1, Rel: relViewer},
	{Kind: 1, Oid: 2, Rel: relViewer},
	{Kind: 0, Oid: 1, Rel: relParent},
	{Kind: 2, Rel: relEditor, Users: []int{1}},
	{Kind: 2, Rel: relEditor, Users: []int{1, 50}},
	{Kind: 2, Rel: relOwner, Users: []int{1}},
	{Kind: 2, Rel: relOwner, Users: []int{2}},
}

// ---------------------------------------------------------------------------------------------
// wrappers around the real datastore and the real cache

type runGate struct {
	g1, g2   chan struct{}
	readDone chan struct{}
}

type gateDS struct {
	storage.OpenFGADatastore
	arrive chan *runGate
}

func (g *gateDS) ReadChanges(ctx context.Context, store string, filter storage.ReadChangesFilter, opts storage.ReadChangesOptions) ([]*openfgav1.TupleChange, string, error) {
	rg := &runGate{g1: make(chan struct{}), g2: make(chan struct{}), readDone: make(chan struct{})}
	g.arrive <- rg
	<-rg.g1
	res, tok, err := g.OpenFGADatastore.ReadChanges(ctx, store, filter, opts)
	close(rg.readDone)
	<-rg.g2
	return res, tok, err
}

// countReader counts the reads that reach the datastore
type countReader struct {
	storage.RelationshipTupleReader
	mu sync.Mutex
	n  int
	// racing read: when armed, a read that reached the datastore is held AFTER the datastore has selected
	// its rows and BEFORE the iterator is handed back to the caller
	armed   bool
	held    chan struct{}
	release chan struct{}
}

func (c *countReader) pause() {
	c.mu.Lock()
	a := c.armed
	c.armed = false
	c.mu.Unlock()
	if a {
		c.held <- struct{}{}
		<-c.release
	}
}

func (c *countReader) bump() { c.mu.Lock(); c.n++; c.mu.Unlock() }
func (c *countReader) count() int {
	c.mu.Lock()
	defer c.mu.Unlock()
	return c.n
}
func (c *countReader) Read(ctx context.Context, store string, f storage.ReadFilter, o storage.ReadOptions) (storage.TupleIterator, error) {
	c.bump()
	it, err := c.RelationshipTupleReader.Read(ctx, store, f, o)
	c.pause()
	return it, err
}
func (c *countReader) ReadUsersetTuples(ctx context.Context, store string, f storage.ReadUsersetTuplesFilter, o storage.ReadUsersetTuplesOptions) (storage.TupleIterator, error) {
	c.bump()
	it, err := c.RelationshipTupleReader.ReadUsersetTuples(ctx, store, f, o)
	c.pause()
	return it, err
}
func (c *countReader) ReadStartingWithUser(ctx context.Context, store string, f storage.ReadStartingWithUserFilter, o storage.ReadStartingWithUserOptions) (storage.TupleIterator, error) {
	c.bump()
	it, err := c.RelationshipTupleReader.ReadStartingWithUser(ctx, store, f, o)
	c.pause()
	return it, err
}

type setEv struct {
	key keys.Key
	val any
	ttl time.Duration
}

type recCache struct {
	inner storage.InMemoryCache[any]
	mu    sync.Mutex
	sets  []setEv
}

func (c *recCache) Get(k keys.Key) any { return c.inner.Get(k) }
func (c *recCache) Set(k keys.Key, v any, ttl time.Duration) {
	c.mu.Lock()
	c.sets = append(c.sets, setEv{k, v, ttl})
	c.mu.Unlock()
	c.inner.Set(k, v, ttl)
}
func (c *recCache) Delete(k keys.Key) { c.inner.Delete(k) }
func (c *recCache) Stop()             { c.inner.Stop() }
func (c *recCache) take() []setEv {
	c.mu.Lock()
	defer c.mu.Unlock()
	s := c.sets
	c.sets = nil
	return s
}

// ---------------------------------------------------------------------------------------------
// the delegate below the CachedCheckResolver: performs the reads of the request

type readObs struct {
	hit     bool
	content [][3]int // (user, oid, rel) sorted
}

type delegate struct {
	cs    *caseState
	mu    sync.Mutex
	calls int
	side  map[uint64][][][3]int
	next  uint64
}

func (d *delegate) ResolveCheck(ctx context.Context, req *graph.ResolveCheckRequest) (*graph.ResolveCheckResponse, error) {
	d.mu.Lock()
	d.calls++
	d.next++
	id := d.next
	d.mu.Unlock()
	obj := req.GetTupleKey().GetObject() // "q:<identity of the sub-problem>"
	ni, _ := strconv.Atoi(strings.TrimPrefix(obj, "q:"))
	node := d.cs.nodes[ni]
	var contents [][][3]int
	for _, ob := range d.cs.readKeys(node.Keys) {
		contents = append(contents, ob.content)
	}
	// dispatch the children through the resolver chain (i.e. through the query cache), handing down
	// the invalidation time like ResolveCheckRequest.clone() does
	for _, kid := range node.Kids {
		contents = append(contents, d.cs.resolveNode(ctx, kid, req.GetLastCacheInvalidationTime())...)
	}
	d.mu.Lock()
	d.side[id] = contents
	d.mu.Unlock()
	return &graph.ResolveCheckResponse{Allowed: true, ResolutionMetadata: graph.ResolveCheckResponseMetadata{DatastoreItemCount: id}}, nil
}
func (d *delegate) Close()                                {}
func (d *delegate) SetDelegate(graph.CheckResolver)       {}
func (d *delegate) GetDelegate() graph.CheckResolver      { return d }

// ---------------------------------------------------------------------------------------------
// one case

type caseState struct {
	d        caseDesc
	ctx      context.Context
	store    string
	model    string
	mem      storage.OpenFGADatastore
	gate     *gateDS
	cache    *recCache
	ctrl     cachecontroller.CacheController
	inflight *sync.Map
	ctrlWG   *sync.WaitGroup
	counter  *countReader
	cds      *storagewrappers.CachedDatastore
	cdsWG    *sync.WaitGroup
	resolver *graph.CachedCheckResolver
	dlg      *delegate
	lists    [][]int // key lists that have been requested (index = query id)
	listIdx  map[string]int

	t0      time.Time
	nchg    int     // changelog length
	chgTS   []int64 // unix nanos of every change
	pending *runGate
	phase   int // 0 no run, 1 waiting before the read, 2 read done
	spawnAt int64
	readLen int
	present map[tup]bool

	markerIdx map[keys.Key]rec.V
	lost      bool

	nodes map[int]qnode
	curQ  []bool // query-cache hit or miss of every sub-problem looked up by the current request, in order
	curI  []bool // iterator-cache hit or miss of every read performed by the current request, in order
}

func (cs *caseState) now() int64 { return int64(time.Since(cs.t0)) }

// waitCtrl waits for the controller's goroutines.  A run the driver does not know about (possible only
// after a run gave up on its one-second ReadChanges timeout while the machine stalled) is let through
// and the case is marked lost, so that nothing can block forever.
func (cs *caseState) waitCtrl() {
	done := make(chan struct{})
	go func() { cs.ctrlWG.Wait(); close(done) }()
	for {
		select {
		case <-done:
			return
		case rg := <-cs.gate.arrive:
			close(rg.g1)
			close(rg.g2)
			cs.lost = true
		}
	}
}

// reap: the run we hold has given up (timeout): release its reader goroutine
func (cs *caseState) reap() bool {
	if cs.phase == 0 || cs.isInflight() {
		return false
	}
	if cs.phase == 1 {
		close(cs.pending.g1)
	}
	close(cs.pending.g2)
	cs.phase = 0
	cs.pending = nil
	cs.waitCtrl()
	return true
}

func (cs *caseState) isInflight() bool {
	_, ok := cs.inflight.Load(cs.store)
	return ok
}

// after a call that may have spawned a run: wait until its goroutine stands at the first gate
func (cs *caseState) noteSpawn(before bool) bool {
	if before || !cs.isInflight() {
		return false
	}
	rg := <-cs.gate.arrive
	cs.pending = rg
	cs.phase = 1
	cs.spawnAt = cs.now()
	return true
}

// resolveNode resolves one sub-problem the way the resolver chain does: through the query cache when
// it is enabled.  It returns the contents of all reads the answer consists of.
func (cs *caseState) resolveNode(ctx context.Context, id int, tinv time.Time) [][][3]int {
	idx := len(cs.curQ)
	cs.curQ = append(cs.curQ, false)
	if !cs.d.Qon {
		node := cs.nodes[id]
		var contents [][][3]int
		for _, ob := range cs.readKeys(node.Keys) {
			contents = append(contents, ob.content)
		}
		for _, kid := range node.Kids {
			contents = append(contents, cs.resolveNode(ctx, kid, tinv)...)
		}
		return contents
	}
	req, err := graph.NewResolveCheckRequest(graph.ResolveCheckRequestParams{
		StoreID: cs.store, AuthorizationModelID: cs.model,
		TupleKey:                  tuple.NewTupleKey("q:"+strconv.Itoa(id), "r", "user:q"),
		LastCacheInvalidationTime: tinv,
	})
	if err != nil {
		panic(err)
	}
	calls := cs.dlg.calls
	resp, err := cs.resolver.ResolveCheck(ctx, req)
	if err != nil {
		panic(err)
	}
	cs.curQ[idx] = cs.dlg.calls == calls
	cs.dlg.mu.Lock()
	defer cs.dlg.mu.Unlock()
	return cs.dlg.side[resp.GetResolutionMetadata().DatastoreItemCount]
}

func (cs *caseState) nodeV(id int) rec.V {
	n := cs.nodes[id]
	kvs := make([]rec.V, len(n.Keys))
	for i, ki := range n.Keys {
		kvs[i] = keyPool[ki].v()
	}
	cvs := make([]rec.V, len(n.Kids))
	for i, k := range n.Kids {
		cvs[i] = cs.nodeV(k)
	}
	return rec.L(rec.I(id), rec.L(kvs...), rec.L(cvs...))
}

func (cs *caseState) readKeys(ks []int) []readObs {
	out := make([]readObs, 0, len(ks))
	var reader storage.RelationshipTupleReader = cs.counter
	if cs.d.Ion {
		reader = cs.cds
	}
	for _, ki := range ks {
		k := keyPool[ki]
		before := cs.counter.count()
		var it storage.TupleIterator
		var err error
		switch k.Kind {
		case 0:
			it, err = reader.Read(cs.ctx, cs.store, storage.ReadFilter{Object: "doc:" + strconv.Itoa(k.Oid), Relation: relName[k.Rel]}, storage.ReadOptions{})
		case 1:
			it, err = reader.ReadUsersetTuples(cs.ctx, cs.store, storage.ReadUsersetTuplesFilter{
				Object: "doc:" + strconv.Itoa(k.Oid), Relation: relName[k.Rel],
				AllowedUserTypeRestrictions: []*openfgav1.RelationReference{{Type: "group", RelationOrWildcard: &openfgav1.RelationReference_Relation{Relation: "member"}}},
			}, storage.ReadUsersetTuplesOptions{})
		default:
			uf := make([]*openfgav1.ObjectRelation, 0, len(k.Users))
			for _, u := range k.Users {
				uf = append(uf, &openfgav1.ObjectRelation{Object: userString(u)})
			}
			it, err = reader.ReadStartingWithUser(cs.ctx, cs.store, storage.ReadStartingWithUserFilter{ObjectType: "doc", Relation: relName[k.Rel], UserFilter: uf}, storage.ReadStartingWithUserOptions{})
		}
		if err != nil {
			panic(err)
		}
		var content [][3]int
		for {
			t, e := it.Next(cs.ctx)
			if e != nil {
				break
			}
			tk := t.GetKey()
			_, oid := tuple.SplitObject(tk.GetObject())
			o, _ := strconv.Atoi(oid)
			r := 0
			for id, nm := range relName {
				if nm == tk.GetRelation() {
					r = id
				}
			}
			content = append(content, [3]int{userID(tk.GetUser()), o, r})
		}
		it.Stop()
		cs.cdsWG.Wait() // the flush goroutine of the cached iterator
		sort.Slice(content, func(i, j int) bool {
			a, b := content[i], content[j]
			if a[0] != b[0] {
				return a[0] < b[0]
			}
			if a[1] != b[1] {
				return a[1] < b[1]
			}
			return a[2] < b[2]
		})
		out = append(out, readObs{hit: cs.counter.count() == before, content: content})
		cs.curI = append(cs.curI, cs.counter.count() == before)
	}
	return out
}

func contentV(c [][3]int) rec.V {
	vs := make([]rec.V, len(c))
	for i, x := range c {
		vs[i] = rec.L(rec.I(x[0]), rec.I(x[1]), rec.I(x[2]))
	}
	return rec.L(vs...)
}

type caseResult struct {
	desc    caseDesc
	vals    []rec.V
	discard string
	stats   map[string]int
}

type opTimes struct{ tb, ta int64 }

func runCase(d caseDesc) (res caseResult) {
	if strings.HasPrefix(d.Tmpl, "e2e_") {
		return runE2E(d)
	}
	res.desc = d
	res.stats = map[string]int{}
	ctx := context.Background()
	mem := memory.New()
	defer mem.Close()
	lru, err := storage.NewInMemoryLRUCache[any]()
	if err != nil {
		panic(err)
	}
	cache := &recCache{inner: lru}
	defer cache.Stop()
	gate := &gateDS{OpenFGADatastore: mem, arrive: make(chan *runGate, 4)}
	ms := func(x int) time.Duration { return time.Duration(x) * time.Millisecond }
	ctrl := cachecontroller.NewCacheController(gate, cache, ms(d.Intv), ms(d.Qttl), ms(d.Ittl))
	cv := reflect.ValueOf(ctrl).Elem()
	cs := &caseState{d: d, ctx: ctx, store: ulid.Make().String(), model: ulid.Make().String(), mem: mem, gate: gate, cache: cache, ctrl: ctrl,
		inflight: (*sync.Map)(unsafe.Pointer(cv.FieldByName("inflightInvalidations").UnsafeAddr())),
		ctrlWG:   (*sync.WaitGroup)(unsafe.Pointer(cv.FieldByName("wg").UnsafeAddr())),
		counter:  &countReader{RelationshipTupleReader: mem, held: make(chan struct{}, 1), release: make(chan struct{})}, cdsWG: &sync.WaitGroup{}, listIdx: map[string]int{}, present: map[tup]bool{}, nodes: map[int]qnode{}}
	cs.cds = storagewrappers.NewCachedDatastore(ctx, cs.counter, cache, 1000, ms(d.Ittl), &singleflight.Group{}, cs.cdsWG,
		storagewrappers.WithCachedDatastoreJitterPercentage(uint32(d.Jit)))
	cs.dlg = &delegate{cs: cs, side: map[uint64][][][3]int{}}
	cs.resolver, err = graph.NewCachedCheckResolver(graph.WithExistingCache(cache), graph.WithCacheTTL(ms(d.Qttl)), graph.WithJitterPercentage(uint32(d.Jit)))
	if err != nil {
		panic(err)
	}
	cs.resolver.SetDelegate(cs.dlg)
	cs.buildMarkerIndex()

	var ops []rec.V
	var times []opTimes
	var kinds []byte             // w r i d f, parallel to times
	opTTL := map[int][]int64{} // jittered TTLs of the entries a request stored, by operation index
	cs.t0 = time.Now()
	target := int64(0)

	doRead := func() {
		tb := cs.now()
		did := cs.phase == 1
		if did {
			close(cs.pending.g1)
			<-cs.pending.readDone
			cs.phase = 2
			cs.readLen = cs.nchg
		}
		ta := cs.now()
		times = append(times, opTimes{tb, ta})
		kinds = append(kinds, 'd')
		ops = append(ops, rec.L(rec.I(4), rec.I64(tb), rec.I64(ta), rec.Bool(did)))
	}
	doFinish := func() {
		tb := cs.now()
		did := cs.phase == 2
		clSet, clN, storeSet := false, 0, false
		clTTL, storeTTL, markTTL := int64(0), int64(0), int64(0)
		normTTL := func(t time.Duration) int64 {
			if t >= 365*24*time.Hour { // InMemoryLRUCache.Set truncates to one year
				return int64(365 * 24 * time.Hour)
			}
			return int64(t)
		}
		var marks []rec.V
		ta := tb
		if did {
			cache.take()
			if cs.now()-cs.spawnAt > runLimitNS {
				res.discard = "run_held_too_long"
			}
			close(cs.pending.g2)
			cs.waitCtrl()
			ta = cs.now()
			cs.phase = 0
			cs.pending = nil
			for _, ev := range cache.take() {
				switch v := ev.val.(type) {
				case *storage.ChangelogCacheEntry:
					clSet = true
					clTTL = normTTL(ev.ttl)
					lm := v.LastModified.UnixNano()
					for _, ts := range cs.chgTS {
						if ts <= lm {
							clN++
						}
					}
				case *storage.InvalidEntityCacheEntry:
					if ev.key == storage.InvalidIteratorCacheKey(cs.store) {
						storeSet = true
						storeTTL = normTTL(ev.ttl)
						continue
					}
					if markTTL == 0 || markTTL == normTTL(ev.ttl) {
						markTTL = normTTL(ev.ttl)
					} else {
						markTTL = -1
					}
					marks = append(marks, cs.markerV(ev.key))
				}
			}
			if cs.isInflight() {
				res.discard = "inflight_after_wait"
			}
			if !clSet && !storeSet && len(marks) == 0 {
				// every completed run Sets the changelog entry or (ReadChanges error) the store-wide marker:
				// this one gave up on its ReadChanges timeout
				res.discard = "run_timed_out"
			}
			switch {
			case !clSet && storeSet:
				res.stats["run_decision_error_empty_changelog"]++
			case storeSet:
				res.stats["run_decision_full"]++
			case len(marks) > 0:
				res.stats["run_decision_partial"]++
			default:
				res.stats["run_decision_none"]++
			}
		} else {
			ta = cs.now()
		}
		times = append(times, opTimes{tb, ta})
		kinds = append(kinds, 'f')
		ops = append(ops, rec.L(rec.I(5), rec.I64(tb), rec.I64(ta), rec.Bool(did), rec.Bool(clSet), rec.I(clN), rec.Bool(storeSet), rec.L(marks...), rec.I(cs.readLen), rec.I64(clTTL), rec.I64(storeTTL), rec.I64(markTTL)))
	}

	doWrite := func(ws []tup) []rec.V {
var dels storage.Deletes
			var wrs storage.Writes
			for _, t := range ws {
				if t.Del {
					dels = append(dels, tuple.TupleKeyToTupleKeyWithoutCondition(t.key()))
				} else {
					wrs = append(wrs, t.key())
				}
			}
			if err := mem.Write(ctx, cs.store, dels, wrs); err != nil {
				panic(fmt.Sprintf("write: %v", err))
			}
			chs, _, err := mem.ReadChanges(ctx, cs.store, storage.ReadChangesFilter{}, storage.ReadChangesOptions{Pagination: storage.PaginationOptions{PageSize: 100000}})
			if err != nil {
				panic(err)
			}
			var vs []rec.V
			for _, ch := range chs[cs.nchg:] {
				tk := ch.GetTupleKey()
				_, oid := tuple.SplitObject(tk.GetObject())
				oi, _ := strconv.Atoi(oid)
				r := 0
				for id, nm := range relName {
					if nm == tk.GetRelation() {
						r = id
					}
				}
				del := ch.GetOperation() == openfgav1.TupleOperation_TUPLE_OPERATION_DELETE
				vs = append(vs, rec.L(rec.I(userID(tk.GetUser())), rec.I(1), rec.I(oi), rec.I(r), rec.Bool(del)))
				cs.chgTS = append(cs.chgTS, ch.GetTimestamp().AsTime().UnixNano())
			}
			cs.nchg = len(chs)
			return vs
	}

	exec := func(o opDesc) {
		target += int64(o.Slot) * slotNS
		// a run must not be held for a second (ReadChanges has a 1 s timeout after which the run gives up
		// silently): force it through BEFORE sleeping when the operation would come too late
		when := target
		if n := cs.now(); n > when {
			when = n
		}
		if cs.phase != 0 && when-cs.spawnAt > int64(450*time.Millisecond) {
			if cs.phase == 1 {
				doRead()
			}
			doFinish()
			res.stats["forced_finish"]++
		}
		if w := target - cs.now(); w > 0 {
			time.Sleep(time.Duration(w))
		}
		if cs.reap() {
			res.discard = "run_timed_out"
			return
		}
		switch o.K {
		case "w":
			tb := cs.now()
			vs := doWrite(o.Ws)
			ta := cs.now()
			times = append(times, opTimes{tb, ta})
			kinds = append(kinds, 'w')
			ops = append(ops, rec.L(rec.I(1), rec.I64(tb), rec.I64(ta), rec.L(vs...)))
			res.stats["op_write"]++
			res.stats["changes"] += len(vs)
		case "rr":
			// a cached read that races with a write: rows selected, the write commits, the iterator is handed back
			cache.take()
			cs.curI = nil
			tb := cs.now()
			cs.counter.mu.Lock()
			cs.counter.armed = true
			cs.counter.mu.Unlock()
			done := make(chan []readObs, 1)
			go func() { done <- cs.readKeys(o.Keys[:1]) }()
			var obs []readObs
			var vs []rec.V
			select {
			case <-cs.counter.held:
				vs = doWrite(o.Ws)
				cs.counter.release <- struct{}{}
				obs = <-done
			case obs = <-done: // served from the cache: the write simply follows
				cs.counter.mu.Lock()
				cs.counter.armed = false
				cs.counter.mu.Unlock()
				vs = doWrite(o.Ws)
			}
			ta := cs.now()
			jx := int64(0)
			for _, ev := range cache.take() {
				if _, ok := ev.val.(*storage.TupleIteratorCacheEntry); ok {
					jx = int64(ev.ttl) - int64(ms(d.Ittl))
					opTTL[len(times)] = append(opTTL[len(times)], int64(ev.ttl))
				}
			}
			times = append(times, opTimes{tb, ta})
			kinds = append(kinds, 'x')
			ops = append(ops, rec.L(rec.I(6), rec.I64(tb), rec.I64(ta), keyPool[o.Keys[0]].v(), rec.L(vs...),
				rec.Bool(obs[0].hit), contentV(obs[0].content), rec.I64(jx)))
			res.stats["op_racing_read"]++
			if !obs[0].hit {
				res.stats["racing_read_across_write"]++
			}
			res.stats["changes"] += len(vs)
		case "r":
			root := 0
			if len(o.T) > 0 {
				for _, nd := range o.T {
					cs.nodes[nd.Id] = nd
				}
				root = o.T[0].Id
			} else {
				sig := fmt.Sprint(o.Keys)
				li, ok := cs.listIdx[sig]
				if !ok {
					li = len(cs.lists)
					cs.lists = append(cs.lists, o.Keys)
					cs.listIdx[sig] = li
				}
				cs.nodes[li] = qnode{Id: li, Keys: o.Keys}
				root = li
			}
			cache.take()
			cs.curQ, cs.curI = nil, nil
			tb := cs.now()
			was := cs.isInflight()
			tinv := ctrl.DetermineInvalidationTime(ctx, cs.store)
			spawned := cs.noteSpawn(was)
			contents := cs.resolveNode(ctx, root, tinv)
			ta := cs.now()
			// jitter draws, observed through the TTLs of the Set calls (requests with sub-problems are only
			// generated without jitter)
			rootKeys := cs.nodes[root].Keys
			jq := int64(0)
			ji := make([]int64, len(rootKeys))
			for _, ev := range cache.take() {
				switch ev.val.(type) {
				case *graph.CheckResponseCacheEntry:
					jq = int64(ev.ttl) - int64(ms(d.Qttl))
					opTTL[len(times)] = append(opTTL[len(times)], int64(ev.ttl))
				case *storage.TupleIteratorCacheEntry:
					opTTL[len(times)] = append(opTTL[len(times)], int64(ev.ttl))
					for i, ki := range rootKeys {
						if ev.key == cs.iterKey(keyPool[ki]) {
							ji[i] = int64(ev.ttl) - int64(ms(d.Ittl))
						}
					}
				}
			}
			cvs := make([]rec.V, len(contents))
			for i, ct := range contents {
				cvs[i] = contentV(ct)
			}
			bools := func(bs []bool) rec.V {
				vs := make([]rec.V, len(bs))
				for i, b := range bs {
					vs[i] = rec.Bool(b)
				}
				return rec.L(vs...)
			}
			jvs := make([]rec.V, len(ji))
			for i, j := range ji {
				jvs[i] = rec.I64(j)
			}
			times = append(times, opTimes{tb, ta})
			kinds = append(kinds, 'r')
			ops = append(ops, rec.L(rec.I(2), rec.I64(tb), rec.I64(ta), cs.nodeV(root), rec.Bool(tinv.IsZero()), rec.Bool(spawned),
				bools(cs.curQ), bools(cs.curI), rec.L(cvs...), rec.I64(jq), rec.L(jvs...)))
			res.stats["op_request"]++
			if len(o.T) > 1 {
				res.stats["op_request_with_subproblems"]++
			}
			for i, h := range cs.curQ {
				switch {
				case i == 0 && h:
					res.stats["request_query_hit"]++
				case i > 0 && h:
					res.stats["subproblem_query_hit"]++
				case i > 0:
					res.stats["subproblem_query_miss"]++
				}
			}
			for _, h := range cs.curI {
				if h {
					res.stats["iterator_hit"]++
				} else {
					res.stats["datastore_read"]++
				}
			}
			if spawned {
				res.stats["run_spawned_by_request"]++
			}
		case "i":
			tb := cs.now()
			was := cs.isInflight()
			ctrl.InvalidateIfNeeded(ctx, cs.store)
			spawned := cs.noteSpawn(was)
			ta := cs.now()
			times = append(times, opTimes{tb, ta})
			kinds = append(kinds, 'i')
			ops = append(ops, rec.L(rec.I(3), rec.I64(tb), rec.I64(ta), rec.Bool(spawned)))
			if spawned {
				res.stats["run_spawned_explicitly"]++
			} else {
				res.stats["invalidate_swallowed"]++
			}
		case "rd":
			doRead()
		case "f":
			doFinish()
		}
	}
	for _, o := range d.Ops {
		if res.discard != "" || cs.lost {
			break
		}
		exec(o)
	}
	// let a run that is still in flight terminate
	if cs.phase == 1 {
		doRead()
	}
	if cs.phase == 2 {
		doFinish()
	}
	cs.waitCtrl()
	if cs.lost && res.discard == "" {
		res.discard = "lost_run"
	}

	// guard band.  Every time comparison of the controller and of the caches has the form
	// "instant of an earlier operation a + TTL  versus  instant of a later operation b":
	//   queryTTL     a: run finish (changelog entry) or request (query entry)   b: request or InvalidateIfNeeded
	//   iteratorTTL  a: write, b: run finish (window);  a: request or run finish (entry, markers), b: request
	//   interval     a: run finish (LastChecked)                                b: request
	//   the jittered TTL of an entry: a = the request that stored it,           b: request
	// A case in which such a pair lies within guardNS of the TTL apart is discarded.
	near := func(i, j int, T int64) bool {
		lo := times[j].tb - times[i].ta
		hi := times[j].ta - times[i].tb
		return lo-guardNS < T && T < hi+guardNS
	}
	qT, iT, vT := int64(ms(d.Qttl)), int64(ms(d.Ittl)), int64(ms(d.Intv))
	for i := 0; i < len(times) && res.discard == ""; i++ {
		if i > 0 && times[i].tb <= times[i-1].tb+1 {
			res.discard = "clock_not_strict"
		}
		for j := i + 1; j < len(times) && res.discard == ""; j++ {
			a, b := kinds[i], kinds[j]
			bad := false
			if a == 'x' || b == 'x' { // a racing read is a write and a request
				for _, T := range append([]int64{qT, iT, vT}, opTTL[i]...) {
					if near(i, j, T) {
						bad = true
					}
				}
			}
			if (a == 'f' || a == 'r') && (b == 'r' || b == 'i') && near(i, j, qT) {
				bad = true
			}
			if ((a == 'w' && b == 'f') || ((a == 'r' || a == 'f') && b == 'r')) && near(i, j, iT) {
				bad = true
			}
			if a == 'f' && b == 'r' && near(i, j, vT) {
				bad = true
			}
			if b == 'r' {
				for _, T := range opTTL[i] {
					if near(i, j, T) {
						bad = true
					}
				}
			}
			if bad {
				res.discard = "guard_band"
			}
		}
	}
	res.vals = []rec.V{
		rec.L(rec.Bool(d.Qon), rec.Bool(d.Ion), rec.I64(int64(ms(d.Qttl))), rec.I64(int64(ms(d.Ittl))), rec.I64(int64(ms(d.Intv))), rec.I(d.Jit)),
		rec.L(ops...),
	}
	return res
}

func (cs *caseState) iterKey(k ikey) keys.Key {
	switch k.Kind {
	case 0:
		return storage.ReadKey(cs.store, storage.ReadFilter{Object: "doc:" + strconv.Itoa(k.Oid), Relation: relName[k.Rel]})
	case 1:
		return storage.ReadUsersetTuplesKey(cs.store, storage.ReadUsersetTuplesFilter{
			Object: "doc:" + strconv.Itoa(k.Oid), Relation: relName[k.Rel],
			AllowedUserTypeRestrictions: []*openfgav1.RelationReference{{Type: "group", RelationOrWildcard: &openfgav1.RelationReference_Relation{Relation: "member"}}},
		})
	default:
		uf := make([]*openfgav1.ObjectRelation, 0, len(k.Users))
		for _, u := range k.Users {
			uf = append(uf, &openfgav1.ObjectRelation{Object: userString(u)})
		}
		return storage.ReadStartingWithUserKey(cs.store, storage.ReadStartingWithUserFilter{ObjectType: "doc", Relation: relName[k.Rel], UserFilter: uf})
	}
}

// which entity marker is this key?  (candidates: every object / user / relation that the timeline writes)
func (cs *caseState) buildMarkerIndex() {
	cs.markerIdx = map[keys.Key]rec.V{}
	for _, o := range cs.d.Ops {
		for _, t := range o.Ws {
			cs.markerIdx[storage.InvalidIteratorByObjectRelationCacheKey(cs.store, "doc:"+strconv.Itoa(t.Oid), relName[t.Rel])] =
				rec.L(rec.I(0), rec.I(1), rec.I(t.Oid), rec.I(t.Rel))
			cs.markerIdx[storage.InvalidIteratorByUserObjectTypeCacheKey(cs.store, userString(t.User), "doc")] =
				rec.L(rec.I(1), rec.I(t.User), rec.I(1))
		}
	}
}

func (cs *caseState) markerV(k keys.Key) rec.V {
	if v, ok := cs.markerIdx[k]; ok {
		return v
	}
	return rec.L(rec.I(9))
}

// ---------------------------------------------------------------------------------------------
// generator

type gen struct {
	r       *rec.Rand
	present map[[3]int]bool
	fresh   int
	ops     []opDesc
	d       *caseDesc
	lists   [][]int
	trees   [][]qnode // requests with sub-problems (only with the query cache and without jitter)
}

func (g *gen) add(k string, slot int) *opDesc {
	g.ops = append(g.ops, opDesc{K: k, Slot: slot})
	return &g.ops[len(g.ops)-1]
}

// one tuple change of the given family; mostly a new tuple, sometimes the deletion of a present one
func (g *gen) change(fam int, before map[[3]int]bool) tup {
	g.fresh++
	var t tup
	switch fam {
	case 0: // userset on doc:1 or doc:2 viewer
		t = tup{User: 100 + g.fresh, Oid: g.r.Range(1, 2), Rel: relViewer}
	case 1:
		t = tup{User: 1000 + g.fresh, Oid: 1, Rel: relParent}
	case 2:
		t = tup{User: rec.Pick(g.r, []int{1, 1, 2, 50}), Oid: 10 + g.fresh, Rel: rec.Pick(g.r, []int{relEditor, relEditor, relOwner})}
	default: // noise: touches no key of the pool, but its markers may (same user, other relation / other doc)
		t = tup{User: rec.Pick(g.r, []int{3, 100 + g.fresh}), Oid: 200 + g.fresh, Rel: relViewer}
	}
	if g.r.Chance(1, 4) {
		var cands [][3]int
		for p := range before {
			if !g.present[p] {
				continue
			}
			if (fam == 0 && p[2] == relViewer && p[1] <= 2) || (fam == 1 && p[2] == relParent) || (fam == 2 && (p[2] == relEditor || p[2] == relOwner)) {
				cands = append(cands, p)
			}
		}
		if len(cands) > 0 {
			sort.Slice(cands, func(i, j int) bool { return fmt.Sprint(cands[i]) < fmt.Sprint(cands[j]) })
			p := rec.Pick(g.r, cands)
			delete(g.present, p)
			return tup{User: p[0], Oid: p[1], Rel: p[2], Del: true}
		}
	}
	g.present[[3]int{t.User, t.Oid, t.Rel}] = true
	return t
}

func (g *gen) write(slot, n int, fam int) {
	o := g.add("w", slot)
	before := map[[3]int]bool{}
	for p := range g.present {
		before[p] = true
	}
	for i := 0; i < n; i++ {
		f := fam
		if f < 0 {
			f = rec.Pick(g.r, []int{0, 0, 1, 2, 2, 3})
		}
		o.Ws = append(o.Ws, g.change(f, before))
	}
}

func (g *gen) request(slot int) {
	o := g.add("r", slot)
	if len(g.trees) > 0 && g.r.Chance(1, 2) {
		o.T = rec.Pick(g.r, g.trees)
		return
	}
	o.Keys = rec.Pick(g.r, g.lists)
}

// raceRead: a cached read of one key of the pool racing with a write that touches that key
func (g *gen) raceRead(slot int) {
	ki := rec.Pick(g.r, []int{0, 2, 3, 4})
	g.fresh++
	var t tup
	switch ki {
	case 0:
		t = tup{User: 100 + g.fresh, Oid: 1, Rel: relViewer}
	case 2:
		t = tup{User: 1000 + g.fresh, Oid: 1, Rel: relParent}
	case 3:
		t = tup{User: 1, Oid: 10 + g.fresh, Rel: relEditor}
	default:
		t = tup{User: 50, Oid: 10 + g.fresh, Rel: relEditor}
	}
	g.present[[3]int{t.User, t.Oid, t.Rel}] = true
	o := g.add("rr", slot)
	o.Keys = []int{ki}
	o.Ws = []tup{t}
}

// reqAll requests every query of the case once
func (g *gen) reqAll(slot func() int) {
	for _, l := range g.lists {
		g.add("r", slot()).Keys = l
	}
	for _, t := range g.trees {
		g.add("r", slot()).T = t
	}
}

func (g *gen) gap() int {
	ttl := rec.Pick(g.r, []int{g.d.Qttl, g.d.Ittl, g.d.Intv})
	switch g.r.Intn(10) {
	case 0, 1, 2, 3:
		return 0
	case 4, 5, 6:
		return g.r.Range(1, 3)
	case 7, 8:
		s := ttl/20 + rec.Pick(g.r, []int{-2, -1, 0, 1, 2, 3})
		if s < 0 {
			s = 0
		}
		return s
	default:
		return g.r.Range(4, 12)
	}
}

func generate(seed uint64, idx int) caseDesc {
	r := rec.NewRand(seed*0x9e3779b97f4a7c15 + uint64(idx)*0xd6e8feb86659fd93 + 11)
	d := caseDesc{Seed: seed, Idx: idx}
	ttlChoices := []int{210, 250, 290, 330, 370}
	d.Qttl, d.Ittl = rec.Pick(r, ttlChoices), rec.Pick(r, ttlChoices)
	d.Intv = rec.Pick(r, []int{30, 90, 150, 250})
	switch m := r.Intn(20); {
	case m < 7:
		d.Qon = true
	case m < 15:
		d.Ion = true
	case m < 17:
		d.Qon, d.Ion = true, true
	case m < 18:
		d.Qon, d.Jit = true, rec.Pick(r, []int{50, 100})
	case m < 19:
		d.Ion, d.Jit = true, rec.Pick(r, []int{50, 100})
	default:
		d.Qon, d.Ion, d.Jit = true, true, 100
	}
	g := &gen{r: r, present: map[[3]int]bool{}, d: &d}
	// two or three key lists per case, so that the query cache is hit
	nl := r.Range(2, 3)
	for i := 0; i < nl; i++ {
		n := r.Range(1, 3)
		l := make([]int, n)
		for j := range l {
			l[j] = r.Intn(len(keyPool))
		}
		g.lists = append(g.lists, l)
	}
	if d.Qon && d.Jit == 0 && r.Chance(2, 3) {
		// sub-problem 50 is shared by the parents 51 and 52; 53 dispatches 51 (two levels)
		sub := qnode{Id: 50, Keys: g.lists[0]}
		p1 := qnode{Id: 51, Keys: g.lists[len(g.lists)-1][:1], Kids: []int{50}}
		p2 := qnode{Id: 52, Kids: []int{50}}
		top := qnode{Id: 53, Kids: []int{51}}
		g.trees = [][]qnode{{p1, sub}, {p2, sub}}
		if r.Bool() {
			g.trees = append(g.trees, []qnode{top, p1, sub})
		}
		if r.Bool() {
			g.trees = append(g.trees, []qnode{sub})
		}
	}
	if r.Chance(1, 8) { // a run over an empty changelog (ReadChanges fails with "not found")
		g.request(0)
		g.add("rd", r.Range(0, 1))
		g.add("f", 0)
		g.request(0)
	}
	g.write(0, r.Range(1, 3), -1)
	ttlSlots := func(ttl, delta int) int { return ttl/20 + delta }
	t := r.Intn(20)
	if d.Jit > 0 && !(d.Qon && d.Ion) && r.Chance(2, 3) {
		t = 100
	}
	if d.Ion && d.Jit == 0 && r.Chance(1, 6) {
		t = 101 + r.Intn(2)
	}
	if len(g.trees) > 0 && r.Chance(1, 4) {
		t = 103 + r.Intn(2)
	}
	if d.Ion && !d.Qon && d.Jit == 0 && r.Chance(1, 6) {
		t = 105
	}
	switch {
	case t == 100: // an entry whose jittered TTL outlives what the controller assumes
		d.Tmpl = "jitter_witness"
		g.reqAll(func() int { return 0 })
		g.add("rd", 0)
		g.add("f", 0)
		// the first run invalidated everything: populate again
		g.reqAll(func() int { return 0 })
		g.write(1, 2, -1)
		if d.Ion {
			// the write leaves the iterator TTL window before the run looks at it
			g.add("i", ttlSlots(d.Ittl, r.Range(1, 2)))
			g.add("rd", 0)
			g.add("f", 0)
		} else {
			// the changelog entry written by the run expires before the jittered query entry
			g.add("i", 0)
			g.add("rd", 0)
			g.add("f", 0)
			g.add("r", ttlSlots(d.Qttl, r.Range(1, 2))).Keys = g.lists[0]
		}
		g.reqAll(func() int { return 0 })
	case t == 101 || t == 102:
		// two invalidation keys with markers of different ages (ReadStartingWithUser with [user, user:*]):
		// an older, still living marker for one subject, the cached read taken after it, then a change for
		// the OTHER subject whose marker is the only one that is newer than the cached read
		d.Tmpl = "two_markers"
		first, second := 1, 50
		if t == 102 {
			d.Tmpl = "two_markers_mirror"
			first, second = 50, 1
		}
		T := d.Ittl / 20
		g.fresh++
		g.add("w", T+1).Ws = []tup{{User: first, Oid: 300 + g.fresh, Rel: relEditor}} // the ancient first write left the window
		g.add("i", 9)
		g.add("rd", 0)
		g.add("f", 0) // partial: marker for (first, doc)
		g.add("r", 0).Keys = []int{4} // [user:u1, user:*] editor: populated after that marker
		g.fresh++
		g.add("w", 0).Ws = []tup{{User: second, Oid: 300 + g.fresh, Rel: relEditor}}
		g.add("i", T+2-9) // by now the first change has left the window, its marker is still alive
		g.add("rd", 0)
		g.add("f", 0) // partial: marker for (second, doc) only
		g.add("r", 1).Keys = []int{4}
		g.reqAll(func() int { return 0 })
	case t == 105:
		// a read racing with a write, then a PARTIAL run (the first change has left the window): the markers
		// must be newer than the entry although the entry is not older than the write
		d.Tmpl = "racing_read"
		g.raceRead(d.Ittl/20 + r.Range(1, 3))
		last := g.ops[len(g.ops)-1]
		if r.Bool() {
			g.write(0, 1, 3)
		}
		g.add("i", r.Range(0, 2))
		g.add("rd", 0)
		g.add("f", 0)
		g.add("r", 0).Keys = last.Keys
		g.add("r", 1).Keys = last.Keys
		g.reqAll(func() int { return 0 })
	case t == 103: // sub-problems, admissible history: the run must invalidate parent and child
		d.Tmpl = "subproblem_quiet"
		g.reqAll(func() int { return 0 })
		g.add("rd", 0)
		g.add("f", 0)
		g.reqAll(func() int { return 0 })
		g.write(1, r.Range(1, 2), -1)
		g.add("i", r.Range(0, 2))
		g.add("rd", 0)
		g.add("f", r.Range(0, 1))
		g.reqAll(func() int { return 0 })
	case t == 104: // sub-problems: another parent is computed between the write and the run
		d.Tmpl = "subproblem_restamp"
		g.add("r", 0).T = g.trees[0]
		g.add("rd", 0)
		g.add("f", 0)
		g.add("r", 0).T = g.trees[0]
		g.write(1, 2, -1)
		g.add("r", r.Range(0, 1)).T = g.trees[1]
		g.add("i", r.Range(0, 1))
		g.add("rd", 0)
		g.add("f", 0)
		g.reqAll(func() int { return 0 })
	case t == 0: // the timeline of docs/caching.md
		d.Tmpl = "docs"
		g.request(1)
		g.add("rd", 0)
		g.add("f", 0)
		g.write(1, 1, -1)
		g.request(1)
		g.add("i", r.Range(0, 3))
		g.add("rd", 0)
		g.add("f", r.Range(0, 1))
		for range g.lists {
			g.request(0)
		}
	case t == 1 || t == 2: // more changes than one page since the last run
		d.Tmpl = "page_overflow"
		for range g.lists {
			g.request(0)
		}
		g.add("rd", 0)
		g.add("f", 0)
		g.write(1, r.Range(1, 2), rec.Pick(r, []int{0, 1, 2}))
		left := r.Range(50, 70)
		for left > 0 {
			n := rec.Pick(r, []int{1, 5, 20, 60})
			if n > left {
				n = left
			}
			g.write(rec.Pick(r, []int{0, 0, 1}), n, 3)
			left -= n
		}
		g.add("i", r.Range(0, 2))
		g.add("rd", 0)
		g.add("f", 0)
		g.reqAll(func() int { return 0 })
	case t == 9: // exactly one page, one less, one more of recent changes after an old one
		d.Tmpl = "page_boundary"
		g.reqAll(func() int { return 0 })
		g.add("rd", 0)
		g.add("f", 0)
		g.write(ttlSlots(d.Ittl, r.Range(1, 3)), rec.Pick(r, []int{48, 49, 50, 51, 52}), rec.Pick(r, []int{3, 3, -1}))
		g.add("i", r.Range(0, 1))
		g.add("rd", 0)
		g.add("f", 0)
		g.reqAll(func() int { return 0 })
	case t == 3 || t == 4: // changes straddling the iterator TTL window
		d.Tmpl = "window_straddle"
		g.write(0, 1, rec.Pick(r, []int{0, 1, 2}))
		g.reqAll(func() int { return 0 })
		g.add("rd", 0)
		g.add("f", 0)
		g.write(1, 1, rec.Pick(r, []int{0, 1, 2}))
		g.write(ttlSlots(d.Ittl, rec.Pick(r, []int{-3, -2, 1, 2})), 1, rec.Pick(r, []int{0, 1, 2}))
		g.add("i", r.Range(0, 2))
		g.add("rd", 0)
		g.add("f", 0)
		g.reqAll(func() int { return 0 })
	case t == 5 || t == 6: // writes and requests between the run's read and its finish
		d.Tmpl = "during_run"
		g.request(0)
		g.add("rd", 0)
		g.add("f", 0)
		g.write(1, 1, -1)
		g.add("i", 0)
		g.request(r.Range(0, 1))
		g.add("rd", r.Range(0, 2))
		g.write(0, 1, -1)
		g.request(r.Range(0, 1))
		g.add("i", 0)
		g.add("f", r.Range(0, 3))
		g.reqAll(func() int { return 0 })
		g.add("i", 1)
		g.add("rd", 0)
		g.add("f", 0)
		g.reqAll(func() int { return 0 })
	case t == 7 || t == 8: // entries and changelog entry near their expiry
		d.Tmpl = "expiry"
		g.reqAll(func() int { return 0 })
		g.add("rd", 0)
		g.add("f", 0)
		g.write(1, 1, -1)
		g.add("i", 0)
		g.add("rd", 0)
		g.add("f", 0)
		ttl := rec.Pick(r, []int{d.Qttl, d.Ittl})
		g.request(ttlSlots(ttl, rec.Pick(r, []int{-12, -3, -2, 1, 2})))
		g.reqAll(func() int { return rec.Pick(r, []int{0, 0, 3}) })
	default:
		d.Tmpl = "random"
		n := r.Range(6, 16)
		budget := 70 // slots
		for i := 0; i < n; i++ {
			gp := g.gap()
			if gp > budget {
				gp = 0
			}
			budget -= gp
			switch x := r.Intn(100); {
			case x < 28:
				g.write(gp, rec.Pick(r, []int{1, 1, 1, 2, 3}), -1)
			case x < 63:
				g.request(gp)
			case x < 75:
				g.add("i", gp)
			case x < 78 && d.Ion && d.Jit == 0:
				g.raceRead(gp)
			case x < 87:
				g.add("rd", gp)
			default:
				g.add("f", gp)
			}
		}
		g.add("i", 0)
		g.add("rd", 0)
		g.add("f", 0)
		g.reqAll(func() int { return 0 })
	}
	d.Ops = g.ops
	return d
}

// ---------------------------------------------------------------------------------------------

func emit(w *rec.Writer, res caseResult) {
	for k, v := range res.stats {
		w.Stat(k, v)
	}
	mode := "none"
	switch {
	case res.desc.Qon && res.desc.Ion:
		mode = "both"
	case res.desc.Qon:
		mode = "query_only"
	case res.desc.Ion:
		mode = "iterator_only"
	}
	if res.desc.Jit > 0 {
		mode += "_jitter"
	}
	if res.discard != "" {
		w.Stat("discarded_"+res.discard, 1)
		return
	}
	if strings.HasPrefix(res.desc.Tmpl, "e2e_") {
		w.Stat("case_"+res.desc.Tmpl, 1)
		w.Case(res.desc, res.vals...)
		return
	}
	w.Stat("case_"+mode, 1)
	w.Stat("template_"+res.desc.Tmpl, 1)
	d := res.desc
	if d.Tmpl != "witness" {
		d.Ops = nil // regenerated from (seed, idx)
	}
	w.Case(d, res.vals...)
}

func main() {
	o := rec.ParseFlags()
	w := rec.NewWriter(o.Out)
	defer w.Close()
	var descs []caseDesc
	if o.Replay != "" {
		f, err := os.Open(o.Replay)
		if err != nil {
			panic(err)
		}
		defer f.Close()
		sc := bufio.NewScanner(f)
		sc.Buffer(make([]byte, 1<<20), 1<<24)
		for sc.Scan() {
			var d caseDesc
			if json.Unmarshal(sc.Bytes(), &d) == nil && d.Tmpl != "" {
				if d.Tmpl != "witness" && !strings.HasPrefix(d.Tmpl, "e2e_") {
					d = generate(d.Seed, d.Idx)
				}
				// a replayed timeline hits the same time windows: repeat it a few times so that at
				// least one repetition survives the guard band
				reps := 4
				if strings.HasPrefix(d.Tmpl, "e2e_") {
					reps = 1 // nothing in an end-to-end case depends on timing
				}
				for i := 0; i < reps; i++ {
					descs = append(descs, d)
				}
			}
		}
	} else {
		for i := 0; i < o.N; i++ {
			descs = append(descs, generate(o.Seed, i))
		}
		// end-to-end cases through the real server
		for i := 0; i < o.N/12; i++ {
			t := "e2e_quiet"
			if i%4 == 3 {
				t = "e2e_restamp"
			}
			descs = append(descs, caseDesc{Seed: o.Seed, Idx: 1000000 + i, Tmpl: t, Qon: true, Qttl: 60000, Intv: 0})
		}
	}
	workers := 32
	if o.Tier == "thorough" {
		workers = 40
	}
	results := make([]caseResult, len(descs))
	var wg sync.WaitGroup
	next := make(chan int)
	for k := 0; k < workers; k++ {
		wg.Add(1)
		go func() {
			defer wg.Done()
			for i := range next {
				done := make(chan struct{})
				go func() {
					select {
					case <-done:
					case <-time.After(60 * time.Second):
						b, _ := json.Marshal(descs[i])
						fmt.Fprintf(os.Stderr, "c11: case stuck for 60 s: %s\n", b)
						os.Exit(3)
					}
				}()
				results[i] = runCase(descs[i])
				close(done)
			}
		}()
	}
	var serial []int
	for i := range descs {
		if strings.HasPrefix(descs[i].Tmpl, "e2e_") {
			serial = append(serial, i) // one at a time, after everything else (see e2e.go)
			continue
		}
		next <- i
	}
	close(next)
	wg.Wait()
	for _, i := range serial {
		results[i] = runCase(descs[i])
	}
	emitted := map[string]bool{}
	id := func(d caseDesc) string { return fmt.Sprintf("%d/%d/%s", d.Seed, d.Idx, d.Tmpl) }
	for _, r := range results {
		if r.discard == "" {
			emitted[id(r.desc)] = true
		}
		emit(w, r)
	}
	if o.Replay != "" {
		// a replayed timeline whose repetitions all fell into the guard band: say so with a trivial case
		seen := map[string]bool{}
		for _, r := range results {
			if k := id(r.desc); !emitted[k] && !seen[k] {
				seen[k] = true
				f := false
				d := r.desc
				d.Nt = &f
				d.Ops = nil
				w.Stat("replay_all_repetitions_discarded", 1)
				w.Case(d, rec.L(rec.Bool(d.Qon), rec.Bool(d.Ion), rec.I64(int64(d.Qttl)*1e6), rec.I64(int64(d.Ittl)*1e6), rec.I64(int64(d.Intv)*1e6), rec.I(d.Jit)), rec.L())
			}
		}
	}
}
