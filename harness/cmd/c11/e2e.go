//go:build verif

// End-to-end class of C11: the real server (Check through the real resolver chain: CachedCheckResolver ->
// LocalChecker -> dispatch of sub-problems through the chain again, request cloning included) with the
// Check query cache and the cache controller on, the iterator cache off, on a model with up to four
// dispatch levels.  No Coq model is replayed here (which sub-problems the engine dispatches depends on
// its planner); the property's own predicate is checked against reference answers computed by a second
// server WITHOUT caches on the same datastore:
//
//	after a run that read the changelog when n writes had completed has finished, every Check answers
//	what the store answered at some version >= n (and <= now).
//
// "quiet" timelines never issue a Check between a write and the completion of a run that read after
// it (hist_ok of the Coq development): there the predicate must hold (PROP).  "restamp" timelines do
// issue such Checks; a violation there is the known finding subproblem_restamped_after_write.
// Nothing depends on timing: TTLs are far longer than a case, every asynchronous run is awaited through
// the controller's WaitGroup before the next operation, and before every write the driver waits until
// no goroutine of the check engine is left: union/intersection return on a short-circuit WITHOUT waiting
// for their other workers, and such a straggler may store a sub-problem entry -- stamped when it is
// stored -- after the Check has returned.  A straggler that spans a write would break the atomicity
// assumption of the model (a real but scheduling-dependent window; see checks/C11.json), so end-to-end
// cases run one at a time, after all other cases, and quiesce through a goroutine dump.
package main

import (
	"bytes"
	"context"
	"fmt"
	"reflect"
	"runtime"
	"sync"
	"sync/atomic"
	"time"
	"unsafe"

	openfgav1 "github.com/openfga/api/proto/openfga/v1"
	"github.com/openfga/language/pkg/go/transformer"

	"github.com/openfga/openfga/internal/cachecontroller"
	"github.com/openfga/openfga/internal/shared"
	"github.com/openfga/openfga/internal/verifharness/lib/rec"
	"github.com/openfga/openfga/pkg/server"
	"github.com/openfga/openfga/pkg/storage"
	"github.com/openfga/openfga/pkg/storage/memory"
	"github.com/openfga/openfga/pkg/tuple"
)

const e2eModel = `model
  schema 1.1
type user
type team
  relations
    define member: [user]
type group
  relations
    define member: [team#member]
type org
  relations
    define member: [group#member]
type folder
  relations
    define viewer: [org#member, group#member]
type document
  relations
    define parent: [folder]
    define viewer: [group#member, org#member] or viewer from parent
    define editor: [group#member]
`

// the changelog reads of the controller, with the number of writes that had completed
type readLogDS struct {
	storage.OpenFGADatastore
	writes atomic.Int64
	mu     sync.Mutex
	reads  []int64
}

func (d *readLogDS) ReadChanges(ctx context.Context, store string, filter storage.ReadChangesFilter, opts storage.ReadChangesOptions) ([]*openfgav1.TupleChange, string, error) {
	n := d.writes.Load()
	res, tok, err := d.OpenFGADatastore.ReadChanges(ctx, store, filter, opts)
	d.mu.Lock()
	d.reads = append(d.reads, n)
	d.mu.Unlock()
	return res, tok, err
}

func (d *readLogDS) maxRead() int64 {
	d.mu.Lock()
	defer d.mu.Unlock()
	m := int64(0)
	for _, n := range d.reads {
		if n > m {
			m = n
		}
	}
	return m
}

type e2eQuery struct{ object, relation, user string }

// quiesce waits until no goroutine executes code of the check engine
func quiesce() bool {
	buf := make([]byte, 1<<20)
	for i := 0; i < 20000; i++ {
		n := runtime.Stack(buf, true)
		if !bytes.Contains(buf[:n], []byte("openfga/internal/graph.")) {
			return true
		}
		time.Sleep(100 * time.Microsecond)
	}
	return false
}

func runE2E(d caseDesc) (res caseResult) {
	res.desc = d
	res.stats = map[string]int{}
	r := rec.NewRand(d.Seed*0x9e3779b97f4a7c15 + uint64(d.Idx)*0xd6e8feb86659fd93 + 23)
	ctx := context.Background()
	mem := memory.New()
	ds := &readLogDS{OpenFGADatastore: mem}
	interval := rec.Pick(r, []time.Duration{time.Millisecond, time.Hour})
	srv := server.MustNewServerWithOpts(
		server.WithDatastore(ds),
		server.WithCheckQueryCacheEnabled(true),
		server.WithCheckQueryCacheTTL(time.Minute),
		server.WithCacheControllerEnabled(true),
		server.WithCacheControllerTTL(interval),
	)
	defer srv.Close()
	ref := server.MustNewServerWithOpts(server.WithDatastore(mem))
	defer ref.Close()

	sf := reflect.ValueOf(srv).Elem().FieldByName("sharedDatastoreResources")
	shr := *(**shared.SharedDatastoreResources)(unsafe.Pointer(sf.UnsafeAddr()))
	var ctrl cachecontroller.CacheController = shr.CacheController
	cv := reflect.ValueOf(ctrl).Elem()
	inflight := (*sync.Map)(unsafe.Pointer(cv.FieldByName("inflightInvalidations").UnsafeAddr()))
	cwg := (*sync.WaitGroup)(unsafe.Pointer(cv.FieldByName("wg").UnsafeAddr()))

	st, err := srv.CreateStore(ctx, &openfgav1.CreateStoreRequest{Name: "c11-e2e"})
	if err != nil {
		panic(err)
	}
	store := st.GetId()
	m := transformer.MustTransformDSLToProto(e2eModel)
	wm, err := srv.WriteAuthorizationModel(ctx, &openfgav1.WriteAuthorizationModelRequest{
		StoreId: store, TypeDefinitions: m.GetTypeDefinitions(), SchemaVersion: m.GetSchemaVersion(), Conditions: m.GetConditions()})
	if err != nil {
		panic(err)
	}
	model := wm.GetAuthorizationModelId()

	waitRuns := func() {
		for i := 0; i < 1000; i++ {
			cwg.Wait()
			if _, ok := inflight.Load(store); !ok {
				return
			}
			time.Sleep(time.Millisecond)
		}
		panic("c11 e2e: invalidation run never ends")
	}

	// the tuple pool: every tuple is either present or not
	pool := []*openfgav1.TupleKey{}
	add := func(o, rel, u string) { pool = append(pool, tuple.NewTupleKey(o, rel, u)) }
	for _, t := range []string{"t1", "t2"} {
		for _, u := range []string{"a", "b"} {
			add("team:"+t, "member", "user:"+u)
		}
		for _, g := range []string{"g1", "g2"} {
			add("group:"+g, "member", "team:"+t+"#member")
		}
	}
	for _, g := range []string{"g1", "g2"} {
		add("org:o1", "member", "group:"+g+"#member")
		add("folder:f1", "viewer", "group:"+g+"#member")
		for _, doc := range []string{"1", "2"} {
			add("document:"+doc, "viewer", "group:"+g+"#member")
			add("document:"+doc, "editor", "group:"+g+"#member")
		}
	}
	add("folder:f1", "viewer", "org:o1#member")
	add("document:1", "viewer", "org:o1#member")
	add("document:1", "parent", "folder:f1")
	add("document:2", "parent", "folder:f1")
	present := make([]bool, len(pool))

	var queries []e2eQuery
	for _, u := range []string{"user:a", "user:b"} {
		for _, doc := range []string{"document:1", "document:2"} {
			queries = append(queries, e2eQuery{doc, "viewer", u}, e2eQuery{doc, "editor", u})
		}
		queries = append(queries, e2eQuery{"group:g1", "member", u}, e2eQuery{"group:g2", "member", u},
			e2eQuery{"org:o1", "member", u}, e2eQuery{"folder:f1", "viewer", u})
	}

	check := func(s *server.Server, q e2eQuery) bool {
		resp, err := s.Check(ctx, &openfgav1.CheckRequest{StoreId: store, AuthorizationModelId: model,
			TupleKey: &openfgav1.CheckRequestTupleKey{Object: q.object, Relation: q.relation, User: q.user}})
		if err != nil {
			panic(fmt.Sprintf("c11 e2e: check %v: %v", q, err))
		}
		return resp.GetAllowed()
	}
	// refs[v][q]: the uncached answer when v writes had completed
	var refs [][]bool
	snapshot := func() {
		row := make([]bool, len(queries))
		for i, q := range queries {
			row[i] = check(ref, q)
		}
		refs = append(refs, row)
	}
	toggle := func(i int) {
		req := &openfgav1.WriteRequest{StoreId: store, AuthorizationModelId: model}
		if present[i] {
			req.Deletes = &openfgav1.WriteRequestDeletes{TupleKeys: []*openfgav1.TupleKeyWithoutCondition{tuple.TupleKeyToTupleKeyWithoutCondition(pool[i])}}
		} else {
			req.Writes = &openfgav1.WriteRequestWrites{TupleKeys: []*openfgav1.TupleKey{pool[i]}}
		}
		if !quiesce() {
			res.discard = "e2e_engine_never_quiet"
		}
		if _, err := srv.Write(ctx, req); err != nil {
			panic(fmt.Sprintf("c11 e2e: write: %v", err))
		}
		present[i] = !present[i]
		ds.writes.Add(1)
		snapshot()
		res.stats["e2e_write"]++
	}
	invalidate := func() {
		ctrl.InvalidateIfNeeded(ctx, store)
		waitRuns()
		res.stats["e2e_run"]++
	}

	snapshot() // version 0
	for i := range pool {
		if r.Chance(3, 5) {
			toggle(i)
		}
	}
	invalidate()

	restamp := d.Tmpl == "e2e_restamp"
	unquiet := false
	var checks []rec.V
	doCheck := func(qi int) {
		cov := int(ds.maxRead())
		cur := int(ds.writes.Load())
		obs := check(srv, queries[qi])
		waitRuns() // DetermineInvalidationTime may have started a run
		vs := []rec.V{rec.Bool(obs)}
		for v := cov; v <= cur; v++ {
			vs = append(vs, rec.Bool(refs[v][qi]))
		}
		checks = append(checks, rec.L(vs...))
		res.stats["e2e_check"]++
		if cov < cur {
			unquiet = true
			res.stats["e2e_check_between_write_and_run"]++
		}
	}
	if restamp {
		// the witness of subproblem_restamped_after_write: document:1 and document:2 share the sub-problem
		// group:g1#member@user:a; it is cached through document:1, its support is deleted, document:2 is
		// checked before the run, and again after the run
		want := map[string]bool{"team:t1#member@user:a": true, "group:g1#member@team:t1#member": true,
			"document:1#viewer@group:g1#member": true, "document:2#viewer@group:g1#member": true}
		for i, tk := range pool {
			if present[i] != want[tuple.TupleKeyToString(tk)] {
				toggle(i)
			}
		}
		invalidate()
		qidx := func(o, rel, u string) int {
			for i, q := range queries {
				if q == (e2eQuery{o, rel, u}) {
					return i
				}
			}
			panic("query")
		}
		doCheck(qidx("document:1", "viewer", "user:a"))
		for i, tk := range pool {
			if tuple.TupleKeyToString(tk) == "team:t1#member@user:a" {
				toggle(i)
			}
		}
		doCheck(qidx("document:2", "viewer", "user:a"))
		invalidate()
		doCheck(qidx("document:2", "viewer", "user:a"))
		doCheck(qidx("document:1", "viewer", "user:a"))
	}
	rounds := r.Range(3, 6)
	for k := 0; k < rounds; k++ {
		for j, n := 0, r.Range(4, 10); j < n; j++ {
			doCheck(r.Intn(len(queries)))
		}
		for j, n := 0, r.Range(1, 3); j < n; j++ {
			toggle(r.Intn(len(pool)))
		}
		if restamp {
			for j, n := 0, r.Range(1, 4); j < n; j++ {
				doCheck(r.Intn(len(queries)))
			}
		}
		invalidate()
		// after the completed run: every query (restamp class: only some, so that a parent can be computed
		// for the first time between a later write and its run)
		for _, qi := range permutation(r, len(queries)) {
			if !restamp || r.Bool() {
				doCheck(qi)
			}
		}
	}
	res.vals = []rec.V{rec.L(rec.I(9), rec.Bool(unquiet)), rec.L(checks...)}
	return res
}

func permutation(r *rec.Rand, n int) []int {
	p := make([]int, n)
	for i := range p {
		p[i] = i
	}
	rec.Shuffle(r, p)
	return p
}
