//go:build verif

package main

import (
	"context"
	"errors"
	"fmt"
	"os"
	"sort"
	"sync"
	"time"

	openfgav1 "github.com/openfga/api/proto/openfga/v1"

	"github.com/openfga/openfga/internal/condition"
	"github.com/openfga/openfga/internal/graph"
	"github.com/openfga/openfga/internal/iterator"
	"github.com/openfga/openfga/internal/verifharness/lib/rec"
	"github.com/openfga/openfga/internal/verifharness/lib/scen"
	"github.com/openfga/openfga/pkg/featureflags"
	"github.com/openfga/openfga/pkg/server/commands"
	serverconfig "github.com/openfga/openfga/pkg/server/config"
	"github.com/openfga/openfga/pkg/storage"
	"github.com/openfga/openfga/pkg/typesystem"
	"google.golang.org/grpc/status"
)

var errInjected = errors.New("injected iterator failure")

func objName(v int) string { return fmt.Sprintf("o:%05d", v) }

func objNum(s string) int {
	var v int
	if _, err := fmt.Sscanf(s, "o:%d", &v); err != nil {
		return -1
	}
	return v
}

// failingIter yields its items and then fails (instead of ErrIteratorDone) — what a
// ConditionsFilteredTupleKeyIterator does when no tuple passed and a condition failed, or a
// datastore error in the middle of a read.
type failingIter struct {
	mu    sync.Mutex
	items []string
}

func (f *failingIter) Next(ctx context.Context) (string, error) {
	f.mu.Lock()
	defer f.mu.Unlock()
	if len(f.items) == 0 {
		return "", errInjected
	}
	x := f.items[0]
	f.items = f.items[1:]
	return x, nil
}
func (f *failingIter) Head(ctx context.Context) (string, error) {
	f.mu.Lock()
	defer f.mu.Unlock()
	if len(f.items) == 0 {
		return "", errInjected
	}
	return f.items[0], nil
}
func (f *failingIter) Stop()           {}
func (f *failingIter) IsOrdered() bool { return true }

// ---------------------------------------------------------------------------------------------
// kind 3: fast-path set operations on generated streams
//
// A stream is a list of chunks; chunk = (0 v...) values | (1 v...) values then an iterator
// failure | (2) an error message on the source channel | (3 e...) a REAL
// ConditionsFilteredTupleKeyIterator over tuples, e = 4*object + condition outcome (0 met, 1 not
// met, 2 cannot be evaluated): the fast paths consume it with Head and Next.

type chunk struct {
	Kind int   `json:"k"`
	Vals []int `json:"v,omitempty"`
}

type fpCase struct {
	Kind    int       `json:"kind"`
	Op      int       `json:"op"` // 0 union, 1 intersection, 2 difference
	Streams [][]chunk `json:"streams"`
}

func genSorted(r *rec.Rand, universe, maxLen int) []int {
	n := r.Intn(maxLen + 1)
	set := map[int]bool{}
	for i := 0; i < n; i++ {
		set[r.Intn(universe)] = true
	}
	var out []int
	for v := range set {
		out = append(out, v)
	}
	sort.Ints(out)
	return out
}

func genStream(r *rec.Rand, universe int, sorted bool, failures bool) []chunk {
	vals := genSorted(r, universe, 10)
	if r.Chance(1, 12) {
		// a long stream: crosses the batching threshold of the fast paths (100 items)
		vals = genSorted(r, 400, 260)
	}
	if !sorted {
		if r.Chance(1, 2) && len(vals) > 0 {
			vals = append(vals, vals[r.Intn(len(vals))]) // duplicate
		}
		rec.Shuffle(r, vals)
	}
	var cs []chunk
	for len(vals) > 0 || r.Chance(1, 4) {
		k := 0
		if len(vals) > 0 {
			k = r.Intn(len(vals) + 1)
			if r.Chance(1, 2) {
				k = len(vals)
			}
		}
		cs = append(cs, chunk{Kind: 0, Vals: append([]int{}, vals[:k]...)})
		vals = vals[k:]
		if len(cs) > 6 {
			cs[len(cs)-1].Vals = append(cs[len(cs)-1].Vals, vals...)
			break
		}
	}
	if failures && r.Chance(1, 3) {
		// a failure somewhere: replace one position
		pos := r.Intn(len(cs) + 1)
		if r.Chance(1, 2) {
			nc := append([]chunk{}, cs[:pos]...)
			nc = append(nc, chunk{Kind: 2})
			cs = append(nc, cs[pos:]...)
		} else if pos < len(cs) {
			cs[pos].Kind = 1
		} else {
			cs = append(cs, chunk{Kind: 1})
		}
	}
	return cs
}

// chunksOf splits sorted values into k chunks of comparable size.
func chunksOf(vals []int, k int) []chunk {
	var cs []chunk
	for i := 0; i < k; i++ {
		lo, hi := i*len(vals)/k, (i+1)*len(vals)/k
		cs = append(cs, chunk{Kind: 0, Vals: append([]int{}, vals[lo:hi]...)})
	}
	return cs
}

// condIter: the real condition filter over a static tuple-key iterator, mapped to object ids.
func condIter(elems []int) storage.Iterator[string] {
	var keys []*openfgav1.TupleKey
	for i, e := range elems {
		keys = append(keys, &openfgav1.TupleKey{Object: objName(e / 4), Relation: "r", User: fmt.Sprintf("user:u%d", i),
			Condition: &openfgav1.RelationshipCondition{Name: fmt.Sprintf("c%d", e%4)}})
	}
	filtered := storage.NewConditionsFilteredTupleKeyIterator(storage.NewStaticTupleKeyIterator(keys),
		func(t *openfgav1.TupleKey) (bool, error) {
			switch t.GetCondition().GetName() {
			case "c0":
				return true, nil
			case "c1":
				return false, nil
			}
			return false, errInjected
		})
	return storage.WrapIterator(storage.ObjectIDKind, filtered)
}

// withConditions turns value chunks into condition-filtered chunks: the values pass, and elements
// whose condition is not met / cannot be evaluated are mixed in (also chunks where nothing passes).
func withConditions(r *rec.Rand, cs []chunk) []chunk {
	var out []chunk
	for _, c := range cs {
		if c.Kind != 0 {
			out = append(out, c)
			continue
		}
		var el []int
		extra := func() {
			for r.Chance(1, 3) {
				el = append(el, 4*r.Intn(40)+1+r.Intn(2))
			}
		}
		extra()
		for _, v := range c.Vals {
			el = append(el, 4*v)
			extra()
		}
		out = append(out, chunk{Kind: 3, Vals: el})
	}
	if r.Chance(1, 3) {
		// a chunk in which nothing passes: not met and/or unevaluable only
		var el []int
		for n := r.Range(1, 3); n > 0; n-- {
			el = append(el, 4*r.Intn(40)+1+r.Intn(2))
		}
		pos := r.Intn(len(out) + 1)
		out = append(out[:pos], append([]chunk{{Kind: 3, Vals: el}}, out[pos:]...)...)
	}
	return out
}

func genFP(r *rec.Rand) fpCase {
	if r.Chance(1, 5) {
		// operands delivered by the real ConditionsFilteredTupleKeyIterator
		c := fpCase{Kind: 3, Op: r.Intn(3)}
		n := 2
		if c.Op != 2 {
			n = r.Range(1, 3)
		}
		universe := r.Range(3, 12)
		for i := 0; i < n; i++ {
			c.Streams = append(c.Streams, withConditions(r, genStream(r, universe, true, false)))
		}
		return c
	}
	if r.Chance(1, 6) {
		// long operands in several chunks: the output crosses the batching threshold (100) several
		// times; for a difference the subtracted stream runs dry early so that the base is drained
		// chunk by chunk across batches
		c := fpCase{Kind: 3, Op: r.Intn(3)}
		base := genSorted(r, 600, 420)
		for len(base) < 150 {
			base = genSorted(r, 600, 420)
		}
		c.Streams = append(c.Streams, chunksOf(base, r.Range(3, 6)))
		switch c.Op {
		case 2:
			c.Streams = append(c.Streams, chunksOf(genSorted(r, 40, 6), r.Range(1, 2)))
		case 1:
			other := append([]int{}, base...)
			rec.Shuffle(r, other)
			other = other[:len(other)*3/4]
			sort.Ints(other)
			c.Streams = append(c.Streams, chunksOf(other, r.Range(2, 5)))
		default:
			c.Streams = append(c.Streams, chunksOf(genSorted(r, 600, 200), r.Range(1, 4)))
		}
		return c
	}
	c := fpCase{Kind: 3, Op: r.Intn(3)}
	n := 2
	if c.Op != 2 {
		n = r.Range(1, 4)
	}
	universe := r.Range(3, 16)
	sorted := !r.Chance(1, 6)
	failures := r.Chance(1, 4)
	for i := 0; i < n; i++ {
		c.Streams = append(c.Streams, genStream(r, universe, sorted, failures))
	}
	return c
}

func chunkV(c chunk) rec.V {
	vs := []rec.V{rec.I(c.Kind)}
	for _, v := range c.Vals {
		vs = append(vs, rec.I(v))
	}
	return rec.L(vs...)
}

func runFP(w *rec.Writer, c fpCase) {
	ctx, cancel := context.WithTimeout(context.Background(), 10*time.Second)
	defer cancel()
	var streams []*iterator.Stream
	var svs []rec.V
	sortedIn := true
	for i, cs := range c.Streams {
		src := make(chan *iterator.Msg, len(cs)+1)
		var cvs []rec.V
		last := -1
		for _, ch := range cs {
			cvs = append(cvs, chunkV(ch))
			names := make([]string, len(ch.Vals))
			for j, v := range ch.Vals {
				if ch.Kind == 3 {
					if v%4 != 0 {
						continue // filtered out: does not take part in the order
					}
					v /= 4
				}
				names[j] = objName(v)
				if v <= last {
					sortedIn = false
				}
				last = v
			}
			switch ch.Kind {
			case 3:
				src <- &iterator.Msg{Iter: condIter(ch.Vals)}
			case 0:
				src <- &iterator.Msg{Iter: storage.NewStaticIterator[string](names)}
			case 1:
				src <- &iterator.Msg{Iter: &failingIter{items: names}}
			default:
				src <- &iterator.Msg{Err: errInjected}
			}
		}
		close(src)
		streams = append(streams, iterator.NewStream(i, src))
		svs = append(svs, rec.L(cvs...))
	}
	out := make(chan *iterator.Msg, 4096)
	done := make(chan struct{})
	go func() {
		defer close(done)
		ss := iterator.NewStreams(streams)
		switch c.Op {
		case 0:
			fastPathUnion(ctx, ss, out)
		case 1:
			fastPathIntersection(ctx, ss, out)
		default:
			fastPathDifference(ctx, ss, out)
		}
	}()
	// the producer runs to its end first (the output channel is large enough): a batch that was sent
	// must not change afterwards, whenever the consumer gets to read it
	select {
	case <-done:
	case <-ctx.Done():
	}
	// consume: values in order of arrival until the first error message (what every consumer of
	// these channels does), then the rest is drained
	var vals []int
	failed := 0
	timedOut := false
loop:
	for {
		select {
		case <-ctx.Done():
			timedOut = true
			break loop
		case m, ok := <-out:
			if !ok {
				break loop
			}
			if m.Err != nil {
				if os.Getenv("C02_VERBOSE") != "" {
					fmt.Fprintf(os.Stderr, "FP error message: %v\n", m.Err)
				}
				if failed == 0 {
					failed = 1
				}
				continue
			}
			for {
				x, err := m.Iter.Next(ctx)
				if err != nil {
					break
				}
				if failed == 0 {
					vals = append(vals, objNum(x))
				}
			}
		}
	}
	if timedOut {
		failed = 2
	}
	<-done
	w.Stat(fmt.Sprintf("fp_op%d", c.Op), 1)
	if !sortedIn {
		w.Stat("fp_unsorted_input", 1)
	}
	if failed == 1 {
		w.Stat("fp_failed", 1)
	}
	w.Stat("fp_out_items", len(vals))
	w.Case(c, rec.I(3), rec.I(c.Op), rec.L(svs...), rec.LI(vals), rec.I(failed))
}

// ---------------------------------------------------------------------------------------------
// kind 4: weight2 on generated producers
//
// left: channels of messages, message = (0 item...) iterator | (2) error message; item = value
// >= 0, or -1 = a failing Next that is not the end of the iterator.  right: items, -1 = the
// failure that ends the right iterator.

type w2Case struct {
	Kind  int       `json:"kind"`
	Left  [][][]int `json:"left"` // channel -> message -> items; a message [-2] is an error message
	Right []int     `json:"right"`
}

type itemIter struct {
	mu    sync.Mutex
	items []int
}

func (f *itemIter) Next(ctx context.Context) (string, error) {
	f.mu.Lock()
	defer f.mu.Unlock()
	if len(f.items) == 0 {
		return "", storage.ErrIteratorDone
	}
	x := f.items[0]
	f.items = f.items[1:]
	if x < 0 {
		return "", errInjected
	}
	return objName(x), nil
}
func (f *itemIter) Head(ctx context.Context) (string, error) {
	f.mu.Lock()
	defer f.mu.Unlock()
	if len(f.items) == 0 {
		return "", storage.ErrIteratorDone
	}
	if f.items[0] < 0 {
		return "", errInjected
	}
	return objName(f.items[0]), nil
}
func (f *itemIter) Stop()           {}
func (f *itemIter) IsOrdered() bool { return false }

func genW2(r *rec.Rand) w2Case {
	c := w2Case{Kind: 4}
	universe := r.Range(2, 8)
	failures := r.Chance(1, 2)
	nch := r.Range(0, 3)
	if r.Chance(4, 5) && nch == 0 {
		nch = 1
	}
	for i := 0; i < nch; i++ {
		var msgs [][]int
		nm := r.Range(0, 3)
		for j := 0; j < nm; j++ {
			if failures && r.Chance(1, 6) {
				msgs = append(msgs, []int{-2})
				continue
			}
			var items []int
			n := r.Intn(5)
			for k := 0; k < n; k++ {
				if failures && r.Chance(1, 4) {
					items = append(items, -1)
				} else {
					items = append(items, r.Intn(universe))
				}
			}
			msgs = append(msgs, items)
		}
		c.Left = append(c.Left, msgs)
	}
	n := r.Intn(6)
	for k := 0; k < n; k++ {
		c.Right = append(c.Right, r.Intn(universe))
	}
	if failures && r.Chance(1, 3) {
		c.Right = append(c.Right, -1)
	}
	return c
}

func runW2(w *rec.Writer, lc *graph.LocalChecker, c w2Case, reps int) {
	var lvs []rec.V
	for _, ch := range c.Left {
		var mvs []rec.V
		for _, m := range ch {
			if len(m) == 1 && m[0] == -2 {
				mvs = append(mvs, rec.L(rec.I(2)))
				continue
			}
			vs := []rec.V{rec.I(0)}
			for _, x := range m {
				vs = append(vs, rec.I(x+1)) // 0 = failing Next, v+1 = value v
			}
			mvs = append(mvs, rec.L(vs...))
		}
		lvs = append(lvs, rec.L(mvs...))
	}
	var rvs []rec.V
	for _, x := range c.Right {
		rvs = append(rvs, rec.I(x+1))
	}
	seen := map[int]bool{}
	for k := 0; k < reps; k++ {
		ctx, cancel := context.WithTimeout(context.Background(), 10*time.Second)
		var chans []<-chan *iterator.Msg
		for _, ch := range c.Left {
			src := make(chan *iterator.Msg, len(ch)+1)
			for _, m := range ch {
				if len(m) == 1 && m[0] == -2 {
					src <- &iterator.Msg{Err: errInjected}
				} else {
					src <- &iterator.Msg{Iter: &itemIter{items: append([]int{}, m...)}}
				}
			}
			close(src)
			chans = append(chans, src)
		}
		res, err := lcWeight2(lc, ctx, chans, &itemIter{items: append([]int{}, c.Right...)})
		out := 1
		switch {
		case err != nil && errors.Is(err, errInjected):
			out = 2
		case err != nil:
			out = 3
		case res.GetAllowed():
			out = 0
		}
		cancel()
		seen[out] = true
	}
	var outs []int
	for o := range seen {
		outs = append(outs, o)
	}
	sort.Ints(outs)
	for _, o := range outs {
		w.Stat([]string{"w2_allowed", "w2_denied", "w2_failed", "w2_other_error"}[o], 1)
	}
	w.Case(c, rec.I(4), rec.L(lvs...), rec.L(rvs...), rec.LI(outs))
}

// ---------------------------------------------------------------------------------------------
// kind 2: the recursive strategy at Check level on  group.member: [user, group#member]  with a
// small resolution depth: (n, edges, direct members, start node, maxdepth, outcomes per breadth)

type bfsCase struct {
	Kind   int      `json:"kind"`
	N      int      `json:"n"`
	Edges  [][2]int `json:"edges"`  // group:a#member@group:b#member  (a's members include b's)
	Direct []int    `json:"direct"` // group:x#member@user:a
	Start  int      `json:"start"`
	Depth  int      `json:"depth"`
}

func genBFS(r *rec.Rand) bfsCase {
	c := bfsCase{Kind: 2, N: r.Range(1, 9)}
	switch r.Intn(4) {
	case 0: // chain with a few extra edges (long shortest paths)
		for i := 0; i+1 < c.N; i++ {
			c.Edges = append(c.Edges, [2]int{i, i + 1})
		}
		for k := r.Intn(3); k > 0; k-- {
			c.Edges = append(c.Edges, [2]int{r.Intn(c.N), r.Intn(c.N)})
		}
	default:
		m := r.Intn(2*c.N + 1)
		for k := 0; k < m; k++ {
			c.Edges = append(c.Edges, [2]int{r.Intn(c.N), r.Intn(c.N)})
		}
	}
	seen := map[[2]int]bool{}
	var es [][2]int
	for _, e := range c.Edges {
		if !seen[e] {
			seen[e] = true
			es = append(es, e)
		}
	}
	c.Edges = es
	for i := 0; i < c.N; i++ {
		if r.Chance(1, 5) {
			c.Direct = append(c.Direct, i)
		}
	}
	if len(c.Direct) == 0 && r.Chance(2, 3) {
		c.Direct = []int{c.N - 1}
	}
	c.Start = 0
	if r.Chance(1, 3) {
		c.Start = r.Intn(c.N)
	}
	c.Depth = r.Range(1, 5)
	if d := bfsDist(c); d > 0 && r.Chance(2, 3) {
		// around the limit at which the nearest direct member is (just / just not) reached
		c.Depth = d - 2 + r.Intn(4)
		if c.Depth < 1 {
			c.Depth = 1
		}
	}
	if r.Chance(1, 10) {
		c.Depth = 25
	}
	return c
}

// bfsDist: number of edges from the start node to the nearest direct member (0 = none reachable
// in >= 1 steps).
func bfsDist(c bfsCase) int {
	direct := map[int]bool{}
	for _, d := range c.Direct {
		direct[d] = true
	}
	seen := map[int]bool{}
	frontier := []int{c.Start}
	for dist := 1; dist <= c.N+1 && len(frontier) > 0; dist++ {
		var next []int
		for _, x := range frontier {
			for _, e := range c.Edges {
				if e[0] == x {
					if direct[e[1]] {
						return dist
					}
					if !seen[e[1]] {
						seen[e[1]] = true
						next = append(next, e[1])
					}
				}
			}
		}
		frontier = next
	}
	return 0
}

var bfsScenarioTypes = []scen.TypeDef{{Name: "user"},
	{Name: "group", Rels: []scen.RelDef{{Name: "member", RW: scen.This(), Restr: []scen.Restr{scen.RObj("user"), scen.RSet("group", "member")}}}}}

func gname(i int) string { return fmt.Sprintf("group:g%02d", i) }

func runBFS(ctx context.Context, w *rec.Writer, rigs map[int]*rig, seed uint64, c bfsCase) {
	s := &scen.Scenario{Types: bfsScenarioTypes, Shape: "bfs"}
	for _, e := range c.Edges {
		s.Tuples = append(s.Tuples, scen.Tuple{Obj: gname(e[0]), Rel: "member", User: gname(e[1]) + "#member"})
	}
	for _, d := range c.Direct {
		s.Tuples = append(s.Tuples, scen.Tuple{Obj: gname(d), Rel: "member", User: "user:a"})
	}
	env, err := scen.NewEnv(ctx, s)
	if err != nil {
		panic(err)
	}
	defer env.Close()
	g, ok := rigs[c.Depth]
	if !ok {
		g = newRig(seed, uint32(c.Depth))
		rigs[c.Depth] = g
	}
	if !env.TS.UsersetUseRecursiveResolver("group", "member", "user") {
		w.PropFail("recursive resolver not eligible on the pure recursive model", c)
		return
	}
	seen := map[int]bool{}
	for _, b := range []uint32{1, 2, 10} {
		ch := g.chain(2, tuning{Breadth: b})
		var wg sync.WaitGroup
		got := make([]int, 3)
		for k := range got {
			wg.Add(1)
			go func(k int) {
				defer wg.Done()
				got[k] = checkDL(ctx, env, ch.r, gname(c.Start), "member", "user:a")
			}(k)
		}
		wg.Wait()
		for _, o := range got {
			seen[o] = true
		}
	}
	var outs []int
	for o := range seen {
		outs = append(outs, o)
	}
	sort.Ints(outs)
	for _, o := range outs {
		w.Stat("bfs_"+outNames[o], 1)
	}
	var evs []rec.V
	for _, e := range c.Edges {
		evs = append(evs, rec.L(rec.I(e[0]), rec.I(e[1])))
	}
	w.Case(c, rec.I(2), rec.I(c.N), rec.L(evs...), rec.LI(c.Direct), rec.I(c.Start), rec.I(c.Depth), rec.LI(outs))
}

// ---------------------------------------------------------------------------------------------
// kind 5: ListObjects engines x pipeline tuning

type loEngine struct {
	Name            string
	Optimised, Pipe bool
	Chunk, Buf, Pro int
}

var loEngines = []loEngine{
	{Name: "classic"},
	{Name: "optimised", Optimised: true},
	{Name: "pipeline-default", Pipe: true, Chunk: 100, Buf: 128, Pro: 3},
	{Name: "pipeline-1-0-1", Pipe: true, Chunk: 1, Buf: 0, Pro: 1},
	{Name: "pipeline-2-1-2", Pipe: true, Chunk: 2, Buf: 1, Pro: 2},
	{Name: "pipeline-3-7-8", Pipe: true, Chunk: 3, Buf: 7, Pro: 8},
}

// listObjects returns (sorted objects, error class: 0 none, 1 condition, 2 depth/complexity,
// 3 other, 4 timeout, 5 the call did not return within the watchdog time, 6 not run, 7 invalid request).
func listObjects(ctx context.Context, env *scen.Env, resolver graph.CheckResolver, e loEngine, typ, rel, user string, breadth uint32) ([]string, int) {
	type result struct {
		objs []string
		ec   int
	}
	ch := make(chan result, 1)
	go func() {
		objs, ec := listObjects1(ctx, env, resolver, e, typ, rel, user, breadth)
		ch <- result{objs, ec}
	}()
	select {
	case r := <-ch:
		return r.objs, r.ec
	case <-time.After(loWatchdog):
		return nil, 5 // the goroutine is abandoned
	}
}

const loDeadline = 2 * time.Second
const loWatchdog = 7 * time.Second

func listObjects1(ctx context.Context, env *scen.Env, resolver graph.CheckResolver, e loEngine, typ, rel, user string, breadth uint32) ([]string, int) {
	flags := []string{}
	if e.Optimised {
		flags = append(flags, serverconfig.ExperimentalListObjectsOptimizations)
	}
	if e.Pipe {
		flags = append(flags, serverconfig.ExperimentalPipelineListObjects)
	}
	opts := []commands.ListObjectsQueryOption{
		commands.WithListObjectsDeadline(loDeadline),
		commands.WithListObjectsMaxResults(0),
		commands.WithResolveNodeLimit(maxDepth),
		commands.WithResolveNodeBreadthLimit(breadth),
		commands.WithFeatureFlagClient(featureflags.NewDefaultClient(flags)),
		commands.WithListObjectsPipelineEnabled(e.Pipe),
	}
	if e.Pipe {
		opts = append(opts, commands.WithListObjectsChunkSize(e.Chunk), commands.WithListObjectsBufferCapacity(e.Buf), commands.WithListObjectsNumProcs(e.Pro))
	}
	q, err := commands.NewListObjectsQuery(env.DS, resolver, env.StoreID, opts...)
	if err != nil {
		panic(err)
	}
	t0 := time.Now()
	res, err := q.Execute(typesystem.ContextWithTypesystem(ctx, env.TS), &openfgav1.ListObjectsRequest{
		StoreId: env.StoreID, AuthorizationModelId: env.Model.GetId(), Type: typ, Relation: rel, User: user,
		Context: scen.Struct(env.S.ReqCtx),
	})
	if err != nil {
		if os.Getenv("C02_VERBOSE") != "" {
			fmt.Fprintf(os.Stderr, "LO %s %s#%s@%s: %v (%v)\n", e.Name, typ, rel, user, err, errors.Unwrap(err))
		}
		if st, ok := status.FromError(err); ok {
			c := int(st.Code())
			switch {
			case c == int(openfgav1.InternalErrorCode_deadline_exceeded), c == int(openfgav1.ErrorCode_cancelled):
				return nil, 4
			case c >= 2000 && c < 3000:
				return nil, 7 // the request is rejected by validation
			}
		}
		switch {
		case errors.Is(err, condition.ErrEvaluationFailed):
			return nil, 1
		case errors.Is(err, graph.ErrResolutionDepthExceeded), err.Error() == "Authorization Model resolution too complex":
			return nil, 2
		case errors.Is(err, context.DeadlineExceeded), errors.Is(err, context.Canceled):
			return nil, 4
		}
		return nil, 3
	}
	if time.Since(t0) >= loDeadline {
		return nil, 4 // the deadline cut the answer short: not a complete set
	}
	out := append([]string{}, res.Objects...)
	sort.Strings(out)
	return out, 0
}

func runLO(ctx context.Context, w *rec.Writer, r *rec.Rand, g *rig, s *scen.Scenario, subjects []string) {
	env, err := scen.NewEnv(ctx, s)
	if err != nil {
		if errors.Is(err, scen.ErrModelRejected) {
			return
		}
		panic(err)
	}
	defer env.Close()
	for _, sp := range g.seeded {
		sp.Strip(env.StoreID, env.Model.GetId())
	}
	w.Stat("lo_scenarios", 1)
	in := scen.NewIntern()
	model := in.Model(s)
	conds := in.Conds(s)
	var tvs []rec.V
	for _, t := range s.Tuples {
		tvs = append(tvs, in.Tuple(t, env.CEval(ctx, t)))
	}
	if subjects == nil {
		subjects = []string{"user:a", "user:b", "user:c"}
		// plain objects of other types that occur as tuple users
		seen := map[string]bool{}
		for _, t := range s.Tuples {
			ut, uid, rel := scen.SplitUser(t.User)
			if rel == "" && ut != "user" && uid != "*" && !seen[t.User] && len(seen) < 2 {
				seen[t.User] = true
				subjects = append(subjects, t.User)
			}
		}
	}
	objects := s.Objects(subjects...)
	atoms := in.Atoms(s, objects)
	var svs []rec.V
	hung := map[string]bool{}
	for _, sub := range subjects {
		var pxs []rec.V
		for _, p := range env.PathX(sub) {
			pxs = append(pxs, rec.L(rec.I(in.T(p[0])), rec.I(in.R(p[1]))))
		}
		var qs []rec.V
		for _, td := range s.Types {
			for _, rd := range td.Rels {
				var evs []rec.V
				distinct := map[string]bool{}
				for ei, e := range loEngines {
					breadth := []uint32{10, 1, 2}[ei%3]
					var objs []string
					ec := 6 // not run: an earlier call of this engine family did not return on this relation
					if !(e.Pipe && hung[td.Name+"#"+rd.Name]) {
						objs, ec = listObjects(ctx, env, g.chain(0, defaultTuning).r, e, td.Name, rd.Name, sub, breadth)
						if ec == 5 {
							hung[td.Name+"#"+rd.Name] = true
						}
					}
					w.Stat("lo_calls", 1)
					var ovs []rec.V
					for _, o := range objs {
						ovs = append(ovs, in.ObjV(o))
					}
					distinct[fmt.Sprint(objs, ec)] = true
					if ec != 0 {
						w.Stat(fmt.Sprintf("lo_error_class_%d", ec), 1)
						if os.Getenv("C02_VERBOSE") != "" {
							fmt.Fprintf(os.Stderr, "LO class %d: %s %s#%s@%s\n%s\n", ec, e.Name, td.Name, rd.Name, sub, s.String())
						}
					}
					evs = append(evs, rec.L(rec.I(ei), rec.I(ec), rec.L(ovs...)))
					w.Stat("lo_objects_returned", len(objs))
				}
				if len(distinct) > 1 {
					w.Stat("lo_engines_differ", 1)
				}
				qs = append(qs, rec.L(rec.I(in.T(td.Name)), rec.I(in.R(rd.Name)), rec.L(evs...)))
			}
		}
		svs = append(svs, rec.L(in.Subject(sub), rec.L(pxs...), rec.L(qs...)))
	}
	w.Case(map[string]any{"kind": 5, "scenario": s, "subjects": subjects, "text": s.String()},
		rec.I(5), model, conds, rec.L(tvs...), atoms, rec.I(maxDepth), rec.L(svs...))
}

// ---------------------------------------------------------------------------------------------
// kind 6: the producer of the user side of the fast paths: storage.OrderedCombinedIterator keyed
// by object (what CombinedTupleReader.ReadStartingWithUser builds for sorted reads) followed by
// ConditionsFilteredTupleKeyIterator and the object-id mapper

type srcCase struct {
	Kind   int      `json:"kind"`
	Ctxt   [][2]int `json:"ctxt"`   // (object, condition outcome 0 met / 1 not met / 2 error), sorted by object
	Stored [][2]int `json:"stored"` // idem
}

func genSrcList(r *rec.Rand, universe int) [][2]int {
	n := r.Intn(7)
	var out [][2]int
	for i := 0; i < n; i++ {
		c := 0
		switch r.Intn(6) {
		case 0, 1:
			c = 1
		case 2:
			if r.Chance(1, 2) {
				c = 2
			}
		}
		out = append(out, [2]int{r.Intn(universe), c})
	}
	sort.SliceStable(out, func(i, j int) bool { return out[i][0] < out[j][0] })
	return out
}

func genSrc(r *rec.Rand) srcCase {
	u := r.Range(2, 6)
	c := srcCase{Kind: 6, Stored: genSrcList(r, u)}
	if r.Chance(1, 2) {
		c.Ctxt = genSrcList(r, u)
	}
	return c
}

func runSrc(w *rec.Writer, c srcCase) {
	ctx := context.Background()
	mk := func(l [][2]int, tag string) []*openfgav1.Tuple {
		var ts []*openfgav1.Tuple
		for i, t := range l {
			ts = append(ts, &openfgav1.Tuple{Key: &openfgav1.TupleKey{
				Object: objName(t[0]), Relation: "r", User: fmt.Sprintf("user:%s%d", tag, i),
				Condition: &openfgav1.RelationshipCondition{Name: fmt.Sprintf("c%d", t[1])}}})
		}
		return ts
	}
	it := storage.NewOrderedCombinedIterator(storage.ObjectMapper(),
		storage.NewStaticTupleIterator(mk(c.Ctxt, "c")), storage.NewStaticTupleIterator(mk(c.Stored, "s")))
	filtered := storage.NewConditionsFilteredTupleKeyIterator(storage.NewTupleKeyIteratorFromTupleIterator(it),
		func(t *openfgav1.TupleKey) (bool, error) {
			switch t.GetCondition().GetName() {
			case "c0":
				return true, nil
			case "c1":
				return false, nil
			}
			return false, errInjected
		})
	m := storage.WrapIterator(storage.ObjectIDKind, filtered)
	defer m.Stop()
	var objs []int
	failed := 0
	for {
		x, err := m.Next(ctx)
		if err != nil {
			if !errors.Is(err, storage.ErrIteratorDone) {
				failed = 1
			}
			break
		}
		objs = append(objs, objNum(x))
	}
	pair := func(l [][2]int) rec.V {
		var vs []rec.V
		for _, t := range l {
			vs = append(vs, rec.L(rec.I(t[0]), rec.I(t[1])))
		}
		return rec.L(vs...)
	}
	w.Stat("src_cases", 1)
	if failed == 1 {
		w.Stat("src_failed", 1)
	}
	w.Case(c, rec.I(6), pair(c.Ctxt), pair(c.Stored), rec.LI(objs), rec.I(failed))
}
