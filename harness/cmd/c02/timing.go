//go:build verif

package main

import (
	"context"
	"errors"
	"sync"
	"time"

	openfgav1 "github.com/openfga/api/proto/openfga/v1"

	"github.com/openfga/openfga/pkg/storage"
)

// timingDS is a pass-through datastore that changes nothing but the ORDER in which the two
// concurrent reads of a strategy deliver their tuples.  After Arm(mode):
//
//	userFirst:   the first object-side read (Read / ReadUsersetTuples) holds back its 2nd and later
//	             tuples until a ReadStartingWithUser iterator opened afterwards has been drained
//	             (plus a short grace for the channel hops), or until the hold timeout;
//	objectFirst: ReadStartingWithUser iterators deliver nothing until the first object-side read
//	             has been drained (plus grace), or until the hold timeout.
//
// Results are identical to the wrapped datastore's; only arrival times differ.
type timingDS struct {
	storage.OpenFGADatastore
	mu          sync.Mutex
	mode        int // 0 off, 1 userFirst, 2 objectFirst
	armed       bool
	userDrained chan struct{} // closed when a ReadStartingWithUser iterator hit its end
	objDrained  chan struct{} // closed when the armed object-side iterator hit its end
	held        int
}

const (
	holdTimeout = 60 * time.Millisecond
	holdGrace   = 3 * time.Millisecond
)

func (d *timingDS) Arm(mode int) {
	d.mu.Lock()
	d.mode, d.armed = mode, mode != 0
	d.userDrained, d.objDrained = make(chan struct{}), make(chan struct{})
	d.mu.Unlock()
}

func closeOnce(c chan struct{}) {
	select {
	case <-c:
	default:
		close(c)
	}
}

func waitFor(ctx context.Context, c chan struct{}) {
	t := time.NewTimer(holdTimeout)
	defer t.Stop()
	select {
	case <-c:
		time.Sleep(holdGrace)
	case <-t.C:
	case <-ctx.Done():
	}
}

type timedIter struct {
	storage.TupleIterator
	d      *timingDS
	n      int
	before func(ctx context.Context, n int) // called before the n-th tuple (1-based) is delivered
	atEnd  func()
}

func (it *timedIter) Next(ctx context.Context) (*openfgav1.Tuple, error) {
	it.n++
	if it.before != nil {
		it.before(ctx, it.n)
	}
	t, err := it.TupleIterator.Next(ctx)
	if err != nil && errors.Is(err, storage.ErrIteratorDone) && it.atEnd != nil {
		it.atEnd()
	}
	return t, err
}

func (it *timedIter) Head(ctx context.Context) (*openfgav1.Tuple, error) {
	if it.before != nil {
		it.before(ctx, it.n+1)
	}
	t, err := it.TupleIterator.Head(ctx)
	if err != nil && errors.Is(err, storage.ErrIteratorDone) && it.atEnd != nil {
		it.atEnd()
	}
	return t, err
}

// objectSide wraps the first object-side iterator after Arm.
func (d *timingDS) objectSide(it storage.TupleIterator) storage.TupleIterator {
	d.mu.Lock()
	defer d.mu.Unlock()
	if !d.armed {
		return it
	}
	d.armed = false
	mode, user, obj := d.mode, d.userDrained, d.objDrained
	waited := false
	ti := &timedIter{TupleIterator: it, d: d, atEnd: func() { d.mu.Lock(); closeOnce(obj); d.mu.Unlock() }}
	if mode == 1 {
		ti.before = func(ctx context.Context, n int) {
			if n >= 2 && !waited {
				waited = true
				d.mu.Lock()
				d.held++
				d.mu.Unlock()
				waitFor(ctx, user)
			}
		}
	}
	return ti
}

func (d *timingDS) Read(ctx context.Context, store string, f storage.ReadFilter, o storage.ReadOptions) (storage.TupleIterator, error) {
	it, err := d.OpenFGADatastore.Read(ctx, store, f, o)
	if err != nil {
		return nil, err
	}
	return d.objectSide(it), nil
}

func (d *timingDS) ReadUsersetTuples(ctx context.Context, store string, f storage.ReadUsersetTuplesFilter, o storage.ReadUsersetTuplesOptions) (storage.TupleIterator, error) {
	it, err := d.OpenFGADatastore.ReadUsersetTuples(ctx, store, f, o)
	if err != nil {
		return nil, err
	}
	return d.objectSide(it), nil
}

func (d *timingDS) ReadStartingWithUser(ctx context.Context, store string, f storage.ReadStartingWithUserFilter, o storage.ReadStartingWithUserOptions) (storage.TupleIterator, error) {
	it, err := d.OpenFGADatastore.ReadStartingWithUser(ctx, store, f, o)
	if err != nil {
		return nil, err
	}
	d.mu.Lock()
	mode, user, obj := d.mode, d.userDrained, d.objDrained
	d.mu.Unlock()
	switch mode {
	case 1:
		return &timedIter{TupleIterator: it, d: d, atEnd: func() { d.mu.Lock(); closeOnce(user); d.mu.Unlock() }}, nil
	case 2:
		waited := false
		return &timedIter{TupleIterator: it, d: d, before: func(ctx context.Context, n int) {
			if !waited {
				waited = true
				d.mu.Lock()
				d.held++
				d.mu.Unlock()
				waitFor(ctx, obj)
			}
		}}, nil
	}
	return it, nil
}
