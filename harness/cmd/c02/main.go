//go:build verif

// Driver for C02 (Check and ListObjects answers do not depend on strategy or tuning).
//
// Record kinds (first value):
//
//	1  scenario: real CheckQuery on every (object, relation) x subject with the planner forced to
//	   every strategy preference (default / weight2 / recursive / seeded per plan key / seeded per
//	   call) x tuning knobs (breadth limit, max concurrent reads, dispatch throttling, datastore
//	   throttling) x concurrent repetitions
//	2  recursive strategy on a pure recursive-userset model with a small resolution depth
//	   (compared with the Coq BFS model, depth errors included)
//	3  the real fastPathUnion / fastPathIntersection / fastPathDifference on generated streams
//	4  the real (*LocalChecker).weight2 on generated producers
//	5  ListObjects: classic / optimised / pipeline engines x pipeline tuning, as sets
//	6  the sorted ReadStartingWithUser producer: OrderedCombinedIterator + condition filter
package main

import (
	"bufio"
	"context"
	"encoding/json"
	"errors"
	"fmt"
	"os"
	"sort"
	"sync"
	"time"
	_ "unsafe"

	"github.com/openfga/openfga/internal/graph"
	"github.com/openfga/openfga/internal/iterator"
	"github.com/openfga/openfga/internal/planner"
	"github.com/openfga/openfga/internal/verifharness/lib/rec"
	"github.com/openfga/openfga/internal/verifharness/lib/scen"
	"github.com/openfga/openfga/pkg/server/commands"
	"github.com/openfga/openfga/pkg/storage"
)

// the unexported fast paths of internal/graph, reached by symbol name (the driver is compiled
// inside /repo's module; no source file of /repo is touched)

//go:linkname fastPathUnion github.com/openfga/openfga/internal/graph.fastPathUnion
func fastPathUnion(ctx context.Context, streams *iterator.Streams, outChan chan<- *iterator.Msg)

//go:linkname fastPathIntersection github.com/openfga/openfga/internal/graph.fastPathIntersection
func fastPathIntersection(ctx context.Context, streams *iterator.Streams, outChan chan<- *iterator.Msg)

//go:linkname fastPathDifference github.com/openfga/openfga/internal/graph.fastPathDifference
func fastPathDifference(ctx context.Context, streams *iterator.Streams, outChan chan<- *iterator.Msg)

//go:linkname lcWeight2 github.com/openfga/openfga/internal/graph.(*LocalChecker).weight2
func lcWeight2(c *graph.LocalChecker, ctx context.Context, leftChans []<-chan *iterator.Msg, iter storage.TupleMapper) (*graph.ResolveCheckResponse, error)

const maxDepth = 25

var outNames = []string{"allowed", "denied", "denied_cycle", "err_cond", "err_depth", "err_other", "timeout", "invalid"}

// ---------------------------------------------------------------------------------------------
// configurations

type tuning struct {
	Breadth  uint32 // graph.WithResolveNodeBreadthLimit
	Reads    uint32 // commands.WithCheckCommandMaxConcurrentReads; 0 = default
	Throttle bool   // graph.WithDispatchThrottlingCheckResolverOpts
	DSThrot  bool   // commands.WithCheckDatastoreThrottler
}

func (t tuning) String() string {
	return fmt.Sprintf("breadth=%d,reads=%d,throttle=%v,dsthrottle=%v", t.Breadth, t.Reads, t.Throttle, t.DSThrot)
}

func allTunings() []tuning {
	var out []tuning
	for _, b := range []uint32{1, 2, 10} {
		for _, rd := range []uint32{1, 0} {
			for _, th := range []bool{false, true} {
				out = append(out, tuning{Breadth: b, Reads: rd, Throttle: th, DSThrot: th && rd == 1})
			}
		}
	}
	return out
}

// one read slot + datastore throttling from the second read on, default breadth: sibling branches
// of a union / intersection / exclusion are cancelled (short circuit) while their reads sit in the
// throttle delay.  Always part of the tuning sample of a request.
var tightReads = tuning{Breadth: 10, Reads: 1, Throttle: false, DSThrot: true}

// every Check gets this deadline: the generated stores are tiny (a Check takes milliseconds), so a
// deadline-exceeded under some tuning is a change of the answer caused by tuning alone
const checkDeadline = 4 * time.Second

// after this many tuning-induced timeouts the remaining tuning matrix of the run is skipped (each
// further one would cost checkDeadline again and adds nothing)
const maxTimeouts = 3

var plannerNames = []string{"default", "weight2", "recursive", "perkey", "percall"}

type plannerH struct {
	name  string
	m     planner.Manager
	seen  func() map[string]int
	reset func()
}

// a resolver chain for one (planner, breadth, throttle) combination
type chain struct {
	r      graph.CheckResolver
	closer func()
}

type rig struct {
	timeouts int
	planners []*plannerH
	seeded   []*scen.SeededPlanner
	chains   map[string]*chain
	depth    uint32
}

func newRig(seed uint64, depth uint32) *rig {
	g := &rig{chains: map[string]*chain{}, depth: depth}
	for _, n := range plannerNames[:3] {
		fp := scen.NewForcedPlanner(n)
		g.planners = append(g.planners, &plannerH{name: n, m: fp, seen: fp.SeenCounts, reset: fp.ResetSeen})
	}
	pk := scen.NewSeededPlanner(seed, false)
	pc := scen.NewSeededPlanner(seed+1, true)
	g.seeded = []*scen.SeededPlanner{pk, pc}
	g.planners = append(g.planners, &plannerH{name: "perkey", m: pk, seen: pk.SeenCounts, reset: pk.ResetSeen}, &plannerH{name: "percall", m: pc, seen: pc.SeenCounts, reset: pc.ResetSeen})
	return g
}

func (g *rig) chain(p int, t tuning) *chain {
	k := fmt.Sprintf("%d/%d/%v", p, t.Breadth, t.Throttle)
	if c, ok := g.chains[k]; ok {
		return c
	}
	opts := []graph.CheckResolverOrderedBuilderOpt{graph.WithLocalCheckerOpts(
		graph.WithPlanner(g.planners[p].m), graph.WithMaxResolutionDepth(g.depth), graph.WithOptimizations(true),
		graph.WithResolveNodeBreadthLimit(t.Breadth))}
	if t.Throttle {
		opts = append(opts, graph.WithDispatchThrottlingCheckResolverOpts(true,
			graph.WithDispatchThrottlingCheckResolverConfig(graph.DispatchThrottlingCheckResolverConfig{DefaultThreshold: 1, MaxThreshold: 2}),
			graph.WithConstantRateThrottler(20*time.Microsecond, "verif")))
	}
	r, closer, err := graph.NewOrderedCheckResolvers(opts...).Build()
	if err != nil {
		panic(err)
	}
	c := &chain{r: r, closer: closer}
	g.chains[k] = c
	return c
}

func (g *rig) close() {
	for _, c := range g.chains {
		c.closer()
	}
}

func (g *rig) seenNonDefault() int {
	n := 0
	for _, p := range g.planners {
		s := p.seen()
		n += s["weight2"] + s["recursive"]
	}
	return n
}

func cmdOpts(t tuning) []commands.CheckQueryOption {
	var o []commands.CheckQueryOption
	if t.Reads != 0 {
		o = append(o, commands.WithCheckCommandMaxConcurrentReads(t.Reads))
	}
	if t.DSThrot {
		o = append(o, commands.WithCheckDatastoreThrottler(true, 1, 200*time.Microsecond))
	}
	return o
}

var defaultTuning = tuning{Breadth: 10}

// checkDL runs one Check under the per-request deadline.
func checkDL(ctx context.Context, env *scen.Env, r graph.CheckResolver, obj, rel, user string, opts ...commands.CheckQueryOption) int {
	cctx, cancel := context.WithTimeout(ctx, checkDeadline)
	defer cancel()
	out, _ := env.Check(cctx, r, obj, rel, user, nil, opts...)
	return out
}

// ---------------------------------------------------------------------------------------------
// kind 1: scenarios

type runOpts struct {
	tier    string
	verbose bool
	full    int // requests per scenario that get the full matrix among those with a strategy choice
	fullNo  int // ... among those without
	ntune   int // tuning combinations per (request, planner); 0 = all
	maxReq  int // requests per scenario (random sample beyond that); 0 = all
	only    [][2]string // replay: restrict to these (object, relation) requests
	timing  int         // requests per scenario that are also run under both arrival orders of the
	// two concurrent reads of the weight-2 / recursive strategies (timing-only datastore wrapper)
}

type cfgOut struct {
	Planner string `json:"planner"`
	Tuning  string `json:"tuning"`
	Out     string `json:"out"`
}

type reqState struct {
	sub, obj, rel string
	si            int
	outs          []map[int]bool
	detail        []cfgOut
	base          int
	choice        bool
}

func runScenario(ctx context.Context, w *rec.Writer, r *rec.Rand, g *rig, s *scen.Scenario, subjects []string, ro runOpts) {
	env, err := scen.NewEnv(ctx, s)
	if err != nil {
		if errors.Is(err, scen.ErrModelRejected) {
			w.Stat("models_rejected", 1)
			return
		}
		panic(err)
	}
	defer env.Close()
	for _, sp := range g.seeded {
		sp.Strip(env.StoreID, env.Model.GetId())
	}
	w.Stat("models_accepted", 1)
	w.Stat("shape_"+s.Shape, 1)
	el := env.Eligibility()
	w.Stat("elig_keys_userset", el.UsersetKeys)
	w.Stat("elig_keys_userset_weight2", el.UsersetW2)
	w.Stat("elig_keys_userset_recursive", el.UsersetRec)
	w.Stat("elig_keys_ttu", el.TTUKeys)
	w.Stat("elig_keys_ttu_weight2", el.TTUW2)
	w.Stat("elig_keys_ttu_recursive", el.TTURec)
	if el.UsersetW2+el.TTUW2 > 0 {
		w.Stat("models_with_weight2_eligible", 1)
	}
	if el.UsersetRec+el.TTURec > 0 {
		w.Stat("models_with_recursive_eligible", 1)
	}
	in := scen.NewIntern()
	model := in.Model(s)
	conds := in.Conds(s)
	var tvs []rec.V
	nerr := 0
	for _, t := range s.Tuples {
		ce := env.CEval(ctx, t)
		if ce == 2 {
			nerr++
		}
		tvs = append(tvs, in.Tuple(t, ce))
	}
	w.Stat("tuples", len(s.Tuples))
	w.Stat("tuples_cond_error", nerr)
	if nerr > 0 {
		w.Stat("models_with_cond_error", 1)
	}
	if subjects == nil {
		subjects = s.Subjects(r, 3)
	}
	objects := s.Objects(subjects...)
	atoms := in.Atoms(s, objects)
	tunings := allTunings()
	reps := 4
	// pass 1: every request (or a random sample of them), the three forced planners, default
	// tuning, one run each
	var reqs []*reqState
	total := 0
	for range subjects {
		for _, o := range objects {
			ot, _ := scen.SplitObj(o)
			if td := s.Type(ot); td != nil {
				total += len(td.Rels)
			}
		}
	}
	for si, sub := range subjects {
		for _, o := range objects {
			ot, _ := scen.SplitObj(o)
			td := s.Type(ot)
			if td == nil {
				continue
			}
			for _, rd := range td.Rels {
				if len(ro.only) > 0 {
					keep := false
					for _, x := range ro.only {
						if x[0] == o && x[1] == rd.Name {
							keep = true
						}
					}
					if !keep {
						continue
					}
				}
				if ro.maxReq > 0 && total > ro.maxReq && !r.Chance(ro.maxReq, total) {
					continue
				}
				w.Stat("requests", 1)
				q := &reqState{sub: sub, obj: o, rel: rd.Name, si: si, outs: make([]map[int]bool, len(g.planners))}
				for i := range q.outs {
					q.outs[i] = map[int]bool{}
				}
				before := g.seenNonDefault()
				for p := 0; p < 3; p++ {
					out := checkDL(ctx, env, g.chain(p, defaultTuning).r, o, rd.Name, sub)
					w.Stat("checks", 1)
					q.outs[p][out] = true
					q.detail = append(q.detail, cfgOut{plannerNames[p], defaultTuning.String(), outNames[out]})
					if p == 0 {
						q.base = out
						w.Stat("impl_"+outNames[out], 1)
					}
				}
				q.choice = g.seenNonDefault() > before
				if q.choice {
					w.Stat("requests_with_strategy_choice", 1)
				}
				reqs = append(reqs, q)
			}
		}
	}
	// pass 2: a sample of the requests gets every planner x tunings x concurrent repetitions
	var withChoice, without []*reqState
	for _, q := range reqs {
		if q.base == scen.OutInvalid {
			continue
		}
		if q.choice {
			withChoice = append(withChoice, q)
		} else {
			without = append(without, q)
		}
	}
	rec.Shuffle(r, withChoice)
	rec.Shuffle(r, without)
	if ro.full > 0 && len(withChoice) > ro.full {
		withChoice = withChoice[:ro.full]
	}
	if len(without) > ro.fullNo {
		without = without[:ro.fullNo]
	}
	for _, q := range append(withChoice, without...) {
		w.Stat("requests_full_matrix", 1)
		if q.choice {
			w.Stat("requests_full_matrix_with_choice", 1)
		}
		for p := range g.planners {
			ts := tunings
			if ro.ntune > 0 && ro.ntune < len(tunings) {
				idx := make([]int, len(tunings))
				for i := range idx {
					idx[i] = i
				}
				rec.Shuffle(r, idx)
				ts = nil
				for _, i := range idx[:ro.ntune] {
					ts = append(ts, tunings[i])
				}
			}
			ts = append(append([]tuning{}, ts...), tightReads)
			for _, t := range ts {
				if g.timeouts >= maxTimeouts {
					w.Stat("tunings_skipped_after_timeouts", 1)
					continue
				}
				c := g.chain(p, t)
				co := cmdOpts(t)
				var wg sync.WaitGroup
				got := make([]int, reps)
				for k := 0; k < reps; k++ {
					wg.Add(1)
					go func(k int) {
						defer wg.Done()
						got[k] = checkDL(ctx, env, c.r, q.obj, q.rel, q.sub, co...)
					}(k)
				}
				wg.Wait()
				w.Stat("checks", reps)
				if t.Reads == 1 && t.DSThrot {
					w.Stat("checks_reads1_dsthrottle", reps)
					if q.base == scen.OutAllowed {
						w.Stat("checks_reads1_dsthrottle_on_allowed", reps)
					}
				}
				timedOut := false
				for _, out := range got {
					if !q.outs[p][out] {
						q.detail = append(q.detail, cfgOut{plannerNames[p], t.String(), outNames[out]})
					}
					q.outs[p][out] = true
					if out == scen.OutTimeout {
						timedOut = true
					}
				}
				if timedOut && q.base != scen.OutTimeout {
					// the reference configuration (same planner family, default tuning) decided this
					// request in milliseconds: the tuning alone turned the answer into a timeout
					g.timeouts++
					w.Stat("tuning_timeouts", 1)
					w.PropFail(fmt.Sprintf("answer depends on tuning: Check(%s#%s@%s) planner=%s %s ends in deadline-exceeded (%s) although the default tuning answers %s at once",
						q.obj, q.rel, q.sub, plannerNames[p], t.String(), checkDeadline, outNames[q.base]),
						map[string]any{"kind": 1, "scenario": s, "subjects": []string{q.sub},
							"only": [][2]string{{q.obj, q.rel}}, "planner": plannerNames[p], "tuning": t.String(), "text": s.String()})
				}
			}
		}
	}
	// arrival orders: the object-side read and the user-side read of the two-sided strategies run
	// concurrently; a pass-through datastore delays one side or the other (results unchanged)
	if ro.timing > 0 {
		tds := &timingDS{OpenFGADatastore: env.DS}
		tenv := *env
		tenv.DS = tds
		nt := 0
		for _, q := range withChoice {
			if nt >= ro.timing {
				break
			}
			nt++
			for _, p := range []int{2, 1} { // recursive, weight2
				for mode := 1; mode <= 2; mode++ {
					tds.Arm(mode)
					out := checkDL(ctx, &tenv, g.chain(p, defaultTuning).r, q.obj, q.rel, q.sub)
					tds.Arm(0)
					w.Stat("checks", 1)
					w.Stat("checks_arrival_order", 1)
					tag := []string{"", "user-side-first", "object-side-first"}[mode]
					if !q.outs[p][out] {
						q.detail = append(q.detail, cfgOut{plannerNames[p], "arrival-order=" + tag, outNames[out]})
					}
					q.outs[p][out] = true
				}
			}
		}
		w.Stat("arrival_order_holds", tds.held)
	}
	for _, p := range g.planners {
		for k, v := range p.seen() {
			w.Stat("planner_"+p.name+"_selected_"+k, v)
		}
	}
	for _, p := range g.planners { // counters are cumulative over the run: report deltas only
		p.reset()
	}
	res := make([][]rec.V, len(subjects))
	var interesting []map[string]any
	for _, q := range reqs {
		all := map[int]bool{}
		var pvs []rec.V
		for p := range g.planners {
			var l []int
			for out := range q.outs[p] {
				l = append(l, out)
				all[decisionClass(out)] = true
			}
			sort.Ints(l)
			pvs = append(pvs, rec.LI(l))
		}
		if len(all) > 1 {
			w.Stat("requests_with_differing_decisions", 1)
			interesting = append(interesting, map[string]any{"object": q.obj, "relation": q.rel, "user": q.sub, "outcomes": q.detail})
			if ro.verbose {
				fmt.Fprintf(os.Stderr, "DIFFER %s#%s@%s %v\n%s\n", q.obj, q.rel, q.sub, q.detail, s.String())
			}
		}
		a, b := in.Obj(q.obj)
		res[q.si] = append(res[q.si], rec.L(a, b, rec.I(in.R(q.rel)), rec.I(q.base), rec.L(pvs...)))
	}
	var svs []rec.V
	for si, sub := range subjects {
		var pxs []rec.V
		for _, p := range env.PathX(sub) {
			pxs = append(pxs, rec.L(rec.I(in.T(p[0])), rec.I(in.R(p[1]))))
		}
		svs = append(svs, rec.L(in.Subject(sub), rec.L(pxs...), rec.L(res[si]...)))
	}
	desc := map[string]any{"kind": 1, "scenario": s, "subjects": subjects, "text": s.String()}
	if len(ro.only) > 0 {
		desc["only"] = ro.only
	}
	if len(interesting) > 0 {
		if len(interesting) > 6 {
			interesting = interesting[:6]
		}
		desc["differing"] = interesting
	}
	w.Case(desc, rec.I(1), model, conds, rec.L(tvs...), atoms, rec.I(maxDepth), rec.L(svs...))
}

// allowed / denied (with or without the CycleDetected flag) / error
func decisionClass(out int) int {
	switch out {
	case scen.OutAllowed:
		return 0
	case scen.OutDenied, scen.OutDeniedCy:
		return 1
	}
	return 2
}

// ---------------------------------------------------------------------------------------------

type replayDesc struct {
	Kind     int            `json:"kind"`
	Scenario *scen.Scenario `json:"scenario"`
	Subjects []string       `json:"subjects"`
	Only     [][2]string    `json:"only"`
}

func main() {
	o := rec.ParseFlags()
	w := rec.NewWriter(o.Out)
	defer w.Close()
	ctx := context.Background()
	ro := runOpts{tier: o.Tier, verbose: os.Getenv("C02_VERBOSE") != "", full: 10, fullNo: 2, ntune: 4, maxReq: 120, timing: 3}
	if o.Tier == "thorough" {
		ro = runOpts{tier: o.Tier, verbose: ro.verbose, full: 30, fullNo: 5, ntune: 0, maxReq: 500, timing: 10}
	}
	g := newRig(o.Seed, maxDepth)
	defer g.close()
	rigs := map[int]*rig{}
	defer func() {
		for _, x := range rigs {
			x.close()
		}
	}()
	lc := graph.NewLocalChecker()
	if o.Replay != "" {
		f, err := os.Open(o.Replay)
		if err != nil {
			panic(err)
		}
		defer f.Close()
		sc := bufio.NewScanner(f)
		sc.Buffer(make([]byte, 1<<20), 1<<26)
		ro.full, ro.fullNo, ro.ntune, ro.maxReq, ro.timing = 0, 1<<30, 0, 0, 1<<30
		for sc.Scan() {
			var d replayDesc
			if json.Unmarshal(sc.Bytes(), &d) != nil {
				continue
			}
			switch d.Kind {
			case 1:
				if d.Scenario != nil {
					ro1 := ro
					ro1.only = d.Only
					runScenario(ctx, w, rec.NewRand(1), g, d.Scenario, d.Subjects, ro1)
				}
			case 5:
				if d.Scenario != nil {
					runLO(ctx, w, rec.NewRand(1), g, d.Scenario, d.Subjects)
				}
			case 2:
				var c bfsCase
				if json.Unmarshal(sc.Bytes(), &c) == nil {
					runBFS(ctx, w, rigs, o.Seed, c)
				}
			case 3:
				var c fpCase
				if json.Unmarshal(sc.Bytes(), &c) == nil {
					runFP(w, c)
				}
			case 6:
				var c srcCase
				if json.Unmarshal(sc.Bytes(), &c) == nil {
					runSrc(w, c)
				}
			case 4:
				var c w2Case
				if json.Unmarshal(sc.Bytes(), &c) == nil {
					runW2(w, lc, c, 40)
				}
			}
		}
		return
	}
	r := rec.NewRand(o.Seed)
	only := os.Getenv("C02_ONLY") // development aid: restrict to one record kind
	for i := 0; i < o.N; i++ {
		rr := r.Fork()
		noErr := rr.Chance(3, 4)
		s := scen.GenerateC02(rr, scen.DefaultOpts(), noErr)
		if only == "5" {
			if noErr && !s.DupThis() {
				runLO(ctx, w, rr, g, s, nil)
			}
			continue
		}
		runScenario(ctx, w, rr, g, s, nil, ro)
		if only == "1" {
			continue
		}
		if noErr && i%2 == 0 && !s.DupThis() {
			// (models that name the direct assignment twice make the pipeline engine hang — known
			// finding, replayed from corpus/C02-witnesses.jsonl on every run — and are left out here)
			runLO(ctx, w, rr, g, s, nil)
		}
		for k := 0; k < 2; k++ {
			// first level of the recursive strategy, both arrival orders
			fs, fobj, frel, fsubs := scen.GenerateC02FirstLevel(rr)
			ro1 := ro
			ro1.only, ro1.full, ro1.fullNo, ro1.timing = [][2]string{{fobj, frel}}, 4, 4, 1
			runScenario(ctx, w, rr, g, fs, fsubs, ro1)
		}
		if i%2 == 1 {
			// set operation with a conditioned leaf as the weight-2 target; outcomes met / not met /
			// unevaluable mixed over the user's groups
			cs := scen.GenerateC02CondMix(rr)
			ro1 := ro
			ro1.full, ro1.fullNo, ro1.timing = 8, 2, 0
			runScenario(ctx, w, rr, g, cs, []string{"user:a", "user:b"}, ro1)
		}
		for k := 0; k < 12; k++ {
			runFP(w, genFP(rr))
		}
		for k := 0; k < 6; k++ {
			runW2(w, lc, genW2(rr), 6)
		}
		for k := 0; k < 3; k++ {
			runBFS(ctx, w, rigs, o.Seed, genBFS(rr))
		}
		for k := 0; k < 6; k++ {
			runSrc(w, genSrc(rr))
		}
	}
}
