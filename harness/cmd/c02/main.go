//go:build verif

// Driver for C02 (Check and ListObjects answers do not depend on strategy or tuning).
//
// Record kinds (first value):
//
//	1  scenario: real CheckQuery on every (object, relation) x subject with the planner forced to
//	   every strategy preference (default / weight2 / recursive / seeded per plan key / seeded per
//	   call) x tuning knobs (breadth limit, max concurrent reads, dispatch throttling, datastore
//	   throttling) x concurrent repetitions
//	2  recursive strategy on a pure recursive-userset model with a small resolution depth
//	   (compared with the Coq BFS model, depth errors included)
//	3  the real fastPathUnion / fastPathIntersection / fastPathDifference on generated streams
//	4  the real (*LocalChecker).weight2 on generated producers
//	5  ListObjects: classic / optimised / pipeline engines x pipeline tuning, as sets
package main

import (
	"bufio"
	"context"
	"encoding/json"
	"errors"
	"fmt"
	"os"
	"sort"
	"sync"
	"time"

	"github.com/openfga/openfga/internal/graph"
	"github.com/openfga/openfga/internal/planner"
	"github.com/openfga/openfga/internal/verifharness/lib/rec"
	"github.com/openfga/openfga/internal/verifharness/lib/scen"
	"github.com/openfga/openfga/pkg/server/commands"
)

const maxDepth = 25

var outNames = []string{"allowed", "denied", "denied_cycle", "err_cond", "err_depth", "err_other", "timeout", "invalid"}

// ---------------------------------------------------------------------------------------------
// configurations

type tuning struct {
	Breadth  uint32 // graph.WithResolveNodeBreadthLimit
	Reads    uint32 // commands.WithCheckCommandMaxConcurrentReads; 0 = default
	Throttle bool   // graph.WithDispatchThrottlingCheckResolverOpts
	DSThrot  bool   // commands.WithCheckDatastoreThrottler
}

func (t tuning) String() string {
	return fmt.Sprintf("breadth=%d,reads=%d,throttle=%v,dsthrottle=%v", t.Breadth, t.Reads, t.Throttle, t.DSThrot)
}

func allTunings() []tuning {
	var out []tuning
	for _, b := range []uint32{1, 2, 10} {
		for _, rd := range []uint32{1, 0} {
			for _, th := range []bool{false, true} {
				out = append(out, tuning{Breadth: b, Reads: rd, Throttle: th, DSThrot: th && rd == 1})
			}
		}
	}
	return out
}

var plannerNames = []string{"default", "weight2", "recursive", "perkey", "percall"}

type plannerH struct {
	name string
	m    planner.Manager
	seen func() map[string]int
}

// a resolver chain for one (planner, breadth, throttle) combination
type chain struct {
	r      graph.CheckResolver
	closer func()
}

type rig struct {
	planners []*plannerH
	seeded   []*scen.SeededPlanner
	chains   map[string]*chain
	depth    uint32
}

func newRig(seed uint64, depth uint32) *rig {
	g := &rig{chains: map[string]*chain{}, depth: depth}
	for _, n := range plannerNames[:3] {
		fp := scen.NewForcedPlanner(n)
		g.planners = append(g.planners, &plannerH{name: n, m: fp, seen: fp.SeenCounts})
	}
	pk := scen.NewSeededPlanner(seed, false)
	pc := scen.NewSeededPlanner(seed+1, true)
	g.seeded = []*scen.SeededPlanner{pk, pc}
	g.planners = append(g.planners, &plannerH{name: "perkey", m: pk, seen: pk.SeenCounts}, &plannerH{name: "percall", m: pc, seen: pc.SeenCounts})
	return g
}

func (g *rig) chain(p int, t tuning) *chain {
	k := fmt.Sprintf("%d/%d/%v", p, t.Breadth, t.Throttle)
	if c, ok := g.chains[k]; ok {
		return c
	}
	opts := []graph.CheckResolverOrderedBuilderOpt{graph.WithLocalCheckerOpts(
		graph.WithPlanner(g.planners[p].m), graph.WithMaxResolutionDepth(g.depth), graph.WithOptimizations(true),
		graph.WithResolveNodeBreadthLimit(t.Breadth))}
	if t.Throttle {
		opts = append(opts, graph.WithDispatchThrottlingCheckResolverOpts(true,
			graph.WithDispatchThrottlingCheckResolverConfig(graph.DispatchThrottlingCheckResolverConfig{DefaultThreshold: 1, MaxThreshold: 2}),
			graph.WithConstantRateThrottler(20*time.Microsecond, "verif")))
	}
	r, closer, err := graph.NewOrderedCheckResolvers(opts...).Build()
	if err != nil {
		panic(err)
	}
	c := &chain{r: r, closer: closer}
	g.chains[k] = c
	return c
}

func (g *rig) close() {
	for _, c := range g.chains {
		c.closer()
	}
}

func (g *rig) seenNonDefault() int {
	n := 0
	for _, p := range g.planners {
		s := p.seen()
		n += s["weight2"] + s["recursive"]
	}
	return n
}

func cmdOpts(t tuning) []commands.CheckQueryOption {
	var o []commands.CheckQueryOption
	if t.Reads != 0 {
		o = append(o, commands.WithCheckCommandMaxConcurrentReads(t.Reads))
	}
	if t.DSThrot {
		o = append(o, commands.WithCheckDatastoreThrottler(true, 1, 30*time.Microsecond))
	}
	return o
}

var defaultTuning = tuning{Breadth: 10}

// ---------------------------------------------------------------------------------------------
// kind 1: scenarios

type runOpts struct {
	tier     string
	verbose  bool
	fullProb int // one request in fullProb gets the full matrix even when no strategy choice occurred
}

type cfgOut struct {
	Planner string `json:"planner"`
	Tuning  string `json:"tuning"`
	Out     string `json:"out"`
}

func runScenario(ctx context.Context, w *rec.Writer, r *rec.Rand, g *rig, s *scen.Scenario, subjects []string, ro runOpts) {
	env, err := scen.NewEnv(ctx, s)
	if err != nil {
		if errors.Is(err, scen.ErrModelRejected) {
			w.Stat("models_rejected", 1)
			return
		}
		panic(err)
	}
	defer env.Close()
	for _, sp := range g.seeded {
		sp.Strip(env.StoreID, env.Model.GetId())
	}
	w.Stat("models_accepted", 1)
	w.Stat("shape_"+s.Shape, 1)
	el := env.Eligibility()
	w.Stat("elig_keys_userset", el.UsersetKeys)
	w.Stat("elig_keys_userset_weight2", el.UsersetW2)
	w.Stat("elig_keys_userset_recursive", el.UsersetRec)
	w.Stat("elig_keys_ttu", el.TTUKeys)
	w.Stat("elig_keys_ttu_weight2", el.TTUW2)
	w.Stat("elig_keys_ttu_recursive", el.TTURec)
	if el.UsersetW2+el.TTUW2 > 0 {
		w.Stat("models_with_weight2_eligible", 1)
	}
	if el.UsersetRec+el.TTURec > 0 {
		w.Stat("models_with_recursive_eligible", 1)
	}
	in := scen.NewIntern()
	model := in.Model(s)
	conds := in.Conds(s)
	var tvs []rec.V
	nerr := 0
	for _, t := range s.Tuples {
		ce := env.CEval(ctx, t)
		if ce == 2 {
			nerr++
		}
		tvs = append(tvs, in.Tuple(t, ce))
	}
	w.Stat("tuples", len(s.Tuples))
	w.Stat("tuples_cond_error", nerr)
	if subjects == nil {
		subjects = s.Subjects(r, 3)
	}
	objects := s.Objects(subjects...)
	atoms := in.Atoms(s, objects)
	tunings := allTunings()
	reps := 4
	var svs []rec.V
	var interesting []map[string]any
	for _, sub := range subjects {
		var pxs []rec.V
		for _, p := range env.PathX(sub) {
			pxs = append(pxs, rec.L(rec.I(in.T(p[0])), rec.I(in.R(p[1]))))
		}
		var res []rec.V
		for _, o := range objects {
			ot, _ := scen.SplitObj(o)
			td := s.Type(ot)
			if td == nil {
				continue
			}
			for _, rd := range td.Rels {
				w.Stat("requests", 1)
				// pass 1: the three forced planners, default tuning, one run each
				before := g.seenNonDefault()
				outs := make([]map[int]bool, len(g.planners))
				for i := range outs {
					outs[i] = map[int]bool{}
				}
				var detail []cfgOut
				base := -1
				for p := 0; p < 3; p++ {
					out, _ := env.Check(ctx, g.chain(p, defaultTuning).r, o, rd.Name, sub, nil)
					w.Stat("checks", 1)
					outs[p][out] = true
					detail = append(detail, cfgOut{plannerNames[p], defaultTuning.String(), outNames[out]})
					if p == 0 {
						base = out
						w.Stat("impl_"+outNames[out], 1)
					}
				}
				choice := g.seenNonDefault() > before
				if choice {
					w.Stat("requests_with_strategy_choice", 1)
				}
				if base != scen.OutInvalid && (choice || r.Chance(1, ro.fullProb)) {
					w.Stat("requests_full_matrix", 1)
					// pass 2: every planner x tunings x concurrent repetitions
					for p := range g.planners {
						ts := tunings
						if ro.tier == "quick" {
							// a random third of the tuning combinations per (request, planner)
							idx := make([]int, len(tunings))
							for i := range idx {
								idx[i] = i
							}
							rec.Shuffle(r, idx)
							ts = nil
							for _, i := range idx[:4] {
								ts = append(ts, tunings[i])
							}
						}
						for _, t := range ts {
							c := g.chain(p, t)
							co := cmdOpts(t)
							var wg sync.WaitGroup
							got := make([]int, reps)
							for k := 0; k < reps; k++ {
								wg.Add(1)
								go func(k int) {
									defer wg.Done()
									got[k], _ = env.Check(ctx, c.r, o, rd.Name, sub, nil, co...)
								}(k)
							}
							wg.Wait()
							w.Stat("checks", reps)
							for _, out := range got {
								if !outs[p][out] {
									detail = append(detail, cfgOut{plannerNames[p], t.String(), outNames[out]})
								}
								outs[p][out] = true
							}
						}
					}
				}
				all := map[int]bool{}
				var pvs []rec.V
				for p := range g.planners {
					var l []int
					for out := range outs[p] {
						l = append(l, out)
						all[out] = true
					}
					sort.Ints(l)
					pvs = append(pvs, rec.LI(l))
				}
				if len(all) > 1 {
					w.Stat("requests_with_differing_outcomes", 1)
					interesting = append(interesting, map[string]any{"object": o, "relation": rd.Name, "user": sub, "outcomes": detail})
					if ro.verbose {
						fmt.Fprintf(os.Stderr, "DIFFER %s#%s@%s %v\n%s\n", o, rd.Name, sub, detail, s.String())
					}
				}
				a, b := in.Obj(o)
				res = append(res, rec.L(a, b, rec.I(in.R(rd.Name)), rec.I(base), rec.L(pvs...)))
			}
		}
		svs = append(svs, rec.L(in.Subject(sub), rec.L(pxs...), rec.L(res...)))
	}
	desc := map[string]any{"kind": 1, "scenario": s, "subjects": subjects, "text": s.String()}
	if len(interesting) > 0 {
		if len(interesting) > 6 {
			interesting = interesting[:6]
		}
		desc["differing"] = interesting
	}
	w.Case(desc, rec.I(1), model, conds, rec.L(tvs...), atoms, rec.I(maxDepth), rec.L(svs...))
}

// ---------------------------------------------------------------------------------------------

type replayDesc struct {
	Kind     int            `json:"kind"`
	Scenario *scen.Scenario `json:"scenario"`
	Subjects []string       `json:"subjects"`
}

func main() {
	o := rec.ParseFlags()
	w := rec.NewWriter(o.Out)
	defer w.Close()
	ctx := context.Background()
	ro := runOpts{tier: o.Tier, verbose: os.Getenv("C02_VERBOSE") != "", fullProb: 8}
	g := newRig(o.Seed, maxDepth)
	defer g.close()
	if o.Replay != "" {
		f, err := os.Open(o.Replay)
		if err != nil {
			panic(err)
		}
		defer f.Close()
		sc := bufio.NewScanner(f)
		sc.Buffer(make([]byte, 1<<20), 1<<26)
		ro.tier = "thorough"
		ro.fullProb = 1
		for sc.Scan() {
			var d replayDesc
			if json.Unmarshal(sc.Bytes(), &d) != nil {
				continue
			}
			switch d.Kind {
			case 1:
				if d.Scenario != nil {
					runScenario(ctx, w, rec.NewRand(1), g, d.Scenario, d.Subjects, ro)
				}
			}
		}
		return
	}
	r := rec.NewRand(o.Seed)
	for i := 0; i < o.N; i++ {
		rr := r.Fork()
		s := scen.GenerateC02(rr, scen.DefaultOpts(), rr.Chance(3, 4))
		runScenario(ctx, w, rr, g, s, nil, ro)
	}
}
